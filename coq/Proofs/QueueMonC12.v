(** The C12 monitor (admission by depth and drop policy) is sound for the model.
    Part 1: what a successful enqueue evicts, exactly: how many (as many as needed for the new items
    to fit, never more), which (queued messages, each no younger than every queued message that stays). *)
From Coq Require Import List ZArith NArith Bool Lia.
From HK Require Import Gen.Consts Model.Queue Model.QueueHash Model.QueueMon
  Proofs.QueueBase Proofs.QueueInv Proofs.QueueInvStep Proofs.QueueStep Proofs.QueueAdmit
  Proofs.QueueRedeliver Proofs.QueueMonSound Proofs.QueueMonC02 Proofs.QueueMonC04 Proofs.QueueMonC05.
Import ListNotations.
Open Scope Z_scope.

(** the active count the memory store's depth rule looks at *)
Definition Afun (c : cfg) (a ad : Z) : Z := if 0 <? c_deliv_age c then Z.max a ad else a.

Lemma mem_full_A c extra a ad : mem_full c extra a ad = (c_max_depth c <? Afun c a ad + extra).
Proof.
  unfold mem_full, Afun. destruct (0 <? c_deliv_age c); cbn [andb].
  - destruct (Z.ltb_spec (c_max_depth c) (a + extra)), (Z.ltb_spec (c_max_depth c) (ad + extra)),
      (Z.ltb_spec (c_max_depth c) (Z.max a ad + extra)); cbn [orb]; try reflexivity; lia.
  - apply orb_false_r.
Qed.

Lemma Afun_pred c a ad : Afun c (a - 1) (ad - 1) = Afun c a ad - 1.
Proof. unfold Afun. destruct (0 <? c_deliv_age c); lia. Qed.

Lemma Afun_sub c a ad j : Afun c (a - j) (ad - j) = Afun c a ad - j.
Proof. unfold Afun. destruct (0 <? c_deliv_age c); lia. Qed.

(** ** memory: the plan loop *)
Lemma mem_plan_loop_count c fuel extra ord l a ad vs0 vs :
  mem_plan_loop c fuel extra ord l a ad vs0 = Some vs ->
  Z.of_nat (length vs) = Z.of_nat (length vs0) + Z.max 0 (Afun c a ad + extra - c_max_depth c).
Proof.
  revert a ad vs0. induction fuel as [|f IH]; cbn [mem_plan_loop]; intros a ad vs0 H.
  - rewrite mem_full_A in H. destruct (c_max_depth c <? Afun c a ad + extra) eqn:E; [discriminate|].
    inversion H; subst. apply Z.ltb_ge in E. lia.
  - rewrite mem_full_A in H. destruct (c_max_depth c <? Afun c a ad + extra) eqn:E; cbn [negb] in H.
    + apply Z.ltb_lt in E. destruct (mem_oldest ord l vs0 None) as [m|]; [|discriminate].
      apply IH in H. rewrite Afun_pred in H. rewrite app_length in H. cbn [length] in H. rewrite Nat2Z.inj_add in H. lia.
    + inversion H; subst. apply Z.ltb_ge in E. lia.
Qed.

Lemma mem_plan_loop_oldest c fuel extra ord l a ad vs0 vs :
  mem_plan_loop c fuel extra ord l a ad vs0 = Some vs -> NoDup (ids l) -> incl (ids l) ord ->
  incl vs0 vs /\
  forall v, In v vs -> ~ In v vs0 ->
    exists mv, In mv l /\ m_id mv = v /\ forall q, In q l -> queuedb q = true -> ~ In (m_id q) vs -> m_recv mv <= m_recv q.
Proof.
  revert a ad vs0. induction fuel as [|f IH]; cbn [mem_plan_loop]; intros a ad vs0 H ND Hcov.
  - destruct (negb (mem_full c extra a ad)); [|discriminate]. inversion H; subst. split; [apply incl_refl|]. intros v Hv Hn. contradiction.
  - destruct (negb (mem_full c extra a ad)).
    { inversion H; subst. split; [apply incl_refl|]. intros v Hv Hn. contradiction. }
    destruct (mem_oldest ord l vs0 None) as [m|] eqn:Eo; [|discriminate].
    pose proof (mem_oldest_min _ _ _ _ _ Eo) as [_ Hmin].
    pose proof (mem_oldest_fresh _ _ _ _ _ Eo) as [Ef | [Hm [Hqm Hn]]]; [discriminate|].
    destruct (IH _ _ _ H ND Hcov) as [Hinc Hold].
    assert (Hinc0 : incl vs0 vs) by (intros z Hz; apply Hinc; apply in_or_app; left; exact Hz).
    split; [exact Hinc0|].
    intros v Hv Hnv. destruct (N.eq_dec v (m_id m)) as [Ev | Nv].
    + subst v. exists m. split; [exact Hm|]. split; [reflexivity|].
      intros q Hq Qq Nq. apply (Hmin (m_id q) q).
      * apply Hcov. unfold ids. apply in_map. exact Hq.
      * apply find_id_In_NoDup; assumption.
      * exact Qq.
      * intros Hin. apply Nq. apply Hinc0. exact Hin.
    + apply Hold; [exact Hv|]. intros Hin. apply in_app_or in Hin. destruct Hin as [Hin | [Hin | []]]; [contradiction | congruence].
Qed.

(** ** SQLite: the make-room loop *)
Lemma sql_make_room_full c fuel need hint l l2 :
  NoDup (ids l) -> sql_make_room c fuel need hint l = Some l2 ->
  exists vs, l2 = apply_pm (pm_remove_ids vs) l /\ queued_ids l vs /\ NoDup vs
             /\ Z.of_nat (length vs) = Z.max 0 (need - c_max_depth c)
             /\ forall v, In v vs -> exists mv, In mv l /\ m_id mv = v
                                      /\ forall q, In q l2 -> queuedb q = true -> m_recv mv <= m_recv q.
Proof.
  revert need l. induction fuel as [|f IH]; simpl; intros need l ND H.
  - destruct (need <=? c_max_depth c) eqn:E; inversion H; subst. apply Z.leb_le in E.
    exists []. rewrite remove_nil. split; [reflexivity|]. split; [intros v []|]. split; [constructor|]. split; [simpl; lia | intros v []].
  - destruct (need <=? c_max_depth c) eqn:E.
    { inversion H; subst. apply Z.leb_le in E. exists []. rewrite remove_nil. split; [reflexivity|].
      split; [intros v []|]. split; [constructor|]. split; [simpl; lia | intros v []]. }
    apply Z.leb_gt in E.
    destruct (sql_victim hint l) as [v|] eqn:Ev; [|discriminate].
    assert (ND1 : NoDup (ids (remove_id v l))) by (unfold remove_id; apply apply_pm_NoDup; [auto with qimm | exact ND]).
    destruct (IH _ _ ND1 H) as [vs [E2 [Q [NDv [Len Hold]]]]]. exists (v :: vs).
    assert (Hsub : forall q, In q l2 -> In q l).
    { intros q Hq. rewrite E2 in Hq. apply apply_pm_In in Hq. destruct Hq as [q0 [Hq0 Eq0]].
      unfold pm_remove_ids in Eq0. destruct (memN (m_id q0) vs); inversion Eq0; subst. apply (remove_id_In v). exact Hq0. }
    split; [rewrite E2; apply remove_then_remove|]. split; [|split; [|split]].
    + intros w [Hw | Hw]; [subst w; apply (sql_victim_spec hint); exact Ev|].
      destruct (Q w Hw) as [m [A [B Cc]]]. exists m. split; [apply (remove_id_In v); exact A | auto].
    + constructor; [|exact NDv]. intros Hin. destruct (Q v Hin) as [m [A [B _]]].
      assert (Hi : In v (ids (remove_id v l))) by (rewrite <- B at 1; apply in_map; exact A).
      unfold remove_id in Hi. apply ids_remove_ids in Hi. destruct Hi as [_ Hn]. apply Hn. left. reflexivity.
    + simpl length. rewrite Nat2Z.inj_succ, Len. lia.
    + intros w [Hw | Hw].
      * subst w. destruct (sql_victim_oldest hint l v Ev) as [mv [Hmv [Eid [_ Hmin]]]]. exists mv. split; [exact Hmv|]. split; [exact Eid|].
        intros q Hq Qq. apply Hmin; [apply Hsub; exact Hq | exact Qq].
      * destruct (Hold w Hw) as [mv [Hmv [Eid Hmin]]]. exists mv. split; [apply (remove_id_In v); exact Hmv|]. split; [exact Eid | exact Hmin].
Qed.

(** ** what a successful enqueue evicts *)
Definition depth_A (fl : flavour) (c : cfg) (l : list msg) : Z :=
  match fl with Mem => Afun c (active l) (active_deliv l) | Sql => active l end.

Record evict_spec (fl : flavour) (c : cfg) (k : Z) (P : list msg) (vs : list N) : Prop := {
  ev_nodup : NoDup vs;
  ev_queued : queued_ids P vs;
  ev_count : Z.of_nat (length vs)
             = if (0 <? c_max_depth c) && c_drop_oldest c then Z.max 0 (depth_A fl c P + k - c_max_depth c) else 0;
  ev_fits : 0 < c_max_depth c -> c_drop_oldest c = false -> depth_A fl c P + k <= c_max_depth c;
  ev_oldest : forall v, In v vs -> exists mv, In mv P /\ m_id mv = v
                /\ forall q, In q P -> queuedb q = true -> ~ In (m_id q) vs -> m_recv mv <= m_recv q }.

Lemma mem_plan_full c extra s l vs :
  NoDup (ids l) -> incl (ids l) (order s) -> mem_plan c extra s l = Some vs -> evict_spec Mem c extra l vs.
Proof.
  intros ND Hcov H. unfold mem_plan in H. unfold depth_A.
  destruct (c_max_depth c <=? 0) eqn:Ed.
  { inversion H; subst. apply Z.leb_le in Ed. assert (E0 : (0 <? c_max_depth c) = false) by (apply Z.ltb_ge; exact Ed).
    constructor; [constructor | intros v [] | rewrite E0; reflexivity | intros; lia | intros v []]. }
  apply Z.leb_gt in Ed. assert (E1 : (0 <? c_max_depth c) = true) by (apply Z.ltb_lt; exact Ed).
  rewrite mem_full_A in H.
  destruct (c_max_depth c <? Afun c (active l) (active_deliv l) + extra) eqn:Ef; cbn [negb] in H.
  2:{ inversion H; subst. apply Z.ltb_ge in Ef.
      constructor; [constructor | intros v [] | | intros; unfold depth_A; exact Ef | intros v []].
      rewrite E1. unfold depth_A. cbn [andb length]. destruct (c_drop_oldest c); lia. }
  apply Z.ltb_lt in Ef.
  destruct (c_drop_oldest c) eqn:Edo; cbn [negb] in H; [|discriminate].
  pose proof (mem_plan_loop_count _ _ _ _ _ _ _ _ _ H) as Hc.
  destruct (mem_plan_loop_exact _ _ _ _ _ _ _ _ _ H (NoDup_nil N)) as [NDv [Q _]]; [intros v []|].
  destruct (mem_plan_loop_oldest _ _ _ _ _ _ _ _ _ H ND Hcov) as [_ Hold].
  constructor; [exact NDv | exact Q | | intros Hx Hd; try discriminate Hd; congruence |].
  - rewrite E1, Edo. unfold depth_A. cbn [andb]. cbn [length] in Hc. lia.
  - intros v Hv. apply Hold; [exact Hv | intros []].
Qed.

Lemma evict_spec_nil_nolimit fl c k P : (0 <? c_max_depth c) = false -> evict_spec fl c k P [].
Proof.
  intros E. constructor; [constructor | intros v [] | rewrite E; reflexivity | | intros v []].
  intros H. apply Z.ltb_ge in E. lia.
Qed.

Lemma step_enqueue_shape12 fl c now single es o s s' r :
  es <> [] -> Inv s -> (fl = Mem -> order_covers s) -> step_enqueue fl c now single es o s = (s', r) ->
  (msgs s' = msgs s /\ r = RBadOracle)
  \/ (msgs s' = msgs (prune c now (o_gone o) s) /\ exists e, r = RErr e)
  \/ (exists vs ies, assign_ids es (o_genids o) = Some ies
        /\ evict_spec fl c (Z.of_nat (length ies)) (msgs (prune c now (o_gone o) s)) vs
        /\ msgs s' = apply_pm (pm_remove_ids vs) (msgs (prune c now (o_gone o) s)) ++ mk_news now ies
        /\ r = (if single then RUnit else RCount (Z.of_nat (length ies)) 0 false)).
Proof.
  intros Hne I Hcov H. unfold step_enqueue in H.
  destruct es as [|e0 es0]; [contradiction|].
  set (es := e0 :: es0) in *.
  destruct (assign_ids es (o_genids o)) as [ies|] eqn:EA; [|inversion H; subst; left; auto].
  pose proof (inv_prune c now (o_gone o) s I) as I1.
  set (s1 := prune c now (o_gone o) s) in *.
  set (l1 := msgs s1) in *.
  pose proof (inv_nodup _ _ I1) as ND1. fold l1 in ND1.
  assert (Pruned : forall e, (s1, RErr e) = (s', r) ->
            (msgs s' = msgs s /\ r = RBadOracle) \/ (msgs s' = l1 /\ exists e, r = RErr e) \/
            (exists vs ies0, Some ies = Some ies0 /\ evict_spec fl c (Z.of_nat (length ies0)) l1 vs
               /\ msgs s' = apply_pm (pm_remove_ids vs) l1 ++ mk_news now ies0
               /\ r = (if single then RUnit else RCount (Z.of_nat (length ies0)) 0 false))).
  { intros e E. inversion E; subst. right. left. split; [reflexivity | exists e; reflexivity]. }
  destruct fl.
  - assert (Hc1 : incl (ids l1) (order s1)) by (apply prune_order_covers; apply Hcov; reflexivity).
    destruct (mem_plan c (Z.of_nat (length ies)) s1 l1) as [victims|] eqn:EP; [|eapply Pruned; exact H].
    pose proof (mem_plan_full c _ s1 l1 victims ND1 Hc1 EP) as Spec.
    destruct single.
    + destruct (pressure c l1); [eapply Pruned; exact H|].
      destruct (negb (forallb (fun i => negb (has_id i l1) || memN i victims) (map fst ies))); [eapply Pruned; exact H|].
      inversion H; subst s' r. right. right. exists victims, ies. simpl. auto.
    + destruct (negb (nodupN (map fst ies) && forallb (fun i => negb (has_id i l1) || memN i victims) (map fst ies)));
        [eapply Pruned; exact H|].
      destruct (pressure c l1); [eapply Pruned; exact H|].
      inversion H; subst s' r. right. right. exists victims, ies. simpl. auto.
  - match type of H with (match ?rm with _ => _ end) = _ => set (room := rm) in * end.
    assert (Hroom : forall l2, room = Some l2 ->
              exists vs, l2 = apply_pm (pm_remove_ids vs) l1 /\ evict_spec Sql c (Z.of_nat (length ies)) l1 vs).
    { intros l2 Hr. unfold room in Hr.
      destruct (0 <? c_max_depth c) eqn:Ed.
      2:{ inversion Hr; subst. exists []. rewrite remove_nil. split; [reflexivity|]. apply evict_spec_nil_nolimit. exact Ed. }
      destruct (c_drop_oldest c) eqn:Edo.
      - destruct (sql_make_room_full _ _ _ _ _ _ ND1 Hr) as [vs [E [Q [NDv [Len Hold]]]]]. exists vs. split; [exact E|].
        constructor; [exact NDv | exact Q | | intros _ Hd; congruence |].
        + rewrite Ed, Edo. cbn [andb]. unfold depth_A. rewrite Len. reflexivity.
        + intros v Hv. destruct (Hold v Hv) as [mv [Hmv [Eid Hmin]]]. exists mv. split; [exact Hmv|]. split; [exact Eid|].
          intros q Hq Qq Nq. apply Hmin; [|exact Qq]. rewrite E. apply apply_pm_In. exists q. split; [exact Hq|].
          unfold pm_remove_ids. apply memN_false in Nq. rewrite Nq. reflexivity.
      - destruct (c_max_depth c <? active l1 + Z.of_nat (length ies)) eqn:Ef; [discriminate|]. inversion Hr; subst.
        exists []. rewrite remove_nil. split; [reflexivity|]. apply Z.ltb_ge in Ef.
        constructor; [constructor | intros v [] | rewrite Ed, Edo; reflexivity | intros; exact Ef | intros v []]. }
    destruct room as [l2|] eqn:Er; [|eapply Pruned; exact H].
    destruct (nodupN (map fst ies) && forallb (fun i => negb (has_id i l2)) (map fst ies)); [|eapply Pruned; exact H].
    destruct (Hroom l2 eq_refl) as [vs [E Spec]]. subst l2.
    inversion H; subst s' r. right. right. exists vs, ies. simpl. destruct single; auto.
Qed.

(** * Part 2: the monitor's bookkeeping, reconstructed from the shape of the step *)
Lemma apply_pm_as_filter pm l :
  (forall m m', In m l -> pm m = Some m' -> m' = m) ->
  apply_pm pm l = filter (fun m => match pm m with Some _ => true | None => false end) l.
Proof.
  induction l as [|x tl IH]; intros H; [reflexivity|]. cbn [apply_pm filter].
  assert (Htl : forall m m', In m tl -> pm m = Some m' -> m' = m) by (intros m m' Hm; apply H; right; exact Hm).
  destruct (pm x) as [x'|] eqn:E.
  - rewrite (H x x' (or_introl eq_refl) E). f_equal. apply IH. exact Htl.
  - apply IH. exact Htl.
Qed.

Lemma filter_filter_and (A : Type) (f g : A -> bool) l : filter f (filter g l) = filter (fun x => g x && f x) l.
Proof.
  induction l as [|x tl IH]; [reflexivity|]. cbn [filter]. destruct (g x); cbn [filter andb]; [destruct (f x)|]; rewrite IH; reflexivity.
Qed.

Lemma filter_len_partition (A : Type) (f : A -> bool) l :
  (length (filter f l) + length (filter (fun x => negb (f x)) l) = length l)%nat.
Proof. induction l as [|x tl IH]; [reflexivity|]. cbn [filter]. destruct (f x); cbn [negb length]; lia. Qed.

Lemma count_st_partition p (f : msg -> bool) l :
  count_st p (filter f l) + count_st p (filter (fun x => negb (f x)) l) = count_st p l.
Proof.
  unfold count_st. induction l as [|x tl IH]; [reflexivity|]. cbn [filter].
  destruct (f x); cbn [negb filter]; destruct (p (m_st x)); cbn [length]; lia.
Qed.

Lemma count_st_all p l : (forall m, In m l -> p (m_st m) = true) -> count_st p l = Z.of_nat (length l).
Proof.
  unfold count_st. intros H. f_equal. induction l as [|x tl IH]; [reflexivity|]. cbn [filter].
  rewrite (H x (or_introl eq_refl)). cbn [length]. f_equal. apply IH. intros m Hm. apply H. right. exact Hm.
Qed.

Lemma memN_ids_filter (f : msg -> bool) l m :
  NoDup (ids l) -> In m l -> memN (m_id m) (map m_id (filter f l)) = f m.
Proof.
  intros ND Hm. destruct (f m) eqn:Ef.
  - apply memN_In. apply in_map. apply filter_In. split; assumption.
  - apply memN_false. intros Hin. apply in_map_iff in Hin. destruct Hin as [m' [Eid Hm']]. apply filter_In in Hm'. destruct Hm' as [Hin' Ef'].
    assert (m' = m) by (apply (nodup_ids_inj l); assumption). subst m'. congruence.
Qed.

Definition isV (vs : list N) (m : msg) : bool := memN (m_id m) vs.

Lemma remove_as_filter vs l : apply_pm (pm_remove_ids vs) l = filter (fun m => negb (isV vs m)) l.
Proof.
  rewrite apply_pm_as_filter.
  - apply filter_ext. intros m. unfold pm_remove_ids, isV. destruct (memN (m_id m) vs); reflexivity.
  - intros m m' _ E. unfold pm_remove_ids in E. destruct (memN (m_id m) vs); inversion E; reflexivity.
Qed.

Lemma victims_length vs P : NoDup (ids P) -> NoDup vs -> queued_ids P vs -> length (filter (isV vs) P) = length vs.
Proof.
  intros ND NDv Q.
  assert (Hc : count_st (fun _ => true) (apply_pm (pm_remove_ids vs) P) = count_st (fun _ => true) P - Z.of_nat (length vs)).
  { apply count_remove; [exact ND | exact NDv|]. intros v Hv. destruct (Q v Hv) as [m [A [B _]]]. exists m. auto. }
  rewrite !count_st_all in Hc by reflexivity. rewrite remove_as_filter in Hc.
  pose proof (filter_len_partition msg (isV vs) P). lia.
Qed.

Lemma victims_queued vs P m : NoDup (ids P) -> queued_ids P vs -> In m P -> isV vs m = true -> queuedb m = true.
Proof.
  intros ND Q Hm Hv. unfold isV in Hv. apply memN_In in Hv. destruct (Q _ Hv) as [m1 [H1 [Ei Eq]]].
  assert (m1 = m) by (apply (nodup_ids_inj P); assumption). subst. exact Eq.
Qed.

(** the monitor's view of one event whose stored list changed like this:
    [B] before; a sub-list [P] of it (what the prune left); the messages with ids [vs] removed from [P];
    [news] appended *)
Section Bookkeeping.
  Variables (c : cfg) (x : op) (o : oracle) (r : res) (B : list msg) (inP : msg -> bool) (vs : list N) (news : list msg).
  Let P := filter inP B.
  Let after := filter (fun m => negb (isV vs m)) P ++ news.
  Let e := mkEvent x o r B after.
  Let pe := prune_eligible c e.
  Hypothesis NDB : NoDup (ids B).
  Hypothesis NDafter : NoDup (ids after).
  Hypothesis Hnewfresh : forall n, In n news -> ~ In (m_id n) (ids B).
  Hypothesis Hpe : forall m, In m B -> inP m = false -> pe m = true.

  Lemma NDP : NoDup (ids P).
  Proof. unfold P. apply filter_ids_NoDup. exact NDB. Qed.

  Lemma bk_survivor m : In m B -> survivor e m = if inP m && negb (isV vs m) then Some m else None.
  Proof.
    intros Hm. unfold survivor, e. cbn [ev_after].
    destruct (inP m && negb (isV vs m)) eqn:E.
    - assert (Hin : In m after).
      { unfold after. apply in_or_app. left. apply andb_true_iff in E. destruct E as [E1 E2].
        apply filter_In. split; [apply filter_In; split; assumption | exact E2]. }
      rewrite (find_id_In_NoDup _ _ NDafter Hin), imm_eq_refl. reflexivity.
    - assert (Hno : ~ In (m_id m) (ids after)).
      { unfold after, ids. rewrite map_app. intros Hin. apply in_app_or in Hin. destruct Hin as [Hin | Hin].
        - apply in_map_iff in Hin. destruct Hin as [m1 [Ei H1]]. apply filter_In in H1. destruct H1 as [H1 Hv].
          apply filter_In in H1. destruct H1 as [H1 Hp].
          assert (m1 = m) by (apply (nodup_ids_inj B); assumption). subst m1. rewrite Hp, Hv in E. discriminate.
        - apply in_map_iff in Hin. destruct Hin as [n [Ei Hn]]. apply (Hnewfresh n Hn). rewrite Ei. apply in_map. exact Hm. }
      apply find_id_None in Hno. rewrite Hno. reflexivity.
  Qed.

  Lemma bk_removed : removed e = filter (fun m => negb (inP m && negb (isV vs m))) B.
  Proof.
    unfold removed, e. cbn [ev_before]. apply filter_ext_in. intros m Hm. fold e. rewrite (bk_survivor m Hm).
    destruct (inP m && negb (isV vs m)); reflexivity.
  Qed.

  Lemma bk_ev : filter (fun m => negb (pe m)) (removed e) = filter (fun m => isV vs m && negb (pe m)) P.
  Proof.
    rewrite bk_removed, filter_filter_and. unfold P. rewrite filter_filter_and. apply filter_ext_in. intros m Hm.
    destruct (inP m) eqn:Ei; cbn [andb negb].
    - destruct (isV vs m); reflexivity.
    - rewrite (Hpe m Hm Ei). reflexivity.
  Qed.

  Lemma bk_base :
    filter (fun m => negb (memN (m_id m) (map m_id (filter pe (removed e))))) B
    = filter (fun m => negb (isV vs m && pe m)) P.
  Proof.
    unfold P. rewrite filter_filter_and. apply filter_ext_in. intros m Hm.
    rewrite bk_removed, filter_filter_and, (memN_ids_filter _ B m NDB Hm).
    destruct (inP m) eqn:Ei; cbn [andb negb].
    - destruct (isV vs m); reflexivity.
    - rewrite (Hpe m Hm Ei). reflexivity.
  Qed.

  Lemma bk_rest q :
    In q (filter (fun m => negb (memN (m_id m) (map m_id (filter (fun m => isV vs m && negb (pe m)) P))))
                 (filter (fun m => negb (isV vs m && pe m)) P)) ->
    In q P /\ isV vs q = false.
  Proof.
    intros H. apply filter_In in H. destruct H as [H1 H2]. apply filter_In in H1. destruct H1 as [Hq H1].
    split; [exact Hq|]. rewrite (memN_ids_filter _ P q NDP Hq) in H2.
    destruct (isV vs q); [|reflexivity]. destruct (pe q); discriminate.
  Qed.
End Bookkeeping.

(** ** the monitor's clause for an enqueue, as a function of the event *)
Definition c12_body (fl : flavour) (c : cfg) (ins_order : list N) (e : event) : bool :=
      let k := Z.of_nat (length (enq_list (ev_op e))) in
      let pruned := filter (prune_eligible c e) (removed e) in
      let ev := filter (fun m => negb (prune_eligible c e m)) (removed e) in
      let base := filter (fun m => negb (memN (m_id m) (map m_id pruned))) (ev_before e) in
      let a := active base in
      let a' := match fl with
                | Mem => if 0 <? c_deliv_age c then Z.max a (active_deliv base) else a
                | Sql => a
                end in
      let rest := filter (fun m => negb (memN (m_id m) (map m_id ev))) base in
      if (0 <? c_max_depth c) && (c_max_depth c <? a') then true
      else if enq_success e then
        (Z.of_nat (length (filter (insert_ok e) (ev_after e))) =? k)
        && if 0 <? c_max_depth c then
             if c_drop_oldest c then
               forallb queuedb ev
               && (Z.of_nat (length ev) =? Z.max 0 (a' + k - c_max_depth c))
               && forallb (fun v => forallb (fun q => negb (queuedb q)
                                                      || (m_recv v <=? m_recv q)
                                                      || (pos_in (m_id v) ins_order <? pos_in (m_id q) ins_order)) rest) ev
             else (Nat.eqb (length ev) 0) && (a' + k <=? c_max_depth c)
           else Nat.eqb (length ev) 0
      else
        (Nat.eqb (length ev) 0) && (Nat.eqb (length (inserted e)) 0)
        && forallb (fun m => opt_msg_eqb (find_id (m_id m) (ev_after e)) (Some m)) base.

Lemma c12_event_body fl c ins e : enq_list (ev_op e) <> [] -> c12_event fl c ins e = c12_body fl c ins e.
Proof.
  destruct e as [x o r b a]. cbn [ev_op]. intros Hne. destruct x; simpl in Hne; try contradiction; [reflexivity|].
  destruct es; [contradiction | reflexivity].
Qed.

Lemma filter_and_split (f g : msg -> bool) l :
  (length (filter (fun m => f m && g m) l) + length (filter (fun m => f m && negb (g m)) l) = length (filter f l))%nat.
Proof.
  induction l as [|y tl IH]; [reflexivity|]. cbn [filter]. destruct (f y), (g y); cbn [andb negb length]; lia.
Qed.

Lemma queuedb_st m : queuedb m = true -> m_st m = Queued.
Proof. unfold queuedb. apply st_eqb_eq. Qed.

Lemma count_base p vs P (pe : msg -> bool) :
  NoDup (ids P) -> queued_ids P vs -> p Queued = true ->
  count_st p (filter (fun m => negb (isV vs m && pe m)) P)
  = count_st p P - Z.of_nat (length (filter (fun m => isV vs m && pe m) P)).
Proof.
  intros ND Q Hp. pose proof (count_st_partition p (fun m => isV vs m && pe m) P) as Hpart.
  rewrite (count_st_all p (filter (fun m => isV vs m && pe m) P)) in Hpart; [lia|].
  intros m Hm. apply filter_In in Hm. destruct Hm as [Hm Hv]. apply andb_true_iff in Hv. destruct Hv as [Hv _].
  rewrite (queuedb_st m (victims_queued vs P m ND Q Hm Hv)). exact Hp.
Qed.

Lemma depth_A_base fl c vs P (pe : msg -> bool) :
  NoDup (ids P) -> queued_ids P vs ->
  depth_A fl c (filter (fun m => negb (isV vs m && pe m)) P)
  = depth_A fl c P - Z.of_nat (length (filter (fun m => isV vs m && pe m) P)).
Proof.
  intros ND Q. unfold depth_A, active, active_deliv.
  rewrite !(count_base _ vs P pe ND Q) by reflexivity.
  destruct fl; [rewrite Afun_sub|]; reflexivity.
Qed.

Lemma filter_all_true (A : Type) (f : A -> bool) l : (forall y, In y l -> f y = true) -> filter f l = l.
Proof.
  induction l as [|y tl IH]; intros H; [reflexivity|]. cbn [filter]. rewrite (H y (or_introl eq_refl)). f_equal.
  apply IH. intros z Hz. apply H. right. exact Hz.
Qed.

Lemma filter_none (A : Type) (f : A -> bool) l : (forall y, In y l -> f y = false) -> filter f l = [].
Proof.
  induction l as [|y tl IH]; intros H; [reflexivity|]. cbn [filter]. rewrite (H y (or_introl eq_refl)).
  apply IH. intros z Hz. apply H. right. exact Hz.
Qed.

Lemma isV_nil m : isV [] m = false.
Proof. reflexivity. Qed.

Lemma c12_core fl c ins x o r B inP vs news now ies :
  NoDup (ids B) ->
  NoDup (ids (filter (fun m => negb (isV vs m)) (filter inP B) ++ news)) ->
  (forall n, In n news -> ~ In (m_id n) (ids B)) ->
  (forall m, In m B -> inP m = false ->
     prune_eligible c (mkEvent x o r B (filter (fun m => negb (isV vs m)) (filter inP B) ++ news)) m = true) ->
  NoDup vs -> queued_ids (filter inP B) vs ->
  enq_list x <> [] ->
  ( (enq_ok x r = true /\ op_now x = now /\ assign_ids (enq_list x) (o_genids o) = Some ies /\ news = mk_news now ies
      /\ evict_spec fl c (Z.of_nat (length ies)) (filter inP B) vs)
    \/ (enq_ok x r = false /\ vs = [] /\ news = []) ) ->
  c12_body fl c ins (mkEvent x o r B (filter (fun m => negb (isV vs m)) (filter inP B) ++ news)) = true.
Proof.
  intros NDB NDafter Hfresh Hpe NDv Q Hne Hcase.
  set (P := filter inP B) in *.
  set (after := filter (fun m => negb (isV vs m)) P ++ news) in *.
  set (e := mkEvent x o r B after) in *.
  set (pe := prune_eligible c e) in *.
  pose proof (NDP B inP NDB) as NDPP. fold P in NDPP.
  pose proof (bk_ev c x o r B inP vs news NDB NDafter Hfresh Hpe) as Eev. fold P after e pe in Eev.
  pose proof (bk_base c x o r B inP vs news NDB NDafter Hfresh Hpe) as Ebase. fold P after e pe in Ebase.
  unfold c12_body. cbv zeta. cbn [ev_op ev_before ev_after]. fold e. fold pe.
  change (fun m => negb (prune_eligible c e m)) with (fun m => negb (pe m)).
  change (ev_before e) with B. change (ev_after e) with after. change (ev_op e) with x.
  rewrite Eev, Ebase.
  set (ev := filter (fun m => isV vs m && negb (pe m)) P).
  set (base := filter (fun m => negb (isV vs m && pe m)) P).
  set (nVp := length (filter (fun m => isV vs m && pe m) P)).
  assert (Hsplit : (nVp + length ev = length vs)%nat).
  { unfold nVp, ev. rewrite (filter_and_split (isV vs) pe P). apply victims_length; assumption. }
  assert (HA : depth_A fl c base = depth_A fl c P - Z.of_nat nVp) by (apply depth_A_base; assumption).
  match goal with |- context [match fl with Mem => ?A | Sql => ?S end] => set (a' := match fl with Mem => A | Sql => S end) end.
  assert (Ea' : a' = depth_A fl c P - Z.of_nat nVp) by (rewrite <- HA; unfold a', depth_A, Afun; destruct fl; reflexivity).
  destruct ((0 <? c_max_depth c) && (c_max_depth c <? a')) eqn:Hguard; [reflexivity|].
  assert (Hafter_sub : forall y, In y (filter (fun m => negb (isV vs m)) P) -> In y B).
  { intros y Hy. apply filter_In in Hy. destruct Hy as [Hy _]. unfold P in Hy. apply filter_In in Hy. apply Hy. }
  change (enq_success e) with (enq_ok x r).
  destruct Hcase as [[Hok [Hnow [EA [En Spec]]]] | [Hok [Evs En]]]; rewrite Hok.
  - (* stored *)
    pose proof (assign_ids_length _ _ _ EA) as Hlen.
    assert (NDies : NoDup (map fst ies)).
    { pose proof NDafter as ND2. unfold after, ids in ND2. rewrite map_app in ND2. apply NoDup_app_r in ND2.
      rewrite En in ND2. fold (ids (mk_news now ies)) in ND2. rewrite ids_mk_news in ND2. exact ND2. }
    apply andb_true_iff. split.
    + apply Z.eqb_eq. unfold after. rewrite filter_app.
      rewrite (filter_none msg (insert_ok e) (filter (fun m => negb (isV vs m)) P)).
      * rewrite En. cbn [app]. rewrite (filter_all_true msg (insert_ok e) (mk_news now ies)).
        -- unfold mk_news. rewrite map_length, Hlen. reflexivity.
        -- intros y Hy. unfold mk_news in Hy. apply in_map_iff in Hy. destruct Hy as [p [Ey Hp]]. subst y.
           rewrite <- Hnow. apply (insert_ok_new x o r B after ies p); assumption.
      * intros y Hy. unfold insert_ok. change (enq_success e) with (enq_ok x r). rewrite Hok. cbn [andb].
        unfold enq_assigned, e. cbn [ev_op ev_orc]. rewrite EA.
        destruct (find (fun p : N * enq => N.eqb (fst p) (m_id y)) ies) as [p|] eqn:Ef; [|reflexivity].
        exfalso. apply find_some in Ef. destruct Ef as [Hp Eid]. apply N.eqb_eq in Eid.
        apply (Hfresh (mk_msg now (fst p) (snd p))).
        -- rewrite En. unfold mk_news. apply in_map_iff. exists p. auto.
        -- cbn [mk_msg m_id]. rewrite Eid. unfold ids. apply in_map. apply Hafter_sub. exact Hy.
    + destruct Spec as [_ _ Hcount Hfits Hold].
      destruct (0 <? c_max_depth c) eqn:Emax.
      * destruct (c_drop_oldest c) eqn:Edo; cbn [andb] in Hcount.
        -- apply andb_true_iff. split; [apply andb_true_iff; split|].
           ++ apply forallb_forall. intros v Hv. unfold ev in Hv. apply filter_In in Hv. destruct Hv as [Hv Hc].
              apply andb_true_iff in Hc. destruct Hc as [Hc _]. apply (victims_queued vs P v NDPP Q Hv Hc).
           ++ apply Z.eqb_eq. rewrite Hlen in Hcount. rewrite Ea'. lia.
           ++ apply forallb_forall. intros v Hv. apply forallb_forall. intros q Hq.
              unfold ev in Hv. apply filter_In in Hv. destruct Hv as [Hv Hc]. apply andb_true_iff in Hc. destruct Hc as [Hc _].
              destruct (bk_rest c x o r B inP vs news NDB q Hq) as [HqP HqV].
              destruct (queuedb q) eqn:Qq; [|reflexivity]. cbn [negb orb].
              unfold isV in Hc. apply memN_In in Hc. destruct (Hold (m_id v) Hc) as [mv [Hmv [Eid Hmin]]].
              assert (mv = v) by (apply (nodup_ids_inj P); assumption). subst mv.
              assert (Hle : m_recv v <= m_recv q).
              { apply Hmin; [exact HqP | exact Qq|]. unfold isV in HqV. apply memN_false. exact HqV. }
              apply Z.leb_le in Hle. rewrite Hle. reflexivity.
        -- assert (Hvs0 : length vs = 0%nat) by lia.
           assert (Hev0 : length ev = 0%nat) by lia. rewrite Hev0. cbn [Nat.eqb andb].
           apply Z.leb_le. assert (nVp = 0%nat) by lia. rewrite Ea', Hlen in *. apply Z.ltb_lt in Emax. specialize (Hfits Emax eq_refl). lia.
      * cbn [andb] in Hcount. assert (Hev0 : length ev = 0%nat) by lia. rewrite Hev0. reflexivity.
  - (* refused *)
    subst vs news.
    assert (Hev0 : ev = []) by (unfold ev; apply filter_none; intros y _; reflexivity). rewrite Hev0. cbn [length Nat.eqb andb].
    assert (Hbase : base = P) by (unfold base; apply filter_all_true; intros y _; reflexivity).
    assert (Hafter : after = P).
    { unfold after. rewrite app_nil_r. apply filter_all_true. intros y _. reflexivity. }
    apply andb_true_iff. split.
    + unfold inserted, e. cbn [ev_before ev_after]. rewrite Hafter.
      rewrite (filter_none msg _ P); [reflexivity|]. intros y Hy.
      assert (HyB : In y B) by (unfold P in Hy; apply filter_In in Hy; apply Hy).
      rewrite (find_id_In_NoDup _ _ NDB HyB), imm_eq_refl. reflexivity.
    + rewrite Hbase. apply forallb_forall. intros y Hy. rewrite Hafter, (find_id_In_NoDup _ _ NDPP Hy). apply msg_eqb_refl.
Qed.

(** ** one event *)
Definition inPf (c : cfg) (now : Z) (hint : list N) (s : state) (m : msg) : bool :=
  match prune_pm c now hint s m with Some _ => true | None => false end.

Lemma prune_as_filter c now hint s : msgs (prune c now hint s) = filter (inPf c now hint s) (msgs s).
Proof. rewrite prune_msgs_eq. apply apply_pm_as_filter. intros m m' _ E. apply prune_pm_same in E. exact E. Qed.

Theorem c12_event_holds fl c s x o s' r ins :
  Inv s -> (fl = Mem -> order_covers s) -> step fl c s x o = (s', r) ->
  fresh_enqueue (mkEvent x o r (msgs s) (msgs s')) ->
  c12_event fl c ins (mkEvent x o r (msgs s) (msgs s')) = true.
Proof.
  intros I Hcov H Hfresh.
  destruct (enq_list x) as [|e0 es0] eqn:Hes.
  { destruct x; try reflexivity; simpl in Hes; try discriminate. subst es. reflexivity. }
  assert (Hne : enq_list x <> []) by (rewrite Hes; discriminate).
  rewrite c12_event_body by exact Hne.
  assert (I' : Inv s') by (pose proof (step_inv fl c s x o I) as I1; rewrite H in I1; exact I1).
  pose proof (inv_nodup _ _ I) as NDB. pose proof (inv_nodup _ _ I') as NDA.
  assert (Hpr : prunes x = true) by (destruct x; simpl in Hes; try discriminate; [reflexivity | destruct es; [discriminate | reflexivity]]).
  assert (Hstep : exists single, step_enqueue fl c (op_now x) single (enq_list x) o s = (s', r)
                    /\ forall n, enq_ok x (if single then RUnit else RCount n 0 false) = true).
  { destruct x; simpl in Hes; try discriminate; cbn [step op_now enq_list] in *.
    - exists true. split; [exact H | reflexivity].
    - exists false. split; [exact H|]. destruct es; [discriminate | reflexivity]. }
  destruct Hstep as [single [Hs Hsok]].
  set (now := op_now x) in *. set (B := msgs s) in *.
  assert (HpeP : forall m, In m B -> ~ In (m_id m) (ids (msgs s')) -> inPf c now (o_gone o) s m = false ->
            prune_eligible c (mkEvent x o r B (msgs s')) m = true).
  { intros m Hm Hno Hi. apply (prune_eligible_holds fl c s x o s' r m I H Hm Hno Hpr).
    unfold inPf in Hi. destruct (prune_pm_cases c now (o_gone o) s m NDB Hm) as [E | [_ R]]; [rewrite E in Hi; discriminate | exact R]. }
  destruct (step_enqueue_shape12 fl c now single (enq_list x) o s s' r Hne I Hcov Hs)
    as [[Em Er] | [[Em [err Er]] | [vs [ies [EA [Spec [Em Er]]]]]]].
  - (* the oracle supplied too few ids: nothing happened *)
    assert (Eafter : msgs s' = filter (fun m => negb (isV [] m)) (filter (fun _ => true) B) ++ []).
    { rewrite app_nil_r, Em. fold B. rewrite (filter_all_true msg (fun _ => true) B) by reflexivity.
      symmetry. apply filter_all_true. reflexivity. }
    rewrite Eafter. apply (c12_core fl c ins x o r B (fun _ => true) [] [] now []).
    + exact NDB.
    + rewrite <- Eafter. exact NDA.
    + intros n [].
    + intros m _ Hi. discriminate.
    + constructor.
    + intros v [].
    + exact Hne.
    + right. subst r. split; [destruct x; try reflexivity; destruct es; reflexivity | auto].
  - (* refused *)
    assert (Eafter : msgs s' = filter (fun m => negb (isV [] m)) (filter (inPf c now (o_gone o) s) B) ++ []).
    { rewrite app_nil_r, Em, prune_as_filter. fold B. symmetry. apply filter_all_true. reflexivity. }
    assert (Hsub : forall y, In y (msgs s') -> inPf c now (o_gone o) s y = true).
    { intros y Hy. rewrite Em, prune_as_filter in Hy. apply filter_In in Hy. apply Hy. }
    rewrite Eafter. apply (c12_core fl c ins x o r B (inPf c now (o_gone o) s) [] [] now []).
    + exact NDB.
    + rewrite <- Eafter. exact NDA.
    + intros n [].
    + intros m Hm Hi. rewrite <- Eafter. apply HpeP; [exact Hm | | exact Hi].
      intros Hin. unfold ids in Hin. apply in_map_iff in Hin. destruct Hin as [y [Ey Hy]].
      assert (HyB : In y B) by (rewrite Em in Hy; apply (prune_sub c now (o_gone o)); exact Hy).
      assert (y = m) by (apply (nodup_ids_inj B); assumption). subst y. rewrite (Hsub m Hy) in Hi. discriminate.
    + constructor.
    + intros v [].
    + exact Hne.
    + right. subst r. split; [destruct x; try reflexivity; destruct es; reflexivity | auto].
  - (* stored *)
    assert (Eafter : msgs s' = filter (fun m => negb (isV vs m)) (filter (inPf c now (o_gone o) s) B) ++ mk_news now ies).
    { rewrite Em, remove_as_filter, prune_as_filter. reflexivity. }
    assert (Hok : enq_ok x r = true) by (subst r; apply Hsok).
    assert (Hnf : forall n, In n (mk_news now ies) -> ~ In (m_id n) (ids B)).
    { intros n Hn. unfold mk_news in Hn. apply in_map_iff in Hn. destruct Hn as [p [En Hp]]. subst n. cbn [mk_msg m_id].
      apply Hfresh; [apply (enq_ok_res_ok x); exact Hok|]. unfold enq_assigned. cbn [ev_op ev_orc]. rewrite EA. exact Hp. }
    pose proof Spec as Spec'. destruct Spec' as [NDv Q _ _ _]. rewrite prune_as_filter in Q. fold B in Q.
    rewrite Eafter. apply (c12_core fl c ins x o r B (inPf c now (o_gone o) s) vs (mk_news now ies) now ies).
    + exact NDB.
    + rewrite <- Eafter. exact NDA.
    + exact Hnf.
    + intros m Hm Hi. rewrite <- Eafter. apply HpeP; [exact Hm | | exact Hi].
      rewrite Eafter. unfold ids. rewrite map_app. intros Hin. apply in_app_or in Hin. destruct Hin as [Hin | Hin].
      * apply in_map_iff in Hin. destruct Hin as [y [Ey Hy]]. apply filter_In in Hy. destruct Hy as [Hy _].
        apply filter_In in Hy. destruct Hy as [HyB HyP].
        assert (y = m) by (apply (nodup_ids_inj B); assumption). subst y. congruence.
      * apply in_map_iff in Hin. destruct Hin as [n [En Hn]]. apply (Hnf n Hn). rewrite En. unfold ids. apply in_map. exact Hm.
    + exact NDv.
    + exact Q.
    + exact Hne.
    + left. split; [exact Hok|]. split; [reflexivity|]. split; [exact EA|]. split; [reflexivity|].
      rewrite <- prune_as_filter. exact Spec.
Qed.

(** ** every trace *)
Lemma run_c12 fl c xs : forall s iss ins,
  Inv s -> (fl = Mem -> order_covers s) -> Forall fresh_enqueue (fst (run fl c s xs)) ->
  forallb (fun t : bool * bool * bool * bool * bool * bool => snd (fst t))
          (mon_all fl c iss ins (fst (run fl c s xs))) = true.
Proof.
  induction xs as [|[x o] tl IH]; intros s iss ins I Hcov Hf; [reflexivity|].
  simpl in *. pose proof (step_inv fl c s x o I) as I1.
  assert (Hcov1 : fl = Mem -> order_covers (fst (step fl c s x o))).
  { intros E. subst fl. apply step_order_covers; [exact I | apply Hcov; reflexivity]. }
  destruct (step fl c s x o) as [s' r] eqn:Es. simpl in I1, Hcov1.
  destruct (run fl c s' tl) as [evs sf] eqn:Er. simpl in *.
  inversion Hf as [|? ? Hfe Hrest]; subst.
  apply andb_true_iff. split.
  - apply (c12_event_holds fl c s x o s' r ins I Hcov Es Hfe).
  - specialize (IH s' (iss ++ item_leases r) (upd_ins ins (mkEvent x o r (msgs s) (msgs s'))) I1 Hcov1).
    rewrite Er in IH. simpl in IH. apply IH. exact Hrest.
Qed.

Lemma order_covers_init : order_covers init.
Proof. intros i []. Qed.

Theorem P_C12_holds_on_model fl c xs :
  Forall fresh_enqueue (model_trace fl c xs) -> P_C12 fl c (model_trace fl c xs) = true.
Proof.
  intros H. unfold P_C12. apply (run_c12 fl c xs init [] []); [apply inv_init | intros _; apply order_covers_init | exact H].
Qed.
