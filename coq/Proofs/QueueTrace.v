(** History-level statements: every event of every model trace satisfies the step specification,
    and the consequences used by the property files. *)
From Coq Require Import List ZArith NArith Bool Lia.
From HK Require Import Gen.Consts Model.Queue Model.QueueHash Model.QueueMon
  Proofs.QueueBase Proofs.QueueInv Proofs.QueueInvStep Proofs.QueueStep.
Import ListNotations.
Open Scope Z_scope.

Definition state_ok (l : list msg) : Prop :=
  NoDup (ids l) /\ (forall m, In m l -> coherent m = true) /\ lease_inj l.

Definition event_sound (c : cfg) (e : event) : Prop :=
  state_ok (ev_before e) /\ state_ok (ev_after e)
  /\ step_spec c (ev_op e) (ev_orc e) (ev_res e) (ev_before e) (ev_after e).

Lemma inv_state_ok s : Inv s -> state_ok (msgs s).
Proof. intros [A B Cc _]. repeat split; assumption. Qed.

Lemma run_sound fl c s xs : Inv s -> Forall (event_sound c) (fst (run fl c s xs)).
Proof.
  revert s. induction xs as [|[x o] tl IH]; simpl; intros s I; [constructor|].
  pose proof (step_inv fl c s x o I) as I1.
  pose proof (step_sound fl c s x o) as S.
  destruct (step fl c s x o) as [s' r] eqn:E. simpl in I1. specialize (S s' r I eq_refl).
  specialize (IH s' I1). destruct (run fl c s' tl) as [evs sf]. simpl in *.
  constructor; [|exact IH]. split; [apply inv_state_ok; exact I|]. split; [apply inv_state_ok; exact I1 | exact S].
Qed.

Theorem trace_sound fl c xs : Forall (event_sound c) (model_trace fl c xs).
Proof. apply run_sound. apply inv_init. Qed.

(** consecutive events are chained: what an event leaves is what the next one finds *)
Lemma run_chained fl c s xs :
  (forall e, hd_error (fst (run fl c s xs)) = Some e -> ev_before e = msgs s)
  /\ (forall i e1 e2, nth_error (fst (run fl c s xs)) i = Some e1 -> nth_error (fst (run fl c s xs)) (S i) = Some e2 ->
                      ev_after e1 = ev_before e2).
Proof.
  revert s. induction xs as [|[x o] tl IH]; intros s.
  - simpl. split; [intros e H; discriminate | intros i e1 e2 H; destruct i; discriminate].
  - specialize (IH (fst (step fl c s x o))). cbn [run].
    destruct (step fl c s x o) as [s' r]. cbn [fst] in IH.
    destruct (run fl c s' tl) as [evs sf]. cbn [fst] in *. destruct IH as [IH1 IH2]. split.
    + intros e H. simpl in H. inversion H; subst. reflexivity.
    + intros i e1 e2 H1 H2. destruct i as [|i]; simpl in H1, H2.
      * inversion H1; subst e1. simpl. symmetry. apply IH1. destruct evs; [discriminate | exact H2].
      * apply (IH2 i); assumption.
Qed.

(** ** consequences of the step specification *)
Lemma spec_error_frame c x o e l l' :
  step_spec c x o (RErr e) l l' ->
  exists pm, l' = apply_pm pm l /\
    forall m, In m l ->
      pm m = Some m
      \/ (pm m = Some (release (op_now x) m) /\ expired (op_now x) m = true /\ releases x = true)
      \/ (pm m = None /\ prunes x = true /\ prune_reason c (op_now x) m).
Proof.
  intros [pm [news [E [P N]]]]. exists pm. split.
  - destruct N as [N | [N _]]; [subst news; rewrite app_nil_r in E; exact E | apply enq_ok_res_ok in N; discriminate].
  - intros m Hm. specialize (P m Hm). destruct (pm m) as [m'|].
    + inversion P as [Es | Hr He Hp Es | | |]; subst; try (simpl in *; discriminate).
      * left. reflexivity.
      * right. left. repeat split; assumption.
      * match goal with H : In _ (item_pairs (RErr _)) |- _ => destruct H end.
    + right. right. split; [reflexivity|]. apply (removal_on_error c x e m P).
Qed.

Lemma spec_origin c x o r l l' m' :
  step_spec c x o r l l' -> In m' l' ->
  (exists m, In m l /\ same_imm m m' /\ edge_ok x (m_st m) (m_st m'))
  \/ (res_ok r = true /\ exists ies p, assign_ids (enq_list x) (o_genids o) = Some ies /\ In p ies
                                       /\ m' = mk_msg (op_now x) (fst p) (snd p)).
Proof.
  intros [pm [news [E [P N]]]] Hin. subst l'. apply in_app_or in Hin. destruct Hin as [Hin | Hin].
  - left. apply apply_pm_In in Hin. destruct Hin as [m [Hm Ep]]. exists m. split; [exact Hm|].
    specialize (P m Hm). rewrite Ep in P. split; [apply (change_same_imm c x r) | apply (change_edge c x r)]; exact P.
  - right. destruct N as [N | [Hok [ies [EA En]]]]; [subst; destruct Hin|].
    split; [apply (enq_ok_res_ok x); exact Hok|]. subst news. apply in_map_iff in Hin. destruct Hin as [p [Ep Hp]].
    exists ies, p. repeat split; auto.
Qed.

Lemma spec_fate c x o r l l' m :
  NoDup (ids l) -> step_spec c x o r l l' -> In m l ->
  (exists m', In m' l' /\ change c x r m m') \/ removal c x r m.
Proof.
  intros ND [pm [news [E [P N]]]] Hm. specialize (P m Hm). destruct (pm m) as [m'|] eqn:Ep.
  - left. exists m'. split; [|exact P]. subst l'. apply in_or_app. left. apply apply_pm_In. exists m. auto.
  - right. exact P.
Qed.
