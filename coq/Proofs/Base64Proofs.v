(** Lemmas about Model/Base64.v (C07): StdEncoding round trip for every byte string. *)
From Coq Require Import List NArith ZArith Bool Lia ZifyN.
From HK Require Import Model.Headers Model.Base64.
Import ListNotations.
Open Scope N_scope.

Ltac Zify.zify_post_hook ::= Z.div_mod_to_equations.

Ltac nb64 :=
  unfold enc6, dec6, is_b64, is_lower, is_upper, is_digit, in_range, pad, is_newline in *;
  repeat match goal with
         | |- context [N.leb ?a ?b] => destruct (N.leb_spec a b)
         | |- context [N.eqb ?a ?b] => destruct (N.eqb_spec a b)
         | |- context [N.ltb ?a ?b] => destruct (N.ltb_spec a b)
         | _ : context [N.leb ?a ?b] |- _ => destruct (N.leb_spec a b)
         | _ : context [N.eqb ?a ?b] |- _ => destruct (N.eqb_spec a b)
         | _ : context [N.ltb ?a ?b] |- _ => destruct (N.ltb_spec a b)
         end; cbn [andb orb negb] in *; try lia; try congruence; try (exfalso; lia).

Definition range64 : list N := map N.of_nat (seq 0 64).

Lemma in_range64 : forall i, i < 64 -> In i range64.
Proof.
  intros i H. unfold range64. apply in_map_iff. exists (N.to_nat i). split; [lia | apply in_seq; lia].
Qed.

Lemma all64 : forall P : N -> bool, forallb P range64 = true -> forall i, i < 64 -> P i = true.
Proof. intros P H i Hi. rewrite forallb_forall in H. apply H. apply in_range64. auto. Qed.

Lemma dec6_enc6 : forall i, i < 64 -> dec6 (enc6 i) = Some i.
Proof.
  intros i H.
  pose proof (all64 (fun i => match dec6 (enc6 i) with Some j => j =? i | None => false end)
                    ltac:(vm_compute; reflexivity) i H) as E.
  cbv beta in E. destruct (dec6 (enc6 i)); try discriminate. apply N.eqb_eq in E. congruence.
Qed.

Lemma enc6_neq_pad : forall i, i < 64 -> (enc6 i =? pad) = false.
Proof.
  intros i H. apply negb_true_iff.
  exact (all64 (fun i => negb (enc6 i =? pad)) ltac:(vm_compute; reflexivity) i H).
Qed.

Lemma enc6_not_newline : forall i, i < 64 -> is_newline (enc6 i) = false.
Proof.
  intros i H. apply negb_true_iff.
  exact (all64 (fun i => negb (is_newline (enc6 i))) ltac:(vm_compute; reflexivity) i H).
Qed.

Lemma enc6_is_b64 : forall i, i < 64 -> is_b64 (enc6 i) = true.
Proof. intros i H. unfold is_b64. rewrite dec6_enc6; auto. Qed.

Lemma pad_not_newline : is_newline pad = false.
Proof. reflexivity. Qed.

(** the arithmetic core: splitting 24 bits into four sextets and back *)
Lemma sextets_lt : forall n, n < 16777216 ->
  n / 262144 < 64 /\ (n / 4096) mod 64 < 64 /\ (n / 64) mod 64 < 64 /\ n mod 64 < 64.
Proof. intros. repeat split; lia. Qed.

Lemma sx : forall a b c, a < 256 -> b < 256 -> c < 256 -> (a * 65536 + b * 256 + c) / 262144 = a / 4.
Proof. intros. lia. Qed.
Lemma sy : forall a b c, a < 256 -> b < 256 -> c < 256 ->
  ((a * 65536 + b * 256 + c) / 4096) mod 64 = (a mod 4) * 16 + b / 16.
Proof. intros. lia. Qed.
Lemma sz : forall a b c, a < 256 -> b < 256 -> c < 256 ->
  ((a * 65536 + b * 256 + c) / 64) mod 64 = (b mod 16) * 4 + c / 64.
Proof. intros. lia. Qed.
Lemma sw : forall a b c, a < 256 -> b < 256 -> c < 256 -> (a * 65536 + b * 256 + c) mod 64 = c mod 64.
Proof. intros. lia. Qed.
Lemma r1 : forall a b, a < 256 -> b < 256 -> ((a / 4) * 4 + ((a mod 4) * 16 + b / 16) / 16) mod 256 = a.
Proof. intros. lia. Qed.
Lemma r2 : forall a b c, a < 256 -> b < 256 -> c < 256 ->
  ((((a mod 4) * 16 + b / 16) mod 16) * 16 + ((b mod 16) * 4 + c / 64) / 4) mod 256 = b.
Proof. intros. lia. Qed.
Lemma r3 : forall b c, b < 256 -> c < 256 -> ((((b mod 16) * 4 + c / 64) mod 4) * 64 + c mod 64) mod 256 = c.
Proof. intros. lia. Qed.

Lemma quantum_roundtrip : forall a b c, a < 256 -> b < 256 -> c < 256 ->
  let n := a * 65536 + b * 256 + c in
  let x := n / 262144 in let y := (n / 4096) mod 64 in let z := (n / 64) mod 64 in let w := n mod 64 in
  (x * 4 + y / 16) mod 256 = a /\ ((y mod 16) * 16 + z / 4) mod 256 = b /\ ((z mod 4) * 64 + w) mod 256 = c.
Proof.
  intros a b c Ha Hb Hc. cbv zeta.
  rewrite (sx a b c), (sy a b c), (sz a b c), (sw a b c) by auto.
  repeat split; [apply r1 | apply r2 | apply r3]; auto.
Qed.

(** unfolding equations (no [simpl] on the numerals) *)
Lemma encode_3 : forall a b c tl,
  encode (a :: b :: c :: tl) =
  let n := a * 65536 + b * 256 + c in
  enc6 (n / 262144) :: enc6 ((n / 4096) mod 64) :: enc6 ((n / 64) mod 64) :: enc6 (n mod 64) :: encode tl.
Proof. reflexivity. Qed.

Lemma encode_2 : forall a b,
  encode [a; b] =
  let n := a * 65536 + b * 256 in
  [enc6 (n / 262144); enc6 ((n / 4096) mod 64); enc6 ((n / 64) mod 64); pad].
Proof. reflexivity. Qed.

Lemma encode_1 : forall a,
  encode [a] = let n := a * 65536 in [enc6 (n / 262144); enc6 ((n / 4096) mod 64); pad; pad].
Proof. reflexivity. Qed.

Lemma decode_q_full : forall x y z w rest, x < 64 -> y < 64 -> z < 64 -> w < 64 ->
  decode_q (enc6 x :: enc6 y :: enc6 z :: enc6 w :: rest) =
  match decode_q rest with
  | Some r => Some ((x * 4 + y / 16) mod 256 :: ((y mod 16) * 16 + z / 4) mod 256 :: ((z mod 4) * 64 + w) mod 256 :: r)
  | None => None
  end.
Proof.
  intros. cbn [decode_q].
  rewrite !dec6_enc6 by auto. rewrite !enc6_neq_pad by auto. reflexivity.
Qed.

Lemma decode_q_pad1 : forall x y z, x < 64 -> y < 64 -> z < 64 ->
  decode_q [enc6 x; enc6 y; enc6 z; pad] =
  Some [(x * 4 + y / 16) mod 256; ((y mod 16) * 16 + z / 4) mod 256].
Proof.
  intros. cbn [decode_q].
  rewrite !dec6_enc6 by auto. rewrite !enc6_neq_pad by auto. rewrite N.eqb_refl. reflexivity.
Qed.

Lemma decode_q_pad2 : forall x y, x < 64 -> y < 64 ->
  decode_q [enc6 x; enc6 y; pad; pad] = Some [(x * 4 + y / 16) mod 256].
Proof.
  intros. cbn [decode_q].
  rewrite !dec6_enc6 by auto. rewrite !N.eqb_refl. reflexivity.
Qed.

Definition wf (bs : bytes) : Prop := Forall (fun c => c < 256) bs.

Lemma wf_bytes_wf : forall s, wf_bytes s = true <-> wf s.
Proof.
  intros s. unfold wf_bytes, wf. rewrite forallb_forall, Forall_forall.
  split; intros H x Hx; specialize (H x Hx); [apply N.ltb_lt | apply N.ltb_lt]; auto.
Qed.

Lemma decode_q_encode_len : forall n bs, (length bs <= n)%nat -> wf bs -> decode_q (encode bs) = Some bs.
Proof.
  induction n as [|n IH]; intros bs Hl Hw.
  - destruct bs; simpl in Hl; [reflexivity | lia].
  - destruct bs as [|a [|b [|c tl]]].
    + reflexivity.
    + inversion Hw; subst. rewrite encode_1. cbv zeta.
      rewrite decode_q_pad2 by lia.
      destruct (quantum_roundtrip a 0 0 H1 ltac:(lia) ltac:(lia)) as [E1 _]. cbv zeta in E1.
      replace (a * 65536 + 0 * 256 + 0) with (a * 65536) in E1 by lia. rewrite E1. reflexivity.
    + inversion Hw as [|? ? Ha Hw']; subst. inversion Hw' as [|? ? Hb _]; subst.
      rewrite encode_2. cbv zeta.
      rewrite decode_q_pad1 by lia.
      destruct (quantum_roundtrip a b 0 Ha Hb ltac:(lia)) as [E1 [E2 _]]. cbv zeta in E1, E2.
      replace (a * 65536 + b * 256 + 0) with (a * 65536 + b * 256) in E1, E2 by lia. rewrite E1, E2. reflexivity.
    + inversion Hw as [|? ? Ha Hw1]; subst. inversion Hw1 as [|? ? Hb Hw2]; subst.
      inversion Hw2 as [|? ? Hc Hw3]; subst.
      rewrite encode_3. cbv zeta.
      rewrite decode_q_full by lia.
      rewrite IH by (auto; simpl in Hl; lia).
      destruct (quantum_roundtrip a b c Ha Hb Hc) as [E1 [E2 E3]].
      cbv zeta in E1, E2, E3. rewrite E1, E2, E3. reflexivity.
Qed.

(** ** output alphabet *)
Definition out_char (c : N) : Prop := is_b64 c = true \/ c = pad.

Lemma encode_alphabet : forall n bs, (length bs <= n)%nat -> wf bs -> Forall out_char (encode bs).
Proof.
  induction n as [|n IH]; intros bs Hl Hw.
  - destruct bs; simpl in Hl; [constructor | lia].
  - destruct bs as [|a [|b [|c tl]]].
    + constructor.
    + inversion Hw; subst. rewrite encode_1. cbv zeta.
      constructor; [left; apply enc6_is_b64; lia|].
      constructor; [left; apply enc6_is_b64; lia|].
      constructor; [right; reflexivity|]. constructor; [right; reflexivity|]. constructor.
    + inversion Hw as [|? ? Ha Hw']; subst. inversion Hw' as [|? ? Hb _]; subst.
      rewrite encode_2. cbv zeta.
      constructor; [left; apply enc6_is_b64; lia|].
      constructor; [left; apply enc6_is_b64; lia|].
      constructor; [left; apply enc6_is_b64; lia|].
      constructor; [right; reflexivity|]. constructor.
    + inversion Hw as [|? ? Ha Hw1]; subst. inversion Hw1 as [|? ? Hb Hw2]; subst.
      inversion Hw2 as [|? ? Hc Hw3]; subst.
      rewrite encode_3. cbv zeta.
      repeat (constructor; [left; apply enc6_is_b64; lia|]).
      apply IH; auto. simpl in Hl. lia.
Qed.

Lemma out_char_not_newline : forall c, out_char c -> is_newline c = false.
Proof.
  intros c [H | H].
  - unfold is_newline.
    destruct (N.eqb_spec c 13) as [E|E]; [subst; vm_compute in H; discriminate|].
    destruct (N.eqb_spec c 10) as [E2|E2]; [subst; vm_compute in H; discriminate|]. reflexivity.
  - subst. reflexivity.
Qed.

Lemma filter_id : forall (l : bytes), Forall (fun c => is_newline c = false) l ->
  filter (fun c => negb (is_newline c)) l = l.
Proof.
  induction l; intros H; simpl; auto. inversion H; subst. rewrite H2. simpl. f_equal. auto.
Qed.

(** the encoder emits 4 characters per started 3-byte group, padding only at the very end *)
Lemma encode_length : forall n bs, (length bs <= n)%nat ->
  length (encode bs) = (4 * ((length bs + 2) / 3))%nat.
Proof.
  induction n as [|n IH]; intros bs Hl.
  - destruct bs; simpl in Hl; [reflexivity | lia].
  - destruct bs as [|a [|b [|c tl]]]; try reflexivity.
    rewrite encode_3. cbv zeta. cbn [length]. rewrite IH by (simpl in Hl; lia).
    replace (S (S (S (length tl))) + 2)%nat with (1 * 3 + (length tl + 2))%nat by lia.
    rewrite Nat.div_add_l by lia. lia.
Qed.

Theorem b64_roundtrip : forall bs, wf bs -> decode (encode bs) = Some bs.
Proof.
  intros bs Hw. unfold decode. rewrite filter_id.
  - apply decode_q_encode_len with (n := length bs); auto.
  - eapply Forall_impl; [apply out_char_not_newline|].
    apply encode_alphabet with (n := length bs); auto.
Qed.

Theorem b64_alphabet : forall bs, wf bs ->
  Forall out_char (encode bs) /\ length (encode bs) = (4 * ((length bs + 2) / 3))%nat.
Proof.
  intros bs Hw. split.
  - apply encode_alphabet with (n := length bs); auto.
  - apply encode_length with (n := length bs); auto.
Qed.

(** decoding is injective on what the encoder produces: two payloads with the same
    payload_b64 are the same payload *)
Corollary b64_encode_injective : forall a b, wf a -> wf b -> encode a = encode b -> a = b.
Proof.
  intros a b Ha Hb H. apply b64_roundtrip in Ha. apply b64_roundtrip in Hb.
  rewrite H in Ha. congruence.
Qed.

(** ** examples (padding cases, the empty payload, NUL and 0xFF bytes) *)
Example b64_ex0 : encode [] = [] /\ decode [] = Some [].
Proof. split; reflexivity. Qed.
Example b64_ex1 : encode [0] = [65; 65; 61; 61] /\ decode [65; 65; 61; 61] = Some [0].
Proof. split; vm_compute; reflexivity. Qed.
Example b64_ex2 : encode [255; 0] = [47; 119; 65; 61] /\ decode [47; 119; 65; 61] = Some [255; 0].
Proof. split; vm_compute; reflexivity. Qed.
Example b64_ex3 : decode (encode [104; 0; 255; 10; 13]) = Some [104; 0; 255; 10; 13].
Proof. vm_compute. reflexivity. Qed.
(** strictness: bad character, missing padding, data after padding, URL alphabet *)
Example b64_bad1 : decode [65; 65; 65] = None. Proof. reflexivity. Qed.
Example b64_bad2 : decode [65; 65; 61; 61; 65; 65; 65; 65] = None. Proof. reflexivity. Qed.
Example b64_bad3 : decode [45; 95; 65; 65] = None. Proof. reflexivity. Qed.
Example b64_bad4 : decode [65; 32; 65; 65; 65] = None. Proof. reflexivity. Qed.
Example b64_newline_ok : decode [65; 10; 65; 13; 61; 10; 61; 10] = Some [0]. Proof. vm_compute. reflexivity. Qed.
