(** The micro-batch of the push dispatcher (Model/PushLoop.v) over the queue model:
    (1) whatever the batching, the stop index and the store flavour of lease mutations, the calls
        [run_items] issues carry exactly one settlement per leased item, of the prescribed kind
        ([run_items_settles_each_once], a permutation);
    (2) running such calls on the queue model, each while the leases are live, settles every named
        message by [lease_effect] of its own kind at the time of its call, reports no conflict and
        leaves every other message as it was ([run_calls_effect]). *)
From Coq Require Import List ZArith NArith Bool Lia Permutation QArith.
From HK Require Import Gen.Consts Model.Queue Model.QueueHash Model.QueueMon Model.Retry Model.Dispatcher Model.PushLoop
  Proofs.QueueBase Proofs.QueueInv Proofs.QueueInvStep Proofs.QueueStep Proofs.QueueLease.
Import ListNotations.
Open Scope Z_scope.

(** * Part 1: the calls carry every action exactly once *)

Lemma kind_eqb_eq a b : kind_eqb a b = true -> a = b.
Proof.
  destruct a, b; simpl; intros H; try discriminate; try reflexivity.
  - apply Z.eqb_eq in H. subst. reflexivity.
  - apply Z.eqb_eq in H. subst. reflexivity.
  - apply N.eqb_eq in H. subst. reflexivity.
Qed.

Definition group_acts (g : lease_kind * list N) : list act := map (fun l => (fst g, l)) (snd g).
Definition groups_acts (gs : list (lease_kind * list N)) : list act := flat_map group_acts gs.

Lemma add_group_perm k l gs : Permutation (groups_acts (add_group k l gs)) ((k, l) :: groups_acts gs).
Proof.
  induction gs as [|[k' ls] tl IH]; simpl.
  - apply Permutation_refl.
  - destruct (kind_eqb k k') eqn:E.
    + apply kind_eqb_eq in E. subst k'. unfold groups_acts. simpl. unfold group_acts at 1 3. simpl.
      rewrite map_app. simpl. rewrite <- app_assoc. simpl.
      apply Permutation_sym. apply Permutation_middle.
    + unfold groups_acts in *. simpl.
      eapply Permutation_trans; [apply Permutation_app_head; exact IH|].
      apply Permutation_sym. apply Permutation_middle.
Qed.

Lemma groups_fold_perm acts gs :
  Permutation (groups_acts (fold_left (fun gs a => add_group (fst a) (snd a) gs) acts gs)) (groups_acts gs ++ acts).
Proof.
  revert gs. induction acts as [|[k l] tl IH]; intros gs; simpl.
  - rewrite app_nil_r. apply Permutation_refl.
  - eapply Permutation_trans; [apply IH|].
    eapply Permutation_trans; [apply Permutation_app_tail; apply add_group_perm|].
    simpl. apply Permutation_middle.
Qed.

Lemma groups_perm acts : Permutation (groups_acts (groups acts)) acts.
Proof. unfold groups. apply (groups_fold_perm acts []). Qed.

Lemma three_way_split (A : Type) (p q r : A -> bool) (l : list A) :
  (forall x, (p x = true /\ q x = false /\ r x = false) \/ (p x = false /\ q x = true /\ r x = false)
             \/ (p x = false /\ q x = false /\ r x = true)) ->
  Permutation (filter p l ++ filter q l ++ filter r l) l.
Proof.
  intros H. induction l as [|g tl IH]; simpl; [apply Permutation_refl|].
  destruct (H g) as [[Hp [Hq Hr]] | [[Hp [Hq Hr]] | [Hp [Hq Hr]]]]; rewrite Hp, Hq, Hr.
  - simpl. apply perm_skip. exact IH.
  - apply Permutation_sym. eapply Permutation_trans; [|apply Permutation_middle].
    apply perm_skip. apply Permutation_sym. exact IH.
  - apply Permutation_sym. rewrite app_assoc. eapply Permutation_trans; [|apply Permutation_middle].
    apply perm_skip. rewrite <- app_assoc. apply Permutation_sym. exact IH.
Qed.

Lemma class_split (gs : list (lease_kind * list N)) :
  Permutation (filter (in_class 0) gs ++ filter (in_class 1) gs ++ filter (in_class_ge 2) gs) gs.
Proof.
  apply three_way_split. intros [k ls]. unfold in_class, in_class_ge. simpl.
  destruct k; simpl; [left | right; left | right; right | right; right]; repeat split; reflexivity.
Qed.

Lemma groups_acts_perm g1 g2 : Permutation g1 g2 -> Permutation (groups_acts g1) (groups_acts g2).
Proof. intros H. unfold groups_acts. apply Permutation_flat_map. exact H. Qed.

Lemma calls_acts_batches gs : calls_acts (map (fun g => SBatch (fst g) (snd g)) gs) = groups_acts gs.
Proof. induction gs as [|g tl IH]; simpl; [reflexivity|]. unfold calls_acts in *. simpl. rewrite IH. reflexivity. Qed.

Lemma calls_acts_singles acts : calls_acts (map (fun a => SOne (fst a) (snd a)) acts) = acts.
Proof. induction acts as [|[k l] tl IH]; simpl; [reflexivity|]. unfold calls_acts in *. simpl. rewrite IH. reflexivity. Qed.

Lemma calls_acts_app a b : calls_acts (a ++ b) = calls_acts a ++ calls_acts b.
Proof. unfold calls_acts. apply flat_map_app. Qed.

Lemma flush_perm bs acts : Permutation (calls_acts (flush bs acts)) acts.
Proof.
  unfold flush. destruct bs.
  - rewrite calls_acts_batches.
    eapply Permutation_trans; [apply groups_acts_perm; apply class_split|]. apply groups_perm.
  - rewrite calls_acts_singles. apply Permutation_refl.
Qed.

Lemma expected_O its : expected O its = map (fun i => (KNack 0, it_lease i)) its.
Proof. induction its as [|it tl IH]; simpl; [reflexivity|]. rewrite IH. reflexivity. Qed.

Lemma calls_acts_handback its :
  calls_acts (map (fun i => SOne (KNack 0) (it_lease i)) its) = map (fun i => (KNack 0, it_lease i)) its.
Proof. induction its as [|it tl IH]; simpl; [reflexivity|]. unfold calls_acts in *. simpl. rewrite IH. reflexivity. Qed.

(** every leased item - sent, unknown target, or not reached - gets exactly one settlement of the
    prescribed kind, and every action still pending is applied: nothing is dropped, nothing doubled *)
Theorem run_items_settles_each_once ub bs mb stop its pending :
  Permutation (calls_acts (run_items ub bs mb stop its pending)) (pending ++ expected stop its).
Proof.
  revert stop pending. induction its as [|it tl IH]; intros stop pending.
  - simpl. rewrite app_nil_r. apply flush_perm.
  - destruct stop as [|stop'].
    + cbn [run_items]. rewrite calls_acts_app, calls_acts_handback, expected_O.
      apply Permutation_app_tail. apply flush_perm.
    + cbn [run_items expected]. destruct (it_target it) as [rc|].
      * cbn [fst snd]. destruct (negb ub).
        -- change (calls_acts (SOne (settle_kind rc it) (it_lease it) :: ?x)) with ((settle_kind rc it, it_lease it) :: calls_acts x).
           eapply Permutation_trans; [apply perm_skip; apply IH|]. apply Permutation_middle.
        -- destruct (Nat.leb mb (length (pending ++ [(settle_kind rc it, it_lease it)]))).
           ++ rewrite calls_acts_app.
              eapply Permutation_trans; [apply Permutation_app; [apply flush_perm | apply IH]|].
              simpl. rewrite <- app_assoc. simpl. apply Permutation_refl.
           ++ eapply Permutation_trans; [apply IH|]. rewrite <- app_assoc. simpl. apply Permutation_refl.
      * change (calls_acts (SOne (KNack missing_target_backoff) (it_lease it) :: ?x))
          with ((KNack missing_target_backoff, it_lease it) :: calls_acts x).
        eapply Permutation_trans; [apply perm_skip; apply IH|]. apply Permutation_middle.
Qed.

Lemma expected_leases stop its : map snd (expected stop its) = map it_lease its.
Proof.
  revert stop. induction its as [|it tl IH]; intros stop; [destruct stop; reflexivity|].
  destruct stop as [|s']; cbn [expected map snd]; rewrite IH; reflexivity.
Qed.

Corollary run_items_leases ub bs mb stop its :
  Permutation (map snd (calls_acts (run_items ub bs mb stop its []))) (map it_lease its).
Proof.
  rewrite <- (expected_leases stop its). apply Permutation_map.
  apply (run_items_settles_each_once ub bs mb stop its []).
Qed.

(** the dispatcher never asks for an Extend *)
Lemma settle_kind_class rc it : kclass (settle_kind rc it) <> 3%nat.
Proof. unfold settle_kind. destruct (classify _ _ _); simpl; discriminate. Qed.

Lemma expected_class stop its k l : In (k, l) (expected stop its) -> kclass k <> 3%nat.
Proof.
  revert stop. induction its as [|it tl IH]; intros stop H; [destruct stop; destruct H|].
  destruct stop as [|s']; cbn [expected] in H; destruct H as [H | H].
  - inversion H; subst. simpl. discriminate.
  - apply (IH _ H).
  - inversion H; subst. destruct (it_target it); [apply settle_kind_class | simpl; discriminate].
  - apply (IH _ H).
Qed.

(** * Part 2: the calls on the queue model *)

(** the per-lease steps a list of timed calls amounts to; batched nacks carry the clamped delay *)
Definition norm_kind (k : lease_kind) : lease_kind :=
  match k with KNack d => KNack (Z.max d 0) | _ => k end.

Definition tact := (Z * lease_kind * N)%type.

Definition flat_call (tc : Z * scall) : list tact :=
  match snd tc with
  | SOne k l => [(fst tc, k, l)]
  | SBatch k ls => map (fun l => (fst tc, norm_kind k, l)) ls
  end.
Definition flat_calls (cs : list (Z * scall)) : list tact := flat_map flat_call cs.

Lemma lease_effect_norm c now k m : lease_effect c now (norm_kind k) m = lease_effect c now k m.
Proof. destruct k; simpl; try reflexivity. rewrite (Z.max_l (Z.max delay 0) 0); [reflexivity | lia]. Qed.

(** one lease mutation after the other *)
Fixpoint settle_seq (c : cfg) (acts : list tact) (ms : list msg) : list msg * bool :=
  match acts with
  | [] => (ms, true)
  | (t, k, x) :: tl =>
      match lease_one c t k x ms with
      | (ms1, LOk) => settle_seq c tl ms1
      | (ms1, LConflict _) => let '(ms2, _) := settle_seq c tl ms1 in (ms2, false)
      end
  end.

(** what the sequence does to one message: the effect of the (first) action naming its lease *)
Definition settle_pm (c : cfg) (acts : list tact) (m : msg) : option msg :=
  match m_lease m with
  | Some l =>
      match find (fun a : tact => N.eqb (snd a) l) acts with
      | Some (t, k, _) => lease_effect c t k m
      | None => Some m
      end
  | None => Some m
  end.

Definition live_for (acts : list tact) (ms : list msg) : Prop :=
  forall t k x, In (t, k, x) acts ->
    exists m, In m ms /\ m_lease m = Some x /\ is_leased m = true /\ forall t' k' x', In (t', k', x') acts -> t' < m_until m.

Lemma find_lease_holder x ms iss m :
  InvL ms iss -> In m ms -> m_lease m = Some x -> find_lease x ms = Some m.
Proof.
  intros I Hm L. destruct (find_lease x ms) as [m1|] eqn:F.
  - apply find_lease_Some in F. destruct F as [H1 L1]. f_equal. apply (inv_linj _ _ I m1 m x); assumption.
  - exfalso. apply (find_lease_None x ms F m Hm L).
Qed.

Lemma lease_one_live c now k x ms iss m :
  InvL ms iss -> In m ms -> m_lease m = Some x -> is_leased m = true -> now < m_until m ->
  lease_one c now k x ms = (apply_pm (pm_on_id (m_id m) (lease_effect c now k)) ms, LOk).
Proof.
  intros I Hm L Il Hu. unfold lease_one. rewrite (find_lease_holder x ms iss m I Hm L).
  rewrite Il. simpl. destruct (m_until m <=? now) eqn:E; [apply Z.leb_le in E; lia|]. reflexivity.
Qed.

Lemma lease_effect_clears c now k m m1 :
  kclass k <> 3%nat -> lease_effect c now k m = Some m1 -> m_lease m1 = None /\ m_id m1 = m_id m.
Proof.
  destruct k; simpl; intros Hk H; try (exfalso; apply Hk; reflexivity).
  - destruct (0 <? c_deliv_age c); inversion H; subst; split; reflexivity.
  - inversion H; subst; split; reflexivity.
  - inversion H; subst; split; reflexivity.
Qed.

Lemma apply_pm_on_other i f ms y :
  In y ms -> m_id y <> i -> In y (apply_pm (pm_on_id i f) ms).
Proof.
  intros Hy Hn. apply apply_pm_In. exists y. split; [exact Hy|].
  unfold pm_on_id. destruct (N.eqb (m_id y) i) eqn:E; [apply N.eqb_eq in E; contradiction | reflexivity].
Qed.

Theorem settle_seq_effect c iss acts : forall ms,
  InvL ms iss -> NoDup (map (fun a : tact => snd a) acts) ->
  (forall t k x, In (t, k, x) acts -> kclass k <> 3%nat) ->
  live_for acts ms ->
  settle_seq c acts ms = (apply_pm (settle_pm c acts) ms, true)
  /\ InvL (fst (settle_seq c acts ms)) iss.
Proof.
  induction acts as [|[[t k] x] tl IH]; intros ms I ND Hk Hl.
  - simpl. split; [|exact I]. f_equal. symmetry.
    rewrite <- (apply_pm_id ms) at 2. apply apply_pm_ext. intros m _. unfold settle_pm. simpl. destruct (m_lease m); reflexivity.
  - destruct (Hl t k x (or_introl eq_refl)) as [m [Hm [Lm [Il Hu]]]].
    assert (Ht : t < m_until m) by (apply (Hu t k x); left; reflexivity).
    cbn [settle_seq]. rewrite (lease_one_live c t k x ms iss m I Hm Lm Il Ht). cbv iota beta.
    set (pm1 := pm_on_id (m_id m) (lease_effect c t k)).
    set (ms1 := apply_pm pm1 ms).
    assert (I1 : InvL ms1 iss).
    { apply (lease_one_inv c t k x ms ms1 LOk iss); [apply (lease_one_live c t k x ms iss m I Hm Lm Il Ht) | exact I]. }
    cbn [map snd] in ND. apply NoDup_cons_iff in ND. destruct ND as [Hnx ND'].
    assert (Hk' : forall t0 k0 x0, In (t0, k0, x0) tl -> kclass k0 <> 3%nat) by (intros t0 k0 x0 H0; apply (Hk t0 k0 x0); right; exact H0).
    assert (Hl' : live_for tl ms1).
    { intros t0 k0 x0 H0. destruct (Hl t0 k0 x0 (or_intror H0)) as [y [Hy [Ly [Ily Huy]]]].
      assert (Nid : m_id y <> m_id m).
      { intros E. assert (y = m) by (apply (nodup_ids_inj ms y m (inv_nodup _ _ I) Hy Hm E)). subst y.
        assert (x0 = x) by congruence. subst x0. apply Hnx. apply in_map_iff. exists (t0, k0, x). split; [reflexivity | exact H0]. }
      exists y. split; [apply apply_pm_on_other; assumption|]. split; [exact Ly|]. split; [exact Ily|].
      intros t' k' x' H'. apply (Huy t' k' x'). right. exact H'. }
    destruct (IH ms1 I1 ND' Hk' Hl') as [E1 I2]. rewrite E1. split.
    + f_equal. unfold ms1. rewrite apply_pm_comp. apply apply_pm_ext. intros y Hy.
      unfold pm_comp, pm1, pm_on_id. destruct (N.eqb (m_id y) (m_id m)) eqn:Eid.
      * apply N.eqb_eq in Eid. assert (y = m) by (apply (nodup_ids_inj ms y m (inv_nodup _ _ I) Hy Hm Eid)). subst y.
        unfold settle_pm at 2. rewrite Lm. cbn [find snd]. rewrite N.eqb_refl.
        destruct (lease_effect c t k m) as [m1|] eqn:Ef; [|reflexivity].
        destruct (lease_effect_clears c t k m m1 (Hk t k x (or_introl eq_refl)) Ef) as [Lc _].
        unfold settle_pm. rewrite Lc. reflexivity.
      * unfold settle_pm. destruct (m_lease y) as [l|] eqn:Ly; [|reflexivity].
        cbn [find snd]. destruct (N.eqb x l) eqn:Exl; [|reflexivity].
        apply N.eqb_eq in Exl. subst l. exfalso. apply N.eqb_neq in Eid. apply Eid. f_equal.
        apply (inv_linj _ _ I y m x); assumption.
    + rewrite E1 in I2. exact I2.
Qed.

(** ** from the store calls to the per-lease sequence *)
Lemma lease_batch_seq c t k ls : forall ms,
  lease_batch c t k (map (fun l => LKnown l false) ls) ms =
  let '(ms', ok) := settle_seq c (map (fun l => (t, k, l)) ls) ms in
  (ms', snd (fst (lease_batch c t k (map (fun l => LKnown l false) ls) ms)), snd (lease_batch c t k (map (fun l => LKnown l false) ls) ms)).
Proof.
  induction ls as [|l tl IH]; intros ms; [reflexivity|].
  cbn [map lease_batch settle_seq]. destruct (lease_one c t k l ms) as [ms1 [|e]] eqn:E1.
  - specialize (IH ms1). destruct (lease_batch c t k (map (fun l0 => LKnown l0 false) tl) ms1) as [[ms' n] cs] eqn:E2.
    destruct (settle_seq c (map (fun l0 => (t, k, l0)) tl) ms1) as [ms2 ok]. simpl in *. inversion IH; subst. reflexivity.
  - specialize (IH ms1). destruct (lease_batch c t k (map (fun l0 => LKnown l0 false) tl) ms1) as [[ms' n] cs] eqn:E2.
    destruct (settle_seq c (map (fun l0 => (t, k, l0)) tl) ms1) as [ms2 ok]. simpl in *. inversion IH; subst. reflexivity.
Qed.

Lemma lease_batch_no_conflict c t k ls : forall ms,
  snd (settle_seq c (map (fun l => (t, k, l)) ls) ms) = true ->
  snd (lease_batch c t k (map (fun l => LKnown l false) ls) ms) = [].
Proof.
  induction ls as [|l tl IH]; intros ms H; [reflexivity|].
  cbn [map lease_batch settle_seq] in *. destruct (lease_one c t k l ms) as [ms1 [|e]] eqn:E1.
  - specialize (IH ms1 H). destruct (lease_batch c t k (map (fun l0 => LKnown l0 false) tl) ms1) as [[ms' n] cs]. simpl in *. exact IH.
  - destruct (settle_seq c (map (fun l0 => (t, k, l0)) tl) ms1) as [ms2 ok]. simpl in H. discriminate.
Qed.

Lemma settle_seq_app c a b ms :
  settle_seq c (a ++ b) ms =
  let '(ms1, ok1) := settle_seq c a ms in let '(ms2, ok2) := settle_seq c b ms1 in (ms2, ok1 && ok2).
Proof.
  revert ms. induction a as [|[[t k] x] tl IH]; intros ms.
  - simpl. destruct (settle_seq c b ms) as [ms2 ok2]. reflexivity.
  - cbn [app settle_seq]. destruct (lease_one c t k x ms) as [ms1 [|e]].
    + apply IH.
    + rewrite IH. destruct (settle_seq c tl ms1) as [ms2 ok1]. destruct (settle_seq c b ms2) as [ms3 ok2]. reflexivity.
Qed.

Definition call_kind (x : scall) : lease_kind := match x with SOne k _ | SBatch k _ => k end.

(** one call on the queue model is the per-lease sequence of its leases *)
Lemma step_call_seq fl c s t x :
  kclass (call_kind x) <> 3%nat ->
  let '(s1, r) := step fl c s (call_op t x) (mkOracle [] [] [] []) in
  let '(ms', ok) := settle_seq c (flat_call (t, x)) (msgs s) in
  s1 = set_msgs s ms' /\ (ok = true -> settled_ok r = true).
Proof.
  intros Hk. destruct x as [k l | k ls].
  - cbn [call_op step flat_call fst snd settle_seq]. unfold step_lease.
    assert (Hn : is_noop_extend k = false) by (destruct k; try reflexivity; exfalso; apply Hk; reflexivity).
    rewrite Hn. destruct (lease_one c t k l (msgs s)) as [ms1 [|[|]]]; simpl; split; try reflexivity; intros; discriminate.
  - cbn [call_op step flat_call fst snd].
    assert (Hb : batch_kind_ok k = true) by (destruct k; try reflexivity; exfalso; apply Hk; reflexivity).
    rewrite Hb. unfold step_lease_batch.
    change (match k with KNack d => KNack (Z.max d 0) | _ => k end) with (norm_kind k).
    pose proof (lease_batch_seq c t (norm_kind k) ls (msgs s)) as E.
    pose proof (lease_batch_no_conflict c t (norm_kind k) ls (msgs s)) as Ec.
    destruct (settle_seq c (map (fun l => (t, norm_kind k, l)) ls) (msgs s)) as [ms' ok] eqn:Es.
    destruct (lease_batch c t (norm_kind k) (map (fun l => LKnown l false) ls) (msgs s)) as [[ms2 n] cs] eqn:Eb.
    simpl in E. inversion E; subst ms2. split; [reflexivity|]. intros Hok. simpl in Ec. rewrite (Ec Hok). reflexivity.
Qed.

Lemma set_msgs_msgs s l : msgs (set_msgs s l) = l.
Proof. reflexivity. Qed.

Theorem run_calls_seq fl c cs : forall s,
  (forall t x, In (t, x) cs -> kclass (call_kind x) <> 3%nat) ->
  let '(s', rs) := run_calls fl c s cs in
  let '(ms', ok) := settle_seq c (flat_calls cs) (msgs s) in
  msgs s' = ms' /\ issued s' = issued s /\ (ok = true -> forallb settled_ok rs = true).
Proof.
  induction cs as [|[t x] tl IH]; intros s Hk.
  - simpl. repeat split; reflexivity.
  - cbn [run_calls flat_calls flat_map]. fold (flat_calls tl).
    pose proof (step_call_seq fl c s t x (Hk t x (or_introl eq_refl))) as H1.
    destruct (step fl c s (call_op t x) (mkOracle [] [] [] [])) as [s1 r].
    rewrite settle_seq_app.
    destruct (settle_seq c (flat_call (t, x)) (msgs s)) as [ms1 ok1]. destruct H1 as [E1 R1]. subst s1.
    assert (Hk' : forall t0 x0, In (t0, x0) tl -> kclass (call_kind x0) <> 3%nat) by (intros t0 x0 H0; apply (Hk t0 x0); right; exact H0).
    specialize (IH (set_msgs s ms1) Hk').
    destruct (run_calls fl c (set_msgs s ms1) tl) as [s2 rs]. rewrite set_msgs_msgs in IH.
    destruct (settle_seq c (flat_calls tl) ms1) as [ms2 ok2]. destruct IH as [E2 [E3 R2]].
    split; [exact E2|]. split; [exact E3|].
    intros Hok. apply andb_true_iff in Hok. destruct Hok as [H1 H2]. cbn [forallb]. rewrite (R1 H1), (R2 H2). reflexivity.
Qed.

(** ** the statement about the calls themselves *)
Definition calls_live (cs : list (Z * scall)) (ms : list msg) : Prop := live_for (flat_calls cs) ms.

Lemma flat_calls_leases cs :
  map (fun a : tact => snd a) (flat_calls cs) = map snd (calls_acts (map snd cs)).
Proof.
  induction cs as [|[t x] tl IH]; [reflexivity|].
  cbn [flat_calls flat_map map]. fold (flat_calls tl). unfold calls_acts in *. cbn [flat_map]. rewrite !map_app, IH. f_equal.
  destruct x as [k l | k ls]; unfold flat_call; cbn [call_acts fst snd map]; [reflexivity|]. rewrite !map_map. apply map_ext. intros a. reflexivity.
Qed.

Lemma flat_calls_class cs :
  (forall t x, In (t, x) cs -> kclass (call_kind x) <> 3%nat) ->
  forall t k l, In (t, k, l) (flat_calls cs) -> kclass k <> 3%nat.
Proof.
  intros Hk t k l H. unfold flat_calls in H. apply in_flat_map in H. destruct H as [[t0 x] [Hin Hf]].
  specialize (Hk t0 x Hin). destruct x as [k0 l0 | k0 ls]; simpl in Hf.
  - destruct Hf as [Hf | []]. inversion Hf; subst. exact Hk.
  - apply in_map_iff in Hf. destruct Hf as [l1 [Hf _]]. inversion Hf; subst. destruct k0; simpl in *; assumption.
Qed.

Theorem run_calls_effect fl c cs s :
  Inv s ->
  (forall t x, In (t, x) cs -> kclass (call_kind x) <> 3%nat) ->
  NoDup (map snd (calls_acts (map snd cs))) ->
  calls_live cs (msgs s) ->
  let '(s', rs) := run_calls fl c s cs in
  msgs s' = apply_pm (settle_pm c (flat_calls cs)) (msgs s) /\ forallb settled_ok rs = true /\ Inv s'.
Proof.
  intros I Hk ND Hl.
  pose proof (run_calls_seq fl c cs s Hk) as H.
  destruct (run_calls fl c s cs) as [s' rs].
  rewrite <- flat_calls_leases in ND.
  destruct (settle_seq_effect c (issued s) (flat_calls cs) (msgs s) I ND (flat_calls_class cs Hk) Hl) as [E I'].
  rewrite E in H. destruct H as [E1 [E2 R]]. split; [exact E1|]. split; [apply R; reflexivity|].
  unfold Inv. rewrite E1, E2. rewrite E in I'. exact I'.
Qed.

(** what happens to a single message *)
Corollary run_calls_message fl c cs s m :
  Inv s -> (forall t x, In (t, x) cs -> kclass (call_kind x) <> 3%nat) ->
  NoDup (map snd (calls_acts (map snd cs))) -> calls_live cs (msgs s) -> In m (msgs s) ->
  find_id (m_id m) (msgs (fst (run_calls fl c s cs))) = settle_pm c (flat_calls cs) m.
Proof.
  intros I Hk ND Hl Hm. pose proof (run_calls_effect fl c cs s I Hk ND Hl) as H.
  destruct (run_calls fl c s cs) as [s' rs]. destruct H as [E _]. simpl. rewrite E.
  rewrite find_id_apply_pm.
  - rewrite (find_id_In_NoDup _ _ (inv_nodup _ _ I) Hm). reflexivity.
  - intros a a' Ha. unfold settle_pm in Ha. destruct (m_lease a) as [l|]; [|inversion Ha; reflexivity].
    destruct (find _ _) as [[[t k] x]|]; [|inversion Ha; reflexivity].
    pose proof (lease_effect_imm c t k a a' Ha) as Him. unfold same_imm in Him. symmetry. apply Him.
  - apply (inv_nodup _ _ I).
Qed.

(** * Part 3: one micro-batch of the dispatcher on the queue *)

Lemma add_group_kinds (P : lease_kind -> Prop) k l gs :
  P k -> Forall (fun g => P (fst g)) gs -> Forall (fun g => P (fst g)) (add_group k l gs).
Proof.
  intros Hk H. induction H as [|[k' ls] tl Hg Htl IH]; simpl.
  - constructor; [exact Hk | constructor].
  - destruct (kind_eqb k k'); constructor; [exact Hg | exact Htl | exact Hg | exact IH].
Qed.

Lemma groups_kinds (P : lease_kind -> Prop) acts :
  (forall k l, In (k, l) acts -> P k) -> Forall (fun g => P (fst g)) (groups acts).
Proof.
  unfold groups. assert (G : forall gs, Forall (fun g => P (fst g)) gs -> (forall k l, In (k, l) acts -> P k) ->
    Forall (fun g => P (fst g)) (fold_left (fun gs a => add_group (fst a) (snd a) gs) acts gs)).
  { induction acts as [|[k l] tl IH]; intros gs Hg Ha; simpl; [exact Hg|].
    apply IH; [apply add_group_kinds; [apply (Ha k l); left; reflexivity | exact Hg] | intros k0 l0 H0; apply (Ha k0 l0); right; exact H0]. }
  intros Ha. apply G; [constructor | exact Ha].
Qed.

Lemma flush_kinds (P : lease_kind -> Prop) bs acts x :
  (forall k l, In (k, l) acts -> P k) -> In x (flush bs acts) -> P (call_kind x).
Proof.
  intros Ha Hx. unfold flush in Hx. destruct bs.
  - apply in_map_iff in Hx. destruct Hx as [g [E Hg]]. subst x. simpl.
    pose proof (groups_kinds P acts Ha) as F. rewrite Forall_forall in F. apply F.
    repeat (apply in_app_or in Hg; destruct Hg as [Hg | Hg]); try (apply filter_In in Hg; destruct Hg as [Hg _]; exact Hg).
  - apply in_map_iff in Hx. destruct Hx as [[k l] [E Hg]]. subst x. simpl. apply (Ha k l Hg).
Qed.

Lemma run_items_kinds ub bs mb : forall its stop pending x,
  (forall k l, In (k, l) pending -> kclass k <> 3%nat) ->
  In x (run_items ub bs mb stop its pending) -> kclass (call_kind x) <> 3%nat.
Proof.
  induction its as [|it tl IH]; intros stop pending x Hp Hx.
  - simpl in Hx. apply (flush_kinds (fun k => kclass k <> 3%nat) bs pending x Hp Hx).
  - destruct stop as [|stop'].
    + cbn [run_items] in Hx. apply in_app_or in Hx. destruct Hx as [Hx | Hx].
      * apply (flush_kinds (fun k => kclass k <> 3%nat) bs pending x Hp Hx).
      * apply in_map_iff in Hx. destruct Hx as [i [E _]]. subst x. simpl. discriminate.
    + cbn [run_items] in Hx. destruct (it_target it) as [rc|].
      * cbn [fst snd] in Hx. revert Hx. destruct (negb ub); intros Hx.
        -- destruct Hx as [Hx | Hx]; [subst x; simpl; apply settle_kind_class | apply (IH _ _ _ Hp Hx)].
        -- assert (Hp' : forall k l, In (k, l) (pending ++ [(settle_kind rc it, it_lease it)]) -> kclass k <> 3%nat).
           { intros k l H. apply in_app_or in H. destruct H as [H | [H | []]]; [apply (Hp k l H)|]. inversion H; subst. apply settle_kind_class. }
           match type of Hx with context [if ?b then _ else _] => revert Hx; destruct b; intros Hx end.
           ++ apply in_app_or in Hx. destruct Hx as [Hx | Hx].
              ** apply (flush_kinds (fun k => kclass k <> 3%nat) bs _ x Hp' Hx).
              ** apply (IH _ _ _ (fun k l (H : In (k, l) []) => match H with end) Hx).
           ++ apply (IH _ _ _ Hp' Hx).
      * destruct Hx as [Hx | Hx]; [subst x; simpl; discriminate | apply (IH _ _ _ Hp Hx)].
Qed.

Lemma find_by_lease (acts : list tact) a :
  NoDup (map (fun b : tact => snd b) acts) -> In a acts -> find (fun b : tact => N.eqb (snd b) (snd a)) acts = Some a.
Proof.
  induction acts as [|b tl IH]; intros ND H; [destruct H|].
  cbn [map] in ND. apply NoDup_cons_iff in ND. destruct ND as [Hn ND]. cbn [find].
  destruct H as [H | H].
  - subst b. rewrite N.eqb_refl. reflexivity.
  - destruct (N.eqb (snd b) (snd a)) eqn:E.
    + apply N.eqb_eq in E. exfalso. apply Hn. rewrite E. apply in_map_iff. exists a. split; [reflexivity | exact H].
    + apply (IH ND H).
Qed.

Lemma find_by_lease_none (acts : list tact) l :
  ~ In l (map (fun b : tact => snd b) acts) -> find (fun b : tact => N.eqb (snd b) l) acts = None.
Proof.
  induction acts as [|b tl IH]; intros H; [reflexivity|]. cbn [find].
  destruct (N.eqb (snd b) l) eqn:E.
  - apply N.eqb_eq in E. exfalso. apply H. left. exact E.
  - apply IH. intros H1. apply H. right. exact H1.
Qed.

(** an action carried by the calls appears in the per-lease sequence at the time of its call *)
Lemma act_in_flat cs k l :
  In (k, l) (calls_acts (map snd cs)) ->
  exists t k', In t (map fst cs) /\ In (t, k', l) (flat_calls cs) /\ (k' = k \/ k' = norm_kind k).
Proof.
  induction cs as [|[t x] tl IH]; intros H; [destruct H|].
  unfold calls_acts in H. cbn [map flat_map snd] in H. apply in_app_or in H. destruct H as [H | H].
  - exists t. destruct x as [k0 l0 | k0 ls]; simpl in H.
    + destruct H as [H | []]. inversion H; subst. exists k. split; [left; reflexivity|]. split; [left; reflexivity | left; reflexivity].
    + apply in_map_iff in H. destruct H as [l1 [E Hl]]. inversion E; subst. exists (norm_kind k). split; [left; reflexivity|].
      split; [|right; reflexivity]. unfold flat_calls. cbn [flat_map]. apply in_or_app. left. unfold flat_call. simpl.
      apply in_map_iff. exists l. split; [reflexivity | exact Hl].
  - destruct (IH H) as [t0 [k' [Ht [Hf Hk]]]]. exists t0, k'. split; [right; exact Ht|]. split; [|exact Hk].
    unfold flat_calls. cbn [flat_map]. apply in_or_app. right. exact Hf.
Qed.

Lemma flat_time cs t k l : In (t, k, l) (flat_calls cs) -> exists x, In (t, x) cs.
Proof.
  unfold flat_calls. intros H. apply in_flat_map in H. destruct H as [[t0 x] [Hin Hf]]. exists x.
  destruct x as [k0 l0 | k0 ls]; unfold flat_call in Hf; simpl in Hf.
  - destruct Hf as [Hf | []]. inversion Hf; subst. exact Hin.
  - apply in_map_iff in Hf. destruct Hf as [l1 [E _]]. inversion E; subst. exact Hin.
Qed.

Theorem micro_batch_on_queue fl c s ub bs mb stop its cs :
  Inv s -> map snd cs = run_items ub bs mb stop its [] ->
  NoDup (map it_lease its) ->
  (forall it, In it its -> exists m, In m (msgs s) /\ m_lease m = Some (it_lease it) /\ is_leased m = true
                                     /\ forall t x, In (t, x) cs -> t < m_until m) ->
  let s' := fst (run_calls fl c s cs) in
  forallb settled_ok (snd (run_calls fl c s cs)) = true /\ Inv s'
  /\ (forall m, In m (msgs s) -> (forall it, In it its -> m_lease m <> Some (it_lease it)) ->
                find_id (m_id m) (msgs s') = Some m)
  /\ (forall m k l, In m (msgs s) -> In (k, l) (expected stop its) -> m_lease m = Some l ->
                    exists t, In t (map fst cs) /\ find_id (m_id m) (msgs s') = lease_effect c t k m).
Proof.
  intros I Ecs NDi Hlive. cbv zeta.
  pose proof (run_items_settles_each_once ub bs mb stop its []) as P. rewrite <- Ecs in P. cbn [app] in P.
  assert (Hk : forall t x, In (t, x) cs -> kclass (call_kind x) <> 3%nat).
  { intros t x H. apply (run_items_kinds ub bs mb its stop [] x (fun k l (H0 : In (k, l) []) => match H0 with end)).
    assert (Hx : In x (map snd cs)) by (apply in_map_iff; exists (t, x); split; [reflexivity | exact H]).
    rewrite Ecs in Hx. exact Hx. }
  assert (Pl : Permutation (map snd (calls_acts (map snd cs))) (map it_lease its)).
  { rewrite <- (expected_leases stop its). apply Permutation_map. exact P. }
  assert (ND : NoDup (map snd (calls_acts (map snd cs)))).
  { apply (Permutation_NoDup (Permutation_sym Pl)). exact NDi. }
  assert (Hl : calls_live cs (msgs s)).
  { intros t k x H.
    assert (Hx : In x (map it_lease its)).
    { apply (Permutation_in _ Pl). rewrite <- flat_calls_leases. apply in_map_iff. exists (t, k, x). split; [reflexivity | exact H]. }
    apply in_map_iff in Hx. destruct Hx as [it [E Hit]]. destruct (Hlive it Hit) as [m [Hm [Lm [Il Hu]]]].
    exists m. split; [exact Hm|]. split; [rewrite <- E; exact Lm|]. split; [exact Il|].
    intros t' k' x' H'. destruct (flat_time cs t' k' x' H') as [x0 H0]. apply (Hu t' x0 H0). }
  pose proof (run_calls_effect fl c cs s I Hk ND Hl) as Heff.
  assert (Hmsg : forall m, In m (msgs s) -> find_id (m_id m) (msgs (fst (run_calls fl c s cs))) = settle_pm c (flat_calls cs) m).
  { intros m Hm. apply (run_calls_message fl c cs s m I Hk ND Hl Hm). }
  destruct (run_calls fl c s cs) as [s' rs]. destruct Heff as [E [R I']]. cbn [fst snd] in *.
  split; [exact R|]. split; [exact I'|]. split.
  - intros m Hm Hn. rewrite (Hmsg m Hm). unfold settle_pm. destruct (m_lease m) as [l|] eqn:Lm; [|reflexivity].
    rewrite find_by_lease_none; [reflexivity|]. rewrite flat_calls_leases. intros Hin.
    apply (Permutation_in _ Pl) in Hin. apply in_map_iff in Hin. destruct Hin as [it [Eit Hit]].
    apply (Hn it Hit). rewrite Eit. reflexivity.
  - intros m k l Hm Hexp Lm.
    assert (Hin : In (k, l) (calls_acts (map snd cs))) by (apply (Permutation_in _ (Permutation_sym P)); exact Hexp).
    destruct (act_in_flat cs k l Hin) as [t [k' [Ht [Hf Hk']]]]. exists t. split; [exact Ht|].
    rewrite (Hmsg m Hm). unfold settle_pm. rewrite Lm.
    assert (NDf : NoDup (map (fun b : tact => snd b) (flat_calls cs))) by (rewrite flat_calls_leases; exact ND).
    pose proof (find_by_lease (flat_calls cs) (t, k', l) NDf Hf) as Hfind. cbn [snd] in Hfind. rewrite Hfind.
    destruct Hk' as [Hk' | Hk']; subst k'; [reflexivity | apply lease_effect_norm].
Qed.
