(** C07, queue part: the content of a message (id, route, target, received_at, payload handle,
    header handle, trace handle) never changes while the message is stored - through
    dequeue, nack/redelivery, lease expiry, requeue, cancel/resume, pruning of *other*
    messages and a restart ([Reopen]).  Proved for every operation of Model/Queue.v, both
    flavours, every oracle. *)
From Coq Require Import List ZArith NArith Bool Lia.
From HK Require Import Model.Queue.
Import ListNotations.
Open Scope Z_scope.

Definition same_content (m m' : msg) : Prop :=
  m_id m = m_id m' /\ m_route m = m_route m' /\ m_target m = m_target m' /\ m_recv m = m_recv m' /\
  m_body m = m_body m' /\ m_hdr m = m_hdr m' /\ m_trace m = m_trace m'.

Lemma same_content_refl : forall m, same_content m m.
Proof. intros. repeat split. Qed.

Lemma same_content_trans : forall a b c, same_content a b -> same_content b c -> same_content a c.
Proof. unfold same_content. intros a b c H1 H2. intuition congruence. Qed.

Lemma upd_content : forall m s n r l u a, same_content m (upd m s n r l u a).
Proof. intros. repeat split. Qed.

(** every message of [l'] is a message of [l] with the same content *)
Definition pres (l l' : list msg) : Prop :=
  forall m', In m' l' -> exists m, In m l /\ same_content m m'.

Lemma pres_refl : forall l, pres l l.
Proof. intros l m H. exists m. split; auto. apply same_content_refl. Qed.

Lemma pres_trans : forall a b c, pres a b -> pres b c -> pres a c.
Proof.
  intros a b c H1 H2 m Hm. destruct (H2 m Hm) as [m1 [Hin1 Hc1]]. destruct (H1 m1 Hin1) as [m0 [Hin0 Hc0]].
  exists m0. split; auto. eapply same_content_trans; eauto.
Qed.

Definition pm_pres (pm : msg -> option msg) : Prop := forall m x, pm m = Some x -> same_content m x.

Lemma apply_pm_pres : forall pm l, pm_pres pm -> pres l (apply_pm pm l).
Proof.
  intros pm l Hpm. induction l as [|a tl IH]; intros m' H; simpl in *; try contradiction.
  destruct (pm a) as [x|] eqn:E.
  - destruct H as [H | H].
    + subst. exists a. split; auto.
    + destruct (IH m' H) as [m [Hin Hc]]. exists m. split; auto.
  - destruct (IH m' H) as [m [Hin Hc]]. exists m. split; auto.
Qed.

Lemma pm_sweep_pres : forall now, pm_pres (pm_sweep now).
Proof.
  intros now m x H. unfold pm_sweep in H. destruct (expired now m); inversion H; subst.
  - apply upd_content.
  - apply same_content_refl.
Qed.

Lemma pm_prune_age_pres : forall c now, pm_pres (pm_prune_age c now).
Proof. intros c now m x H. unfold pm_prune_age in H. destruct (prune_age_eligible c now m); inversion H. apply same_content_refl. Qed.

Lemma pm_remove_ids_pres : forall ids, pm_pres (pm_remove_ids ids).
Proof. intros ids m x H. unfold pm_remove_ids in H. destruct (memN (m_id m) ids); inversion H. apply same_content_refl. Qed.

Lemma pm_lease_pres : forall now ttl picked, pm_pres (pm_lease now ttl picked).
Proof.
  intros now ttl picked m x H. unfold pm_lease in H. destruct (lease_of picked (m_id m)); inversion H; subst.
  - apply upd_content.
  - apply same_content_refl.
Qed.

Lemma lease_effect_pres : forall c now k, pm_pres (lease_effect c now k).
Proof.
  intros c now k m x H. unfold lease_effect in H. destruct k.
  - destruct (0 <? c_deliv_age c); inversion H. apply upd_content.
  - inversion H. apply upd_content.
  - inversion H. apply upd_content.
  - inversion H. apply upd_content.
Qed.

Lemma pm_on_id_pres : forall i f, pm_pres f -> pm_pres (pm_on_id i f).
Proof.
  intros i f Hf m x H. unfold pm_on_id in H. destruct (N.eqb (m_id m) i); auto.
  inversion H. apply same_content_refl.
Qed.

Lemma manage_effect_pres : forall now k, pm_pres (manage_effect now k).
Proof. intros now k m x H. unfold manage_effect in H. destruct k; inversion H; apply upd_content. Qed.

Lemma pm_manage_pres : forall now k ids, pm_pres (pm_manage now k ids).
Proof.
  intros now k ids m x H. unfold pm_manage in H.
  destruct (memN (m_id m) ids && allowed_from k (m_st m)).
  - eapply manage_effect_pres; eauto.
  - inversion H. apply same_content_refl.
Qed.

Lemma sweep_pres : forall now l, pres l (sweep now l).
Proof. intros. apply apply_pm_pres. apply pm_sweep_pres. Qed.

Lemma prune_pres : forall c now hint s, pres (msgs s) (msgs (prune c now hint s)).
Proof.
  intros. unfold prune. destruct (prune_due c now (last_prune s)); [|apply pres_refl].
  simpl. unfold prune_msgs. eapply pres_trans; apply apply_pm_pres.
  - apply pm_prune_age_pres.
  - apply pm_remove_ids_pres.
Qed.

Lemma remove_id_pres : forall v l, pres l (remove_id v l).
Proof. intros. apply apply_pm_pres. apply pm_remove_ids_pres. Qed.

Lemma sql_make_room_pres : forall c fuel need hint l l',
  sql_make_room c fuel need hint l = Some l' -> pres l l'.
Proof.
  induction fuel as [|f IH]; intros need hint l l' H; simpl in H.
  - destruct (need <=? c_max_depth c); inversion H; subst. apply pres_refl.
  - destruct (need <=? c_max_depth c); [inversion H; subst; apply pres_refl|].
    destruct (sql_victim hint l) as [v|]; try discriminate.
    eapply pres_trans; [apply remove_id_pres | eapply IH; eauto].
Qed.

Lemma lease_one_pres : forall c now k l ms ms' out, lease_one c now k l ms = (ms', out) -> pres ms ms'.
Proof.
  intros c now k l ms ms' out H. unfold lease_one in H.
  destruct (find_lease l ms) as [m|]; [|inversion H; subst; apply pres_refl].
  destruct (negb (is_leased m)); [inversion H; subst; apply pres_refl|].
  destruct (m_until m <=? now); inversion H; subst; apply apply_pm_pres; apply pm_on_id_pres.
  - intros a x Hx. inversion Hx. apply upd_content.
  - apply lease_effect_pres.
Qed.

Lemma lease_batch_pres : forall c now k ls ms ms' n cs, lease_batch c now k ls ms = (ms', n, cs) -> pres ms ms'.
Proof.
  induction ls as [|l tl IH]; intros ms ms' n cs H; simpl in H.
  - inversion H; subst. apply pres_refl.
  - destruct l as [x p| |].
    + destruct (lease_one c now k x ms) as [ms1 out] eqn:E1.
      apply lease_one_pres in E1.
      destruct out; destruct (lease_batch c now k tl ms1) as [[ms2 n2] cs2] eqn:E2;
        inversion H; subst; eapply pres_trans; eauto.
    + destruct (lease_batch c now k tl ms) as [[ms2 n2] cs2] eqn:E2. inversion H; subst. eauto.
    + destruct (lease_batch c now k tl ms) as [[ms2 n2] cs2] eqn:E2. inversion H; subst. eauto.
Qed.

(** the messages an enqueue operation creates *)
Definition created (x : op) (o : oracle) (m : msg) : Prop :=
  exists now es ies i e,
    (x = EnqueueBatch now es \/ (exists e1, es = [e1] /\ x = Enqueue now e1)) /\
    assign_ids es (o_genids o) = Some ies /\ In (i, e) ies /\ m = mk_msg now i e.

Lemma step_enqueue_content : forall fl c now single es o s m',
  In m' (msgs (fst (step_enqueue fl c now single es o s))) ->
  (exists m, In m (msgs s) /\ same_content m m') \/
  (exists ies i e, assign_ids es (o_genids o) = Some ies /\ In (i, e) ies /\ m' = mk_msg now i e).
Proof.
  intros fl c now single es o s m' H. unfold step_enqueue in H.
  destruct es as [|e0 es0]; [left; simpl in H; apply pres_refl; auto|].
  remember (e0 :: es0) as es.
  set (s1 := prune c now (o_gone o) s) in *.
  assert (P1 : pres (msgs s) (msgs s1)) by apply prune_pres.
  destruct (assign_ids es (o_genids o)) as [ies|] eqn:Ea; [|left; simpl in H; apply pres_refl; auto].
  assert (Hnew : forall l2, pres (msgs s) l2 ->
            In m' (l2 ++ map (fun p => mk_msg now (fst p) (snd p)) ies) ->
            (exists m, In m (msgs s) /\ same_content m m') \/
            (exists ies0 i e, Some ies = Some ies0 /\ In (i, e) ies0 /\ m' = mk_msg now i e)).
  { intros l2 P2 Hin. apply in_app_or in Hin. destruct Hin as [Hin | Hin].
    - left. apply P2. auto.
    - right. apply in_map_iff in Hin. destruct Hin as [[i e] [Hm Hin]]. exists ies, i, e. auto. }
  destruct fl.
  - destruct (mem_plan c (Z.of_nat (length ies)) s1 (msgs s1)) as [victims|]; [|left; simpl in H; apply P1; auto].
    assert (P2 : pres (msgs s) (apply_pm (pm_remove_ids victims) (msgs s1))).
    { eapply pres_trans; [exact P1 | apply apply_pm_pres; apply pm_remove_ids_pres]. }
    destruct single.
    + destruct (pressure c (msgs s1)); [left; simpl in H; apply P1; auto|].
      match type of H with context [if ?b then _ else _] => destruct b end;
        [left; simpl in H; apply P1; auto | simpl in H; apply Hnew with (l2 := apply_pm (pm_remove_ids victims) (msgs s1)); auto].
    + match type of H with context [if ?b then _ else _] => destruct b end; [left; simpl in H; apply P1; auto|].
      destruct (pressure c (msgs s1)); [left; simpl in H; apply P1; auto|].
      simpl in H. apply Hnew with (l2 := apply_pm (pm_remove_ids victims) (msgs s1)); auto.
  - match type of H with
    | context [match ?room with Some _ => _ | None => _ end] => destruct room as [l2|] eqn:Eroom
    end; [|left; simpl in H; apply P1; auto].
    assert (P2 : pres (msgs s) l2).
    { eapply pres_trans; [exact P1|].
      destruct (0 <? c_max_depth c); [|inversion Eroom; subst; apply pres_refl].
      destruct (c_drop_oldest c).
      - eapply sql_make_room_pres; eauto.
      - destruct (c_max_depth c <? active (msgs s1) + Z.of_nat (length ies)); inversion Eroom; subst; apply pres_refl. }
    match type of H with context [if ?b then _ else _] => destruct b end; [|left; simpl in H; apply P1; auto].
    simpl in H. apply Hnew with (l2 := l2); auto.
Qed.

Theorem step_content : forall fl c s x o m',
  In m' (msgs (fst (step fl c s x o))) ->
  (exists m, In m (msgs s) /\ same_content m m') \/ created x o m'.
Proof.
  intros fl c s x o m' H. destruct x; cbn [step] in H.
  - apply step_enqueue_content in H. destruct H as [H | [ies [i [e0 [Ha [Hin Hm]]]]]]; auto.
    right. exists now, [e], ies, i, e0. repeat split; auto. right. exists e. auto.
  - apply step_enqueue_content in H. destruct H as [H | [ies [i [e0 [Ha [Hin Hm]]]]]]; auto.
    right. exists now, es, ies, i, e0. repeat split; auto.
  - (* Dequeue *)
    left. unfold step_dequeue in H.
    match type of H with
    | context [valid_pick _ _ _ _ (msgs ?s2) _ _] => set (st2 := s2) in *
    end.
    assert (P2 : pres (msgs s) (msgs st2)).
    { (* written so that it does not depend on the order of sweep and prune in either flavour *)
      subst st2. destruct fl; [| destruct (sql_sweep_due now (last_sweep (prune c now (o_gone o) s)))]; simpl;
        first [ apply prune_pres
              | eapply pres_trans; [apply prune_pres | apply sweep_pres]
              | eapply pres_trans;
                [apply sweep_pres | apply (prune_pres c now (o_gone o) (set_msgs s (sweep now (msgs s))))] ]. }
    destruct (valid_pick now route target (clamp_batch batch) (msgs st2) (issued st2) (o_picked o)); simpl in H.
    + apply (pres_trans _ _ _ P2 (apply_pm_pres _ _ (pm_lease_pres now (eff_ttl ttl) (o_picked o)))). auto.
    + apply P2. auto.
  - (* LeaseOp *)
    left. unfold step_lease in H. destruct (is_noop_extend k); [apply pres_refl; auto|].
    destruct l as [x p| |]; simpl in H; try (apply pres_refl; auto; fail).
    destruct (lease_one c now k x (msgs s)) as [l' out] eqn:E. apply lease_one_pres in E.
    destruct out as [|[|]]; simpl in H; apply E; auto.
  - (* LeaseBatch *)
    left. destruct (batch_kind_ok k); [|apply pres_refl; auto].
    unfold step_lease_batch in H.
    destruct (lease_batch c now (match k with KNack d => KNack (Z.max d 0) | _ => k end) ls (msgs s)) as [[ms' n] cs] eqn:E.
    apply lease_batch_pres in E. simpl in H. apply E. auto.
  - left. unfold step_manage in H. simpl in H. eapply apply_pm_pres; eauto. apply pm_manage_pres.
  - left. destruct k; simpl in H; try (apply pres_refl; auto; fail);
      unfold step_manage_f in H; destruct (f_preview f); simpl in H;
        try (apply pres_refl; auto; fail); (eapply apply_pm_pres; [apply pm_manage_pres | eauto]).
  - left. unfold step_list in H. destruct ord; simpl in H; apply prune_pres in H; auto.
  - left. unfold step_list_dead in H. simpl in H. apply prune_pres in H. auto.
  - left. apply pres_refl. auto.
  - left. unfold step_stats in H. simpl in H. apply prune_pres in H. auto.
  - left. destruct fl; simpl in H; apply pres_refl; auto.
Qed.

(** over whole histories: whatever is stored was put there by an enqueue of the history and
    still carries that enqueue's payload / header / trace handles *)
Definition origin (xs : list (op * oracle)) (m : msg) : Prop :=
  exists x o m0, In (x, o) xs /\ created x o m0 /\ same_content m0 m.

Lemma run_content : forall fl c xs pre s evs sf,
  (forall m, In m (msgs s) -> origin pre m) ->
  run fl c s xs = (evs, sf) ->
  forall m, In m (msgs sf) -> origin (pre ++ xs) m.
Proof.
  induction xs as [|[x o] tl IH]; intros pre s evs sf Hinv H m Hm; simpl in H.
  - inversion H; subst. rewrite app_nil_r. auto.
  - destruct (step fl c s x o) as [s' r] eqn:Es.
    destruct (run fl c s' tl) as [evs' sf'] eqn:Er. inversion H; subst.
    replace (pre ++ (x, o) :: tl) with ((pre ++ [(x, o)]) ++ tl) by (rewrite <- app_assoc; reflexivity).
    eapply IH; [|exact Er|exact Hm].
    intros m1 Hm1.
    assert (Hs : In m1 (msgs (fst (step fl c s x o)))) by (rewrite Es; auto).
    apply step_content in Hs. destruct Hs as [[m0 [Hin Hc]] | Hcr].
    + destruct (Hinv m0 Hin) as [x0 [o0 [mm [Hx [Hcr Hsc]]]]].
      exists x0, o0, mm. split; [apply in_or_app; auto | split; [auto | eapply same_content_trans; eauto]].
    + exists x, o, m1. split; [apply in_or_app; right; left; reflexivity | split; [auto | apply same_content_refl]].
Qed.

Theorem payload_preserved : forall fl c xs evs sf,
  run fl c init xs = (evs, sf) ->
  forall m, In m (msgs sf) ->
  exists x o now es ies i e,
    In (x, o) xs /\ (x = EnqueueBatch now es \/ (exists e1, es = [e1] /\ x = Enqueue now e1)) /\
    assign_ids es (o_genids o) = Some ies /\ In (i, e) ies /\
    m_id m = i /\ m_body m = e_body e /\ m_hdr m = e_hdr e /\ m_trace m = e_trace e /\
    m_route m = e_route e /\ m_target m = e_target e.
Proof.
  intros fl c xs evs sf H m Hm.
  pose proof (run_content fl c xs [] init evs sf (fun m H => match H with end) H m Hm) as Ho.
  simpl in Ho. destruct Ho as [x [o [m0 [Hin [[now [es [ies [i [e [Hx [Ha [Hie Hm0]]]]]]]] Hc]]]]].
  exists x, o, now, es, ies, i, e. subst m0.
  destruct Hc as [C1 [C2 [C3 [C4 [C5 [C6 C7]]]]]]. simpl in *.
  repeat split; auto.
Qed.

(** non-vacuity: enqueue, dequeue, nack, dequeue again, restart - the handles are the enqueued ones *)
Example payload_preserved_example :
  let e := mkEnq (Some 7%N) 1%N 2%N None None 41%N 42%N 43%N in
  let xs := [(Enqueue 10 e, mkOracle [] [] [] []);
             (Dequeue 20 None None 1 0, mkOracle [(7%N, 100%N)] [] [] []);
             (LeaseOp 30 (KNack 0) (LKnown 100%N false), mkOracle [] [] [] []);
             (Dequeue 40 None None 1 0, mkOracle [(7%N, 101%N)] [] [] []);
             (Reopen 50, mkOracle [] [] [] [])] in
  map (fun m => (m_id m, m_st m, m_attempt m, m_body m, m_hdr m, m_trace m)) (msgs (snd (run Sql (mkCfg 0 false 0 0 0 0 0 0) init xs)))
  = [(7%N, Leased, 2, 41%N, 42%N, 43%N)].
Proof. vm_compute. reflexivity. Qed.
