(** C04 - lease fencing: a lease operation takes effect only through the message's current,
    unexpired lease; anything else changes nothing except returning an expired message to the queue. *)
From Coq Require Import List ZArith NArith Bool Lia.
From HK Require Import Gen.Consts Model.Queue Model.QueueHash Model.QueueMon
  Proofs.QueueBase Proofs.QueueInv Proofs.QueueInvStep Proofs.QueueStep Proofs.QueueLease.
Import ListNotations.
Open Scope Z_scope.

(** the message a lease id currently fences, if any: leased under that id and not yet expired *)
Lemma current_spec now x l m :
  current now x l = Some m -> In m l /\ m_lease m = Some x /\ is_leased m = true /\ now < m_until m.
Proof.
  unfold current. destruct (find_lease x l) as [m1|] eqn:F; [|discriminate].
  destruct (is_leased m1 && (now <? m_until m1)) eqn:E; [|discriminate].
  intros H. inversion H; subst m1. apply find_lease_Some in F. destruct F as [A B].
  apply andb_true_iff in E. destruct E as [E1 E2]. apply Z.ltb_lt in E2. repeat split; assumption.
Qed.

Theorem lease_op_fenced fl c now k x p s s' r :
  Inv s -> is_noop_extend k = false -> step_lease fl c now k (LKnown x p) s = (s', r) ->
  exists pm, msgs s' = apply_pm pm (msgs s) /\
    match current now x (msgs s) with
    | Some m => r = RUnit /\ pm m = lease_effect c now k m
                /\ forall y, In y (msgs s) -> y <> m -> pm y = Some y
    | None => (r = RErr ENotFound \/ r = RErr EExpired) /\
              forall y, In y (msgs s) ->
                pm y = Some y
                \/ (m_lease y = Some x /\ expired now y = true /\ pm y = Some (release now y) /\ r = RErr EExpired)
    end.
Proof.
  intros I Hn H. unfold step_lease in H. rewrite Hn in H.
  destruct (lease_one c now k x (msgs s)) as [l' out] eqn:E.
  destruct (lease_one_pm c now k x (msgs s) l' out (issued s) I E) as [pm [El [Hpm [_ Hcur]]]].
  assert (Hmsgs : msgs s' = l') by (destruct out as [|[|]]; inversion H; subst; reflexivity).
  exists pm. split; [rewrite Hmsgs; exact El|].
  destruct (current now x (msgs s)) as [m|] eqn:Ec.
  - apply current_spec in Ec. destruct Ec as [Hm [Lm [Il Hu]]].
    destruct (Hcur m Hm Lm Il Hu) as [P Eo]. subst out. inversion H; subst. split; [reflexivity|]. split; [exact P|].
    intros y Hy Ny. destruct (Hpm y Hy) as [Q | [[lid [A [[B | []] _]]] | [lid [A [[B | []] _]]]]]; [exact Q | |];
      subst lid; exfalso; apply Ny; apply (inv_linj _ _ I y m x); assumption.
  - (* no current lease: the outcome cannot be LOk *)
    assert (Nok : out <> LOk).
    { intros Eo. subst out. unfold lease_one in E. unfold current in Ec.
      destruct (find_lease x (msgs s)) as [m1|]; [|discriminate].
      destruct (negb (is_leased m1)) eqn:El1; [discriminate|]. apply negb_false_iff in El1. rewrite El1 in Ec. simpl in Ec.
      destruct (m_until m1 <=? now) eqn:Eu; [discriminate|]. apply Z.leb_gt in Eu.
      assert (Hlt : (now <? m_until m1) = true) by (apply Z.ltb_lt; exact Eu). rewrite Hlt in Ec. discriminate. }
    split.
    + destruct out as [|[|]]; [contradiction | |]; inversion H; subst; [right | left]; reflexivity.
    + intros y Hy. destruct (Hpm y Hy) as [Q | [[lid [A [[B | []] [Cc D]]]] | [lid [A [[B | []] [Cc [D Ef]]]]]]].
      * left. exact Q.
      * subst lid. right. split; [exact A|]. split; [exact Cc|]. split; [exact D|].
        (* a release happened, so the outcome was LConflict true *)
        unfold lease_one in E. destruct (find_lease x (msgs s)) as [m1|] eqn:F.
        2:{ exfalso. apply (find_lease_None x (msgs s) F y Hy A). }
        apply find_lease_Some in F. destruct F as [H1 L1].
        assert (m1 = y) by (apply (inv_linj _ _ I m1 y x); assumption). subst m1.
        unfold expired in Cc. apply andb_true_iff in Cc. destruct Cc as [C1 C2]. rewrite C1, C2 in E. simpl in E.
        inversion E; subst out. inversion H; subst. reflexivity.
      * subst lid. exfalso. unfold current in Ec.
        destruct (find_lease x (msgs s)) as [m1|] eqn:F.
        2:{ apply (find_lease_None x (msgs s) F y Hy A). }
        apply find_lease_Some in F. destruct F as [H1 L1].
        assert (m1 = y) by (apply (inv_linj _ _ I m1 y x); assumption). subst m1.
        rewrite Cc in Ec. simpl in Ec. assert (Hlt : (now <? m_until y) = true) by (apply Z.ltb_lt; exact D).
        rewrite Hlt in Ec. discriminate.
Qed.

Theorem lease_op_unknown fl c now k s :
  is_noop_extend k = false ->
  step_lease fl c now k LBlank s = (s, RErr ENotFound) /\ step_lease fl c now k LUnknown s = (s, RErr ENotFound).
Proof. intros H. unfold step_lease. rewrite H. split; reflexivity. Qed.

Theorem extend_nonpositive_is_noop fl c now by_ l s : by_ <= 0 -> step_lease fl c now (KExtend by_) l s = (s, RUnit).
Proof. intros H. unfold step_lease, is_noop_extend. apply Z.leb_le in H. rewrite H. reflexivity. Qed.

(** batch calls: the same rule per lease id *)
Theorem lease_batch_fenced c now k ls s s' r :
  batch_kind_ok k = true -> Inv s -> step_lease_batch c now k ls s = (s', r) ->
  let k' := match k with KNack d => KNack (Z.max d 0) | _ => k end in
  exists pm, msgs s' = apply_pm pm (msgs s)
    /\ (forall m, In m (msgs s) -> lchange c now k' (known_leases ls) m (pm m))
    /\ (forall m x, In m (msgs s) -> m_lease m = Some x -> In x (known_leases ls) -> is_leased m = true ->
                    now < m_until m -> pm m = lease_effect c now k' m).
Proof.
  intros Hk I H. cbv zeta. unfold step_lease_batch in H.
  set (k' := match k with KNack d => KNack (Z.max d 0) | _ => k end) in *.
  assert (Hk' : batch_kind_ok k' = true) by (destruct k; exact Hk).
  destruct (lease_batch_pm c now k' ls (msgs s) (issued s) Hk' I) as [pm [E [H1 H2]]].
  destruct (lease_batch c now k' ls (msgs s)) as [[ms' n] cs]. inversion H; subst. simpl in E.
  exists pm. split; [exact E|]. split; assumption.
Qed.

(** ** operator mutations and releases void the lease; a voided lease id never comes back *)
Lemma manage_effect_clears now k m m' : manage_effect now k m = Some m' -> m_lease m' = None.
Proof. unfold manage_effect. destruct k; intros H; inversion H; reflexivity. Qed.

Lemma item_pairs_leases r i lid : In (i, lid) (item_pairs r) -> In lid (item_leases r).
Proof.
  unfold item_pairs, item_leases. intros H. apply in_map_iff in H. destruct H as [it [E Hit]].
  apply in_map_iff. exists it. split; [|exact Hit]. inversion E; reflexivity.
Qed.

Lemma change_lease_source c x r m m' l :
  change c x r m m' -> m_lease m' = Some l -> m_lease m = Some l \/ In l (item_leases r).
Proof.
  intros H L. destruct H as [E | _ _ _ E | route target b ttl lid m0 _ _ _ Hin _ E | k lid _ _ _ _ _ _ _ E | k _ _ _ E].
  - subst. left. exact L.
  - subst. discriminate.
  - subst. simpl in L. inversion L; subst. right. apply (item_pairs_leases r (m_id m)). exact Hin.
  - unfold lease_effect in E. destruct k.
    + destruct (0 <? c_deliv_age c); inversion E; subst; simpl in L; discriminate.
    + inversion E; subst; simpl in L; discriminate.
    + inversion E; subst; simpl in L. left. exact L.
    + inversion E; subst; simpl in L; discriminate.
  - apply manage_effect_clears in E. congruence.
Qed.

Lemma step_lease_source fl c s x o s' r m' l :
  Inv s -> step fl c s x o = (s', r) -> In m' (msgs s') -> m_lease m' = Some l ->
  (exists m, In m (msgs s) /\ m_lease m = Some l) \/ (~ In l (issued s) /\ In l (issued s')).
Proof.
  intros I H Hin L. destruct (step_sound fl c s x o s' r I H) as [pm [news [E [P N]]]].
  rewrite E in Hin. apply in_app_or in Hin. destruct Hin as [Hin | Hin].
  - apply apply_pm_In in Hin. destruct Hin as [m [Hm Ep]]. specialize (P m Hm). rewrite Ep in P.
    destruct (change_lease_source c x r m m' l P L) as [A | A]; [left; exists m; auto|].
    right. pose proof (step_issued fl c s x o) as SI. rewrite H in SI. simpl in SI.
    destruct SI as [[_ Hn] | [now [route [target [batch [ttl [_ [Ei [_ [D Er]]]]]]]]]].
    + rewrite Hn in A. destruct A.
    + rewrite Er in A. split; [apply D; exact A | rewrite Ei; apply in_or_app; right; exact A].
  - destruct N as [N | [_ [ies [_ En]]]]; [subst; destruct Hin|].
    subst news. apply in_map_iff in Hin. destruct Hin as [q [Eq _]]. subst m'. discriminate.
Qed.

Lemma step_issued_mono fl c s x o l : In l (issued s) -> In l (issued (fst (step fl c s x o))).
Proof.
  intros H. destruct (step_issued fl c s x o) as [[E _] | [now [route [target [batch [ttl [_ [E _]]]]]]]]; rewrite E;
    [exact H | apply in_or_app; left; exact H].
Qed.

Theorem voided_lease_never_returns fl c s xs l :
  Inv s -> In l (issued s) -> (forall m, In m (msgs s) -> m_lease m <> Some l) ->
  forall m, In m (msgs (snd (run fl c s xs))) -> m_lease m <> Some l.
Proof.
  revert s. induction xs as [|[x o] tl IH]; simpl; intros s I Hi Hn; [exact Hn|].
  pose proof (step_inv fl c s x o I) as I1. pose proof (step_issued_mono fl c s x o l Hi) as Hi1.
  pose proof (step_lease_source fl c s x o) as Src.
  destruct (step fl c s x o) as [s' r] eqn:E. simpl in I1, Hi1.
  assert (Hn1 : forall m, In m (msgs s') -> m_lease m <> Some l).
  { intros m' Hm' L. destruct (Src s' r m' l I eq_refl Hm' L) as [[m [Hm Lm]] | [Nin _]].
    - apply (Hn m Hm Lm).
    - contradiction. }
  specialize (IH s' I1 Hi1 Hn1). destruct (run fl c s' tl) as [evs sf]. exact IH.
Qed.
