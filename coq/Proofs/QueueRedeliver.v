(** C05 - at-least-once redelivery: dequeue cardinality, not-before, visibility of expired leases
    (immediately on the memory backend, within the sweep interval on SQLite). *)
From Coq Require Import List ZArith NArith Bool Lia.
From HK Require Import Gen.Consts Model.Queue Model.QueueHash Model.QueueMon
  Proofs.QueueBase Proofs.QueueInv Proofs.QueueInvStep Proofs.QueueStep Proofs.QueueLease.
Import ListNotations.
Open Scope Z_scope.

(** a nack schedules exactly now + max(delay, 0); the message is then queued *)
Theorem nack_schedule c now d m m' :
  lease_effect c now (KNack d) m = Some m' -> m_st m' = Queued /\ m_next m' = now + Z.max d 0 /\ m_lease m' = None.
Proof. intros H. inversion H; subst. repeat split. Qed.

(** a message is offered only when its next_run_at has come *)
Theorem ready_is_due now route target m : ready now route target m = true -> m_st m = Queued /\ m_next m <= now.
Proof.
  unfold ready, queuedb. rewrite !andb_true_iff. intros [[[A _] _] B]. split; [|apply Z.leb_le; exact B].
  destruct (m_st m); simpl in A; try discriminate. reflexivity.
Qed.

(** whatever changes next_run_at sets it to the operation's own time or later: nothing makes a
    message visible earlier than "now", and only a release/operator action/settlement moves it at all *)
Theorem next_run_never_set_into_past c x r m m' :
  change c x r m m' -> m_next m' = m_next m \/ op_now x <= m_next m'.
Proof.
  intros H. destruct H as [E | _ _ _ E | route target b ttl lid m0 _ _ _ _ _ E | k lid _ _ _ _ Hu _ Hne E | k _ _ _ E].
  - subst. left. reflexivity.
  - subst. right. simpl. lia.
  - subst. right. simpl. pose proof (eff_ttl_pos ttl). lia.
  - right. unfold lease_effect in E. destruct k.
    + destruct (0 <? c_deliv_age c); inversion E; subst; simpl; lia.
    + inversion E; subst; simpl; lia.
    + inversion E; subst; simpl. unfold is_noop_extend in Hne. apply Z.leb_gt in Hne. lia.
    + inversion E; subst; simpl; lia.
  - right. unfold manage_effect in E. destruct k; inversion E; subst; simpl; lia.
Qed.

(** ** expired leases become visible again *)
Lemma leased_not_pruned c now hint s m :
  NoDup (ids (msgs s)) -> In m (msgs s) -> is_leased m = true -> prune_pm c now hint s m = Some m.
Proof.
  intros ND Hm L. destruct (prune_pm_cases c now hint s m ND Hm) as [E | [_ [N _]]]; [exact E | congruence].
Qed.

Lemma deq_pre_pm_id_pres fl c now o s : id_pres (deq_pre_pm fl c now o s).
Proof.
  unfold deq_pre_pm. apply imm_pres_id_pres. apply pm_comp_imm; [apply prune_pm_imm|].
  destruct (match fl with Mem => true | Sql => _ end); auto with qimm.
Qed.

Theorem expiry_visible fl c now o s m :
  Inv s -> In m (msgs s) -> expired now m = true ->
  (fl = Mem \/ sql_sweep_due now (last_sweep s) = true) ->
  find_id (m_id m) (msgs (deq_pre fl c now o s)) = Some (release now m)
  /\ forall route target, opt_match route (m_route m) = true -> opt_match target (m_target m) = true ->
                          ready now route target (release now m) = true.
Proof.
  intros I Hm He Hs. split.
  - rewrite deq_pre_msgs, find_id_apply_pm; [|apply deq_pre_pm_id_pres | apply I].
    rewrite (find_id_In_NoDup (msgs s) m (inv_nodup _ _ I) Hm).
    unfold deq_pre_pm, pm_comp. rewrite (leased_not_pruned c now (o_gone o) s m (inv_nodup _ _ I) Hm).
    + assert (Sw : match fl with Mem => true | Sql => sql_sweep_due now (last_sweep s) end = true)
        by (destruct Hs as [Hs | Hs]; [subst; reflexivity | destruct fl; [reflexivity | exact Hs]]).
      rewrite Sw. unfold pm_sweep. rewrite He. reflexivity.
    + unfold expired in He. apply andb_true_iff in He. apply He.
  - intros route target Hr Ht. unfold ready, queuedb. simpl. rewrite Hr, Ht. simpl. apply Z.leb_le. lia.
Qed.

(** ** SQLite: the lease sweep is throttled, the delay is bounded by the sweep interval.
    Invariant of histories whose clock never runs backwards: every live lease ends after the last sweep. *)
Definition swept (s : state) (t : Z) : Prop :=
  0 <= last_sweep s /\ last_sweep s <= t /\ forall m, In m (msgs s) -> is_leased m = true -> last_sweep s < m_until m.

Lemma sweep_leaves_live now l m : In m (sweep now l) -> is_leased m = true -> now < m_until m.
Proof.
  unfold sweep. intros H L. apply apply_pm_In in H. destruct H as [m0 [_ E]]. unfold pm_sweep in E.
  destruct (expired now m0) eqn:Ee; inversion E; subst.
  - discriminate.
  - unfold expired in Ee. rewrite L in Ee. simpl in Ee. apply Z.leb_gt in Ee. exact Ee.
Qed.

Lemma step_last_sweep c s x o :
  (forall now route target batch ttl, x <> Dequeue now route target batch ttl) -> (forall now, x <> Reopen now) ->
  last_sweep (fst (step Sql c s x o)) = last_sweep s.
Proof.
  intros Nd Nr. destruct x; cbn [step].
  - unfold step_enqueue. cbn [app]. set (s1 := prune c now (o_gone o) s).
    assert (E1 : last_sweep s1 = last_sweep s) by apply prune_last_sweep.
    destruct (assign_ids [e] (o_genids o)); [|reflexivity].
    match goal with |- last_sweep (fst (match ?rm with _ => _ end)) = _ => destruct rm end; [|exact E1].
    destruct (_ && _); exact E1.
  - unfold step_enqueue. destruct es as [|e0 es0]; [reflexivity|].
    set (s1 := prune c now (o_gone o) s).
    assert (E1 : last_sweep s1 = last_sweep s) by apply prune_last_sweep.
    destruct (assign_ids (e0 :: es0) (o_genids o)); [|reflexivity].
    match goal with |- last_sweep (fst (match ?rm with _ => _ end)) = _ => destruct rm end; [|exact E1].
    destruct (_ && _); exact E1.
  - exfalso. apply (Nd now route target batch ttl). reflexivity.
  - unfold step_lease. destruct (is_noop_extend k); [reflexivity|].
    destruct l; try reflexivity. destruct (lease_one c now k l (msgs s)) as [l' [|[|]]]; reflexivity.
  - destruct (batch_kind_ok k); [|reflexivity]. unfold step_lease_batch.
    destruct (lease_batch c now _ ls (msgs s)) as [[ms' n] cs]. reflexivity.
  - reflexivity.
  - destruct k; try reflexivity; unfold step_manage_f; destruct (f_preview f); reflexivity.
  - unfold step_list. destruct ord; simpl; apply prune_last_sweep.
  - unfold step_list_dead. simpl. apply prune_last_sweep.
  - reflexivity.
  - unfold step_stats. simpl. apply prune_last_sweep.
  - exfalso. apply (Nr now). reflexivity.
Qed.

Lemma change_keeps_lease_end c x r m m' :
  change c x r m m' -> is_leased m' = true ->
  (is_leased m = true /\ m_until m <= m_until m') \/ (exists now route target batch ttl, x = Dequeue now route target batch ttl).
Proof.
  intros H L. destruct H as [E | _ _ _ E | route target b ttl lid m0 Ex _ _ _ _ E | k lid _ _ _ Il _ _ Hne E | k _ _ _ E].
  - subst. left. split; [exact L | lia].
  - subst. discriminate.
  - right. exists (op_now x), route, target, b, ttl. exact Ex.
  - unfold lease_effect in E. destruct k.
    + destruct (0 <? c_deliv_age c); inversion E; subst; discriminate.
    + inversion E; subst; discriminate.
    + inversion E; subst. left. split; [exact Il|]. simpl. unfold is_noop_extend in Hne. apply Z.leb_gt in Hne. lia.
    + inversion E; subst; discriminate.
  - unfold manage_effect in E. destruct k; inversion E; subst; discriminate.
Qed.

Lemma step_swept c s x o t :
  Inv s -> swept s t -> t <= op_now x -> swept (fst (step Sql c s x o)) (op_now x).
Proof.
  intros I [S0 [S1 S2]] Ht.
  destruct x as [now e|now es|now route target batch ttl|now k l|now k ls|now k idl|now k f|now f ord|now route limit before|now idl|now|now].
  all: cbn [op_now] in Ht.
  3:{ (* dequeue *)
      cbn [step op_now]. rewrite step_dequeue_eq. cbv zeta. unfold deq_pre.
      set (s1 := prune c now (o_gone o) s).
      assert (Els : last_sweep s1 = last_sweep s) by apply prune_last_sweep.
      assert (S2' : forall m, In m (msgs s1) -> is_leased m = true -> last_sweep s < m_until m).
      { intros m Hm L. unfold s1 in Hm. rewrite prune_msgs_eq in Hm. apply apply_pm_In in Hm. destruct Hm as [m0 [H0 E]].
        apply prune_pm_same in E. subst m0. apply S2; assumption. }
      rewrite Els.
      destruct (sql_sweep_due now (last_sweep s)) eqn:Ed.
      - (* sweeping *)
        match goal with |- swept (fst (if ?v then _ else _)) _ => destruct v eqn:V end; unfold swept; cbn [fst last_sweep msgs].
        + split; [lia|]. split; [lia|]. intros m Hm L. apply apply_pm_In in Hm. destruct Hm as [m0 [H0 E]].
          unfold pm_lease in E. destruct (lease_of (o_picked o) (m_id m0)); inversion E; subst.
          * simpl. pose proof (eff_ttl_pos ttl). lia.
          * apply (sweep_leaves_live now (msgs s1)); assumption.
        + split; [lia|]. split; [lia|]. intros m Hm L. apply (sweep_leaves_live now (msgs s1)); assumption.
      - match goal with |- swept (fst (if ?v then _ else _)) _ => destruct v eqn:V end; unfold swept; cbn [fst last_sweep msgs]; rewrite ?Els.
        + split; [lia|]. split; [lia|]. intros m Hm L. apply apply_pm_In in Hm. destruct Hm as [m0 [H0 E]].
          unfold pm_lease in E. destruct (lease_of (o_picked o) (m_id m0)); inversion E; subst.
          * simpl. pose proof (eff_ttl_pos ttl). lia.
          * apply S2'; assumption.
        + split; [lia|]. split; [lia|]. exact S2'. }
  11:{ (* reopen *)
       unfold swept; cbn [step op_now fst last_sweep msgs]. split; [lia|]. split; [lia|]. intros m Hm L. specialize (S2 m Hm L). lia. }
  all: match goal with |- swept (fst (step Sql ?c0 ?s0 ?x ?o0)) _ =>
         assert (Els : last_sweep (fst (step Sql c0 s0 x o0)) = last_sweep s0) by (apply step_last_sweep; intros; discriminate);
         pose proof (step_sound Sql c0 s0 x o0) as SS;
         destruct (step Sql c0 s0 x o0) as [s' r] eqn:Es; cbn [fst] in *;
         specialize (SS s' r I eq_refl); destruct SS as [pm [news [E [P N]]]];
         unfold swept;
         (split; [rewrite Els; exact S0|]); (split; [rewrite Els; cbn [op_now]; lia|]);
         intros m' Hm' L; rewrite Els; rewrite E in Hm'; apply in_app_or in Hm'; destruct Hm' as [Hm' | Hm'];
         [ apply apply_pm_In in Hm'; destruct Hm' as [m [Hm Ep]]; specialize (P m Hm); rewrite Ep in P;
           destruct (change_keeps_lease_end c0 x r m m' P L) as [[Lm Hu] | [n0 [r0 [t0 [b0 [tt0 Ex]]]]]];
           [specialize (S2 m Hm Lm); lia | discriminate]
         | destruct N as [N | [_ [ies [_ En]]]]; [subst news; destruct Hm' | subst news; apply in_map_iff in Hm'; destruct Hm' as [q [Eq _]]; subst m'; discriminate] ]
       end.
Qed.

(** the bounded delay: once a lease has been expired for at least the sweep interval, the next dequeue sweeps *)
Theorem sql_expiry_bounded_delay c s t now o m :
  Inv s -> swept s t -> t <= now -> In m (msgs s) -> is_leased m = true ->
  m_until m <= now - sql_sweep_interval_ns ->
  sql_sweep_due now (last_sweep s) = true
  /\ find_id (m_id m) (msgs (deq_pre Sql c now o s)) = Some (release now m).
Proof.
  intros I [S0 [S1 S2]] Ht Hm L Hu.
  assert (Due : sql_sweep_due now (last_sweep s) = true).
  { unfold sql_sweep_due. apply negb_true_iff. apply Z.ltb_ge. specialize (S2 m Hm L). lia. }
  split; [exact Due|].
  apply expiry_visible; auto. unfold expired. rewrite L. simpl. apply Z.leb_le.
  unfold sql_sweep_interval_ns in Hu. lia.
Qed.

(** monotone histories keep the invariant *)
Fixpoint monotone_from (t : Z) (xs : list (op * oracle)) : Prop :=
  match xs with
  | [] => True
  | (x, _) :: tl => t <= op_now x /\ monotone_from (op_now x) tl
  end.

Definition last_time (t : Z) (xs : list (op * oracle)) : Z :=
  fold_left (fun _ xo => op_now (fst xo)) xs t.

Theorem swept_along_monotone_histories c s t xs :
  Inv s -> swept s t -> monotone_from t xs -> swept (snd (run Sql c s xs)) (last_time t xs).
Proof.
  revert s t. induction xs as [|[x o] tl IH]; simpl; intros s t I S M; [exact S|].
  destruct M as [M1 M2].
  pose proof (step_inv Sql c s x o I) as I1. pose proof (step_swept c s x o t I S M1) as S1.
  destruct (step Sql c s x o) as [s' r]. simpl in I1, S1. specialize (IH s' (op_now x) I1 S1 M2).
  destruct (run Sql c s' tl) as [evs sf]. exact IH.
Qed.

Lemma swept_init : swept init 0.
Proof. unfold swept, init; simpl. split; [lia|]. split; [lia|]. intros m []. Qed.

(** ** no ready message is starved while capacity is requested: when the clamped batch is at least the
    number of ready messages, every ready message is returned *)
Lemma filter_ids_NoDup (p : msg -> bool) l : NoDup (ids l) -> NoDup (ids (filter p l)).
Proof.
  induction l as [|a tl IH]; simpl; intros ND; [constructor|]. inversion ND as [|? ? Ha Htl]; subst.
  destruct (p a); simpl; [constructor|]; try (apply IH; exact Htl).
  intros Hin. apply Ha. unfold ids in *. apply in_map_iff in Hin. destruct Hin as [y [Ey Hy]]. apply filter_In in Hy.
  apply in_map_iff. exists y. split; [exact Ey | apply Hy].
Qed.

Theorem dequeue_returns_all_when_capacity fl c now route target batch ttl o s s' items m :
  Inv s -> step_dequeue fl c now route target batch ttl o s = (s', RItems items) ->
  let s2 := deq_pre fl c now o s in
  Z.of_nat (length (filter (ready now route target) (msgs s2))) <= clamp_batch batch ->
  In m (msgs s2) -> ready now route target m = true ->
  In (m_id m) (map (fun it => fst (fst (fst it))) items).
Proof.
  intros I H s2 Hcap Hm Hr.
  pose proof (deq_pre_inv fl c now o s I) as I2. fold s2 in I2.
  destruct (dequeue_sound fl c now route target batch ttl o s s' items I H) as [A [_ [Len Hall]]]. fold s2 in Len, Hall.
  set (rids := ids (filter (ready now route target) (msgs s2))).
  set (pids := map (fun it : N * N * Z * Z => fst (fst (fst it))) items).
  assert (NDr : NoDup rids) by (apply filter_ids_NoDup; apply I2).
  assert (Hlen : (length rids <= length pids)%nat).
  { unfold rids, pids, ids. rewrite !map_length. lia. }
  assert (Hincl : incl pids rids).
  { intros i Hi. unfold pids in Hi. apply in_map_iff in Hi. destruct Hi as [[[[i0 l0] a0] u0] [Ei Hit]]. simpl in Ei. subst i0.
    destruct (Hall _ _ _ _ Hit) as [m0 [F [R _]]]. apply find_id_Some in F. destruct F as [Hin Eid]. subst i.
    unfold rids, ids. apply in_map. apply filter_In. split; assumption. }
  (* a duplicate-free list of at least the same length that is included covers the other one *)
  assert (Hback : incl rids pids).
  { apply (@NoDup_length_incl N pids rids A Hlen Hincl). }
  apply Hback. unfold rids, ids. apply in_map. apply filter_In. split; assumption.
Qed.
