(** The state-machine tables extracted from the Go sources (Gen/Transitions.v, regenerated on every
    run by translate/transitions.go) agree with Model/Queue.v and with each other.  The tables are
    finite, so the set-level facts are decided by computation; the facts about what a row does to
    a message quantify over all messages / configurations / times and are proved row by row. *)
From Coq Require Import List ZArith NArith Bool Lia.
From HK Require Import Model.Queue Model.QueueMon Model.TransTable Gen.Transitions Proofs.QueueBase Proofs.QueueStep.
Import ListNotations.
Open Scope Z_scope.
Set Warnings "-unused-intro-pattern".

Lemma extraction_succeeded : extraction_ok = true.
Proof. reflexivity. Qed.

(** ** one row against the model *)
Ltac kill_bools :=
  repeat match goal with
         | |- context [Z.ltb ?a ?b] => destruct (Z.ltb a b)
         | |- context [Z.leb ?a ?b] => destruct (Z.leb a b)
         end.

Ltac on_msg m :=
  let s := fresh "s" in
  destruct m as [? ? ? s ? ? ? ? ? ? ? ? ?]; destruct s; cbn in *; try discriminate; try reflexivity.

Ltac row_tac :=
  unfold row_sound; cbn [t_op t_cond t_from t_to t_writes];
  repeat match goal with |- _ /\ _ => split end;
  try reflexivity;
  try (let s := fresh "s" in intros s; destruct s; reflexivity);
  try (let m := fresh "m" in intros m; on_msg m; fail);
  try (let now := fresh in let ttl := fresh in let picked := fresh in let lid := fresh in let m := fresh "m" in
       let H := fresh in let L := fresh in
       intros now ttl picked lid m H L; unfold pm_lease; rewrite L; on_msg m; fail);
  try (let e := fresh "e" in let m := fresh "m" in let H := fresh in intros e m H; on_msg m; fail);
  try (let c := fresh "c" in let e := fresh "e" in let m := fresh "m" in let C := fresh in let H := fresh in
       intros c e m C H; cbn in C; on_msg m;
       destruct (0 <? c_deliv_age c); cbn in *; try discriminate; reflexivity);
  try (let c := fresh "c" in let now := fresh "now" in let m := fresh "m" in let H := fresh in
       intros c now m H; unfold prune_row_hits in H; on_msg m; cbn in H; try discriminate; exact H).

Ltac table_tac tbl :=
  unfold tbl; repeat (apply Forall_cons; [row_tac |]); apply Forall_nil.

Lemma memory_rows_sound : Forall row_sound memory_table.
Proof. table_tac memory_table. Qed.

Lemma sqlite_rows_sound : Forall row_sound sqlite_table.
Proof. table_tac sqlite_table. Qed.

(** the age rules, together, are the model's eligibility predicate (both directions) *)
Ltac prune_exact_tac tbl :=
  unfold prune_rules_exact, tbl; intros c now m; unfold prune_age_eligible;
  destruct m as [? ? ? s ? ? ? ? ? ? ? ? ?]; destruct s; cbn; kill_bools; reflexivity.

Lemma memory_prune_exact : prune_rules_exact memory_table.
Proof. prune_exact_tac memory_table. Qed.

Lemma sqlite_prune_exact : prune_rules_exact sqlite_table.
Proof. prune_exact_tac sqlite_table. Qed.

Lemma memory_covers : covers true memory_table = true.
Proof. vm_compute. reflexivity. Qed.

Lemma sqlite_covers : covers true sqlite_table = true.
Proof. vm_compute. reflexivity. Qed.

Lemma postgres_covers : covers false postgres_table = true.
Proof. vm_compute. reflexivity. Qed.

(** ** the backends against each other *)
Lemma sqlite_same_as_memory : same_table memory_table sqlite_table = true.
Proof. vm_compute. reflexivity. Qed.

(** Where Postgres differs from SQLite, exactly.
    Rows only Postgres has: its dequeue also clears dead_reason; its three age rules compare
    received_at strictly ([<]) - for delivered messages SQLite and memory use next_run_at (the time
    of the ack) with [<=].  Rows only SQLite has: its own dequeue and age rules, and the batch
    enqueue eviction (Postgres has no EnqueueBatch). *)
Definition postgres_only : list trans := [
  mkTrans TDequeue CAlways [Queued] (TSt Leased)
          [(FAttempt, VIncr); (FLeaseId, VNewLease); (FLeaseUntil, VNewUntil); (FNext, VNewUntil); (FReason, VClear)];
  mkTrans (TPruneAge KDelivAge ColRecv true) CAlways [Delivered] TDeleted [];
  mkTrans (TPruneAge KDlqAge ColRecv true) CAlways [Dead] TDeleted [];
  mkTrans (TPruneAge KRetAge ColRecv true) CAlways [Queued] TDeleted []].

Definition sqlite_not_postgres : list trans := [
  mkTrans TDequeue CAlways [Queued] (TSt Leased)
          [(FAttempt, VIncr); (FLeaseId, VNewLease); (FLeaseUntil, VNewUntil); (FNext, VNewUntil)];
  mkTrans (TEvict true) CAlways [Queued] TDeleted [];
  mkTrans (TPruneAge KDelivAge ColNext false) CAlways [Delivered] TDeleted [];
  mkTrans (TPruneAge KDlqAge ColRecv false) CAlways [Dead] TDeleted [];
  mkTrans (TPruneAge KRetAge ColRecv false) CAlways [Queued] TDeleted []].

Lemma postgres_vs_sqlite :
  same_table (only_in (live postgres_table) sqlite_table) postgres_only = true
  /\ same_table (only_in sqlite_table (live postgres_table)) sqlite_not_postgres = true
  /\ same_edges postgres_table sqlite_table = true.
Proof. vm_compute. repeat split; reflexivity. Qed.

(** the one row of Postgres that cannot execute on a store that keeps "leased => lease_until set" *)
Lemma postgres_null_until_rows :
  same_table (filter (fun r => tcond_eqb (t_cond r) CUntilNull) postgres_table)
             [mkTrans (TLease LExtend false) CUntilNull [Leased] TKeep [(FLeaseUntil, VNowPlusBy); (FNext, VNowPlusBy)]] = true.
Proof. vm_compute. reflexivity. Qed.

(** every Postgres row outside [postgres_only] is sound for the model as it stands *)
Lemma postgres_rows_sound :
  Forall row_sound (filter (fun r => negb (has_row r postgres_only)) postgres_table).
Proof.
  match goal with |- Forall _ ?l => let l' := eval vm_compute in l in change (Forall row_sound l') end.
  repeat (apply Forall_cons; [row_tac |]); apply Forall_nil.
Qed.

(** ... and the rows of [postgres_only]: the dequeue row does what the model does on a message whose
    dead_reason is empty (queued messages of the model always have an empty reason: [mk_msg], and
    every row that produces [Queued] clears it); the queued / dead age rules delete only what the
    model's rules delete (they are stricter by one instant). *)
Lemma postgres_dequeue_row :
  forall r, In r postgres_table -> t_op r = TDequeue ->
    (forall m, accepts r m = queuedb m) /\
    forall now ttl picked lid m, accepts r m = true -> m_reason m = 0%N -> lease_of picked (m_id m) = Some lid ->
      row_effect (mkWenv now 0 ttl 0 lid 0%N) r m = Some (pm_lease now ttl picked m).
Proof.
  intros r Hin Hop. unfold postgres_table in Hin.
  repeat (destruct Hin as [E | Hin]; [subst r; cbn in Hop; try discriminate |]); try contradiction.
  split.
  - intros m; on_msg m.
  - intros now ttl picked lid m H R L. unfold pm_lease. rewrite L. on_msg m. subst. reflexivity.
Qed.

Lemma postgres_age_rules_within_model :
  forall r, In r postgres_table ->
    match t_op r with
    | TPruneAge k ColRecv _ =>
        k <> KDelivAge -> forall c now m, prune_row_hits c now r m = true -> prune_age_eligible c now m = true
    | _ => True
    end.
Proof.
  intros r Hin. unfold postgres_table in Hin.
  repeat (destruct Hin as [E | Hin]; [subst r; cbn; try exact I |]); try contradiction;
    try (intros NE; try (exfalso; apply NE; reflexivity);
         intros c now m H; unfold prune_row_hits in H; on_msg m;
         cbn in H; apply andb_true_iff in H; destruct H as [H1 H2]; rewrite H1; cbn;
         apply Z.ltb_lt in H2; apply Z.leb_le; lia).
Qed.

(** the divergence, concretely: a delivered message received 100 s ago and acked just now, delivered
    retention 10 s: Postgres' rule deletes it, the rule of SQLite / memory / the model keeps it *)
Lemma postgres_delivered_retention_differs :
  let c := mkCfg 0 false 0 1 10 0 0 0 in
  let m := mkMsg 1%N 1%N 1%N Delivered 0 1 100 5%N 0%N 0%N 0%N None 0 in
  existsb (fun r => prune_row_hits c 100 r m) postgres_table = true
  /\ existsb (fun r => prune_row_hits c 100 r m) sqlite_table = false
  /\ existsb (fun r => prune_row_hits c 100 r m) memory_table = false
  /\ prune_age_eligible c 100 m = false.
Proof. vm_compute. repeat split; reflexivity. Qed.

(** ** the documented machine *)
Definition all_rows : list trans := memory_table ++ sqlite_table ++ postgres_table.

Lemma all_rows_documented : forallb row_documented all_rows = true.
Proof. vm_compute. reflexivity. Qed.

Lemma row_documented_spec r s :
  row_documented r = true -> st_mem s (t_from r) = true -> documented (opclass_of (t_op r)) s (t_to r) = true.
Proof.
  unfold row_documented. intros H M. rewrite forallb_forall in H.
  assert (I : In s st_all) by (destruct s; simpl; auto 6).
  specialize (H s I). rewrite M in H. exact H.
Qed.

Lemma no_other_transition :
  forall r, In r all_rows -> forall s, st_mem s (t_from r) = true ->
    documented (opclass_of (t_op r)) s (t_to r) = true.
Proof.
  intros r Hin s M. apply row_documented_spec; [|exact M].
  pose proof all_rows_documented as H. rewrite forallb_forall in H. exact (H r Hin).
Qed.

(** never while leased, never a canceled message: retention and drop_oldest *)
Lemma removal_rows_spare_leased :
  forall r, In r all_rows ->
    match opclass_of (t_op r) with
    | OcPrune | OcEvict => st_mem Leased (t_from r) = false /\ st_mem Canceled (t_from r) = false /\ t_to r = TDeleted
    | _ => True
    end.
Proof.
  assert (H : forallb (fun r => match opclass_of (t_op r) with
                                | OcPrune | OcEvict => negb (st_mem Leased (t_from r)) && negb (st_mem Canceled (t_from r))
                                                       && target_eqb (t_to r) TDeleted
                                | _ => true end) all_rows = true) by (vm_compute; reflexivity).
  rewrite forallb_forall in H. intros r Hin. specialize (H r Hin).
  destruct (opclass_of (t_op r)); try exact I;
    apply andb_true_iff in H; destruct H as [H H3]; apply andb_true_iff in H; destruct H as [H1 H2];
    apply negb_true_iff in H1; apply negb_true_iff in H2; (repeat split; try assumption);
    destruct (t_to r); simpl in H3; try discriminate; reflexivity.
Qed.

(** deletion happens only from the documented places *)
Lemma deletions_are :
  forall r, In r all_rows -> t_to r = TDeleted ->
    match opclass_of (t_op r) with
    | OcAck => t_cond r = CRetention false
    | OcManage MDeleteDead | OcPrune | OcEvict => True
    | _ => False
    end.
Proof.
  assert (H : forallb (fun r => negb (target_eqb (t_to r) TDeleted) ||
                                match opclass_of (t_op r) with
                                | OcAck => tcond_eqb (t_cond r) (CRetention false)
                                | OcManage MDeleteDead | OcPrune | OcEvict => true
                                | _ => false end) all_rows = true) by (vm_compute; reflexivity).
  rewrite forallb_forall in H. intros r Hin E. specialize (H r Hin). rewrite E in H. simpl in H.
  destruct (opclass_of (t_op r)) as [| | | | | |k| |]; try discriminate; try exact I.
  - destruct (t_cond r) as [|b|]; simpl in H; try discriminate. destruct b; simpl in H; try discriminate. reflexivity.
  - destruct k; try discriminate; exact I.
Qed.

Lemma lease_discipline_all : forallb lease_discipline all_rows = true.
Proof. vm_compute. reflexivity. Qed.

(** the machine of the tables is inside the machine of the C02 theorems ([edge_ok], Proofs/QueueStep.v) *)
Definition op_in_class (x : op) (oc : opclass) : Prop :=
  match oc with
  | OcDequeue => is_dequeue x = true
  | OcRelease => releases x = true
  | OcAck => lease_op_kind x = Some KAck
  | OcNack => exists d, lease_op_kind x = Some (KNack d)
  | OcExtend => exists b, lease_op_kind x = Some (KExtend b)
  | OcDead => exists rs, lease_op_kind x = Some (KDead rs)
  | OcManage k => manage_kind_of x = Some k
  | OcPrune | OcEvict => True
  end.

Lemma documented_within_edge_ok oc s s' x :
  documented oc s (TSt s') = true -> op_in_class x oc -> edge_ok x s s'.
Proof.
  intros D C. unfold edge_ok.
  destruct oc as [| | | | | |k| |]; destruct s, s'; simpl in D; try discriminate; simpl in C; right; simpl; auto.
  all: try (destruct C as [d C]; apply (lease_op_kind_releases x _ C)).
  all: try (destruct C as [d C]; exists d; exact C).
  all: destruct k; simpl in D; try discriminate; auto.
Qed.

Lemma table_edges_within_model_machine :
  forall r, In r all_rows -> forall s s' x, st_mem s (t_from r) = true -> t_to r = TSt s' ->
    op_in_class x (opclass_of (t_op r)) -> edge_ok x s s'.
Proof.
  intros r Hin s s' x M T C. apply (documented_within_edge_ok (opclass_of (t_op r))); [|exact C].
  rewrite <- T. apply no_other_transition; assumption.
Qed.

(** ** a row never touches the identity of a message *)
Lemma set_field_imm e m0 m w m' : set_field e m0 m w = Some m' -> same_imm m m'.
Proof.
  destruct w as [f v]. destruct f; destruct v; simpl; intros H; inversion H; subst; repeat split.
Qed.

Lemma same_imm_trans a b c : same_imm a b -> same_imm b c -> same_imm a c.
Proof.
  unfold same_imm. intros [A1 [A2 [A3 [A4 [A5 [A6 A7]]]]]] [B1 [B2 [B3 [B4 [B5 [B6 B7]]]]]].
  repeat split; congruence.
Qed.

Lemma apply_writes_imm e m0 ws : forall m m', apply_writes e m0 ws m = Some m' -> same_imm m m'.
Proof.
  induction ws as [|w tl IH]; simpl; intros m m' H.
  - inversion H; subst. apply same_imm_refl.
  - destruct (set_field e m0 m w) as [m1|] eqn:E; [|discriminate].
    apply (same_imm_trans m m1 m'); [apply (set_field_imm e m0 m w m1 E) | apply IH; exact H].
Qed.

Lemma row_effect_keeps_identity e r m m' : row_effect e r m = Some (Some m') -> same_imm m m'.
Proof.
  unfold row_effect. destruct (t_to r) as [s| |] eqn:T.
  - destruct (apply_writes e m (t_writes r) m) as [m1|] eqn:E; [|discriminate].
    simpl. intros H. inversion H; subst. apply (same_imm_trans m m1); [apply (apply_writes_imm _ _ _ _ _ E)|].
    repeat split.
  - destruct (apply_writes e m (t_writes r) m) as [m1|] eqn:E; [|discriminate].
    simpl. intros H. inversion H; subst. apply (apply_writes_imm _ _ _ _ _ E).
  - discriminate.
Qed.
