From Coq Require Import ZArith List Bool Lia.
From HK Require Import Model.SizeLimit.
Import ListNotations.
Open Scope Z_scope.

Lemma too_large_body : forall rate_ok body max_body hs max_headers,
  rate_ok = true -> max_body < body -> size_verdict rate_ok body max_body hs max_headers = V413.
Proof.
  intros r body mb hs mh -> H. unfold size_verdict, body_fits. cbn [negb].
  replace (body <=? mb) with false by (symmetry; apply Z.leb_gt; exact H). reflexivity.
Qed.

Lemma too_large_headers : forall rate_ok body max_body hs max_headers,
  rate_ok = true -> body <= max_body -> 0 < max_headers -> max_headers < header_kv_size hs ->
  size_verdict rate_ok body max_body hs max_headers = V413.
Proof.
  intros r body mb hs mh -> Hb Hm H. unfold size_verdict, body_fits, headers_fit. cbn [negb].
  replace (body <=? mb) with true by (symmetry; apply Z.leb_le; exact Hb). cbn [negb].
  replace (mh <=? 0) with false by (symmetry; apply Z.leb_gt; exact Hm).
  replace (mh <? header_kv_size hs) with true by (symmetry; apply Z.ltb_lt; exact H). reflexivity.
Qed.

Lemma within_limits_admitted : forall body max_body hs max_headers,
  body <= max_body -> 0 < max_headers -> header_kv_size hs <= max_headers ->
  size_verdict true body max_body hs max_headers = VAdmit.
Proof.
  intros body mb hs mh Hb Hm H. unfold size_verdict, body_fits, headers_fit. cbn [negb].
  replace (body <=? mb) with true by (symmetry; apply Z.leb_le; exact Hb). cbn [negb].
  replace (mh <=? 0) with false by (symmetry; apply Z.leb_gt; exact Hm).
  replace (mh <? header_kv_size hs) with false by (symmetry; apply Z.ltb_ge; exact H). reflexivity.
Qed.

Lemma rate_limited_429 : forall body max_body hs max_headers,
  size_verdict false body max_body hs max_headers = V429.
Proof. reflexivity. Qed.

(** the decision is exactly the conjunction of the three conditions *)
Lemma admit_iff : forall rate_ok body max_body hs max_headers, 0 < max_headers ->
  (size_verdict rate_ok body max_body hs max_headers = VAdmit <->
   rate_ok = true /\ body <= max_body /\ header_kv_size hs <= max_headers).
Proof.
  intros r body mb hs mh Hm. unfold size_verdict, body_fits, headers_fit.
  replace (mh <=? 0) with false by (symmetry; apply Z.leb_gt; exact Hm).
  destruct r; cbn [negb]; [|split; [discriminate | intros [H _]; discriminate]].
  destruct (Z.leb_spec body mb); cbn [negb]; [|split; [discriminate | lia]].
  destruct (Z.ltb_spec mh (header_kv_size hs)); cbn [negb]; split; try discriminate; try lia; tauto.
Qed.

(** every refusal stores nothing; an admitted request stores one copy per target *)
Lemma refusal_enqueues_nothing : forall v targets, v <> VAdmit -> enqueues v targets = 0.
Proof. intros [| |] t H; try reflexivity. congruence. Qed.

Lemma eff_limit_spec : forall d r, (0 < r -> eff_limit d r = r) /\ (r <= 0 -> eff_limit d r = d).
Proof.
  intros d r. unfold eff_limit. split; intros H.
  - replace (0 <? r) with true by (symmetry; apply Z.ltb_lt; exact H). reflexivity.
  - replace (0 <? r) with false by (symmetry; apply Z.ltb_ge; exact H). reflexivity.
Qed.

Example size_example :
  size_verdict true 16 16 [(5, 3); (12, 2)] 22 = VAdmit /\ size_verdict true 17 16 [] 22 = V413 /\
  size_verdict true 16 16 [(5, 3); (12, 3)] 22 = V413.
Proof. repeat split. Qed.
