(** Lemmas about Model/Bearer.v and Model/PullAuthCompile.v. *)
From Coq Require Import List NArith Bool Lia Arith.
From Coq Require Strings.String.
Import Coq.Strings.String.StringSyntax.
Delimit Scope string_scope with string.
From HK Require Import Model.RBytes Model.PathClean Model.Bearer Model.PullAuthCompile Proofs.RBytesProofs.
Import ListNotations.
Open Scope N_scope.

Lemma allow_norm_In : forall tokens t, In t (allow_norm tokens) <-> In t tokens /\ t <> [].
Proof.
  intros tokens t. unfold allow_norm. rewrite filter_In, negb_true_iff, is_empty_false. reflexivity.
Qed.

Lemma allow_norm_id : forall tokens, (forall t, In t tokens -> t <> []) -> allow_norm tokens = tokens.
Proof.
  induction tokens as [|a l IH]; intro H; simpl; [reflexivity|].
  assert (Ha : a <> []) by (apply H; left; reflexivity).
  apply is_empty_false in Ha. rewrite Ha. simpl. f_equal. apply IH. intros t Ht. apply H. right. exact Ht.
Qed.

(** ---- HTTP *)
(** the presented token: the first Authorization value is "Bearer " ++ rest, byte for byte,
    and the token is the trimmed rest, non-empty *)
Lemma http_presented_shape : forall vals t,
  http_presented vals = Some t <->
  exists rest, header_get vals = bearer_sp ++ rest /\ t = trim rest /\ t <> [].
Proof.
  intros vals t. unfold http_presented.
  destruct (is_empty (header_get vals)) eqn:E0.
  { apply is_empty_nil in E0. rewrite E0. split; [discriminate|].
    intros [rest [H _]]. unfold bearer_sp in H. simpl in H. discriminate. }
  destruct (prefixb bearer_sp (header_get vals)) eqn:E1; cbn [negb].
  - apply prefixb_spec in E1. destruct E1 as [rest Hr]. rewrite Hr, trim_prefix_app.
    destruct (is_empty (trim rest)) eqn:E2.
    + apply is_empty_nil in E2. split; [discriminate|].
      intros [rest' [H [Ht Hne]]]. apply app_inv_head in H. subst. contradiction.
    + apply is_empty_false in E2. split.
      * intro H. inversion H; subst. exists rest. split; [reflexivity | split; [reflexivity | exact E2]].
      * intros [rest' [H [Ht _]]]. apply app_inv_head in H. subst. reflexivity.
  - split; [discriminate|]. intros [rest [H _]]. rewrite H, prefixb_app in E1. discriminate.
Qed.

(** an authorized HTTP request against a non-empty allowlist presents a token that IS a member *)
Lemma http_bearer_sound : forall tokens vals,
  http_bearer_ok tokens vals = true -> allow_norm tokens <> [] ->
  exists t, http_presented vals = Some t /\ In t tokens /\ t <> [].
Proof.
  intros tokens vals H Hne. unfold http_bearer_ok in H.
  destruct (allow_norm tokens) as [|a l] eqn:E; [contradiction|].
  destruct (http_presented vals) as [t|]; [|discriminate].
  exists t. split; [reflexivity|]. apply mem_In in H. rewrite <- E in H. apply allow_norm_In. exact H.
Qed.

Lemma http_bearer_complete : forall tokens vals t,
  http_presented vals = Some t -> In t tokens -> http_bearer_ok tokens vals = true.
Proof.
  intros tokens vals t Hp Hi. unfold http_bearer_ok.
  destruct (allow_norm tokens) as [|a l] eqn:E; [reflexivity|].
  rewrite Hp. apply mem_In. rewrite <- E. apply allow_norm_In. split; [exact Hi|].
  apply http_presented_shape in Hp. destruct Hp as [_ [_ [_ H]]]. exact H.
Qed.

(** byte equality: any presented token that is not itself a member is refused - in
    particular every proper prefix, proper suffix or case variant of a valid token *)
Lemma near_miss_rejected : forall tokens vals t',
  allow_norm tokens <> [] -> http_presented vals = Some t' -> ~ In t' tokens ->
  http_bearer_ok tokens vals = false.
Proof.
  intros tokens vals t' Hne Hp Hn.
  destruct (http_bearer_ok tokens vals) eqn:E; [|reflexivity].
  destruct (http_bearer_sound tokens vals E Hne) as [t [Hp' [Hi _]]].
  rewrite Hp in Hp'. inversion Hp'; subst. contradiction.
Qed.

Lemma no_token_rejected : forall tokens vals,
  allow_norm tokens <> [] -> http_presented vals = None -> http_bearer_ok tokens vals = false.
Proof.
  intros tokens vals Hne Hp. unfold http_bearer_ok.
  destruct (allow_norm tokens); [contradiction|]. rewrite Hp. reflexivity.
Qed.

(** absent header, lower-case scheme, other scheme, empty token: nothing is presented *)
Lemma presented_absent : http_presented [] = None.
Proof. reflexivity. Qed.

Lemma presented_lowercase_scheme : forall x rest, http_presented ((bearer_sp_lower ++ x) :: rest) = None.
Proof. intros. reflexivity. Qed.

Lemma presented_needs_prefix : forall v rest, prefixb bearer_sp v = false -> http_presented (v :: rest) = None.
Proof.
  intros v rest H. unfold http_presented. simpl header_get.
  destruct (is_empty v); [reflexivity|]. rewrite H. reflexivity.
Qed.

Lemma presented_empty_token : forall rest, http_presented (bearer_sp :: rest) = None.
Proof. intros. reflexivity. Qed.

(** only the first Authorization value counts *)
Lemma presented_first_only : forall v rest rest', http_presented (v :: rest) = http_presented (v :: rest').
Proof. reflexivity. Qed.

(** ---- gRPC *)
Lemma grpc_tokens_In : forall vals t, In t (grpc_tokens vals) <-> exists v, In v vals /\ grpc_parse v = Some t.
Proof.
  induction vals as [|v vals IH]; intro t; simpl.
  - split; [intros [] | intros [v [[] _]]].
  - destruct (grpc_parse v) as [x|] eqn:E.
    + simpl. rewrite IH. split.
      * intros [H | [v' [Hi Hp]]]; [subst; exists v; split; [left; reflexivity | exact E] | exists v'; split; [right; exact Hi | exact Hp]].
      * intros [v' [[Hv | Hi] Hp]]; [subst; left; congruence | right; exists v'; split; assumption].
    + rewrite IH. split.
      * intros [v' [Hi Hp]]. exists v'. split; [right; exact Hi | exact Hp].
      * intros [v' [[Hv | Hi] Hp]]; [subst; congruence | exists v'; split; assumption].
Qed.

Lemma grpc_parse_nonempty : forall v t, grpc_parse v = Some t -> t <> [].
Proof.
  intros v t H. unfold grpc_parse in H.
  destruct (Nat.ltb (List.length (trim v)) 7); [discriminate|].
  destruct (negb (beq (lower (firstn 7 (trim v))) bearer_sp_lower)); [discriminate|].
  destruct (is_empty (trim (skipn 7 (trim v)))) eqn:E; [discriminate|].
  inversion H; subst. apply is_empty_false. exact E.
Qed.

(** what a metadata value must look like to present [t] *)
Lemma grpc_parse_shape : forall v t,
  grpc_parse v = Some t <->
  (7 <= List.length (trim v))%nat /\ lower (firstn 7 (trim v)) = bearer_sp_lower /\
  t = trim (skipn 7 (trim v)) /\ t <> [].
Proof.
  intros v t. unfold grpc_parse.
  destruct (Nat.ltb (List.length (trim v)) 7) eqn:E1.
  { apply Nat.ltb_lt in E1. split; [discriminate | intros [H _]; lia]. }
  apply Nat.ltb_ge in E1.
  destruct (beq (lower (firstn 7 (trim v))) bearer_sp_lower) eqn:E2; cbn [negb].
  - apply beq_eq in E2. destruct (is_empty (trim (skipn 7 (trim v)))) eqn:E3; cbv iota.
    + apply is_empty_nil in E3. split; [discriminate|]. intros [_ [_ [Ht Hne]]]. congruence.
    + apply is_empty_false in E3. split.
      * intro H. inversion H; subst. repeat split; assumption.
      * intros [_ [_ [Ht _]]]. subst. reflexivity.
  - apply beq_neq in E2. split; [discriminate|]. intros [_ [H _]]. contradiction.
Qed.

Lemma grpc_bearer_sound : forall tokens md,
  grpc_bearer_ok tokens md = true -> allow_norm tokens <> [] ->
  exists vals v t, md = Some vals /\ In v vals /\ grpc_parse v = Some t /\ In t tokens.
Proof.
  intros tokens md H Hne. unfold grpc_bearer_ok in H.
  destruct (allow_norm tokens) as [|a l] eqn:E; [contradiction|].
  destruct md as [vals|]; [|discriminate].
  apply existsb_exists in H. destruct H as [t [Ht Hm]].
  apply grpc_tokens_In in Ht. destruct Ht as [v [Hv Hp]].
  apply mem_In in Hm. rewrite <- E in Hm. apply allow_norm_In in Hm.
  exists vals, v, t. repeat split; tauto.
Qed.

Lemma grpc_no_metadata_rejected : forall tokens, allow_norm tokens <> [] -> grpc_bearer_ok tokens None = false.
Proof. intros tokens H. unfold grpc_bearer_ok. destruct (allow_norm tokens); [contradiction | reflexivity]. Qed.

(** ---- effective allowlist *)
Lemma lookup_endpoint_some : forall ep rs r, lookup_endpoint ep rs = Some r -> In r rs /\ pr_endpoint r = ep.
Proof.
  intros ep rs. induction rs as [|a rs IH]; intros r H; simpl in H; [discriminate|].
  destruct (beq ep (pr_endpoint a)) eqn:E.
  - inversion H; subst. apply beq_eq in E. split; [left; reflexivity | congruence].
  - destruct (IH r H) as [Hi He]. split; [right; exact Hi | exact He].
Qed.

Lemma lookup_endpoint_finds : forall rs r, In r rs -> exists r', lookup_endpoint (pr_endpoint r) rs = Some r'.
Proof.
  induction rs as [|a rs IH]; intros r H; [destruct H|]. simpl.
  destruct (beq (pr_endpoint r) (pr_endpoint a)) eqn:E; [eauto|].
  destruct H as [H|H]; [subst; rewrite beq_refl in E; discriminate | apply IH; exact H].
Qed.

(** the route's own tokens REPLACE the global ones *)
Lemma effective_override : forall c ep r,
  lookup_endpoint ep (a_routes c) = Some r -> pr_tokens r <> [] -> effective c ep = pr_tokens r.
Proof.
  intros c ep r H Hne. unfold effective. rewrite H. destruct (pr_tokens r); [contradiction | reflexivity].
Qed.

Lemma effective_global : forall c ep,
  (forall r, lookup_endpoint ep (a_routes c) = Some r -> pr_tokens r = []) -> effective c ep = a_global c.
Proof.
  intros c ep H. unfold effective. destruct (lookup_endpoint ep (a_routes c)) as [r|] eqn:E; [|reflexivity].
  rewrite (H r eq_refl). reflexivity.
Qed.

Lemma override_replaces_global : forall c url_path vals r g,
  lookup_endpoint (pull_endpoint url_path) (a_routes c) = Some r ->
  allow_norm (pr_tokens r) <> [] -> ~ In g (pr_tokens r) ->
  http_presented vals = Some g ->
  authorize_pull c url_path vals = false.
Proof.
  intros c url_path vals r g Hl Hne Hn Hp. unfold authorize_pull.
  rewrite (effective_override c _ r Hl).
  - eapply near_miss_rejected; eassumption.
  - intro E. rewrite E in Hne. apply Hne. reflexivity.
Qed.

Lemma override_replaces_global_worker : forall c ep vals r,
  lookup_endpoint (trim ep) (a_routes c) = Some r ->
  allow_norm (pr_tokens r) <> [] ->
  (forall t, In t (grpc_tokens vals) -> ~ In t (pr_tokens r)) ->
  authorize_worker c ep (Some vals) = false.
Proof.
  intros c ep vals r Hl Hne Hn. unfold authorize_worker.
  rewrite (effective_override c _ r Hl) by (intro E; rewrite E in Hne; apply Hne; reflexivity).
  destruct (grpc_bearer_ok (pr_tokens r) (Some vals)) eqn:E; [|reflexivity].
  destruct (grpc_bearer_sound _ _ E Hne) as [vals' [v [t [Hm [Hv [Hp Hi]]]]]].
  inversion Hm; subst vals'. exfalso. apply (Hn t); [|exact Hi].
  apply grpc_tokens_In. exists v. split; assumption.
Qed.

Lemma authorized_has_token : forall c url_path vals,
  authorize_pull c url_path vals = true ->
  allow_norm (effective c (pull_endpoint url_path)) <> [] ->
  exists t, http_presented vals = Some t /\ In t (effective c (pull_endpoint url_path)).
Proof.
  intros c url_path vals H Hne. destruct (http_bearer_sound _ _ H Hne) as [t [Hp [Hi _]]].
  exists t. split; assumption.
Qed.

Lemma authorized_has_token_worker : forall c ep md,
  authorize_worker c ep md = true ->
  allow_norm (effective c (trim ep)) <> [] ->
  exists vals v t, md = Some vals /\ In v vals /\ grpc_parse v = Some t /\ In t (effective c (trim ep)).
Proof. intros c ep md H Hne. exact (grpc_bearer_sound _ _ H Hne). Qed.

(** ---- handler skeletons *)
Section Handlers.
Variable store : Type.
Variable run_op : pull_opk -> bytes -> store -> N * store.

Lemma pull_unauthorized_no_effect : forall c method url_path vals st,
  authorize_pull c url_path vals = false ->
  let o := pull_serve store run_op c method url_path vals st in
  o_store _ o = st /\ o_calls _ o = [] /\
  (o_status _ o = 401 \/ (o_status _ o = 405 /\ method <> s2b "POST"%string)).
Proof.
  intros c method url_path vals st H. unfold pull_serve.
  destruct (beq method (s2b "POST"%string)) eqn:E; simpl.
  - rewrite H. simpl. repeat split. left. reflexivity.
  - apply beq_neq in E. repeat split. right. split; [reflexivity | exact E].
Qed.

(** any store call, any change of the store, implies the request was authorized *)
Lemma pull_effect_needs_auth : forall c method url_path vals st,
  let o := pull_serve store run_op c method url_path vals st in
  (o_calls _ o <> [] \/ o_store _ o <> st) -> authorize_pull c url_path vals = true.
Proof.
  intros c method url_path vals st o H.
  destruct (authorize_pull c url_path vals) eqn:E; [reflexivity|].
  destruct (pull_unauthorized_no_effect c method url_path vals st E) as [H1 [H2 _]].
  fold o in H1, H2. destruct H as [H|H]; contradiction.
Qed.

(** a store call is only ever issued for the route the addressed endpoint maps to *)
Lemma pull_call_route : forall c method url_path vals st op route,
  In (op, route) (o_calls _ (pull_serve store run_op c method url_path vals st)) ->
  exists r, lookup_endpoint (pull_endpoint url_path) (a_routes c) = Some r /\ pr_route r = route
            /\ op_of (pull_op url_path) = Some op.
Proof.
  intros c method url_path vals st op route. unfold pull_serve.
  destruct (negb (beq method (s2b "POST"%string))); [intros []|].
  destruct (negb (authorize_pull c url_path vals)); [intros []|].
  destruct (lookup_endpoint (pull_endpoint url_path) (a_routes c)) as [r|]; [|intros []].
  destruct (op_of (pull_op url_path)) as [k|]; [|intros []].
  destruct (run_op k (pr_route r) st) as [code st']. simpl.
  intros [H|[]]. inversion H; subst. exists r. repeat split.
Qed.

Lemma worker_unauthorized_no_effect : forall c op ep pre md st,
  authorize_worker c (trim ep) md = false ->
  let o := worker_call store run_op c op ep pre md st in
  o_store _ o = st /\ o_calls _ o = [] /\
  (o_status _ o = g_unauthenticated \/ o_status _ o = g_invalid_argument).
Proof.
  intros c op ep pre md st H. unfold worker_call.
  destruct (is_empty (trim ep) || negb pre); simpl.
  - repeat split. right. reflexivity.
  - rewrite H. simpl. repeat split. left. reflexivity.
Qed.

Lemma worker_effect_needs_auth : forall c op ep pre md st,
  let o := worker_call store run_op c op ep pre md st in
  (o_calls _ o <> [] \/ o_store _ o <> st) -> authorize_worker c (trim ep) md = true.
Proof.
  intros c op ep pre md st o H.
  destruct (authorize_worker c (trim ep) md) eqn:E; [reflexivity|].
  destruct (worker_unauthorized_no_effect c op ep pre md st E) as [H1 [H2 _]].
  fold o in H1, H2. destruct H as [H|H]; contradiction.
Qed.

Variable admin_router : bytes -> bytes -> store -> N * store * bool.

(** tokens configured: every Admin path and method is behind the same check *)
Lemma admin_unauthorized_no_effect : forall c method url_path vals st,
  authorize_admin c vals = false ->
  let o := admin_serve store admin_router c method url_path vals st in
  ad_status _ o = 401 /\ ad_store _ o = st /\ ad_routed _ o = false.
Proof.
  intros c method url_path vals st H. unfold admin_serve. rewrite H. simpl. repeat split.
Qed.

Lemma admin_routed_has_token : forall c method url_path vals st,
  allow_norm (a_admin c) <> [] ->
  ad_routed _ (admin_serve store admin_router c method url_path vals st) = true ->
  exists t, http_presented vals = Some t /\ In t (a_admin c).
Proof.
  intros c method url_path vals st Hne H. unfold admin_serve in H.
  destruct (authorize_admin c vals) eqn:E.
  - unfold authorize_admin in E. destruct (http_bearer_sound _ _ E Hne) as [t [Hp [Hi _]]].
    exists t. split; assumption.
  - simpl in H. discriminate.
Qed.

End Handlers.

(** ---- the compile rule *)
Lemma map_nonempty : forall (A B : Type) (f : A -> B) l, l <> [] -> map f l <> [].
Proof. intros A B f l H. destruct l; [contradiction | discriminate]. Qed.

Lemma allow_norm_loaded : forall (load : bytes -> bytes) refs,
  (forall r, load r <> []) -> refs <> [] -> allow_norm (map load refs) <> [].
Proof.
  intros load refs Hl Hne. rewrite allow_norm_id.
  - apply map_nonempty. exact Hne.
  - intros t Ht. apply in_map_iff in Ht. destruct Ht as [r [E _]]. subst. apply Hl.
Qed.

Definition load_route (load : bytes -> bytes) (r : pull_route) : pull_route :=
  {| pr_route := pr_route r; pr_endpoint := pr_endpoint r; pr_tokens := map load (pr_tokens r) |}.

Lemma lookup_map_load : forall load ep rs,
  lookup_endpoint ep (map (load_route load) rs) = option_map (load_route load) (lookup_endpoint ep rs).
Proof.
  intros load ep. induction rs as [|a rs IH]; simpl; [reflexivity|].
  destruct (beq ep (pr_endpoint a)); [reflexivity | exact IH].
Qed.

(** a configuration that compiles leaves no pull route open: the effective allowlist of
    every pull endpoint is non-empty (given that loading a secret never yields "") *)
Lemma compiled_never_open : forall (load : bytes -> bytes) admin c,
  compile_ok c = true -> (forall ref, load ref <> []) ->
  forall r, In r (c_pull_routes c) ->
  allow_norm (effective (loaded load admin c) (pr_endpoint r)) <> [].
Proof.
  intros load admin c Hok Hl r Hr.
  unfold compile_ok in Hok. apply andb_true_iff in Hok. destruct Hok as [_ Herr].
  apply negb_true_iff in Herr.
  unfold effective, loaded. cbn [a_routes a_global].
  change (map (fun r0 => {| pr_route := pr_route r0; pr_endpoint := pr_endpoint r0; pr_tokens := map load (pr_tokens r0) |}) (c_pull_routes c))
    with (map (load_route load) (c_pull_routes c)).
  rewrite lookup_map_load.
  destruct (lookup_endpoint_finds _ _ Hr) as [r' Hr']. rewrite Hr'. simpl.
  apply lookup_endpoint_some in Hr'. destruct Hr' as [Hi' _].
  destruct (pr_tokens r') as [|t ts] eqn:Et.
  - (* the route has no tokens of its own: the rule forces global tokens *)
    simpl. apply allow_norm_loaded; [exact Hl|].
    intro Eg. unfold needs_allowlist_error in Herr. rewrite Eg in Herr.
    assert (Hhas : has_pull_routes c = true).
    { unfold has_pull_routes. destruct (c_pull_routes c); [destruct Hr | reflexivity]. }
    assert (Hmiss : routes_missing_auth c = true).
    { unfold routes_missing_auth. apply existsb_exists. exists r'. split; [exact Hi'|]. rewrite Et. reflexivity. }
    rewrite Hhas, Hmiss in Herr. simpl in Herr. discriminate.
  - simpl map. apply (allow_norm_loaded load (t :: ts)); [exact Hl | discriminate].
Qed.

(** and the rule really is needed: without global tokens a pull route without own
    tokens would be open *)
Lemma open_without_rule : forall c ep r,
  lookup_endpoint ep (a_routes c) = Some r -> pr_tokens r = [] -> a_global c = [] ->
  forall vals, http_bearer_ok (effective c ep) vals = true.
Proof.
  intros c ep r Hl Ht Hg vals. unfold effective. rewrite Hl, Ht, Hg. reflexivity.
Qed.
