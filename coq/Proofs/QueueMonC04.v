(** The C04 monitor (lease fencing) is sound for the model: [c04_event] is [true] at every event
    of every model trace.  The batch clauses need exact counts: the number of leases a batch
    settles is the number of stored messages whose current, unexpired lease it presents, and the
    number of conflicts classified "expired" is the number of stored messages whose expired lease
    it presents. *)
From Coq Require Import List ZArith NArith Bool Lia.
From HK Require Import Gen.Consts Model.Queue Model.QueueHash Model.QueueMon
  Proofs.QueueBase Proofs.QueueInv Proofs.QueueInvStep Proofs.QueueStep Proofs.QueueFence Proofs.QueueMonSound.
Import ListNotations.
Open Scope Z_scope.

(** ** counting through a per-message map *)
Lemma filter_apply_pm_length P pm l :
  length (filter P (apply_pm pm l))
  = length (filter (fun m => match pm m with Some m' => P m' | None => false end) l).
Proof.
  induction l as [|x tl IH]; [reflexivity|]. cbn [apply_pm filter].
  destruct (pm x) as [x'|]; [|exact IH]. cbn [filter]. destruct (P x'); cbn [length]; rewrite IH; reflexivity.
Qed.

Lemma filter_len_ext_in (f g : msg -> bool) l :
  (forall y, In y l -> f y = g y) -> length (filter f l) = length (filter g l).
Proof.
  induction l as [|x tl IH]; intros H; [reflexivity|]. cbn [filter].
  rewrite (H x (or_introl eq_refl)). destruct (g x); cbn [length]; rewrite IH; auto; intros y Hy; apply H; right; exact Hy.
Qed.

Lemma filter_len_one_diff (f g : msg -> bool) l m :
  NoDup l -> In m l -> (forall y, In y l -> y <> m -> f y = g y) -> f m = true -> g m = false ->
  length (filter f l) = S (length (filter g l)).
Proof.
  induction l as [|x tl IH]; intros ND Hin Hext Hf Hg; [destruct Hin|].
  inversion ND as [|? ? Hx Htl]; subst. cbn [filter]. destruct Hin as [E | Hin].
  - subst x. rewrite Hf, Hg. cbn [length]. f_equal. apply filter_len_ext_in.
    intros y Hy. apply Hext; [right; exact Hy | intros E; subst; contradiction].
  - assert (Nx : x <> m) by (intros E; subst; contradiction).
    rewrite (Hext x (or_introl eq_refl) Nx). destruct (g x); cbn [length]; rewrite (IH Htl Hin); auto;
      intros y Hy; apply Hext; right; exact Hy.
Qed.

Lemma filter_false_len (l : list msg) : length (filter (fun _ : msg => false) l) = 0%nat.
Proof. induction l; simpl; auto. Qed.

Lemma NoDup_of_ids l : NoDup (ids l) -> NoDup l.
Proof. unfold ids. apply NoDup_map_inv. Qed.

(** ** one lease id *)
Lemma lease_held_leased l iss m x : InvL l iss -> In m l -> m_lease m = Some x -> is_leased m = true.
Proof.
  intros I Hm L. pose proof (inv_coh _ _ I m Hm) as Cm. unfold coherent in Cm. rewrite L in Cm.
  unfold is_leased. destruct (m_st m); simpl; try discriminate; reflexivity.
Qed.

Lemma pm_on_id_other i f y : m_id y <> i -> pm_on_id i f y = Some y.
Proof. intros H. unfold pm_on_id. destruct (N.eqb (m_id y) i) eqn:E; [apply N.eqb_eq in E; contradiction | reflexivity]. Qed.

Lemma pm_on_id_self f m : pm_on_id (m_id m) f m = f m.
Proof. unfold pm_on_id. rewrite N.eqb_refl. reflexivity. Qed.

Lemma lease_one_cases c now k x l iss l' out :
  InvL l iss -> lease_one c now k x l = (l', out) ->
  (out = LConflict false /\ l' = l /\ forall y, In y l -> m_lease y <> Some x)
  \/ exists m, In m l /\ m_lease m = Some x /\ is_leased m = true
       /\ (forall y, In y l -> y <> m -> m_lease y <> Some x /\ m_id y <> m_id m)
       /\ ((m_until m <= now /\ out = LConflict true
            /\ l' = apply_pm (pm_on_id (m_id m) (fun y => Some (release now y))) l)
           \/ (now < m_until m /\ out = LOk /\ l' = apply_pm (pm_on_id (m_id m) (lease_effect c now k)) l)).
Proof.
  intros I H. unfold lease_one in H.
  destruct (find_lease x l) as [m|] eqn:F.
  2:{ inversion H; subst. left. split; [reflexivity|]. split; [reflexivity|]. apply (find_lease_None x l' F). }
  apply find_lease_Some in F. destruct F as [Hm Lm].
  pose proof (lease_held_leased l iss m x I Hm Lm) as El. rewrite El in H. cbn [negb] in H.
  right. exists m. split; [exact Hm|]. split; [exact Lm|]. split; [exact El|]. split.
  - intros y Hy Ny. split.
    + intros Ly. apply Ny. apply (inv_linj _ _ I y m x); assumption.
    + intros Ei. apply Ny. apply (nodup_ids_inj l); [apply I | | |]; assumption.
  - destruct (m_until m <=? now) eqn:Eu; inversion H; subst.
    + left. apply Z.leb_le in Eu. auto.
    + right. apply Z.leb_gt in Eu. auto.
Qed.

(** ** the batch counts *)
Definition presents_in (pres : list N) (m : msg) : bool :=
  match m_lease m with Some l => memN l pres | None => false end.

Definition curb (now : Z) (pres : list N) (m : msg) : bool := presents_in pres m && is_leased m && (now <? m_until m).
Definition expb (now : Z) (pres : list N) (m : msg) : bool := presents_in pres m && expired now m.

Lemma presents_in_cons_other x pres y : m_lease y <> Some x -> presents_in (x :: pres) y = presents_in pres y.
Proof.
  unfold presents_in. destruct (m_lease y) as [l|]; [|reflexivity]. intros H. rewrite memN_cons.
  destruct (N.eqb l x) eqn:E; [apply N.eqb_eq in E; subst; contradiction | reflexivity].
Qed.

Lemma presents_in_cons_self x pres m : m_lease m = Some x -> presents_in (x :: pres) m = true.
Proof. unfold presents_in. intros H. rewrite H, memN_cons, N.eqb_refl. reflexivity. Qed.

Lemma not_leased_curb now pres m : is_leased m = false -> curb now pres m = false.
Proof. unfold curb. intros H. rewrite H. rewrite andb_false_r. reflexivity. Qed.

Lemma not_leased_expb now pres m : is_leased m = false -> expb now pres m = false.
Proof. unfold expb, expired. intros H. rewrite H. rewrite andb_false_r. reflexivity. Qed.

Lemma msg_eq_dec_by_id l (y m : msg) : NoDup (ids l) -> In y l -> In m l -> y = m \/ y <> m.
Proof.
  intros ND Hy Hm. destruct (N.eq_dec (m_id y) (m_id m)) as [E | N].
  - left. apply (nodup_ids_inj l); assumption.
  - right. intros E. subst. contradiction.
Qed.

Definition truecount (cs : list (cref * bool)) : nat := length (filter (fun p : cref * bool => snd p) cs).

Lemma lease_batch_counts c now k ls : forall ms iss,
  batch_kind_ok k = true -> InvL ms iss ->
  let '(ms', n, cs) := lease_batch c now k ls ms in
  n = Z.of_nat (length (filter (curb now (known_leases ls)) ms))
  /\ Z.of_nat (length cs) = Z.of_nat (length ls) - n
  /\ truecount cs = length (filter (expb now (known_leases ls)) ms).
Proof.
  induction ls as [|l tl IH]; intros ms iss Hk I.
  - cbn [lease_batch known_leases]. split; [|split].
    + rewrite (filter_len_ext_in (curb now []) (fun _ => false)); [rewrite filter_false_len; reflexivity|].
      intros y _. unfold curb, presents_in. destruct (m_lease y); reflexivity.
    + reflexivity.
    + unfold truecount. cbn [filter length].
      rewrite (filter_len_ext_in (expb now []) (fun _ => false)); [rewrite filter_false_len; reflexivity|].
      intros y _. unfold expb, presents_in. destruct (m_lease y); reflexivity.
  - destruct l as [x p| |].
    + cbn [lease_batch known_leases]. destruct (lease_one c now k x ms) as [ms1 out] eqn:E.
      assert (I1 : InvL ms1 iss) by (apply (lease_one_inv _ _ _ _ _ _ _ _ E); exact I).
      specialize (IH ms1 iss Hk I1).
      pose proof (NoDup_of_ids ms (inv_nodup _ _ I)) as NDm.
      destruct (lease_one_cases c now k x ms iss ms1 out I E) as [[Eo [E1 Hnone]] | [m [Hm [Lm [Il [Hoth Hcase]]]]]].
      * (* nobody holds x *)
        subst out ms1. destruct (lease_batch c now k tl ms) as [[ms' n] cs]. destruct IH as [A [B Cc]].
        split; [|split].
        -- rewrite A. f_equal. apply filter_len_ext_in. intros y Hy. unfold curb.
           rewrite (presents_in_cons_other x _ y (Hnone y Hy)). reflexivity.
        -- cbn [length]. rewrite !Nat2Z.inj_succ. lia.
        -- unfold truecount in *. cbn [filter snd]. rewrite Cc. apply filter_len_ext_in. intros y Hy. unfold expb.
           rewrite (presents_in_cons_other x _ y (Hnone y Hy)). reflexivity.
      * assert (Hothpm : forall f y, In y ms -> y <> m -> pm_on_id (m_id m) f y = Some y).
        { intros f y Hy Ny. apply pm_on_id_other. apply (Hoth y Hy Ny). }
        destruct Hcase as [[Hu [Eo E1]] | [Hu [Eo E1]]]; subst out ms1.
        -- (* expired holder: released, one "expired" conflict *)
           destruct (lease_batch c now k tl _) as [[ms' n] cs]. destruct IH as [A [B Cc]].
           assert (Hexp : expired now m = true) by (unfold expired; rewrite Il; apply Z.leb_le in Hu; rewrite Hu; reflexivity).
           split; [|split].
           ++ rewrite A, filter_apply_pm_length. f_equal. apply filter_len_ext_in. intros y Hy.
              destruct (msg_eq_dec_by_id ms y m (inv_nodup _ _ I) Hy Hm) as [Ey | Ny].
              ** subst y. rewrite pm_on_id_self. rewrite (not_leased_curb now _ (release now m) eq_refl).
                 unfold curb. apply Z.leb_le in Hu. assert (Hlt : (now <? m_until m) = false) by (apply Z.ltb_ge; apply Z.leb_le; exact Hu).
                 rewrite Hlt. rewrite andb_false_r. reflexivity.
              ** rewrite (Hothpm _ y Hy Ny). unfold curb. rewrite (presents_in_cons_other x _ y (proj1 (Hoth y Hy Ny))). reflexivity.
           ++ cbn [length]. rewrite !Nat2Z.inj_succ. lia.
           ++ unfold truecount in *. cbn [filter snd length]. rewrite Cc, filter_apply_pm_length. symmetry.
              apply (filter_len_one_diff _ _ ms m NDm Hm).
              ** intros y Hy Ny. rewrite (Hothpm _ y Hy Ny). unfold expb.
                 rewrite (presents_in_cons_other x _ y (proj1 (Hoth y Hy Ny))). reflexivity.
              ** unfold expb. rewrite (presents_in_cons_self x _ m Lm), Hexp. reflexivity.
              ** rewrite pm_on_id_self. apply not_leased_expb. reflexivity.
        -- (* current holder: settled *)
           destruct (lease_batch c now k tl _) as [[ms' n] cs]. destruct IH as [A [B Cc]].
           assert (Hlt : (now <? m_until m) = true) by (apply Z.ltb_lt; exact Hu).
           assert (Himg : forall P : list N -> msg -> bool,
                     (forall pres y, is_leased y = false -> P pres y = false) ->
                     match pm_on_id (m_id m) (lease_effect c now k) m with Some m' => P (known_leases tl) m' | None => false end = false).
           { intros P HP. rewrite pm_on_id_self. destruct (lease_effect c now k m) as [m1|] eqn:Ef; [|reflexivity].
             apply HP. apply (lease_effect_not_leased c now k m m1 Hk Ef). }
           split; [|split].
           ++ rewrite A, filter_apply_pm_length.
              match goal with |- Z.of_nat (length (filter ?g ms)) + 1 = Z.of_nat (length (filter ?f ms)) =>
                cut (length (filter f ms) = S (length (filter g ms))); [intros Hd; rewrite Hd, Nat2Z.inj_succ; lia|] end.
              apply (filter_len_one_diff _ _ ms m NDm Hm).
              ** intros y Hy Ny. rewrite (Hothpm _ y Hy Ny). unfold curb.
                 rewrite (presents_in_cons_other x _ y (proj1 (Hoth y Hy Ny))). reflexivity.
              ** unfold curb. rewrite (presents_in_cons_self x _ m Lm), Il, Hlt. reflexivity.
              ** apply (Himg (curb now)). intros pres y Hy. apply not_leased_curb. exact Hy.
           ++ cbn [length]. rewrite !Nat2Z.inj_succ. lia.
           ++ unfold truecount in *. rewrite Cc, filter_apply_pm_length. apply filter_len_ext_in. intros y Hy.
              destruct (msg_eq_dec_by_id ms y m (inv_nodup _ _ I) Hy Hm) as [Ey | Ny].
              ** subst y. rewrite (Himg (expb now)); [|intros pres y Hy'; apply not_leased_expb; exact Hy'].
                 unfold expb, expired. assert (Hle : (m_until m <=? now) = false) by (apply Z.leb_gt; exact Hu).
                 rewrite Hle. rewrite !andb_false_r. reflexivity.
              ** rewrite (Hothpm _ y Hy Ny). unfold expb. rewrite (presents_in_cons_other x _ y (proj1 (Hoth y Hy Ny))). reflexivity.
    + cbn [lease_batch known_leases]. specialize (IH ms iss Hk I).
      destruct (lease_batch c now k tl ms) as [[ms' n] cs]. destruct IH as [A [B Cc]].
      split; [exact A|]. split; [cbn [length]; rewrite !Nat2Z.inj_succ; lia | exact Cc].
    + cbn [lease_batch known_leases]. specialize (IH ms iss Hk I).
      destruct (lease_batch c now k tl ms) as [[ms' n] cs]. destruct IH as [A [B Cc]].
      split; [exact A|]. split; [cbn [length]; rewrite !Nat2Z.inj_succ; lia | exact Cc].
Qed.

(** ** one event *)
Lemma inserted_nil_apply_pm_on (e : event) pm :
  NoDup (ids (ev_before e)) -> (forall m m', In m (ev_before e) -> pm m = Some m' -> same_imm m m') ->
  ev_after e = apply_pm pm (ev_before e) -> inserted e = [].
Proof.
  intros ND P E. unfold inserted. rewrite E.
  apply filter_all_false. intros m' Hm'. apply apply_pm_In in Hm'. destruct Hm' as [m [Hm Ep]].
  pose proof (P m m' Hm Ep) as S. destruct S as [Eid Rest].
  rewrite <- Eid. rewrite (find_id_In_NoDup _ m ND Hm). apply negb_false_iff. apply same_imm_imm_eq. split; assumption.
Qed.

Lemma presents_eq x m : presents x m = presents_in (presented x) m.
Proof. reflexivity. Qed.

(** there is no batch form of Extend in the Store interface *)
Definition store_lease_op (x : op) : Prop :=
  match x with LeaseBatch _ (KExtend _) _ => False | _ => True end.

Lemma c04_msg_unchanged c e k m :
  find_id (m_id m) (ev_after e) = Some m -> c04_msg c e k false m = true.
Proof.
  intros E. unfold c04_msg. rewrite E. cbn [negb andb orb]. rewrite opt_msg_eqb_refl.
  destruct (presents (ev_op e) m && is_leased m); [|reflexivity].
  destruct (op_now (ev_op e) <? m_until m); reflexivity.
Qed.

Lemma lease_effect_same_imm c now k m m' : lease_effect c now k m = Some m' -> same_imm m m'.
Proof. apply lease_effect_imm. Qed.

Lemma c04_single fl c now k x p o s s' r :
  Inv s -> is_noop_extend k = false -> step_lease fl c now k (LKnown x p) s = (s', r) ->
  c04_event c (mkEvent (LeaseOp now k (LKnown x p)) o r (msgs s) (msgs s')) = true.
Proof.
  intros I Hn H. pose proof (inv_nodup _ _ I) as ND.
  destruct (lease_op_fenced fl c now k x p s s' r I Hn H) as [pm [E Hcur]].
  unfold c04_event. cbn [ev_op ev_res ev_before ev_after op_now lref_id]. rewrite Hn.
  destruct (current now x (msgs s)) as [m|] eqn:Ec.
  - destruct Hcur as [Er [Pm Poth]]. subst r. cbn [res_ok negb orb andb].
    pose proof (current_spec _ _ _ _ Ec) as [Hm [Lm [Il Hu]]].
    assert (Hid : forall y y', In y (msgs s) -> pm y = Some y' -> same_imm y y').
    { intros y y' Hy Ey. destruct (msg_eq_dec_by_id (msgs s) y m ND Hy Hm) as [Eym | Ny].
      - subst y. rewrite Pm in Ey. apply (lease_effect_same_imm c now k). exact Ey.
      - rewrite (Poth y Hy Ny) in Ey. inversion Ey; subst. apply same_imm_refl. }
    assert (Hfind : forall y, In y (msgs s) -> find_id (m_id y) (msgs s') = pm y).
    { intros y Hy. rewrite E, find_id_apply_pm_on; [rewrite (find_id_In_NoDup _ _ ND Hy); reflexivity | | exact ND].
      intros a a' Ha Ea. destruct (Hid a a' Ha Ea) as [Eid _]. symmetry. exact Eid. }
    apply andb_true_iff. split.
    + apply forallb_forall. intros y Hy. unfold c04_msg. cbn [ev_op ev_after op_now]. rewrite (Hfind y Hy).
      destruct (msg_eq_dec_by_id (msgs s) y m ND Hy Hm) as [Eym | Ny].
      * subst y. unfold presents. cbn [presented lref_id]. rewrite Lm. rewrite memN_cons, N.eqb_refl. cbn [orb andb].
        rewrite Il. apply Z.ltb_lt in Hu. rewrite Hu. cbn [andb]. rewrite Pm, opt_msg_eqb_refl. reflexivity.
      * rewrite (Poth y Hy Ny).
        destruct (presents (LeaseOp now k (LKnown x p)) y && is_leased y) eqn:Ep; [|apply opt_msg_eqb_refl].
        exfalso. apply andb_true_iff in Ep. destruct Ep as [Ep _]. unfold presents in Ep. cbn [presented lref_id] in Ep.
        destruct (m_lease y) as [ly|] eqn:Ly; [|discriminate]. rewrite memN_cons in Ep. cbn [memN existsb] in Ep. rewrite orb_false_r in Ep.
        apply N.eqb_eq in Ep. subst ly. apply Ny. apply (inv_linj _ _ I y m x); assumption.
    + rewrite (inserted_nil_apply_pm_on (mkEvent (LeaseOp now k (LKnown x p)) o RUnit (msgs s) (msgs s')) pm ND Hid E). reflexivity.
  - destruct Hcur as [Er Pall].
    assert (Hok : res_ok r = false) by (destruct Er as [Er | Er]; subst r; reflexivity). rewrite Hok. cbn [negb orb andb].
    assert (Hid : forall y y', In y (msgs s) -> pm y = Some y' -> same_imm y y').
    { intros y y' Hy Ey. destruct (Pall y Hy) as [Q | [_ [_ [Q _]]]]; rewrite Q in Ey; inversion Ey; subst;
        [apply same_imm_refl | apply release_same_imm]. }
    assert (Hfind : forall y, In y (msgs s) -> find_id (m_id y) (msgs s') = pm y).
    { intros y Hy. rewrite E, find_id_apply_pm_on; [rewrite (find_id_In_NoDup _ _ ND Hy); reflexivity | | exact ND].
      intros a a' Ha Ea. destruct (Hid a a' Ha Ea) as [Eid _]. symmetry. exact Eid. }
    apply andb_true_iff. split.
    + apply forallb_forall. intros y Hy. destruct (Pall y Hy) as [Q | [Ly [Hexp [Q _]]]].
      * apply c04_msg_unchanged. cbn [ev_after]. rewrite (Hfind y Hy). exact Q.
      * unfold c04_msg. cbn [ev_op ev_after op_now]. rewrite (Hfind y Hy), Q.
        unfold presents. cbn [presented lref_id]. rewrite Ly, memN_cons, N.eqb_refl. cbn [orb andb].
        pose proof Hexp as Hexp'. unfold expired in Hexp'. apply andb_true_iff in Hexp'. destruct Hexp' as [Il Hu].
        rewrite Il. apply Z.leb_le in Hu. assert (Hlt : (now <? m_until y) = false) by (apply Z.ltb_ge; exact Hu). rewrite Hlt.
        rewrite opt_msg_eqb_refl. apply orb_true_r.
    + rewrite (inserted_nil_apply_pm_on (mkEvent (LeaseOp now k (LKnown x p)) o r (msgs s) (msgs s')) pm ND Hid E). reflexivity.
Qed.

Lemma c04_same_state c x o r s :
  Inv s -> inserted (mkEvent x o r (msgs s) (msgs s)) = []
           /\ forall k m, In m (msgs s) -> c04_msg c (mkEvent x o r (msgs s) (msgs s)) k false m = true.
Proof.
  intros I. pose proof (inv_nodup _ _ I) as ND. split.
  - apply (inserted_nil_apply_pm_on _ (fun m => Some m)); [exact ND | | symmetry; apply apply_pm_id].
    intros m m' _ E. inversion E; subst. apply same_imm_refl.
  - intros k m Hm. apply c04_msg_unchanged. cbn [ev_after]. apply find_id_In_NoDup; assumption.
Qed.

Theorem c04_event_holds fl c s x o s' r :
  store_lease_op x -> Inv s -> step fl c s x o = (s', r) -> c04_event c (mkEvent x o r (msgs s) (msgs s')) = true.
Proof.
  intros Hso I H. pose proof (inv_nodup _ _ I) as ND.
  destruct x as [now e|now es|now route target batch ttl|now k l|now k ls|now k idl|now k f|now f ord|now route limit before|now idl|now|now];
    try reflexivity; cbn [step] in H.
  - (* single *)
    destruct (is_noop_extend k) eqn:Hn.
    + unfold step_lease in H. rewrite Hn in H. inversion H; subst s' r.
      unfold c04_event. cbn [ev_op ev_res ev_before ev_after]. rewrite Hn. rewrite Nat.eqb_refl, andb_true_r.
      apply forallb_forall. intros m Hm. rewrite (find_id_In_NoDup _ _ ND Hm). apply msg_eqb_refl.
    + destruct l as [x p| |].
      * apply (c04_single fl c now k x p o s s' r I Hn H).
      * destruct (lease_op_unknown fl c now k s Hn) as [Eb _]. rewrite Eb in H. inversion H; subst s' r.
        unfold c04_event. cbn [ev_op ev_res ev_before ev_after op_now lref_id res_ok negb orb andb]. rewrite Hn.
        destruct (c04_same_state c (LeaseOp now k LBlank) o (RErr ENotFound) s I) as [Hins Hmsg]. rewrite Hins.
        cbn [length Nat.eqb]. rewrite andb_true_r. apply forallb_forall. intros m Hm. apply Hmsg. exact Hm.
      * destruct (lease_op_unknown fl c now k s Hn) as [_ Eu]. rewrite Eu in H. inversion H; subst s' r.
        unfold c04_event. cbn [ev_op ev_res ev_before ev_after op_now lref_id res_ok negb orb andb]. rewrite Hn.
        destruct (c04_same_state c (LeaseOp now k LUnknown) o (RErr ENotFound) s I) as [Hins Hmsg]. rewrite Hins.
        cbn [length Nat.eqb]. rewrite andb_true_r. apply forallb_forall. intros m Hm. apply Hmsg. exact Hm.
  - (* batch *)
    destruct (batch_kind_ok k) eqn:Hk; [|destruct k; simpl in Hk; try discriminate; simpl in Hso; contradiction].
    set (k' := match k with KNack d => KNack (Z.max d 0) | _ => k end).
    assert (Hk' : batch_kind_ok k' = true) by (destruct k; simpl in *; auto).
    destruct (lease_batch_fenced c now k ls s s' r Hk I H) as [pm [E [Hch Hcomp]]]. fold k' in Hch, Hcomp.
    pose proof (lease_batch_counts c now k' ls (msgs s) (issued s) Hk' I) as Hcnt.
    unfold step_lease_batch in H. fold k' in H.
    destruct (lease_batch c now k' ls (msgs s)) as [[ms' n] cs] eqn:Eb. inversion H; subst s' r. cbn [msgs set_msgs] in E.
    destruct Hcnt as [Hn [Hlen Htrue]].
    assert (Hid : forall y y', In y (msgs s) -> pm y = Some y' -> same_imm y y').
    { intros y y' Hy Ey. destruct (Hch y Hy) as [Q | [[lid [_ [_ [_ Q]]]] | [lid [_ [_ [_ [_ Q]]]]]]]; rewrite Q in Ey.
      - inversion Ey; subst. apply same_imm_refl.
      - inversion Ey; subst. apply release_same_imm.
      - apply (lease_effect_same_imm c now k'). exact Ey. }
    assert (Hfind : forall y, In y (msgs s) -> find_id (m_id y) ms' = pm y).
    { intros y Hy. rewrite E, find_id_apply_pm_on; [rewrite (find_id_In_NoDup _ _ ND Hy); reflexivity | | exact ND].
      intros a a' Ha Ea. destruct (Hid a a' Ha Ea) as [Eid _]. symmetry. exact Eid. }
    unfold c04_event. cbn [ev_op ev_res ev_before ev_after op_now lease_op_kind msgs set_msgs]. fold k'.
    rewrite !andb_true_iff. repeat split.
    + apply forallb_forall. intros y Hy. unfold c04_msg. cbn [ev_op ev_after op_now]. rewrite (Hfind y Hy).
      rewrite presents_eq, presented_batch.
      destruct (presents_in (known_leases ls) y && is_leased y) eqn:Ep.
      * apply andb_true_iff in Ep. destruct Ep as [Ep Il]. unfold presents_in in Ep.
        destruct (m_lease y) as [ly|] eqn:Ly; [|discriminate]. apply memN_In in Ep.
        destruct (now <? m_until y) eqn:Eu.
        -- apply Z.ltb_lt in Eu. rewrite (Hcomp y ly Hy Ly Ep Il Eu). cbn [andb]. rewrite opt_msg_eqb_refl. reflexivity.
        -- apply Z.ltb_ge in Eu. destruct (Hch y Hy) as [Q | [[lid [_ [_ [_ Q]]]] | [lid [_ [_ [_ [Hu _]]]]]]].
           ++ rewrite Q, opt_msg_eqb_refl. reflexivity.
           ++ rewrite Q, opt_msg_eqb_refl. apply orb_true_r.
           ++ lia.
      * destruct (Hch y Hy) as [Q | [[lid [Ly [Hin [Hexp _]]]] | [lid [Ly [Hin [Il _]]]]]].
        -- rewrite Q. apply opt_msg_eqb_refl.
        -- exfalso. unfold presents_in in Ep. rewrite Ly in Ep. apply memN_In in Hin. rewrite Hin in Ep.
           unfold expired in Hexp. apply andb_true_iff in Hexp. destruct Hexp as [Il _]. rewrite Il in Ep. discriminate.
        -- exfalso. unfold presents_in in Ep. rewrite Ly in Ep. apply memN_In in Hin. rewrite Hin, Il in Ep. discriminate.
    + rewrite (inserted_nil_apply_pm_on (mkEvent (LeaseBatch now k ls) o (RBatch n cs) (msgs s) ms') pm ND Hid E). reflexivity.
    + apply Z.eqb_eq. rewrite Hn. f_equal. apply filter_len_ext_in. intros y _. unfold curb. rewrite presents_eq, presented_batch. reflexivity.
    + apply Z.eqb_eq. exact Hlen.
    + apply Z.eqb_eq. f_equal. unfold truecount in Htrue. rewrite Htrue. apply filter_len_ext_in. intros y _.
      unfold expb. rewrite presents_eq, presented_batch. reflexivity.
Qed.

(** ** every trace *)
Lemma run_c04 fl c xs : forall s iss ins,
  Inv s -> Forall (fun xo : op * oracle => store_lease_op (fst xo)) xs ->
  forallb (fun t : bool * bool * bool * bool * bool * bool => snd (fst (fst (fst t))))
          (mon_all fl c iss ins (fst (run fl c s xs))) = true.
Proof.
  induction xs as [|[x o] tl IH]; intros s iss ins I Hf; [reflexivity|].
  simpl in *. pose proof (step_inv fl c s x o I) as I1.
  destruct (step fl c s x o) as [s' r] eqn:Es. simpl in I1.
  destruct (run fl c s' tl) as [evs sf] eqn:Er. simpl in *.
  inversion Hf as [|? ? Hfe Hrest]; subst. simpl in Hfe.
  apply andb_true_iff. split.
  - apply (c04_event_holds fl c s x o s' r Hfe I Es).
  - specialize (IH s' (iss ++ item_leases r) (upd_ins ins (mkEvent x o r (msgs s) (msgs s'))) I1).
    rewrite Er in IH. simpl in IH. apply IH. exact Hrest.
Qed.

Theorem P_C04_holds_on_model fl c xs :
  Forall (fun xo : op * oracle => store_lease_op (fst xo)) xs -> P_C04 fl c (model_trace fl c xs) = true.
Proof. intros H. unfold P_C04. apply (run_c04 fl c xs init [] []); [apply inv_init | exact H]. Qed.
