(** The audit log of a whole MCP session (internal/mcp/server.go: callTool + emitMutationAuditEvent).
    A session is any list of tools/call requests [(tool, body_ok)] served under one server setting;
    the log is the concatenation of what each call appends.  The per-call facts of
    Proofs/McpGateProofs.v lift to: the log holds exactly one record per call of a mutating tool, in
    call order, nothing else - denied calls included, calls of read-only and unknown tools excluded. *)
From Coq Require Import String List Bool Arith Lia.
From HK Require Import Gen.McpTables Model.McpGate Proofs.McpGateProofs.
Import ListNotations.
Open Scope list_scope.

Definition mcp_call := (string * bool)%type.

Definition session_audit (s : srv) (calls : list mcp_call) : list audit_result :=
  flat_map (fun c => audit s (fst c) (snd c)) calls.

(** the record the property demands for one call of a mutating tool *)
Definition record_of (s : srv) (c : mcp_call) : audit_result :=
  match access s (fst c) with
  | Allowed => if snd c then ASuccess else AError
  | Denied _ => ADenied
  end.

Definition is_mutating (c : mcp_call) : bool := mutating (fst c).

Lemma audit_is_record s t b : mutating t = true -> audit s t b = [record_of s (t, b)].
Proof.
  intros Hm. destruct (audit_once s t b Hm) as [a [Ha [Hd Hok]]].
  rewrite Ha. f_equal. unfold record_of. cbn [fst snd].
  destruct (access s t) as [|why] eqn:Eacc.
  - apply Hok. reflexivity.
  - apply Hd. intros Hc. discriminate Hc.
Qed.

Lemma session_audit_exact s calls :
  session_audit s calls = map (record_of s) (filter is_mutating calls).
Proof.
  unfold session_audit. induction calls as [|[t b] tl IH]; cbn [flat_map filter map]; [reflexivity|].
  unfold is_mutating at 1. cbn [fst snd].
  destruct (mutating t) eqn:Hm.
  - rewrite (audit_is_record s t b Hm). cbn [map app]. rewrite IH. reflexivity.
  - rewrite (audit_none s t b Hm). cbn [app]. exact IH.
Qed.

Lemma session_audit_length s calls :
  length (session_audit s calls) = length (filter is_mutating calls).
Proof. rewrite session_audit_exact. apply map_length. Qed.

Lemma session_audit_app s c1 c2 :
  session_audit s (c1 ++ c2) = session_audit s c1 ++ session_audit s c2.
Proof. unfold session_audit. apply flat_map_app. Qed.

(** a denied mutating call is in the log as ADenied, at the position of the call *)
Lemma session_audit_denied_recorded s pre t b post :
  mutating t = true -> access s t <> Allowed ->
  session_audit s (pre ++ (t, b) :: post) =
  session_audit s pre ++ ADenied :: session_audit s post.
Proof.
  intros Hm Hd. rewrite session_audit_app. f_equal.
  change ((t, b) :: post) with ([(t, b)] ++ post). rewrite session_audit_app. 
  unfold session_audit at 1. cbn [flat_map fst snd]. rewrite app_nil_r.
  rewrite (audit_is_record s t b Hm). unfold record_of. cbn [fst snd].
  destruct (access s t); [contradiction Hd; reflexivity|reflexivity].
Qed.

(** read-only sessions leave no trace *)
Lemma session_audit_readonly s calls :
  Forall (fun c => mutating (fst c) = false) calls -> session_audit s calls = [].
Proof.
  intros H. rewrite session_audit_exact.
  replace (filter is_mutating calls) with (@nil mcp_call); [reflexivity|].
  symmetry. induction H as [|c tl Hc _ IH]; cbn [filter]; [reflexivity|].
  unfold is_mutating at 1. rewrite Hc. exact IH.
Qed.
