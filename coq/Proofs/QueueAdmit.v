(** C12 - admission by depth and drop policy. *)
From Coq Require Import List ZArith NArith Bool Lia Sorted.
From HK Require Import Gen.Consts Model.Queue Model.QueueHash Model.QueueMon
  Proofs.QueueBase Proofs.QueueInv Proofs.QueueInvStep Proofs.QueueStep.
Import ListNotations.
Open Scope Z_scope.

(** ** a refused enqueue leaves the queue exactly as it was (after the retention prune every call may run) *)
Theorem enqueue_refusal_frame fl c now single es o s s' e :
  step_enqueue fl c now single es o s = (s', RErr e) -> s' = prune c now (o_gone o) s.
Proof.
  unfold step_enqueue. destruct es as [|e0 es0]; [discriminate|].
  destruct (assign_ids (e0 :: es0) (o_genids o)) as [ies|]; [|discriminate].
  destruct fl.
  - destruct (mem_plan _ _ _ _) as [victims|]; [|intros H; inversion H; reflexivity].
    destruct single.
    + destruct (pressure _ _); [intros H; inversion H; reflexivity|].
      destruct (negb _); [intros H; inversion H; reflexivity | discriminate].
    + destruct (negb _); [intros H; inversion H; reflexivity|].
      destruct (pressure _ _); [intros H; inversion H; reflexivity | discriminate].
  - match goal with |- (match ?rm with _ => _ end) = _ -> _ => destruct rm end; [|intros H; inversion H; reflexivity].
    destruct (_ && _); [destruct single; discriminate | intros H; inversion H; reflexivity].
Qed.

(** ** counting active messages *)
Lemma count_st_app p l1 l2 : count_st p (l1 ++ l2) = count_st p l1 + count_st p l2.
Proof. unfold count_st. rewrite filter_app, app_length, Nat2Z.inj_add. reflexivity. Qed.

Lemma count_st_cons p a l : count_st p (a :: l) = (if p (m_st a) then 1 else 0) + count_st p l.
Proof. unfold count_st. simpl. destruct (p (m_st a)); simpl length; lia. Qed.

Lemma count_news p now (ies : list (N * enq)) :
  p Queued = true -> count_st p (map (fun q => mk_msg now (fst q) (snd q)) ies) = Z.of_nat (length ies).
Proof.
  intros Hp. induction ies as [|a tl IH]; [reflexivity|]. simpl map. rewrite count_st_cons. simpl m_st. rewrite Hp, IH.
  simpl length. lia.
Qed.

(** removing a set of distinct ids of stored messages that satisfy [p] lowers the count by their number *)
Lemma count_remove p l vs :
  NoDup (ids l) -> NoDup vs -> (forall v, In v vs -> exists m, In m l /\ m_id m = v /\ p (m_st m) = true) ->
  count_st p (apply_pm (pm_remove_ids vs) l) = count_st p l - Z.of_nat (length vs).
Proof.
  revert vs. induction l as [|a tl IH]; intros vs ND NDv Hex.
  - destruct vs as [|v vt]; [reflexivity|]. destruct (Hex v (or_introl eq_refl)) as [m [[] _]].
  - inversion ND as [|? ? Ha Htl]; subst. simpl apply_pm. unfold pm_remove_ids at 1.
    destruct (memN (m_id a) vs) eqn:Em.
    + apply memN_In in Em. destruct (in_split _ _ Em) as [v1 [v2 Ev]]. subst vs.
      assert (NDv' : NoDup (v1 ++ v2)) by (apply NoDup_remove_1 in NDv; exact NDv).
      assert (Nin : ~ In (m_id a) (v1 ++ v2)) by (apply NoDup_remove_2 in NDv; exact NDv).
      assert (Pa : p (m_st a) = true).
      { destruct (Hex (m_id a) Em) as [m [[Hm | Hm] [Ei Ep]]]; [subst; exact Ep|].
        exfalso. apply Ha. rewrite <- Ei. apply in_map. exact Hm. }
      assert (Eq : apply_pm (pm_remove_ids (v1 ++ m_id a :: v2)) tl = apply_pm (pm_remove_ids (v1 ++ v2)) tl).
      { apply apply_pm_ext. intros y Hy. unfold pm_remove_ids.
        assert (Ny : m_id y <> m_id a) by (intros E; apply Ha; rewrite <- E; apply in_map; exact Hy).
        destruct (memN (m_id y) (v1 ++ m_id a :: v2)) eqn:E1; destruct (memN (m_id y) (v1 ++ v2)) eqn:E2; try reflexivity.
        - apply memN_In in E1. apply memN_false in E2. exfalso. apply E2. apply in_app_or in E1. apply in_or_app.
          destruct E1 as [E1 | [E1 | E1]]; [left; exact E1 | congruence | right; exact E1].
        - apply memN_false in E1. apply memN_In in E2. exfalso. apply E1. apply in_app_or in E2. apply in_or_app.
          destruct E2 as [E2 | E2]; [left; exact E2 | right; right; exact E2]. }
      rewrite Eq, (IH (v1 ++ v2) Htl NDv').
      * rewrite count_st_cons, Pa, !app_length. simpl length. lia.
      * intros v Hv. assert (Hv' : In v (v1 ++ m_id a :: v2)).
        { apply in_app_or in Hv. apply in_or_app. destruct Hv; [left | right; right]; assumption. }
        destruct (Hex v Hv') as [m [[Hm | Hm] [Ei Ep]]]; [subst m; exfalso; apply Nin; rewrite Ei; exact Hv | exists m; auto].
    + simpl. rewrite !count_st_cons, (IH vs Htl NDv); [lia|].
      intros v Hv. destruct (Hex v Hv) as [m [[Hm | Hm] [Ei Ep]]]; [|exists m; auto].
      subst m. apply memN_false in Em. rewrite Ei in Em. contradiction.
Qed.

Lemma queued_is_active m : queuedb m = true -> is_active (m_st m) = true.
Proof. unfold queuedb. destruct (m_st m); simpl; intros H; try discriminate; reflexivity. Qed.

Lemma queued_is_active_deliv m : queuedb m = true -> is_active_deliv (m_st m) = true.
Proof. unfold queuedb. destruct (m_st m); simpl; intros H; try discriminate; reflexivity. Qed.

(** ** SQLite: make room *)
Lemma sql_make_room_exact c fuel need hint l l2 :
  NoDup (ids l) -> sql_make_room c fuel need hint l = Some l2 ->
  exists vs, l2 = apply_pm (pm_remove_ids vs) l /\ queued_ids l vs /\ NoDup vs
             /\ Z.of_nat (length vs) = Z.max 0 (need - c_max_depth c).
Proof.
  revert need l. induction fuel as [|f IH]; simpl; intros need l ND H.
  - destruct (need <=? c_max_depth c) eqn:E; inversion H; subst. apply Z.leb_le in E.
    exists []. rewrite remove_nil. split; [reflexivity|]. split; [intros v []|]. split; [constructor | simpl; lia].
  - destruct (need <=? c_max_depth c) eqn:E.
    { inversion H; subst. apply Z.leb_le in E. exists []. rewrite remove_nil. split; [reflexivity|].
      split; [intros v []|]. split; [constructor | simpl; lia]. }
    apply Z.leb_gt in E.
    destruct (sql_victim hint l) as [v|] eqn:Ev; [|discriminate].
    assert (ND1 : NoDup (ids (remove_id v l))) by (unfold remove_id; apply apply_pm_NoDup; [auto with qimm | exact ND]).
    destruct (IH _ _ ND1 H) as [vs [E2 [Q [NDv Len]]]]. exists (v :: vs).
    split; [rewrite E2; apply remove_then_remove|]. split; [|split].
    + intros w [Hw | Hw]; [subst w; apply (sql_victim_spec hint); exact Ev|].
      destruct (Q w Hw) as [m [A [B Cc]]]. exists m. split; [apply (remove_id_In v); exact A | auto].
    + constructor; [|exact NDv]. intros Hin. destruct (Q v Hin) as [m [A [B _]]].
      assert (Hi : In v (ids (remove_id v l))) by (rewrite <- B at 1; apply in_map; exact A).
      unfold remove_id in Hi. apply ids_remove_ids in Hi. destruct Hi as [_ Hn]. apply Hn. left. reflexivity.
    + simpl length. rewrite Nat2Z.inj_succ, Len. lia.
Qed.

(** ** memory: the eviction plan *)
Lemma mem_oldest_fresh ord l vs best m :
  mem_oldest ord l vs best = Some m -> best = Some m \/ (In m l /\ queuedb m = true /\ ~ In (m_id m) vs).
Proof.
  revert best. induction ord as [|i tl IH]; simpl; intros best H; [left; exact H|].
  destruct (find_id i l) as [mi|] eqn:F; [|apply IH; exact H].
  destruct (queuedb mi && negb (memN i vs)) eqn:Eq; [|apply IH; exact H].
  apply andb_true_iff in Eq. destruct Eq as [Eq En]. apply negb_true_iff in En. apply memN_false in En.
  apply find_id_Some in F. destruct F as [Fin Fid]. rewrite <- Fid in En.
  destruct best as [b|].
  - destruct (m_recv mi <? m_recv b); destruct (IH _ H) as [E | E]; auto.
    inversion E; subst. right. repeat split; assumption.
  - destruct (IH _ H) as [E | E]; auto. inversion E; subst. right. repeat split; assumption.
Qed.

Lemma mem_plan_loop_exact c fuel extra ord l a ad vs0 vs :
  mem_plan_loop c fuel extra ord l a ad vs0 = Some vs -> NoDup vs0 -> queued_ids l vs0 ->
  NoDup vs /\ queued_ids l vs /\
  exists n, Z.of_nat (length vs) = Z.of_nat (length vs0) + n /\ 0 <= n /\ mem_full c extra (a - n) (ad - n) = false.
Proof.
  revert a ad vs0. induction fuel as [|f IH]; simpl; intros a ad vs0 H ND Q.
  - destruct (negb (mem_full c extra a ad)) eqn:E; [|discriminate]. inversion H; subst.
    split; [exact ND|]. split; [exact Q|]. exists 0. rewrite !Z.sub_0_r. apply negb_true_iff in E. repeat split; lia || exact E.
  - destruct (negb (mem_full c extra a ad)) eqn:E.
    { inversion H; subst. split; [exact ND|]. split; [exact Q|]. exists 0. rewrite !Z.sub_0_r. apply negb_true_iff in E.
      repeat split; lia || exact E. }
    destruct (mem_oldest ord l vs0 None) as [m|] eqn:Eo; [|discriminate].
    apply mem_oldest_fresh in Eo. destruct Eo as [Eo | [Hm [Hq Hn]]]; [discriminate|].
    destruct (IH (a - 1) (ad - 1) (vs0 ++ [m_id m]) H) as [ND' [Q' [n [Ln [Hn0 Hf]]]]].
    + apply NoDup_app_intro; [exact ND | constructor; [intros [] | constructor]|].
      intros x Hx [Hx' | []]. subst x. contradiction.
    + intros v Hv. apply in_app_or in Hv. destruct Hv as [Hv | [Hv | []]]; [apply Q; exact Hv|]. subst v. exists m. auto.
    + split; [exact ND'|]. split; [exact Q'|]. exists (n + 1). rewrite app_length in Ln. simpl length in Ln.
      split; [lia|]. split; [lia|]. replace (a - (n + 1)) with (a - 1 - n) by lia. replace (ad - (n + 1)) with (ad - 1 - n) by lia. exact Hf.
Qed.

(** ** admitted only within max_depth *)
Theorem enqueue_within_depth fl c now single es o s s' r :
  (single = true -> length es = 1%nat) ->
  Inv s -> step_enqueue fl c now single es o s = (s', r) -> res_ok r = true -> es <> [] ->
  0 < c_max_depth c -> active (msgs (prune c now (o_gone o) s)) <= c_max_depth c ->
  active (msgs s') <= c_max_depth c.
Proof.
  intros Hsingle I H Hok Hne Hmax Hpre.
  unfold step_enqueue in H. destruct es as [|e0 es0]; [contradiction|]. set (es := e0 :: es0) in *.
  pose proof (inv_prune c now (o_gone o) s I) as I1.
  destruct (assign_ids es (o_genids o)) as [ies|] eqn:EA; [|inversion H; subst; discriminate].
  assert (Hlen : length ies = length es) by (apply (assign_ids_length _ _ _ EA)).
  set (s1 := prune c now (o_gone o) s) in *. set (l1 := msgs s1) in *.
  set (news := map (fun q => mk_msg now (fst q) (snd q)) ies) in *.
  assert (Anews : active news = Z.of_nat (length ies)) by (apply count_news; reflexivity).
  destruct fl.
  - (* memory *)
    destruct (mem_plan c (Z.of_nat (length ies)) s1 l1) as [victims|] eqn:EP; [|inversion H; subst; discriminate].
    assert (Done : active (apply_pm (pm_remove_ids victims) l1 ++ news) <= c_max_depth c).
    { unfold mem_plan in EP. destruct (c_max_depth c <=? 0) eqn:Ed; [apply Z.leb_le in Ed; lia|].
      destruct (negb (mem_full c (Z.of_nat (length ies)) (active l1) (active_deliv l1))) eqn:Ef.
      - inversion EP; subst victims. rewrite remove_nil. unfold active. rewrite count_st_app. fold (active l1) (active news).
        apply negb_true_iff in Ef. unfold mem_full in Ef. apply orb_false_iff in Ef. destruct Ef as [Ef _].
        apply Z.ltb_ge in Ef. lia.
      - destruct (negb (c_drop_oldest c)); [discriminate|].
        destruct (mem_plan_loop_exact _ _ _ _ _ _ _ _ _ EP (NoDup_nil N)) as [NDv [Q [n [Ln [Hn0 Hf]]]]]; [intros v []|].
        unfold active. rewrite count_st_app. fold (active news).
        rewrite (count_remove is_active l1 victims (inv_nodup _ _ I1) NDv).
        + fold (active l1). simpl length in Ln. unfold mem_full in Hf. apply orb_false_iff in Hf. destruct Hf as [Hf _].
          apply Z.ltb_ge in Hf. lia.
        + intros v Hv. destruct (Q v Hv) as [m [A [B Cq]]]. exists m. split; [exact A|]. split; [exact B | apply queued_is_active; exact Cq]. }
    destruct single.
    + destruct (pressure c l1); [inversion H; subst; discriminate|].
      destruct (negb _); [inversion H; subst; discriminate|]. inversion H; subst. exact Done.
    + destruct (negb _); [inversion H; subst; discriminate|].
      destruct (pressure c l1); [inversion H; subst; discriminate|]. inversion H; subst. exact Done.
  - (* SQLite *)
    match type of H with (match ?rm with _ => _ end) = _ => set (room := rm) in * end.
    destruct room as [l2|] eqn:Er; [|inversion H; subst; discriminate].
    destruct (_ && _); [|inversion H; subst; discriminate]. inversion H; subst s'. simpl msgs.
    unfold active. rewrite count_st_app. fold (active l2) (active news). rewrite Anews.
    unfold room in Er. assert (Hm : (0 <? c_max_depth c) = true) by (apply Z.ltb_lt; exact Hmax). rewrite Hm in Er.
    destruct (c_drop_oldest c).
    + destruct (sql_make_room_exact _ _ _ _ _ _ (inv_nodup _ _ I1) Er) as [vs [E2 [Q [NDv Len]]]]. subst l2.
      unfold active. fold l1. rewrite (count_remove is_active l1 vs (inv_nodup _ _ I1) NDv).
      * fold (active l1). lia.
      * intros v Hv. destruct (Q v Hv) as [m [A [B Cq]]]. exists m. split; [exact A|]. split; [exact B | apply queued_is_active; exact Cq].
    + destruct (c_max_depth c <? active l1 + Z.of_nat (length ies)) eqn:Ef; [discriminate|]. inversion Er; subst l2.
      apply Z.ltb_ge in Ef. lia.
Qed.

(** ** nothing but an enqueue or an operator requeue/resume raises the number of active messages *)
Lemma count_apply_pm_le p pm l :
  (forall m m', In m l -> pm m = Some m' -> p (m_st m') = true -> p (m_st m) = true) ->
  count_st p (apply_pm pm l) <= count_st p l.
Proof.
  induction l as [|a tl IH]; intros H; [simpl; lia|]. simpl apply_pm.
  assert (Htl : forall m m', In m tl -> pm m = Some m' -> p (m_st m') = true -> p (m_st m) = true)
    by (intros m m' Hm; apply H; right; exact Hm).
  specialize (IH Htl). destruct (pm a) as [a'|] eqn:E.
  - rewrite !count_st_cons. specialize (H a a' (or_introl eq_refl) E).
    destruct (p (m_st a')); destruct (p (m_st a)); try lia; discriminate (H eq_refl).
  - rewrite count_st_cons. destruct (p (m_st a)); lia.
Qed.

Definition raises_active (x : op) : bool :=
  match x with
  | Enqueue _ _ | EnqueueBatch _ _ => true
  | _ => match manage_kind_of x with
         | Some (MRequeue | MResume | MRequeueDead) => true
         | _ => false
         end
  end.

Lemma change_active_le c x r m m' :
  raises_active x = false -> change c x r m m' -> is_active (m_st m') = true -> is_active (m_st m) = true.
Proof.
  intros Hr H Ha. destruct H as [E | _ He _ E | route target b ttl lid m0 Ex H0 Hrd _ _ E | k lid _ _ _ Il _ _ _ E | k Hk Hal _ E].
  - subst. exact Ha.
  - unfold expired, is_leased in He. apply andb_true_iff in He. destruct He as [He _].
    destruct (m_st m); simpl in He; try discriminate. reflexivity.
  - destruct H0 as [H0 | [He H0]]; subst m0.
    + unfold ready, queuedb in Hrd. rewrite !andb_true_iff in Hrd. destruct Hrd as [[[Hq _] _] _].
      destruct (m_st m); simpl in Hq; try discriminate. reflexivity.
    + unfold expired, is_leased in He. apply andb_true_iff in He. destruct He as [He _].
      destruct (m_st m); simpl in He; try discriminate. reflexivity.
  - unfold is_leased in Il. destruct (m_st m); simpl in Il; try discriminate. reflexivity.
  - assert (Hr' : match k with MRequeue | MResume | MRequeueDead => false | _ => true end = true).
    { unfold raises_active in Hr. destruct x; try discriminate Hr; try (simpl in Hk; discriminate Hk); rewrite Hk in Hr; destruct k; try discriminate Hr; reflexivity. }
    unfold manage_effect in E. destruct k; try discriminate; inversion E; subst; simpl in Ha; discriminate.
Qed.

Theorem step_active_not_raised fl c s x o s' r :
  Inv s -> raises_active x = false -> step fl c s x o = (s', r) -> active (msgs s') <= active (msgs s).
Proof.
  intros I Hr H. destruct (step_sound fl c s x o s' r I H) as [pm [news [E [P N]]]].
  assert (Nn : news = []).
  { destruct N as [N | [_ [ies [EA En]]]]; [exact N|]. destruct x; simpl in Hr; try discriminate; simpl in EA; inversion EA; subst; reflexivity. }
  subst news. rewrite app_nil_r in E. rewrite E. unfold active. apply count_apply_pm_le.
  intros m m' Hm Ep. specialize (P m Hm). rewrite Ep in P. apply (change_active_le c x r m m' Hr P).
Qed.

(** ** history level: without operator requeue/resume the active count never exceeds max_depth *)
Definition lifts (x : op) : bool :=
  match manage_kind_of x with Some (MRequeue | MResume | MRequeueDead) => true | _ => false end.

Lemma prune_active_le c now hint s : active (msgs (prune c now hint s)) <= active (msgs s).
Proof.
  rewrite prune_msgs_eq. unfold active. apply count_apply_pm_le.
  intros m m' _ E. apply prune_pm_same in E. subst. auto.
Qed.

Lemma step_enqueue_bad_oracle fl c now single es o s s' :
  step_enqueue fl c now single es o s = (s', RBadOracle) -> s' = s.
Proof.
  unfold step_enqueue. destruct es as [|e0 es0]; [discriminate|].
  destruct (assign_ids (e0 :: es0) (o_genids o)) as [ies|]; [|intros H; inversion H; reflexivity].
  destruct fl.
  - destruct (mem_plan _ _ _ _) as [victims|]; [|discriminate].
    destruct single.
    + destruct (pressure _ _); [discriminate|]. destruct (negb _); discriminate.
    + destruct (negb _); [discriminate|]. destruct (pressure _ _); discriminate.
  - match goal with |- (match ?rm with _ => _ end) = _ -> _ => destruct rm end; [|discriminate].
    destruct (_ && _); [destruct single; discriminate | discriminate].
Qed.

Lemma step_enqueue_active fl c now single es o s :
  (single = true -> length es = 1%nat) -> Inv s -> 0 < c_max_depth c -> active (msgs s) <= c_max_depth c ->
  active (msgs (fst (step_enqueue fl c now single es o s))) <= c_max_depth c.
Proof.
  intros Hs I Hmax Hle. destruct (step_enqueue fl c now single es o s) as [s' r] eqn:E. simpl.
  pose proof (prune_active_le c now (o_gone o) s) as Hp.
  destruct es as [|e0 es0]; [unfold step_enqueue in E; inversion E; subst; exact Hle|].
  destruct (res_ok r) eqn:Ok.
  - apply (enqueue_within_depth fl c now single (e0 :: es0) o s s' r Hs I E Ok); [discriminate | exact Hmax | lia].
  - destruct r; try discriminate.
    + apply enqueue_refusal_frame in E. subst s'. lia.
    + apply step_enqueue_bad_oracle in E. subst s'. exact Hle.
Qed.

Theorem step_active_bounded fl c s x o :
  Inv s -> lifts x = false -> 0 < c_max_depth c -> active (msgs s) <= c_max_depth c ->
  active (msgs (fst (step fl c s x o))) <= c_max_depth c.
Proof.
  intros I Hl Hmax Hle.
  destruct (raises_active x) eqn:Hr.
  - destruct x; unfold lifts in Hl; simpl in Hr, Hl; try discriminate.
    + cbn [step]. apply step_enqueue_active; auto.
    + cbn [step]. apply step_enqueue_active; auto. discriminate.
    + destruct k; discriminate.
    + destruct (f_preview f); destruct k; discriminate.
  - destruct (step fl c s x o) as [s' r] eqn:E. simpl.
    pose proof (step_active_not_raised fl c s x o s' r I Hr E). lia.
Qed.

Theorem active_bounded_along_history fl c s xs :
  Inv s -> 0 < c_max_depth c -> active (msgs s) <= c_max_depth c ->
  Forall (fun xo : op * oracle => lifts (fst xo) = false) xs ->
  active (msgs (snd (run fl c s xs))) <= c_max_depth c.
Proof.
  revert s. induction xs as [|[x o] tl IH]; simpl; intros s I Hmax Hle HF; [exact Hle|].
  inversion HF as [|? ? Hx Htl]; subst. simpl in Hx.
  pose proof (step_inv fl c s x o I) as I1. pose proof (step_active_bounded fl c s x o I Hx Hmax Hle) as B1.
  destruct (step fl c s x o) as [s' r]. simpl in I1, B1. specialize (IH s' I1 Hmax B1 Htl).
  destruct (run fl c s' tl) as [evs sf]. exact IH.
Qed.

(** ** the drop_oldest victim is an oldest queued message (by received_at) *)
Lemma lt_key_le ka ia kb ib : lt_key ka ia kb ib = true -> ka <= kb.
Proof. unfold lt_key. rewrite orb_true_iff, andb_true_iff, Z.ltb_lt, Z.eqb_eq. intros [H | [H _]]; lia. Qed.

Lemma lt_key_false_ge ka ia kb ib : lt_key ka ia kb ib = false -> kb <= ka.
Proof.
  unfold lt_key. rewrite orb_false_iff, Z.ltb_ge. intros [H _]. exact H.
Qed.

Lemma sort_asc_head_min l :
  match sort_by m_recv true l with
  | [] => l = []
  | h :: _ => In h l /\ forall y, In y l -> m_recv h <= m_recv y
  end.
Proof.
  unfold sort_by. induction l as [|a tl IH]; simpl; [reflexivity|].
  destruct (fold_right (insert_by m_recv true) [] tl) as [|h t] eqn:E; simpl.
  - subst tl. split; [left; reflexivity|]. intros y [Hy | []]. subst. lia.
  - destruct IH as [Hh Hmin]. destruct (lt_key (m_recv a) (m_id a) (m_recv h) (m_id h)) eqn:El.
    + apply lt_key_le in El. split; [left; reflexivity|]. intros y [Hy | Hy]; [subst; lia | specialize (Hmin y Hy); lia].
    + apply lt_key_false_ge in El. split; [right; exact Hh|]. intros y [Hy | Hy]; [subst; lia | apply Hmin; exact Hy].
Qed.

Theorem sql_victim_oldest hint l v :
  sql_victim hint l = Some v ->
  exists m, In m l /\ m_id m = v /\ queuedb m = true /\ forall q, In q l -> queuedb q = true -> m_recv m <= m_recv q.
Proof.
  unfold sql_victim. pose proof (sort_asc_head_min (filter queuedb l)) as Hs.
  destruct (sort_by m_recv true (filter queuedb l)) as [|first rest]; [discriminate|]. destruct Hs as [_ Hmin].
  intros H. destruct (prefer hint _) as [|h t] eqn:Ep; simpl in H; [discriminate|]. inversion H; subst h.
  assert (Hin : In v (prefer hint (map m_id (filter (fun m => m_recv m =? m_recv first) (filter queuedb l))))) by (rewrite Ep; left; reflexivity).
  apply In_prefer in Hin. apply in_map_iff in Hin. destruct Hin as [m [Em Hm]].
  apply filter_In in Hm. destruct Hm as [Hm Hr]. apply Z.eqb_eq in Hr. apply filter_In in Hm. destruct Hm as [Hm Hq].
  exists m. repeat split; auto. intros q Hq1 Hq2. rewrite Hr. apply Hmin. apply filter_In. split; assumption.
Qed.

Lemma mem_oldest_min ord l vs best m :
  mem_oldest ord l vs best = Some m ->
  (forall b, best = Some b -> m_recv m <= m_recv b)
  /\ (forall i q, In i ord -> find_id i l = Some q -> queuedb q = true -> ~ In i vs -> m_recv m <= m_recv q).
Proof.
  revert best. induction ord as [|i tl IH]; simpl; intros best H.
  - subst best. split; [intros b E; inversion E; lia | intros i q []].
  - destruct (find_id i l) as [mi|] eqn:F.
    2:{ destruct (IH _ H) as [A B]. split; [exact A|]. intros j q [Hj | Hj] Fq; [subst j; congruence | apply (B j q Hj Fq)]. }
    destruct (queuedb mi && negb (memN i vs)) eqn:Eq.
    2:{ destruct (IH _ H) as [A B]. split; [exact A|]. intros j q [Hj | Hj] Fq Qq Nq; [|apply (B j q Hj Fq Qq Nq)].
        subst j. rewrite F in Fq. inversion Fq; subst q. rewrite Qq in Eq. simpl in Eq. apply negb_false_iff in Eq.
        apply memN_In in Eq. contradiction. }
    destruct best as [b|].
    + destruct (m_recv mi <? m_recv b) eqn:El.
      * apply Z.ltb_lt in El. destruct (IH _ H) as [A B]. specialize (A mi eq_refl).
        split; [intros b0 E; inversion E; subst; lia|].
        intros j q [Hj | Hj] Fq Qq Nq; [subst j; rewrite F in Fq; inversion Fq; subst; exact A | apply (B j q Hj Fq Qq Nq)].
      * apply Z.ltb_ge in El. destruct (IH _ H) as [A B]. specialize (A b eq_refl).
        split; [intros b0 E; inversion E; subst; exact A|].
        intros j q [Hj | Hj] Fq Qq Nq; [subst j; rewrite F in Fq; inversion Fq; subst; lia | apply (B j q Hj Fq Qq Nq)].
    + destruct (IH _ H) as [A B]. specialize (A mi eq_refl).
      split; [intros b0 E; discriminate|].
      intros j q [Hj | Hj] Fq Qq Nq; [subst j; rewrite F in Fq; inversion Fq; subst; exact A | apply (B j q Hj Fq Qq Nq)].
Qed.

(** ** memory flavour: every stored id is in the order log, so the planned victim is an oldest queued
    message of the whole store *)
Definition order_covers (s : state) : Prop := incl (ids (msgs s)) (order s).

Lemma prune_order_covers c now hint s : order_covers s -> order_covers (prune c now hint s).
Proof.
  unfold order_covers. rewrite prune_msgs_eq, prune_order. intros H i Hi. apply H.
  apply (apply_pm_ids_incl (prune_pm c now hint s) (msgs s)); [apply imm_pres_id_pres; apply prune_pm_imm | exact Hi].
Qed.

Lemma step_enqueue_order_covers c now single es o s :
  order_covers s -> order_covers (fst (step_enqueue Mem c now single es o s)).
Proof.
  intros H. unfold step_enqueue. destruct es as [|e0 es0]; [exact H|].
  pose proof (prune_order_covers c now (o_gone o) s H) as H1.
  destruct (assign_ids (e0 :: es0) (o_genids o)) as [ies|]; [|exact H].
  destruct (mem_plan _ _ _ _) as [victims|]; [|exact H1].
  assert (Done : order_covers (mkState (apply_pm (pm_remove_ids victims) (msgs (prune c now (o_gone o) s)) ++ map (fun p => mk_msg now (fst p) (snd p)) ies)
                                       (order (prune c now (o_gone o) s) ++ map fst ies) (last_prune (prune c now (o_gone o) s))
                                       (last_sweep (prune c now (o_gone o) s)) (issued (prune c now (o_gone o) s)))).
  { unfold order_covers. simpl. intros i Hi. unfold ids in Hi. rewrite map_app in Hi. apply in_app_or in Hi. apply in_or_app.
    destruct Hi as [Hi | Hi].
    - left. apply H1. apply (apply_pm_ids_incl (pm_remove_ids victims)); [auto with qimm | exact Hi].
    - right. rewrite map_map in Hi. simpl in Hi. exact Hi. }
  destruct single.
  - destruct (pressure _ _); [exact H1|]. destruct (negb _); [exact H1 | exact Done].
  - destruct (negb _); [exact H1|]. destruct (pressure _ _); [exact H1 | exact Done].
Qed.

Lemma step_order_unchanged c s x o :
  enq_list x = [] -> order (fst (step Mem c s x o)) = order s.
Proof.
  intros He. destruct x; simpl in He; try discriminate; cbn [step].
  - subst es. reflexivity.
  - rewrite step_dequeue_eq. cbv zeta. unfold deq_pre. simpl.
    destruct (valid_pick _ _ _ _ _ _ _); simpl; apply prune_order.
  - unfold step_lease. destruct (is_noop_extend k); [reflexivity|].
    destruct l; try reflexivity. destruct (lease_one c now k l (msgs s)) as [l' [|[|]]]; reflexivity.
  - destruct (batch_kind_ok k); [|reflexivity]. unfold step_lease_batch.
    destruct (lease_batch c now _ ls (msgs s)) as [[ms' n] cs]. reflexivity.
  - reflexivity.
  - destruct k; try reflexivity; unfold step_manage_f; destruct (f_preview f); reflexivity.
  - unfold step_list. destruct ord; simpl; apply prune_order.
  - unfold step_list_dead. simpl. apply prune_order.
  - reflexivity.
  - unfold step_stats. simpl. apply prune_order.
  - reflexivity.
Qed.

Theorem step_order_covers c s x o : Inv s -> order_covers s -> order_covers (fst (step Mem c s x o)).
Proof.
  intros I H. destruct (enq_list x) as [|e0 es0] eqn:He.
  - unfold order_covers. rewrite (step_order_unchanged c s x o He).
    destruct (step Mem c s x o) as [s' r] eqn:Es. simpl.
    destruct (step_sound Mem c s x o s' r I Es) as [pm [news [E [P N]]]].
    assert (Nn : news = []).
    { destruct N as [N | [_ [ies [EA En]]]]; [exact N|]. rewrite He in EA. simpl in EA. inversion EA; subst. reflexivity. }
    subst news. rewrite app_nil_r in E. rewrite E. intros i Hi. apply H.
    apply (apply_pm_ids_incl_on pm (msgs s)); [|exact Hi].
    intros y y' Hy Ey. specialize (P y Hy). rewrite Ey in P. apply (change_same_imm c x r y y') in P. destruct P as [A _]. congruence.
  - destruct x; simpl in He; try discriminate; cbn [step]; apply step_enqueue_order_covers; exact H.
Qed.

Theorem order_covers_reachable c xs : order_covers (snd (run Mem c init xs)).
Proof.
  assert (G : forall s, Inv s -> order_covers s -> order_covers (snd (run Mem c s xs))).
  { induction xs as [|[x o] tl IH]; intros s I H; [exact H|]. simpl.
    pose proof (step_inv Mem c s x o I) as I1. pose proof (step_order_covers c s x o I H) as H1.
    destruct (step Mem c s x o) as [s' r]. simpl in I1, H1. specialize (IH s' I1 H1).
    destruct (run Mem c s' tl) as [evs sf]. exact IH. }
  apply G; [apply inv_init | intros i []].
Qed.

(** the first victim the memory store plans is an oldest queued message of the store *)
Theorem mem_first_victim_is_oldest c xs m :
  let s := snd (run Mem c init xs) in
  mem_oldest (order s) (msgs s) [] None = Some m ->
  In m (msgs s) /\ queuedb m = true /\ forall q, In q (msgs s) -> queuedb q = true -> m_recv m <= m_recv q.
Proof.
  intros s H. pose proof (reachable_inv Mem c xs) as I. fold s in I.
  pose proof (order_covers_reachable c xs) as Cv. fold s in Cv.
  destruct (mem_oldest_fresh _ _ _ _ _ H) as [E | [Hm [Hq _]]]; [discriminate|].
  split; [exact Hm|]. split; [exact Hq|]. intros q Hq1 Hq2.
  apply (proj2 (mem_oldest_min _ _ _ _ _ H) (m_id q) q); auto.
  - apply Cv. apply in_map. exact Hq1.
  - apply find_id_In_NoDup; [apply I | exact Hq1].
Qed.
