(** Lemmas about Model/Reload.v: the frame property of a failed reload, and atomic
    visibility over all schedules (refuted for the pinned code, proved for the repair target). *)
From Coq Require Import List Bool Arith Lia.
From HK Require Import Model.Reload.
Import ListNotations.

(** * 1. Failed reload changes nothing *)
Section ReloadFacts.
  Variables bytes ast compiled authset : Type.
  Variable read_file : option bytes.
  Variable parse : bytes -> option ast.
  Variable compile : ast -> option compiled.
  Variable requires_restart : compiled -> compiled -> bool.
  Variable load_secrets : compiled -> option authset.
  Variable inherit : authset -> authset -> authset.

  Let reload' := reload bytes ast compiled authset read_file parse compile requires_restart load_secrets inherit.

  Lemma failed_reload_frame : forall running r r' ret o,
    reload' running r = (r', ret, o) -> o <> Reloaded -> r' = r /\ ret = running.
  Proof.
    intros running r r' ret o H Ho. unfold reload', reload in H.
    destruct read_file as [data|]; [|inversion H; auto].
    destruct (parse data) as [cfg|]; [|inversion H; auto].
    destruct (compile cfg) as [c|]; [|inversion H; auto].
    destruct (requires_restart c running); [inversion H; auto|].
    destruct (load_secrets c) as [a|]; [|inversion H; auto].
    inversion H; subst. exfalso. apply Ho. reflexivity.
  Qed.

  (** Which exit is taken, in the order the code tests them.  In particular a change that needs a
      restart is refused before any secret is loaded, and a missing secret is found before any write. *)
  Lemma reload_outcome_spec : forall running r,
    let o := snd (reload' running r) in
    (o = ReadFailed <-> read_file = None) /\
    (o = ParseFailed <-> exists d, read_file = Some d /\ parse d = None) /\
    (o = CompileFailed <-> exists d cfg, read_file = Some d /\ parse d = Some cfg /\ compile cfg = None) /\
    (o = RestartRequired <-> exists d cfg c, read_file = Some d /\ parse d = Some cfg /\ compile cfg = Some c
                                             /\ requires_restart c running = true) /\
    (o = AuthFailed <-> exists d cfg c, read_file = Some d /\ parse d = Some cfg /\ compile cfg = Some c
                                        /\ requires_restart c running = false /\ load_secrets c = None) /\
    (o = Reloaded <-> exists d cfg c a, read_file = Some d /\ parse d = Some cfg /\ compile cfg = Some c
                                        /\ requires_restart c running = false /\ load_secrets c = Some a).
  Proof.
    intros running r. unfold reload', reload. cbv zeta.
    destruct read_file as [data|].
    2:{ simpl. repeat split; intros; try discriminate; auto;
        repeat match goal with H : exists _, _ |- _ => destruct H end; intuition discriminate. }
    destruct (parse data) as [cfg|] eqn:Ep.
    2:{ simpl. repeat split; intros; try discriminate; eauto;
        repeat match goal with H : exists _, _ |- _ => destruct H end; intuition (try discriminate; try congruence). }
    destruct (compile cfg) as [c|] eqn:Ec.
    2:{ simpl. repeat split; intros; try discriminate; eauto;
        repeat match goal with H : exists _, _ |- _ => destruct H end; intuition (try discriminate; try congruence). }
    destruct (requires_restart c running) eqn:Er.
    { simpl. repeat split; intros; try discriminate; eauto 8;
        repeat match goal with H : exists _, _ |- _ => destruct H end; intuition (try discriminate; try congruence). }
    destruct (load_secrets c) as [a|] eqn:Ea.
    2:{ simpl. repeat split; intros; try discriminate; eauto 8;
        repeat match goal with H : exists _, _ |- _ => destruct H end; intuition (try discriminate; try congruence). }
    simpl. repeat split; intros; try discriminate; eauto 10;
        repeat match goal with H : exists _, _ |- _ => destruct H end; intuition (try discriminate; try congruence).
  Qed.

  (** A successful reload is exactly the two critical sections, in the order loadAuth, updateAll,
      and the compiled configuration that was read becomes the running one. *)
  Lemma reload_success : forall running r r' ret,
    reload' running r = (r', ret, Reloaded) ->
    exists d cfg a, read_file = Some d /\ parse d = Some cfg /\ compile cfg = Some ret /\
                    requires_restart ret running = false /\ load_secrets ret = Some a /\
                    r' = write_tables compiled authset ret (write_auth compiled authset inherit a r).
  Proof.
    intros running r r' ret H. unfold reload', reload in H.
    destruct read_file as [data|]; [|inversion H].
    destruct (parse data) as [cfg|] eqn:Ep; [|inversion H].
    destruct (compile cfg) as [c|] eqn:Ec; [|inversion H].
    destruct (requires_restart c running) eqn:Er; [inversion H|].
    destruct (load_secrets c) as [a|] eqn:Ea; [|inversion H].
    inversion H; subst. exists data, cfg, a. repeat split; auto.
  Qed.
End ReloadFacts.

(** ** The step-list reading: in any program whose fallible steps all precede its writes, a
    failure exit is taken with no write performed - for every failure point. *)
Lemma exec_only_writes : forall fails prog,
  forallb (fun s => match s with SWrite _ => true | SFallible _ => false end) prog = true ->
  snd (exec fails prog) = None.
Proof.
  induction prog as [|[p|w] tl IH]; simpl; intros H; auto; [discriminate|].
  specialize (IH H). destruct (exec fails tl) as [ws e]. simpl in *. exact IH.
Qed.

Lemma frame_general : forall fails prog,
  fallible_first prog = true -> snd (exec fails prog) <> None -> fst (exec fails prog) = [].
Proof.
  induction prog as [|[p|w] tl IH]; simpl; intros Hf He.
  - reflexivity.
  - destruct (fails p); simpl; auto.
  - exfalso. pose proof (exec_only_writes fails tl Hf) as Hn.
    destruct (exec fails tl) as [ws e]. simpl in *. auto.
Qed.

Lemma reload_prog_fallible_first : fallible_first reload_prog = true.
Proof. reflexivity. Qed.

Lemma reload_prog_frame : forall fails p,
  snd (exec fails reload_prog) = Some p -> fst (exec fails reload_prog) = [].
Proof.
  intros fails p H. apply frame_general; [reflexivity|]. rewrite H. discriminate.
Qed.

(** Every one of the five failure points is reachable and takes its own exit (non-vacuity). *)
Lemma reload_prog_exits : forall p,
  exists fails, exec fails reload_prog = ([], Some p).
Proof.
  intros p.
  exists (fun q => match p, q with
                   | PRead, PRead | PParse, PParse | PCompile, PCompile
                   | PRestart, PRestart | PSecrets, PSecrets => true
                   | _, _ => false end).
  destruct p; reflexivity.
Qed.

Lemma reload_prog_success : exec (fun _ => false) reload_prog = ([WAuth; WTables], None).
Proof. reflexivity. Qed.

(** * 2. Atomic visibility *)

Lemma field_eqb_eq a b : field_eqb a b = true <-> a = b.
Proof. destruct a, b; simpl; split; intros H; try reflexivity; try discriminate. Qed.

Lemma field_eqb_refl a : field_eqb a a = true.
Proof. destruct a; reflexivity. Qed.

Lemma get_set f g v r : get f (set g v r) = if field_eqb f g then v else get f r.
Proof. destruct f, g; reflexivity. Qed.

Lemma existsb_field_In f fs : existsb (field_eqb f) fs = true <-> In f fs.
Proof.
  rewrite existsb_exists. split.
  - intros [x [Hx He]]. apply field_eqb_eq in He. subst. exact Hx.
  - intros H. exists f. split; [exact H | apply field_eqb_refl].
Qed.

Lemma get_set_fields f fs v : forall r,
  get f (set_fields fs v r) = if existsb (field_eqb f) fs then v else get f r.
Proof.
  unfold set_fields. induction fs as [|a fs IH]; intros r; simpl; [reflexivity|].
  rewrite IH. rewrite get_set.
  destruct (field_eqb f a); simpl; destruct (existsb (field_eqb f) fs); reflexivity.
Qed.

Lemma get_set_fields_in f fs v r : In f fs -> get f (set_fields fs v r) = v.
Proof.
  intros H. rewrite get_set_fields. apply existsb_field_In in H. rewrite H. reflexivity.
Qed.

Lemma get_set_fields_notin f fs v r : ~ In f fs -> get f (set_fields fs v r) = get f r.
Proof.
  intros H. rewrite get_set_fields. destruct (existsb (field_eqb f) fs) eqn:E; [|reflexivity].
  apply existsb_field_In in E. contradiction.
Qed.

Lemma get_uniform f v : get f (uniform v) = v.
Proof. destruct f; reflexivity. Qed.

Lemma one_version_all (o : obs) v : (forall x, In x o -> snd x = v) -> one_version o = true.
Proof.
  destruct o as [|[[c f] v0] tl]; simpl; intros H; [reflexivity|].
  apply forallb_forall. intros x Hx. apply Nat.eqb_eq.
  rewrite (H x (or_intror Hx)). symmetry. apply (H (c, f, v0)). left. reflexivity.
Qed.

Lemma one_version_spec (o : obs) :
  one_version o = true <-> exists v, forall x, In x o -> snd x = v.
Proof.
  split.
  - destruct o as [|[[c f] v0] tl]; simpl; intros H.
    + exists 0. intros x [].
    + exists v0. intros x [Hx|Hx]; [subst; reflexivity|].
      rewrite forallb_forall in H. apply Nat.eqb_eq. apply H. exact Hx.
  - intros [v H]. apply (one_version_all o v H).
Qed.

(** ** Sections that are pairwise equal-or-disjoint; requests that are one callback inside one section *)
Definition sections_ok (shape : reload_shape) : Prop :=
  forall w1 w2, In w1 shape -> In w2 shape -> w1 = w2 \/ (forall f, In f w1 -> ~ In f w2).

Definition within_section (shape : reload_shape) (c : callback) : Prop :=
  exists w, In w shape /\ forall f, In f (fields_of c) -> In f w.

Definition single_section_requests (shape : reload_shape) (reqs : list request) : Prop :=
  forall r, In r reqs -> length r <= 1 /\ forall c, In c r -> within_section shape c.

Definition sec_uniform (shape : reload_shape) (r : vrt) : Prop :=
  forall w, In w shape -> exists v, forall f, In f w -> get f r = v.

Definition req_inv (shape : reload_shape) (q : inflight) : Prop :=
  (length (fst q) <= 1 /\ snd q = [] /\ forall c, In c (fst q) -> within_section shape c)
  \/ (fst q = [] /\ one_version (snd q) = true).

Definition sinv (shape : reload_shape) (s : sstate) : Prop :=
  sec_uniform shape (s_rt s)
  /\ Forall (fun wv => In (fst wv) shape) (s_writes s)
  /\ Forall (req_inv shape) (s_reqs s).

Lemma writes_from_in_shape shape : forall n k,
  Forall (fun wv : list field * nat => In (fst wv) shape) (writes_from shape k n).
Proof.
  induction n as [|n IH]; intros k; simpl; [constructor|].
  apply Forall_app. split; [|apply IH].
  apply Forall_forall. intros x Hx. apply in_map_iff in Hx. destruct Hx as [w [Hw Hin]]. subst. exact Hin.
Qed.

Lemma sinv_init shape n reqs :
  single_section_requests shape reqs -> sinv shape (sinit shape n reqs).
Proof.
  intros Hr. unfold sinit, sinv; simpl. repeat split.
  - intros w _. exists 0. intros f _. apply get_uniform.
  - apply writes_from_in_shape.
  - apply Forall_forall. intros q Hq. apply in_map_iff in Hq. destruct Hq as [r [Hq Hin]]. subst q.
    left. simpl. destruct (Hr r Hin) as [Hl Hc]. auto.
Qed.

Lemma read_step_one_version shape c r :
  sec_uniform shape r -> within_section shape c -> one_version (read_step c r) = true.
Proof.
  intros Hu [w [Hw Hf]]. destruct (Hu w Hw) as [v Hv].
  apply (one_version_all _ v). intros x Hx. unfold read_step in Hx.
  apply in_map_iff in Hx. destruct Hx as [f [Hx Hin]]. subst x. simpl. apply Hv. apply Hf. exact Hin.
Qed.

Lemma step_req_inv shape r : sec_uniform shape r -> forall qs i,
  Forall (req_inv shape) qs -> Forall (req_inv shape) (step_req i r qs).
Proof.
  intros Hu. induction qs as [|[rem o] tl IH]; intros i Hq; simpl; [constructor|].
  inversion Hq as [|x l Hx Hl]; subst.
  destruct i as [|i'].
  - destruct rem as [|c rem'].
    + constructor; assumption.
    + constructor; [|assumption].
      destruct Hx as [[Hlen [Ho Hc]]|[Hnil _]]; simpl in *; [|discriminate].
      subst o. right. simpl. split.
      * destruct rem'; [reflexivity|simpl in Hlen; lia].
      * apply (read_step_one_version shape); [exact Hu|]. apply Hc. left. reflexivity.
  - constructor; [assumption|]. apply IH. assumption.
Qed.

Lemma sstep_inv shape : sections_ok shape -> forall s a, sinv shape s -> sinv shape (sstep s a).
Proof.
  intros Hs s a [Hu [Hw Hq]]. destruct a as [|i]; simpl.
  - destruct (s_writes s) as [|[fs v] tl] eqn:E; [repeat split; try rewrite E; assumption|].
    inversion Hw as [|x l Hfs Htl]; subst. simpl in Hfs.
    unfold sinv; simpl. repeat split; [|assumption|assumption].
    intros w Hin. destruct (Hs fs w Hfs Hin) as [Heq|Hdis].
    + subst w. exists v. intros f Hf. apply get_set_fields_in. exact Hf.
    + destruct (Hu w Hin) as [v0 Hv0]. exists v0. intros f Hf.
      rewrite get_set_fields_notin; [apply Hv0; exact Hf|].
      intros Hc. apply (Hdis f Hc). exact Hf.
  - unfold sinv; simpl. repeat split; [assumption|assumption|].
    apply step_req_inv; assumption.
Qed.

Lemma run_inv shape : sections_ok shape -> forall sched s, sinv shape s -> sinv shape (fold_left sstep sched s).
Proof.
  intros Hs. induction sched as [|a tl IH]; intros s H; simpl; [exact H|].
  apply IH. apply sstep_inv; assumption.
Qed.

Theorem single_section_atomic : forall shape reqs,
  sections_ok shape -> single_section_requests shape reqs -> no_mixture shape reqs.
Proof.
  intros shape reqs Hs Hr n sched. unfold P_no_mixture, observations, run_schedule.
  pose proof (run_inv shape Hs sched _ (sinv_init shape n reqs Hr)) as [_ [_ Hq]].
  apply forallb_forall. intros o Ho. apply in_map_iff in Ho. destruct Ho as [q [Ho Hin]]. subst o.
  rewrite Forall_forall in Hq. destruct (Hq q Hin) as [[_ [Hnil _]]|[_ H1]]; [rewrite Hnil; reflexivity|exact H1].
Qed.

(** The repair target: ONE write covering every field any handler reads, and ONE read per request. *)
Definition covered (w : list field) (reqs : list request) : Prop :=
  forall r c f, In r reqs -> In c r -> In f (fields_of c) -> In f w.

Theorem snapshot_design_atomic : forall w reqs,
  covered w reqs -> (forall r, In r reqs -> length r <= 1) -> no_mixture [w] reqs.
Proof.
  intros w reqs Hc Hl. apply single_section_atomic.
  - intros w1 w2 [H1|[]] [H2|[]]. left. congruence.
  - intros r Hr. split; [apply Hl; exact Hr|].
    intros c Hin. exists w. split; [left; reflexivity|]. intros f Hf. apply (Hc r c f); assumption.
Qed.

Lemma all_fields_complete f : In f all_fields.
Proof. destruct f; simpl; tauto. Qed.

(** Instance: every handler takes [CSnapshot] once, reload assigns [all_fields] once. *)
Corollary snapshot_requests_atomic : forall k,
  no_mixture single_write_shape (repeat [CSnapshot] k).
Proof.
  intros k. apply snapshot_design_atomic.
  - intros r c f _ _ _. apply all_fields_complete.
  - intros r Hr. apply repeat_spec in Hr. subst. simpl. lia.
Qed.

(** What IS atomic on the pinned code: a handler that consults the state once, inside one of the two
    groups (e.g. admin authorisation, or any single authenticator lookup). *)
Lemma code_shape_sections_ok : sections_ok code_shape.
Proof.
  intros w1 w2 H1 H2. simpl in H1, H2.
  destruct H1 as [H1|[H1|[]]], H2 as [H2|[H2|[]]]; subst; auto; right; intros f Hf Hg;
    simpl in Hf, Hg; intuition congruence.
Qed.

Definition single_group_callback (c : callback) : bool :=
  match c with
  | CAuthorizePull | CAuthorizeWorker | CSnapshot => false
  | _ => true
  end.

Lemma single_group_within c : single_group_callback c = true -> within_section code_shape c.
Proof.
  destruct c; simpl; intros H; try discriminate;
    try (exists table_fields; split; [simpl; tauto|simpl; intros f Hf; intuition (subst; tauto)]);
    try (exists auth_fields; split; [simpl; tauto|simpl; intros f Hf; intuition (subst; tauto)]).
Qed.

Theorem code_single_callback_atomic : forall reqs,
  (forall r, In r reqs -> exists c, r = [c] /\ single_group_callback c = true) ->
  no_mixture code_shape reqs.
Proof.
  intros reqs H. apply single_section_atomic; [apply code_shape_sections_ok|].
  intros r Hr. destruct (H r Hr) as [c [Hc Hs]]. subst r. split; [simpl; lia|].
  intros c' [Hc'|[]]. subst c'. apply single_group_within. exact Hs.
Qed.

(** ** Refutations on the pinned code (concrete schedules) *)

(** (1) Two lock acquisitions in reloadConfig.  The request is ONE locked read (authorizePull reads the
    bearer allowlists and pathToRoute in the same critical section), so the request side is not the cause. *)
Definition window_schedule : schedule := [AReload; AReq 0; AReload].

Lemma two_lock_window_witness :
  observations code_shape 1 [[CAuthorizePull]] window_schedule
  = [[(CAuthorizePull, FPullAuth, 1); (CAuthorizePull, FPullByRoute, 1); (CAuthorizePull, FPathToRoute, 0)]].
Proof. vm_compute. reflexivity. Qed.

Lemma two_lock_window_refuted : ~ no_mixture code_shape [[CAuthorizePull]].
Proof. intros H. specialize (H 1 window_schedule). vm_compute in H. discriminate. Qed.

(** the whole ingress request runs inside the window *)
Definition window_ingress_schedule : schedule :=
  [AReload] ++ repeat (AReq 0) 8 ++ [AReload].

Lemma two_lock_window_ingress_refuted :
  P_no_mixture (observations code_shape 1 [ingress_request] window_ingress_schedule) = false.
Proof. vm_compute. reflexivity. Qed.

(** (2) Several independent locked reads per request.  The reload is ONE write of everything, so the
    reload side is not the cause. *)
Definition between_schedule (k : nat) : schedule := repeat (AReq 0) k ++ [AReload] ++ repeat (AReq 0) (8 - k).

Lemma per_request_reads_witness :
  map versions_seen (observations single_write_shape 1 [ingress_request] (between_schedule 1))
  = [[0; 1; 1; 1; 1; 1; 1; 1; 1]].
Proof. vm_compute. reflexivity. Qed.

Lemma per_request_reads_refuted : ~ no_mixture single_write_shape [ingress_request].
Proof. intros H. specialize (H 1 (between_schedule 1)). vm_compute in H. discriminate. Qed.

(** ... for every position strictly inside the request. *)
Lemma per_request_reads_every_position :
  forallb (fun k => negb (P_no_mixture (observations single_write_shape 1 [ingress_request] (between_schedule k))))
          [1; 2; 3; 4; 5; 6; 7] = true.
Proof. vm_compute. reflexivity. Qed.

Lemma per_request_reads_pull_refuted : ~ no_mixture single_write_shape [pull_request].
Proof. intros H. specialize (H 1 [AReq 0; AReload; AReq 0]). vm_compute in H. discriminate. Qed.

Lemma per_request_reads_admin_refuted : ~ no_mixture single_write_shape [admin_publish_request].
Proof. intros H. specialize (H 1 [AReq 0; AReq 0; AReload; AReq 0]). vm_compute in H. discriminate. Qed.

(** The pinned code as it is (both causes present). *)
Lemma code_no_mixture_refuted : ~ no_mixture code_shape [ingress_request; pull_request].
Proof.
  intros H. specialize (H 1 [AReq 0; AReload; AReload; AReq 0; AReq 0; AReq 0]). vm_compute in H. discriminate.
Qed.

(** Non-vacuity of the positive theorem: a schedule with real interleaving, snapshot design, one version each. *)
Example snapshot_example :
  map versions_seen
      (observations single_write_shape 2 [[CSnapshot]; [CSnapshot]; [CSnapshot]]
                    [AReq 0; AReload; AReq 1; AReload; AReq 2])
  = [repeat 0 14; repeat 1 14; repeat 2 14].
Proof. vm_compute. reflexivity. Qed.
