(** Dequeue soundness, lease exclusivity and freshness (C03), lease fencing (C04),
    redelivery and not-before (C05). *)
From Coq Require Import List ZArith NArith Bool Lia.
From HK Require Import Gen.Consts Model.Queue Model.QueueHash Model.QueueMon
  Proofs.QueueBase Proofs.QueueInv Proofs.QueueInvStep Proofs.QueueStep.
Import ListNotations.
Open Scope Z_scope.

(** ** C03: what a dequeue returns *)
Lemma eff_ttl_pos ttl : 0 < eff_ttl ttl.
Proof.
  unfold eff_ttl. destruct (ttl <=? 0) eqn:E.
  - unfold mem_dequeue_leasettl_default. lia.
  - apply Z.leb_gt in E. exact E.
Qed.

Lemma clamp_batch_range b : 1 <= clamp_batch b <= mem_dequeue_batch_cap.
Proof.
  unfold clamp_batch, mem_dequeue_batch_default, mem_dequeue_batch_cap.
  destruct (b <=? 0) eqn:E1.
  - simpl. lia.
  - apply Z.leb_gt in E1. destruct (100 <? b) eqn:E2; [lia|]. apply Z.ltb_ge in E2. lia.
Qed.

Lemma find_id_pm_lease now t picked l i :
  NoDup (ids l) ->
  find_id i (apply_pm (pm_lease now t picked) l) =
  match find_id i l with Some m => pm_lease now t picked m | None => None end.
Proof. intros ND. apply find_id_apply_pm; [auto with qimm | exact ND]. Qed.

(** every returned item is a message that was ready in the state the dequeue selected from
    (after retention pruning and the release of expired leases), comes back leased with a lease id
    never issued before, attempt + 1, and lease_until = now + ttl in the future *)
Theorem dequeue_sound fl c now route target batch ttl o s s' items :
  Inv s -> step_dequeue fl c now route target batch ttl o s = (s', RItems items) ->
  let s2 := deq_pre fl c now o s in
  NoDup (map (fun it => fst (fst (fst it))) items)
  /\ NoDup (map (fun it => snd (fst (fst it))) items)
  /\ Z.of_nat (length items) = Z.min (clamp_batch batch) (Z.of_nat (length (filter (ready now route target) (msgs s2))))
  /\ forall i lid att un, In (i, lid, att, un) items ->
       exists m0, find_id i (msgs s2) = Some m0 /\ ready now route target m0 = true
                  /\ find_id i (msgs s') = Some (leased_version now (eff_ttl ttl) lid m0)
                  /\ att = m_attempt m0 + 1 /\ un = now + eff_ttl ttl /\ now < un
                  /\ ~ In lid (issued s) /\ In lid (issued s').
Proof.
  intros I H. rewrite step_dequeue_eq in H. cbv zeta in H.
  pose proof (deq_pre_inv fl c now o s I) as I2.
  set (s2 := deq_pre fl c now o s) in *.
  destruct (valid_pick now route target (clamp_batch batch) (msgs s2) (issued s2) (o_picked o)) eqn:V; [|discriminate].
  inversion H; subst s'. clear H.
  pose proof (valid_pick_parts _ _ _ _ _ _ _ V) as [A [B [Cc [D E]]]].
  set (l3 := apply_pm (pm_lease now (eff_ttl ttl) (o_picked o)) (msgs s2)) in *.
  set (f := fun p : N * N => match find_id (fst p) l3 with
                             | Some m => (fst p, snd p, m_attempt m, m_until m)
                             | None => (fst p, snd p, 0, 0) end) in *.
  assert (Hf1 : map (fun it : N * N * Z * Z => fst (fst (fst it))) (map f (o_picked o)) = map fst (o_picked o)).
  { rewrite map_map. apply map_ext. intros [a b]. unfold f. simpl. destruct (find_id a l3); reflexivity. }
  assert (Hf2 : map (fun it : N * N * Z * Z => snd (fst (fst it))) (map f (o_picked o)) = map snd (o_picked o)).
  { rewrite map_map. apply map_ext. intros [a b]. unfold f. simpl. destruct (find_id a l3); reflexivity. }
  subst items. rewrite Hf1, Hf2. split; [exact A|]. split; [exact B|].
  split; [rewrite map_length; exact E|].
  intros i lid att un Hin. apply in_map_iff in Hin. destruct Hin as [[a b] [Ef Hp]].
  destruct (Cc a) as [m0 [F R]]; [apply in_map_iff; exists (a, b); auto|].
  assert (Fl3 : find_id a l3 = Some (leased_version now (eff_ttl ttl) b m0)).
  { unfold l3. rewrite find_id_pm_lease; [|apply I2]. rewrite F. unfold pm_lease.
    apply find_id_Some in F. destruct F as [_ Fid]. rewrite Fid.
    assert (L : lease_of (o_picked o) a = Some b).
    { unfold lease_of. destruct (find (fun p => N.eqb (fst p) a) (o_picked o)) as [[a' b']|] eqn:Ff.
      - apply find_some in Ff. destruct Ff as [Hin' Heq]. simpl in Heq. apply N.eqb_eq in Heq. subst a'.
        f_equal. simpl.
        assert (NDf : NoDup (map fst (o_picked o))) by exact A.
        clear -NDf Hin' Hp. induction (o_picked o) as [|q tl IH]; [destruct Hp|].
        simpl in NDf. inversion NDf as [|? ? Hq Htl]; subst.
        destruct Hin' as [Hin' | Hin']; destruct Hp as [Hp | Hp].
        + congruence.
        + subst q. simpl in Hq. exfalso. apply Hq. apply in_map_iff. exists (a, b). auto.
        + subst q. simpl in Hq. exfalso. apply Hq. apply in_map_iff. exists (a, b'). auto.
        + apply IH; assumption.
      - exfalso. pose proof (find_none _ _ Ff (a, b) Hp) as Hn. simpl in Hn. rewrite N.eqb_refl in Hn. discriminate. }
    rewrite L. reflexivity. }
  unfold f in Ef. simpl in Ef. rewrite Fl3 in Ef. simpl in Ef. inversion Ef; subst i lid att un.
  exists m0. split; [exact F|]. split; [exact R|]. split; [exact Fl3|].
  split; [reflexivity|]. split; [reflexivity|]. split; [pose proof (eff_ttl_pos ttl); lia|].
  split.
  - intros Hin. apply (D b); [apply in_map_iff; exists (a, b); auto|].
    unfold s2. rewrite deq_pre_issued. exact Hin.
  - simpl. apply in_or_app. right. apply in_map_iff. exists (a, b). auto.
Qed.

(** a message that is leased and unexpired, not yet due, canceled, dead or delivered is never returned *)
Definition unavailable (now : Z) (m : msg) : bool :=
  match m_st m with
  | Queued => now <? m_next m
  | Leased => now <? m_until m
  | _ => true
  end.

Theorem dequeue_never_returns_unavailable fl c now route target batch ttl o s s' items m :
  Inv s -> step_dequeue fl c now route target batch ttl o s = (s', RItems items) ->
  In m (msgs s) -> unavailable now m = true ->
  ~ In (m_id m) (map (fun it => fst (fst (fst it))) items).
Proof.
  intros I H Hm Hu Hin.
  destruct (dequeue_sound fl c now route target batch ttl o s s' items I H) as [_ [_ [_ Hall]]].
  apply in_map_iff in Hin. destruct Hin as [[[[i lid] att] un] [Ei Hit]]. simpl in Ei. subst i.
  destruct (Hall _ _ _ _ Hit) as [m0 [F [R _]]].
  (* what the pre-dequeue phase makes of m *)
  pose proof (deq_pre_cases fl c now o s m (inv_nodup _ _ I) Hm) as Cs.
  rewrite deq_pre_msgs in F. rewrite find_id_apply_pm in F.
  2:{ unfold deq_pre_pm. apply imm_pres_id_pres. apply pm_comp_imm; [apply prune_pm_imm|].
      destruct (match fl with Mem => true | Sql => _ end); auto with qimm. }
  2:{ apply I. }
  rewrite (find_id_In_NoDup (msgs s) m (inv_nodup _ _ I) Hm) in F.
  unfold ready, queuedb in R. rewrite !andb_true_iff in R. destruct R as [[[Rq _] _] Rn].
  destruct Cs as [[E _] | [E | [E Ee]]]; rewrite E in F; try discriminate; inversion F; subst m0.
  - unfold unavailable in Hu. destruct (m_st m); simpl in Rq; try discriminate.
    apply Z.ltb_lt in Hu. apply Z.leb_le in Rn. lia.
  - unfold expired, is_leased in Ee. apply andb_true_iff in Ee. destruct Ee as [Es Eu].
    unfold unavailable in Hu. destruct (m_st m); simpl in Es; try discriminate.
    apply Z.ltb_lt in Hu. apply Z.leb_le in Eu. lia.
Qed.

(** ** how a lease can end (used for the exclusivity argument) *)
Theorem lease_ends_legally c x r m m' l :
  change c x r m m' -> m_lease m = Some l -> is_leased m = true -> m_lease m' <> Some l ->
  (expired (op_now x) m = true /\ releases x = true)
  \/ (In l (presented x) /\ op_now x < m_until m /\ exists k, lease_op_kind x = Some k /\ is_extend k = false)
  \/ manage_kind_of x = Some MCancel.
Proof.
  intros H L Il Hne.
  destruct H as [E | Hr He _ E | route target b ttl lid m0 Ex H0 Hrd _ _ E | k lid Hk Hp Hl _ Hu _ _ E | k Hk Ha _ E].
  - subst. contradiction.
  - left. split; assumption.
  - destruct H0 as [H0 | [He H0]]; subst m0.
    + unfold ready, queuedb in Hrd. rewrite !andb_true_iff in Hrd. destruct Hrd as [[[Hq _] _] _].
      unfold is_leased in Il. destruct (m_st m); discriminate.
    + left. split; [exact He | rewrite Ex; reflexivity].
  - right. left. assert (lid = l) by congruence. subst lid. split; [exact Hp|]. split; [exact Hu|].
    exists k. split; [exact Hk|]. destruct k; try reflexivity.
    exfalso. unfold lease_effect in E. inversion E; subst. simpl in Hne. contradiction.
  - right. right. unfold is_leased in Il. destruct (m_st m) eqn:Es; simpl in Il; try discriminate.
    destruct k; simpl in Ha; try discriminate. exact Hk.
Qed.

(** ** lease ids are fresh for the whole history *)
Definition InvI (s : state) : Prop := Inv s /\ NoDup (issued s).

Lemma item_leases_RItems l3 picked :
  item_leases (RItems (map (fun p : N * N => match find_id (fst p) l3 with
                                             | Some m => (fst p, snd p, m_attempt m, m_until m)
                                             | None => (fst p, snd p, 0, 0) end) picked)) = map snd picked.
Proof.
  unfold item_leases, deq_items. rewrite map_map. apply map_ext. intros [a b]. simpl. destruct (find_id a l3); reflexivity.
Qed.

Lemma step_issued fl c s x o :
  (issued (fst (step fl c s x o)) = issued s /\ item_leases (snd (step fl c s x o)) = [])
  \/ (exists now route target batch ttl, x = Dequeue now route target batch ttl
      /\ issued (fst (step fl c s x o)) = issued s ++ map snd (o_picked o)
      /\ NoDup (map snd (o_picked o)) /\ (forall l, In l (map snd (o_picked o)) -> ~ In l (issued s))
      /\ item_leases (snd (step fl c s x o)) = map snd (o_picked o)).
Proof.
  destruct x; cbn [step].
  - left. unfold step_enqueue. cbn [app]. set (s1 := prune c now (o_gone o) s).
    assert (E1 : issued s1 = issued s) by apply prune_issued.
    destruct (assign_ids [e] (o_genids o)); [|split; reflexivity].
    destruct fl.
    + destruct (mem_plan _ _ _ _); [|split; [exact E1 | reflexivity]]. destruct (pressure _ _); [split; [exact E1 | reflexivity]|].
      destruct (negb _); split; try exact E1; reflexivity.
    + match goal with |- issued (fst (match ?rm with _ => _ end)) = _ /\ _ => destruct rm end; [|split; [exact E1 | reflexivity]].
      destruct (_ && _); split; try exact E1; reflexivity.
  - left. unfold step_enqueue. destruct es as [|e0 es0]; [split; reflexivity|].
    set (s1 := prune c now (o_gone o) s).
    assert (E1 : issued s1 = issued s) by apply prune_issued.
    destruct (assign_ids (e0 :: es0) (o_genids o)); [|split; reflexivity].
    destruct fl.
    + destruct (mem_plan _ _ _ _); [|split; [exact E1 | reflexivity]]. destruct (negb _); [split; [exact E1 | reflexivity]|].
      destruct (pressure _ _); split; try exact E1; reflexivity.
    + match goal with |- issued (fst (match ?rm with _ => _ end)) = _ /\ _ => destruct rm end; [|split; [exact E1 | reflexivity]].
      destruct (_ && _); split; try exact E1; reflexivity.
  - rewrite step_dequeue_eq. cbv zeta.
    destruct (valid_pick now route target (clamp_batch batch) _ _ (o_picked o)) eqn:V.
    + right. exists now, route, target, batch, ttl. split; [reflexivity|]. cbn [fst snd issued].
      apply valid_pick_parts in V. destruct V as [_ [B [_ [D _]]]]. rewrite deq_pre_issued in *.
      split; [reflexivity|]. split; [exact B|]. split; [exact D | apply item_leases_RItems].
    + left. simpl. split; [apply deq_pre_issued | reflexivity].
  - left. unfold step_lease. destruct (is_noop_extend k); [split; reflexivity|].
    destruct l; try (split; reflexivity). destruct (lease_one c now k l (msgs s)) as [l' [|[|]]]; split; reflexivity.
  - left. destruct (batch_kind_ok k); [|split; reflexivity]. unfold step_lease_batch.
    destruct (lease_batch c now _ ls (msgs s)) as [[ms' n] cs]. split; reflexivity.
  - left. split; reflexivity.
  - left. destruct k; try (split; reflexivity); unfold step_manage_f; destruct (f_preview f); split; reflexivity.
  - left. unfold step_list. destruct ord; simpl; split; try apply prune_issued; reflexivity.
  - left. unfold step_list_dead. simpl. split; [apply prune_issued | reflexivity].
  - left. split; reflexivity.
  - left. unfold step_stats. simpl. split; [apply prune_issued | reflexivity].
  - left. destruct fl; split; reflexivity.
Qed.

Lemma step_invI fl c s x o : InvI s -> InvI (fst (step fl c s x o)).
Proof.
  intros [I ND]. split; [apply step_inv; exact I|].
  destruct (step_issued fl c s x o) as [[E _] | [now [route [target [batch [ttl [_ [E [B [D _]]]]]]]]]]; rewrite E; [exact ND|].
  apply NoDup_app_intro; [exact ND | exact B|]. intros l H1 H2. apply (D l H2 H1).
Qed.

(** all lease ids handed out along a history, in order *)
Definition handed_out (evs : list event) : list N := flat_map (fun e => item_leases (ev_res e)) evs.

Lemma step_handed_out fl c s x o :
  issued (fst (step fl c s x o)) = issued s ++ item_leases (snd (step fl c s x o)).
Proof.
  destruct (step_issued fl c s x o) as [[E Hn] | [now [route [target [batch [ttl [Ex [E [_ [_ Er]]]]]]]]]].
  - rewrite E, Hn, app_nil_r. reflexivity.
  - rewrite E, Er. reflexivity.
Qed.

Theorem handed_out_is_issued fl c s xs :
  issued (snd (run fl c s xs)) = issued s ++ handed_out (fst (run fl c s xs)).
Proof.
  revert s. induction xs as [|[x o] tl IH]; intros s; simpl; [rewrite app_nil_r; reflexivity|].
  pose proof (step_handed_out fl c s x o) as Hs.
  destruct (step fl c s x o) as [s' r]. simpl in Hs. specialize (IH s').
  destruct (run fl c s' tl) as [evs sf]. simpl in *. rewrite IH, Hs, app_assoc. reflexivity.
Qed.

Lemma run_invI fl c s xs : InvI s -> InvI (snd (run fl c s xs)).
Proof.
  revert s. induction xs as [|[x o] tl IH]; simpl; intros s I; [exact I|].
  pose proof (step_invI fl c s x o I) as I1.
  destruct (step fl c s x o) as [s' r]. simpl in I1. specialize (IH s' I1).
  destruct (run fl c s' tl) as [evs sf]. exact IH.
Qed.

(** no lease id is ever handed out twice in a history *)
Theorem lease_ids_fresh fl c xs : NoDup (handed_out (model_trace fl c xs)).
Proof.
  pose proof (run_invI fl c init xs (conj inv_init (NoDup_nil N))) as [_ ND].
  rewrite handed_out_is_issued in ND. simpl in ND. exact ND.
Qed.
