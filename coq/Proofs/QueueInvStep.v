(** Every operation of the store model preserves the invariant; hence every reachable state has it. *)
From Coq Require Import List ZArith NArith Bool Lia.
From HK Require Import Gen.Consts Model.Queue Model.QueueHash Model.QueueMon Proofs.QueueBase Proofs.QueueInv.
Import ListNotations.
Open Scope Z_scope.

(** ** enqueue *)
Lemma assign_ids_length es gen ies : assign_ids es gen = Some ies -> length ies = length es.
Proof.
  revert gen ies. induction es as [|e tl IH]; simpl; intros gen ies H.
  - inversion H; reflexivity.
  - destruct (e_id e).
    + destruct (assign_ids tl gen) as [r|] eqn:E; simpl in H; inversion H; subst. simpl. f_equal. apply (IH _ _ E).
    + destruct gen as [|g gtl]; [discriminate|].
      destruct (assign_ids tl gtl) as [r|] eqn:E; simpl in H; inversion H; subst. simpl. f_equal. apply (IH _ _ E).
Qed.

Lemma ids_remove_ids vs l i :
  In i (ids (apply_pm (pm_remove_ids vs) l)) -> In i (ids l) /\ ~ In i vs.
Proof.
  unfold ids. intros H. apply in_map_iff in H. destruct H as [m [E Hm]].
  apply apply_pm_In in Hm. destruct Hm as [m0 [H0 Ep]]. unfold pm_remove_ids in Ep.
  destruct (memN (m_id m0) vs) eqn:Em; inversion Ep; subst. split.
  - apply in_map. exact H0.
  - apply memN_false. exact Em.
Qed.

Lemma forallb_fresh_sql ids0 l2 :
  forallb (fun i => negb (has_id i l2)) ids0 = true -> forall i, In i ids0 -> ~ In i (ids l2).
Proof.
  intros H i Hi Hin. rewrite forallb_forall in H. specialize (H i Hi).
  apply negb_true_iff in H. apply has_id_In in Hin. congruence.
Qed.

Lemma step_enqueue_inv fl c now single es o s :
  (single = true -> length es = 1%nat) ->
  Inv s -> Inv (fst (step_enqueue fl c now single es o s)).
Proof.
  intros Hsingle I. unfold step_enqueue.
  destruct es as [|e0 es0]; [exact I|].
  set (es := e0 :: es0) in *.
  pose proof (inv_prune c now (o_gone o) s I) as I1.
  destruct (assign_ids es (o_genids o)) as [ies|] eqn:EA; [|exact I].
  assert (Hlen : length ies = length es) by (apply (assign_ids_length _ _ _ EA)).
  assert (NDsingle : single = true -> NoDup (map fst ies)).
  { intros Hs. specialize (Hsingle Hs). rewrite Hsingle in Hlen.
    destruct ies as [|p [|q r]]; simpl in Hlen; try discriminate. simpl. constructor; [intros []|constructor]. }
  destruct fl.
  - (* memory *)
    destruct (mem_plan c (Z.of_nat (length ies)) (prune c now (o_gone o) s) (msgs (prune c now (o_gone o) s))) as [victims|] eqn:EP;
      [|exact I1].
    set (s1 := prune c now (o_gone o) s) in *.
    set (l1 := msgs s1) in *.
    set (fresh := forallb (fun i => negb (has_id i l1) || memN i victims) (map fst ies)).
    assert (Done : fresh = true -> NoDup (map fst ies) ->
                   Inv (mkState (apply_pm (pm_remove_ids victims) l1 ++ map (fun p => mk_msg now (fst p) (snd p)) ies)
                                (order s1 ++ map fst ies) (last_prune s1) (last_sweep s1) (issued s1))).
    { intros Hf ND. unfold Inv; simpl. apply invl_app_news; [apply invl_remove; exact I1 | exact ND |].
      intros i Hi Hin. apply ids_remove_ids in Hin. destruct Hin as [Hin Hv].
      unfold fresh in Hf. rewrite forallb_forall in Hf. specialize (Hf i Hi).
      apply orb_true_iff in Hf. destruct Hf as [Hf | Hf].
      - apply negb_true_iff in Hf. apply has_id_In in Hin. fold l1 in Hin. congruence.
      - apply memN_In in Hf. contradiction. }
    destruct single eqn:Es.
    + destruct (pressure c l1); [exact I1|]. fold fresh.
      destruct fresh eqn:Ef; simpl; [apply Done; [reflexivity | apply NDsingle; reflexivity] | exact I1].
    + fold fresh. destruct (nodupN (map fst ies)) eqn:End; simpl; [|exact I1].
      destruct fresh eqn:Ef; simpl; [|exact I1].
      destruct (pressure c l1); [exact I1|].
      apply Done; [reflexivity | apply nodupN_NoDup; exact End].
  - (* SQLite *)
    set (s1 := prune c now (o_gone o) s) in *.
    set (l1 := msgs s1) in *.
    match goal with |- Inv (fst (match ?r with _ => _ end)) => set (room := r) end.
    assert (Hroom : forall l2, room = Some l2 -> InvL l2 (issued s1)).
    { intros l2 Hr. unfold room in Hr.
      destruct (0 <? c_max_depth c); [|inversion Hr; subst; exact I1].
      destruct (c_drop_oldest c).
      - apply (sql_make_room_inv _ _ _ _ _ _ _ Hr). exact I1.
      - destruct (c_max_depth c <? active l1 + Z.of_nat (length ies)); [discriminate|]. inversion Hr; subst. exact I1. }
    destruct room as [l2|] eqn:Er; [|exact I1].
    destruct (nodupN (map fst ies)) eqn:End; simpl; [|exact I1].
    destruct (forallb (fun i => negb (has_id i l2)) (map fst ies)) eqn:Ef; simpl; [|exact I1].
    unfold Inv; simpl. apply invl_app_news; [apply Hroom; reflexivity | apply nodupN_NoDup; exact End |].
    apply forallb_fresh_sql. exact Ef.
Qed.

(** ** dequeue *)
Lemma lease_of_In picked i x : lease_of picked i = Some x -> In (i, x) picked.
Proof.
  unfold lease_of. destruct (find (fun p => N.eqb (fst p) i) picked) as [p|] eqn:E; [|discriminate].
  intros H. inversion H; subst. apply find_some in E. destruct E as [Hin Heq].
  apply N.eqb_eq in Heq. destruct p as [a b]; simpl in *. subst. exact Hin.
Qed.

Lemma nodup_snd_inj (picked : list (N * N)) a b x :
  NoDup (map snd picked) -> In (a, x) picked -> In (b, x) picked -> a = b.
Proof.
  induction picked as [|p tl IH]; simpl; intros ND Ha Hb; [destruct Ha|].
  inversion ND as [|? ? Hp Htl]; subst.
  destruct Ha as [Ha | Ha]; destruct Hb as [Hb | Hb].
  - congruence.
  - subst p. simpl in Hp. exfalso. apply Hp. apply in_map_iff. exists (b, x). split; [reflexivity | exact Hb].
  - subst p. simpl in Hp. exfalso. apply Hp. apply in_map_iff. exists (a, x). split; [reflexivity | exact Ha].
  - apply IH; assumption.
Qed.

Lemma invl_lease l iss now t picked :
  InvL l iss -> NoDup (map snd picked) -> (forall x, In x (map snd picked) -> ~ In x iss) ->
  InvL (apply_pm (pm_lease now t picked) l) (iss ++ map snd picked).
Proof.
  intros [ND CO LI LS] NDl Fresh.
  assert (IP : id_pres (pm_lease now t picked)) by auto with qimm.
  assert (Shape : forall a a', pm_lease now t picked a = Some a' ->
            (exists lid, lease_of picked (m_id a) = Some lid /\ m_lease a' = Some lid /\ coherent a' = true)
            \/ (lease_of picked (m_id a) = None /\ a' = a)).
  { intros a a' H. unfold pm_lease in H. destruct (lease_of picked (m_id a)) as [lid|] eqn:E; inversion H; subst.
    - left. exists lid. repeat split.
    - right. split; reflexivity. }
  constructor.
  - apply apply_pm_NoDup; assumption.
  - intros m Hm. apply apply_pm_In in Hm. destruct Hm as [a [Ha Ea]].
    destruct (Shape a m Ea) as [[lid [_ [_ C]]] | [_ E]]; [exact C | subst; apply CO; exact Ha].
  - intros m1 m2 x H1 H2 L1 L2.
    apply apply_pm_In in H1. destruct H1 as [a [Ha Ea]].
    apply apply_pm_In in H2. destruct H2 as [b [Hb Eb]].
    destruct (Shape a m1 Ea) as [[la [Pa [La _]]] | [Pa Ea']];
      destruct (Shape b m2 Eb) as [[lb [Pb [Lb _]]] | [Pb Eb']].
    + assert (la = x) by congruence. assert (lb = x) by congruence. subst la lb.
      apply lease_of_In in Pa. apply lease_of_In in Pb.
      assert (m_id a = m_id b) by (apply (nodup_snd_inj picked _ _ x); assumption).
      assert (a = b) by (apply (nodup_ids_inj l); assumption). subst b. congruence.
    + subst m2. assert (la = x) by congruence. subst la. exfalso.
      apply (Fresh x); [apply lease_of_In in Pa; apply in_map_iff; exists (m_id a, x); split; [reflexivity | exact Pa]|].
      apply (LS b x Hb L2).
    + subst m1. assert (lb = x) by congruence. subst lb. exfalso.
      apply (Fresh x); [apply lease_of_In in Pb; apply in_map_iff; exists (m_id b, x); split; [reflexivity | exact Pb]|].
      apply (LS a x Ha L1).
    + subst m1 m2. apply (LI a b x); assumption.
  - intros m x Hm L. apply apply_pm_In in Hm. destruct Hm as [a [Ha Ea]]. apply in_or_app.
    destruct (Shape a m Ea) as [[la [Pa [La _]]] | [Pa Ea']].
    + right. assert (la = x) by congruence. subst la. apply lease_of_In in Pa.
      apply in_map_iff. exists (m_id a, x). split; [reflexivity | exact Pa].
    + subst m. left. apply (LS a x Ha L).
Qed.

Lemma valid_pick_parts now route target batch l iss picked :
  valid_pick now route target batch l iss picked = true ->
  NoDup (map fst picked) /\ NoDup (map snd picked)
  /\ (forall i, In i (map fst picked) -> exists m, find_id i l = Some m /\ ready now route target m = true)
  /\ (forall x, In x (map snd picked) -> ~ In x iss)
  /\ Z.of_nat (length picked) = Z.min batch (Z.of_nat (length (filter (ready now route target) l))).
Proof.
  unfold valid_pick. rewrite !andb_true_iff. intros [[[[A B] Cc] D] E].
  split; [apply nodupN_NoDup; exact A|]. split; [apply nodupN_NoDup; exact B|].
  split; [|split].
  - intros i Hi. rewrite forallb_forall in Cc. specialize (Cc i Hi).
    destruct (find_id i l) as [m|]; [exists m; split; [reflexivity | exact Cc] | discriminate].
  - intros x Hx. rewrite forallb_forall in D. specialize (D x Hx). apply negb_true_iff in D. apply memN_false. exact D.
  - apply Z.eqb_eq. exact E.
Qed.

Definition deq_pre (fl : flavour) (c : cfg) (now : Z) (o : oracle) (s : state) : state :=
  match fl with
  | Mem => let s1 := prune c now (o_gone o) s in set_msgs s1 (sweep now (msgs s1))
  | Sql => let s1 := prune c now (o_gone o) s in
           if sql_sweep_due now (last_sweep s1)
           then mkState (sweep now (msgs s1)) (order s1) (last_prune s1) now (issued s1)
           else s1
  end.

Lemma deq_pre_inv fl c now o s : Inv s -> Inv (deq_pre fl c now o s).
Proof.
  intros I. pose proof (inv_prune c now (o_gone o) s I) as I1. unfold deq_pre. destruct fl.
  - unfold Inv; simpl. apply invl_sweep. exact I1.
  - destruct (sql_sweep_due now _); [unfold Inv; simpl; apply invl_sweep|]; exact I1.
Qed.

Lemma step_dequeue_eq fl c now route target batch ttl o s :
  step_dequeue fl c now route target batch ttl o s =
  let s2 := deq_pre fl c now o s in
  if valid_pick now route target (clamp_batch batch) (msgs s2) (issued s2) (o_picked o) then
    let l3 := apply_pm (pm_lease now (eff_ttl ttl) (o_picked o)) (msgs s2) in
    (mkState l3 (order s2) (last_prune s2) (last_sweep s2) (issued s2 ++ map snd (o_picked o)),
     RItems (map (fun p => match find_id (fst p) l3 with
                           | Some m => (fst p, snd p, m_attempt m, m_until m)
                           | None => (fst p, snd p, 0, 0) end) (o_picked o)))
  else (s2, RBadOracle).
Proof. unfold step_dequeue, deq_pre. destruct fl; reflexivity. Qed.

Lemma step_dequeue_inv fl c now route target batch ttl o s :
  Inv s -> Inv (fst (step_dequeue fl c now route target batch ttl o s)).
Proof.
  intros I. rewrite step_dequeue_eq. cbv zeta.
  pose proof (deq_pre_inv fl c now o s I) as I2.
  destruct (valid_pick _ _ _ _ _ _ _) eqn:V; [|exact I2].
  apply valid_pick_parts in V. destruct V as [_ [B [_ [D _]]]].
  unfold Inv; simpl. apply invl_lease; assumption.
Qed.

(** ** lease operations *)
Lemma find_lease_Some x l m : find_lease x l = Some m -> In m l /\ m_lease m = Some x.
Proof.
  induction l as [|a tl IH]; simpl; [discriminate|].
  destruct (m_lease a) as [y|] eqn:E.
  - destruct (N.eqb x y) eqn:Ex.
    + intros H. inversion H; subst. apply N.eqb_eq in Ex. subst. split; [left; reflexivity | exact E].
    + intros H. destruct (IH H). split; [right|]; assumption.
  - intros H. destruct (IH H). split; [right|]; assumption.
Qed.

Lemma find_lease_None x l : find_lease x l = None -> forall m, In m l -> m_lease m <> Some x.
Proof.
  induction l as [|a tl IH]; simpl; intros H m Hm; [destruct Hm|].
  destruct (m_lease a) as [y|] eqn:E.
  - destruct (N.eqb x y) eqn:Ex; [discriminate|]. apply N.eqb_neq in Ex.
    destruct Hm as [Hm | Hm]; [subst; congruence | apply IH; assumption].
  - destruct Hm as [Hm | Hm]; [subst; congruence | apply IH; assumption].
Qed.

Lemma coherent_leased m : coherent m = true -> is_leased m = true -> exists x, m_lease m = Some x.
Proof.
  unfold coherent, is_leased. destruct (m_st m); simpl; try discriminate.
  destruct (m_lease m) as [x|]; [intros; exists x; reflexivity | discriminate].
Qed.

Lemma tame_on_id l m f :
  NoDup (ids l) -> In m l ->
  (forall m', f m = Some m' -> m_id m' = m_id m /\ coherent m' = true /\ (m_lease m' = m_lease m \/ m_lease m' = None)) ->
  (forall x, In x l -> coherent x = true) ->
  tame_on l (pm_on_id (m_id m) f).
Proof.
  intros ND Hm Hf CO x x' Hx E. unfold pm_on_id in E. destruct (N.eqb (m_id x) (m_id m)) eqn:Ei.
  - apply N.eqb_eq in Ei. assert (x = m) by (apply (nodup_ids_inj l); assumption). subst x. apply Hf. exact E.
  - inversion E; subst. split; [reflexivity|]. split; [apply CO; exact Hx | left; reflexivity].
Qed.

Lemma lease_one_inv c now k x l l' out iss :
  lease_one c now k x l = (l', out) -> InvL l iss -> InvL l' iss.
Proof.
  unfold lease_one. intros H I.
  destruct (find_lease x l) as [m|] eqn:F; [|inversion H; subst; exact I].
  apply find_lease_Some in F. destruct F as [Hm Lm].
  destruct (negb (is_leased m)) eqn:El; [inversion H; subst; exact I|].
  apply negb_false_iff in El.
  destruct (m_until m <=? now).
  - inversion H; subst. apply (invl_apply_pm _ iss); [exact I | | apply incl_refl].
    apply tame_on_id; [apply I | exact Hm | | apply I].
    intros m' E. inversion E; subst. split; [reflexivity|]. split; [reflexivity | right; reflexivity].
  - inversion H; subst. apply (invl_apply_pm _ iss); [exact I | | apply incl_refl].
    apply tame_on_id; [apply I | exact Hm | | apply I].
    intros m' E. unfold lease_effect in E. destruct k.
    + destruct (0 <? c_deliv_age c); inversion E; subst.
      split; [reflexivity|]. split; [reflexivity | right; reflexivity].
    + inversion E; subst. split; [reflexivity|]. split; [reflexivity | right; reflexivity].
    + (* extend keeps the lease of a leased message *)
      inversion E; subst. split; [reflexivity|]. split; [|left; reflexivity].
      unfold coherent; simpl. rewrite Lm. reflexivity.
    + inversion E; subst. split; [reflexivity|]. split; [reflexivity | right; reflexivity].
Qed.

Lemma step_lease_inv fl c now k l s : Inv s -> Inv (fst (step_lease fl c now k l s)).
Proof.
  intros I. unfold step_lease. destruct (is_noop_extend k); [exact I|].
  destruct l as [x p| |]; try exact I.
  destruct (lease_one c now k x (msgs s)) as [l' out] eqn:E.
  assert (InvL l' (issued s)) by (apply (lease_one_inv _ _ _ _ _ _ _ _ E); exact I).
  destruct out as [|[|]]; exact H.
Qed.

Lemma lease_batch_inv c now k ls ms iss :
  InvL ms iss -> InvL (fst (fst (lease_batch c now k ls ms))) iss.
Proof.
  revert ms. induction ls as [|l tl IH]; simpl; intros ms I; [exact I|].
  destruct l as [x p| |].
  - destruct (lease_one c now k x ms) as [ms1 out] eqn:E.
    assert (I1 : InvL ms1 iss) by (apply (lease_one_inv _ _ _ _ _ _ _ _ E); exact I).
    specialize (IH ms1 I1).
    destruct out; destruct (lease_batch c now k tl ms1) as [[ms' n] cs]; simpl in *; exact IH.
  - specialize (IH ms I). destruct (lease_batch c now k tl ms) as [[ms' n] cs]; simpl in *; exact IH.
  - specialize (IH ms I). destruct (lease_batch c now k tl ms) as [[ms' n] cs]; simpl in *; exact IH.
Qed.

Lemma step_lease_batch_inv c now k ls s : Inv s -> Inv (fst (step_lease_batch c now k ls s)).
Proof.
  intros I. unfold step_lease_batch.
  set (k' := match k with KNack d => KNack (Z.max d 0) | _ => k end).
  pose proof (lease_batch_inv c now k' ls (msgs s) (issued s) I) as H.
  destruct (lease_batch c now k' ls (msgs s)) as [[ms' n] cs]. simpl in *. exact H.
Qed.

(** ** operator mutations *)
Lemma tame_manage l now k idl : (forall x, In x l -> coherent x = true) -> tame_on l (pm_manage now k idl).
Proof.
  intros CO x x' Hx E. unfold pm_manage in E.
  destruct (memN (m_id x) idl && allowed_from k (m_st x)).
  - unfold manage_effect in E. destruct k; inversion E; subst;
      (split; [reflexivity|]); (split; [reflexivity | right; reflexivity]).
  - inversion E; subst. split; [reflexivity|]. split; [apply CO; exact Hx | left; reflexivity].
Qed.

Lemma step_manage_inv now k idl s : Inv s -> Inv (fst (step_manage now k idl s)).
Proof.
  intros I. unfold step_manage, Inv; simpl.
  apply (invl_apply_pm _ (issued s)); [exact I | apply tame_manage; apply I | apply incl_refl].
Qed.

Lemma step_manage_f_inv now k f s : Inv s -> Inv (fst (step_manage_f now k f s)).
Proof.
  intros I. unfold step_manage_f. destruct (f_preview f); [exact I|]. unfold Inv; simpl.
  apply (invl_apply_pm _ (issued s)); [exact I | apply tame_manage; apply I | apply incl_refl].
Qed.

(** ** every step *)
Theorem step_inv fl c s x o : Inv s -> Inv (fst (step fl c s x o)).
Proof.
  intros I. destruct x; cbn [step].
  - apply step_enqueue_inv; [reflexivity | exact I].
  - apply step_enqueue_inv; [discriminate | exact I].
  - apply step_dequeue_inv; exact I.
  - apply step_lease_inv; exact I.
  - destruct (batch_kind_ok k); [apply step_lease_batch_inv|]; exact I.
  - apply step_manage_inv; exact I.
  - destruct k; try exact I; apply step_manage_f_inv; exact I.
  - unfold step_list. destruct ord; simpl; apply inv_prune; exact I.
  - unfold step_list_dead; simpl. apply inv_prune; exact I.
  - exact I.
  - unfold step_stats; simpl. apply inv_prune; exact I.
  - destruct fl; exact I.
Qed.

Lemma run_fst_snd fl c s xs : snd (run fl c s xs) = fold_left (fun st xo => fst (step fl c st (fst xo) (snd xo))) xs s.
Proof.
  revert s. induction xs as [|[x o] tl IH]; simpl; intros s; [reflexivity|].
  destruct (step fl c s x o) as [s' r] eqn:E. specialize (IH s').
  destruct (run fl c s' tl) as [evs sf]. simpl in *. rewrite <- IH. reflexivity.
Qed.

Theorem run_inv fl c s xs : Inv s -> Inv (snd (run fl c s xs)).
Proof.
  revert s. induction xs as [|[x o] tl IH]; simpl; intros s I; [exact I|].
  pose proof (step_inv fl c s x o I) as I1.
  destruct (step fl c s x o) as [s' r]. simpl in I1. specialize (IH s' I1).
  destruct (run fl c s' tl) as [evs sf]. exact IH.
Qed.

Theorem reachable_inv fl c xs : Inv (snd (run fl c init xs)).
Proof. apply run_inv. apply inv_init. Qed.
