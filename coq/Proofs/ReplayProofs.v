From Coq Require Import ZArith List Bool NArith Lia.
From HK Require Import Model.NonceCache Model.Hmac Model.ReloadAuth Model.HmacHistory
  Proofs.NonceCacheProofs Proofs.HmacProofs.
Import ListNotations.
Open Scope Z_scope.

Section Crypto.
Variable sha256 : bytes -> bytes.
Variable hmac : bytes -> bytes -> bytes.

Notation verify := (verify sha256 hmac).
Notation step := (step sha256 hmac).
Notation run := (run sha256 hmac).
Notation results := (results sha256 hmac).
Notation checkpoints := (checkpoints sha256 hmac).

(** The invariant: nonce [n], honoured for a request signed at instant [t1], is still remembered
    by the authenticator the path has now - or by the retired one while the path has none - with
    an expiry that covers the request's window under the tolerance that authenticator carries. *)
Definition remembered (s : pstate) (n : bytes) (t1 : Z) : Prop :=
  exists a e, prev_of s = Some a /\ lookup n (a_cache a) = Some e /\ t1 + h_tol (a_cfg a) <= e.

Lemma run_app s h1 h2 : run s (h1 ++ h2) = run (run s h1) h2.
Proof. revert s. induction h1 as [|e tl IH]; intros s; simpl; [reflexivity | apply IH]. Qed.

Lemma checkpoints_app s h1 h2 : checkpoints s (h1 ++ h2) = checkpoints s h1 ++ checkpoints (run s h1) h2.
Proof.
  revert s. induction h1 as [|e tl IH]; intros s; simpl; [reflexivity|].
  destruct e as [now r|new]; [destruct (p_active s)|]; simpl; rewrite IH; reflexivity.
Qed.

(** admission establishes the invariant *)
Lemma admitted_remembered s now r n t1 :
  admit_of s now r = Some (n, t1) -> remembered (fst (step s (EReq now r))) n t1.
Proof.
  unfold admit_of, admitted. destruct (p_active s) as [a|] eqn:A; [|discriminate].
  destruct (no_secrets_configured (a_cfg a)) eqn:NS; [discriminate|].
  destruct (verify_pre (a_cfg a) r) as [[[[sg tt] nn] ts]|] eqn:P; [|discriminate].
  destruct (fst (cache_admit nn (ts * sec) (h_tol (a_cfg a)) now (a_cache a))) eqn:AD; [|discriminate].
  intros H. inversion H; subst n t1. clear H.
  simpl. rewrite A.
  destruct (verify (a_cfg a) (a_cache a) now r) as [ok c'] eqn:V.
  assert (C : c' = snd (cache_admit nn (ts * sec) (h_tol (a_cfg a)) now (a_cache a))).
  { change c' with (snd (ok, c')). rewrite <- V. rewrite verify_cache, NS, P. reflexivity. }
  pose proof (admit_true _ _ _ _ _ AD) as (_ & _ & L & _).
  exists {| a_cfg := a_cfg a; a_cache := c' |}, (ts * sec + h_tol (a_cfg a)).
  unfold prev_of. simpl. rewrite C. repeat split; auto. lia.
Qed.

(** one event: the invariant is kept, unless the event is a request whose reading lies beyond
    the remembered window under the tolerance then in force *)
Lemma step_remembered s e n t1 :
  remembered s n t1 ->
  remembered (fst (step s e)) n t1 \/
  (exists now r a, e = EReq now r /\ p_active s = Some a /\ t1 + h_tol (a_cfg a) < now).
Proof.
  intros (a & x & Hp & Hl & Hx). destruct e as [now r|new].
  - simpl. destruct (p_active s) as [a'|] eqn:A.
    + unfold prev_of in Hp. rewrite A in Hp. inversion Hp; subst a'. clear Hp.
      destruct (Z.lt_ge_cases x now) as [Hlt|Hge].
      * right. exists now, r, a. repeat split; auto. lia.
      * left. destruct (verify (a_cfg a) (a_cache a) now r) as [ok c'] eqn:V.
        assert (C : c' = snd (verify (a_cfg a) (a_cache a) now r)) by (rewrite V; reflexivity).
        exists {| a_cfg := a_cfg a; a_cache := c' |}, x. unfold prev_of. simpl.
        repeat split; auto. rewrite C, verify_cache.
        destruct (no_secrets_configured (a_cfg a)); [exact Hl|].
        destruct (verify_pre (a_cfg a) r) as [[[[sg tt] nn] ts]|]; [|exact Hl].
        apply admit_keeps; assumption.
    + left. simpl. exists a, x. auto.
  - left. simpl. destruct new as [cfg|].
    + unfold reload_path. rewrite Hp. simpl.
      destruct (inherit_keeps n x (h_tol (a_cfg a)) (a_cache a) (h_tol cfg) t1 Hl Hx) as (e' & L' & G').
      eexists; exists e'. unfold prev_of. simpl. repeat split; eauto.
    + exists a, x. unfold prev_of, reload_path. simpl. unfold prev_of in Hp.
      destruct (p_active s); auto.
Qed.

(** a request carrying a remembered nonce inside the remembered window is not admitted *)
Lemma remembered_refuses s n t1 now r t2 :
  remembered s n t1 -> admit_of s now r = Some (n, t2) ->
  exists a, p_active s = Some a /\ t1 + h_tol (a_cfg a) < now.
Proof.
  intros (a & x & Hp & Hl & Hx). unfold admit_of, admitted.
  destruct (p_active s) as [a'|] eqn:A; [|discriminate].
  unfold prev_of in Hp. rewrite A in Hp. inversion Hp; subst a'. clear Hp.
  destruct (no_secrets_configured (a_cfg a)); [discriminate|].
  destruct (verify_pre (a_cfg a) r) as [[[[sg tt] nn] ts]|]; [|discriminate].
  destruct (fst (cache_admit nn (ts * sec) (h_tol (a_cfg a)) now (a_cache a))) eqn:AD; [|discriminate].
  intros H. inversion H; subst nn t2. clear H.
  exists a. split; [reflexivity|].
  pose proof (admit_true _ _ _ _ _ AD) as (_ & _ & _ & Hlive). specialize (Hlive x Hl). lia.
Qed.

(** * no_double_accept, general form (no assumption on the clock, on tolerances, on reloads):
    between two admissions of one nonce there is a request - possibly the second one itself -
    whose clock reading lay beyond the first request's window under the tolerance then in force. *)
Theorem window_closed_between s n t1 h now2 r2 t2 :
  remembered s n t1 ->
  admit_of (run s h) now2 r2 = Some (n, t2) ->
  exists k tolk, In (k, tolk) (checkpoints s (h ++ [EReq now2 r2])) /\ t1 + tolk < k.
Proof.
  revert s. induction h as [|e tl IH]; intros s R A.
  - simpl in *. destruct (remembered_refuses _ _ _ _ _ _ R A) as (a & Ha & Hlt).
    rewrite Ha. exists now2, (h_tol (a_cfg a)). split; [left; reflexivity | exact Hlt].
  - simpl in A. destruct (step_remembered s e n t1 R) as [R'|(now & r & a & -> & Ha & Hlt)].
    + destruct (IH _ R' A) as (k & tolk & Hin & Hk). exists k, tolk. split; [|exact Hk].
      simpl. destruct e as [now r|new]; [destruct (p_active s)|]; simpl; auto.
    + exists now, (h_tol (a_cfg a)). split; [|exact Hlt]. simpl. rewrite Ha. left. reflexivity.
Qed.

Lemma checkpoints_le T s h k tolk :
  clock_mono T h -> In (k, tolk) (checkpoints s h) -> T <= k.
Proof.
  revert T s. induction h as [|e tl IH]; intros T s M Hin; simpl in *; [tauto|].
  destruct e as [now r|new].
  - destruct M as [M1 M2]. destruct (p_active s).
    + destruct Hin as [E|Hin]; [inversion E; subst; exact M1|].
      specialize (IH _ _ M2 Hin). lia.
    + specialize (IH _ _ M2 Hin). lia.
  - eapply IH; eauto.
Qed.

(** last clock reading of a history (or [T] if it has no request) *)
Fixpoint last_clock (T : Z) (h : list event) : Z :=
  match h with
  | [] => T
  | EReq now _ :: tl => last_clock now tl
  | EReload _ :: tl => last_clock T tl
  end.

Lemma clock_mono_app T h1 h2 : clock_mono T (h1 ++ h2) <-> clock_mono T h1 /\ clock_mono (last_clock T h1) h2.
Proof.
  revert T. induction h1 as [|e tl IH]; intros T; simpl; [tauto|].
  destruct e as [now r|new]; rewrite IH; tauto.
Qed.

Lemma last_clock_ge T h : clock_mono T h -> T <= last_clock T h.
Proof.
  revert T. induction h as [|e tl IH]; intros T M; simpl in *; [lia|].
  destruct e as [now r|new]; [destruct M as [M1 M2]; specialize (IH _ M2); lia | apply IH; exact M].
Qed.

Lemma checkpoints_le_last T s h k tolk :
  clock_mono T h -> In (k, tolk) (checkpoints s h) -> k <= last_clock T h.
Proof.
  revert T s. induction h as [|e tl IH]; intros T s M Hin; simpl in *; [tauto|].
  destruct e as [now r|new].
  - destruct M as [M1 M2]. destruct (p_active s).
    + destruct Hin as [E|Hin]; [|eapply IH; eauto].
      inversion E; subst. apply last_clock_ge. exact M2.
    + eapply IH; eauto.
  - eapply IH; eauto.
Qed.

(** * no_double_accept: monotone clock (clock readings are non-decreasing in lock order - the reading
    is taken under the cache mutex) and the tolerance in force at the second admission is not larger
    than the tolerance in force at any request in between: the second admission of the nonce comes
    strictly after the first request's window [.., t1 + tol]. *)
Theorem no_double_accept s1 now1 r1 n t1 h now2 r2 t2 tol2 :
  admit_of s1 now1 r1 = Some (n, t1) ->
  let s1' := fst (step s1 (EReq now1 r1)) in
  admit_of (run s1' h) now2 r2 = Some (n, t2) ->
  clock_mono now1 (h ++ [EReq now2 r2]) ->
  (forall k tolk, In (k, tolk) (checkpoints s1' (h ++ [EReq now2 r2])) -> tol2 <= tolk) ->
  t1 + tol2 < now2.
Proof.
  intros A1 s1' A2 M Htol.
  pose proof (admitted_remembered _ _ _ _ _ A1) as R.
  destruct (window_closed_between _ _ _ _ _ _ _ R A2) as (k & tolk & Hin & Hk).
  pose proof (Htol _ _ Hin) as Hle.
  pose proof (checkpoints_le_last _ _ _ _ _ M Hin) as Hlast.
  assert (L : last_clock now1 (h ++ [EReq now2 r2]) = now2).
  { clear. generalize now1. induction h as [|e tl IH]; intros T; simpl; [reflexivity|]. destruct e; apply IH. }
  fold s1' in Hin. lia.
Qed.

(** the tolerance in force when a request is admitted, and the window test it passed *)
Lemma admit_of_window s now r n t :
  admit_of s now r = Some (n, t) ->
  exists a, p_active s = Some a /\ (0 < h_tol (a_cfg a) -> - h_tol (a_cfg a) <= now - t <= h_tol (a_cfg a)).
Proof.
  unfold admit_of, admitted. destruct (p_active s) as [a|]; [|discriminate].
  destruct (no_secrets_configured (a_cfg a)); [discriminate|].
  destruct (verify_pre (a_cfg a) r) as [[[[sg tt] nn] ts]|]; [|discriminate].
  destruct (fst (cache_admit nn (ts * sec) (h_tol (a_cfg a)) now (a_cache a))) eqn:AD; [|discriminate].
  intros H. inversion H; subst. exists a. split; [reflexivity|].
  pose proof (admit_true _ _ _ _ _ AD) as (_ & Hw & _). exact Hw.
Qed.

(** every tolerance in force along [h] from [s] (at requests) is [tol] *)
Definition tol_is (tol : Z) (s : pstate) (h : list event) : Prop :=
  forall k tolk, In (k, tolk) (checkpoints s h) -> tolk = tol.

(** * replay_never_twice: a request with the same nonce and the same signed timestamp (in particular
    a byte-identical replay) is never admitted - hence never accepted - a second time, whatever
    happens in between (other requests, reloads, drop and re-add of the route), as long as the clock
    is monotone and the tolerance in force at the replay is positive and not larger than the
    tolerance in force at the requests in between. *)
Theorem replay_never_twice s1 now1 r1 n t h now2 r2 :
  admit_of s1 now1 r1 = Some (n, t) ->
  let s1' := fst (step s1 (EReq now1 r1)) in
  clock_mono now1 (h ++ [EReq now2 r2]) ->
  (forall a, p_active (run s1' h) = Some a -> 0 < h_tol (a_cfg a) /\
     forall k tolk, In (k, tolk) (checkpoints s1' h) -> h_tol (a_cfg a) <= tolk) ->
  admit_of (run s1' h) now2 r2 <> Some (n, t).
Proof.
  intros A1 s1' M Htol A2.
  destruct (admit_of_window _ _ _ _ _ A2) as (a & Ha & Hw).
  destruct (Htol a Ha) as [Hpos Hle].
  assert (X : t + h_tol (a_cfg a) < now2).
  { eapply (no_double_accept s1 now1 r1 n t h now2 r2 t (h_tol (a_cfg a))); eauto.
    intros k tolk Hin. fold s1' in Hin. rewrite checkpoints_app in Hin. apply in_app_or in Hin.
    destruct Hin as [Hin|Hin]; [apply (Hle _ _ Hin)|].
    simpl in Hin. rewrite Ha in Hin. destruct Hin as [E|[]]. inversion E; subst. lia. }
  specialize (Hw Hpos). lia.
Qed.

(** the accepted form: if both requests pass Verify, they were both admitted *)
Lemma step_accept_admitted s now r a :
  p_active s = Some a -> hmac_configured (a_cfg a) ->
  snd (step s (EReq now r)) = true -> exists n t, admit_of s now r = Some (n, t).
Proof.
  intros Ha Hc. simpl. rewrite Ha. unfold admit_of. rewrite Ha.
  destruct (verify (a_cfg a) (a_cache a) now r) as [ok c'] eqn:V. simpl. intros ->.
  apply (verify_true_admitted sha256 hmac); auto. rewrite V. reflexivity.
Qed.

(** * reload_keeps_nonces: any sequence of reloads - changing secrets, header names, tolerance,
    dropping the route or its `auth hmac` and adding it back - keeps an honoured nonce remembered
    with an expiry covering the first request's window under the tolerance then configured. *)
Theorem reload_keeps_nonces s n t1 (reloads : list (option hmac_cfg)) :
  remembered s n t1 -> remembered (run s (map EReload reloads)) n t1.
Proof.
  revert s. induction reloads as [|new tl IH]; intros s R; simpl; [exact R|].
  apply IH. destruct (step_remembered s (EReload new) n t1 R) as [R'|(now & r & a & E & _)]; [exact R' | discriminate].
Qed.

(** ... so the replay right after them is refused while its reading is inside that window *)
Corollary reload_then_replay_refused s1 now1 r1 n t1 reloads now2 r2 t2 a :
  admit_of s1 now1 r1 = Some (n, t1) ->
  let s2 := run (fst (step s1 (EReq now1 r1))) (map EReload reloads) in
  p_active s2 = Some a -> now2 <= t1 + h_tol (a_cfg a) ->
  admit_of s2 now2 r2 <> Some (n, t2).
Proof.
  intros A1 s2 Ha Hin A2.
  pose proof (reload_keeps_nonces _ _ _ reloads (admitted_remembered _ _ _ _ _ A1)) as R.
  destruct (remembered_refuses _ _ _ _ _ _ R A2) as (a' & Ha' & Hlt).
  fold s2 in Ha'. rewrite Ha in Ha'. inversion Ha'; subst. lia.
Qed.

(** * concurrent_duplicates: k copies of one request served concurrently.  Each is one atomic step
    (clock reading + tolerance + cache under the mutex), so the execution is some order of them -
    with any other requests in between - with non-decreasing readings: once one copy has been
    admitted no further copy is. *)
Fixpoint only_reqs (h : list event) : Prop :=
  match h with
  | [] => True
  | EReq _ _ :: tl => only_reqs tl
  | EReload _ :: _ => False
  end.

Definition cfg_of (s : pstate) : option hmac_cfg := option_map a_cfg (p_active s).

Lemma step_req_cfg s now r : cfg_of (fst (step s (EReq now r))) = cfg_of s.
Proof.
  unfold cfg_of. simpl. destruct (p_active s) as [a|] eqn:A; [|simpl; rewrite A; reflexivity].
  destruct (verify (a_cfg a) (a_cache a) now r). reflexivity.
Qed.

Lemma run_reqs_cfg s h : only_reqs h -> cfg_of (run s h) = cfg_of s.
Proof.
  revert s. induction h as [|e tl IH]; intros s O; simpl; [reflexivity|].
  destruct e as [now r|new]; [|contradiction]. rewrite IH by exact O. apply step_req_cfg.
Qed.

Lemma checkpoints_reqs_tol s h cfg k tolk :
  only_reqs h -> cfg_of s = Some cfg -> In (k, tolk) (checkpoints s h) -> tolk = h_tol cfg.
Proof.
  revert s. induction h as [|e tl IH]; intros s O C Hin; simpl in *; [tauto|].
  destruct e as [now r|new]; [|contradiction].
  assert (C' : cfg_of (fst (step s (EReq now r))) = Some cfg) by (rewrite step_req_cfg; exact C).
  destruct (p_active s) as [a|] eqn:A.
  - destruct Hin as [E|Hin]; [|eapply IH; eauto].
    inversion E; subst. unfold cfg_of in C. rewrite A in C. inversion C. reflexivity.
  - eapply IH; eauto.
Qed.

Theorem concurrent_duplicates s cfg r n t now1 h now2 :
  cfg_of s = Some cfg -> 0 < h_tol cfg ->
  admit_of s now1 r = Some (n, t) ->
  let s' := fst (step s (EReq now1 r)) in
  only_reqs h -> clock_mono now1 (h ++ [EReq now2 r]) ->
  admit_of (run s' h) now2 r = None.
Proof.
  intros C Hpos A1 s' O M.
  assert (C2 : cfg_of (run s' h) = Some cfg).
  { rewrite run_reqs_cfg by exact O. unfold s'. rewrite step_req_cfg. exact C. }
  destruct (admit_of (run s' h) now2 r) as [[n2 t2]|] eqn:A2; [exfalso|reflexivity].
  assert (Same : n2 = n /\ t2 = t).
  { clear - A1 A2 C C2. unfold admit_of, cfg_of in *.
    destruct (p_active s) as [a|]; [|discriminate].
    destruct (p_active (run s' h)) as [a2|]; [|discriminate].
    simpl in C, C2. injection C as C. injection C2 as C2. unfold admitted in *.
    rewrite C in A1. rewrite C2 in A2.
    destruct (no_secrets_configured cfg); [discriminate|].
    destruct (verify_pre cfg r) as [[[[sg tt] nn] ts]|]; [|discriminate].
    destruct (fst (cache_admit nn (ts * sec) (h_tol cfg) now2 (a_cache a2))); [|discriminate].
    destruct (fst (cache_admit nn (ts * sec) (h_tol cfg) now1 (a_cache a))); [|discriminate].
    inversion A1; inversion A2; subst. auto. }
  destruct Same as [-> ->].
  revert A2. apply (replay_never_twice s now1 r n t h now2 r A1); [exact M|].
  intros a Ha. unfold cfg_of in C2. fold s' in Ha. rewrite Ha in C2. simpl in C2. injection C2 as C2. rewrite C2.
  split; [exact Hpos|]. intros k tolk Hin.
  assert (tolk = h_tol cfg); [|lia].
  eapply (checkpoints_reqs_tol s' h); eauto. unfold s'. rewrite step_req_cfg. exact C.
Qed.

End Crypto.

(** * What the code does NOT guarantee (recorded as known finding `reload-tolerance-grown-after-cleanup`):
    the hypothesis of [replay_never_twice] about the tolerance cannot be dropped.  A request is
    admitted; its window closes under the 5-minute tolerance and another request's opportunistic
    clean-up forgets the nonce; a reload raises the tolerance to 10 minutes; the byte-identical
    request passes the tolerance test again and is admitted a second time.  Monotone clock, one
    process life, the route never dropped.  (Nonce step only: independent of sha256/hmac.) *)
Definition w_hdr (k v : bytes) : bytes * list bytes := (k, [v]).
Definition w_sig : bytes := [88;45;83]%N.    (* "X-S" *)
Definition w_ts : bytes := [88;45;84]%N.     (* "X-T" *)
Definition w_nonce : bytes := [88;45;78]%N.  (* "X-N" *)
Definition w_cfg (tol : Z) : hmac_cfg :=
  {| h_sig := w_sig; h_ts := w_ts; h_nonce := w_nonce; h_tol := tol; h_static := [[107]%N]; h_versions := [] |}.
Definition w_req (ts_text nonce : bytes) : hreq :=
  {| q_method := [80;79;83;84]%N; q_path := [47;104]%N;
     q_headers := [w_hdr w_sig [97;98]%N; w_hdr w_ts ts_text; w_hdr w_nonce nonce]; q_body := [] |}.

Lemma tolerance_grown_refuted :
  forall sha256 hmac,
  let tol5 := 300 * sec in let tol10 := 600 * sec in
  let r := w_req [49;48;48;48]%N [110;49]%N in          (* X-T: 1000, X-N: n1 *)
  let other := w_req [49;51;48;48]%N [110;50]%N in      (* X-T: 1300, X-N: n2 *)
  let now1 := 1000 * sec in let now_mid := 1000 * sec + tol5 + 1 in let now2 := 1000 * sec + tol5 + 2 in
  let s1 := reload_path (Some (w_cfg tol5)) p_init in
  let s1' := fst (step sha256 hmac s1 (EReq now1 r)) in
  let h := [EReq now_mid other; EReload (Some (w_cfg tol10))] in
  clock_mono now1 (h ++ [EReq now2 r]) /\
  admit_of s1 now1 r = Some ([110;49]%N, 1000 * sec) /\
  admit_of (run sha256 hmac s1' h) now2 r = Some ([110;49]%N, 1000 * sec).
Proof. intros sha256 hmac. vm_compute. repeat split; intros; discriminate. Qed.

(** non-vacuity of the positive theorems: a concrete history meeting every hypothesis of
    [replay_never_twice] (first request admitted, other traffic, a reload dropping the route, a
    reload adding it back, replay inside the window) *)
Example replay_hypotheses_satisfiable :
  forall sha256 hmac,
  let tol := 300 * sec in
  let r := w_req [49;48;48;48]%N [110;49]%N in
  let other := w_req [49;48;53;48]%N [110;50]%N in
  let s1 := reload_path (Some (w_cfg tol)) p_init in
  let s1' := fst (step sha256 hmac s1 (EReq (1000 * sec) r)) in
  let h := [EReq (1010 * sec) other; EReload None; EReq (1020 * sec) r; EReload (Some (w_cfg tol))] in
  admit_of s1 (1000 * sec) r = Some ([110;49]%N, 1000 * sec) /\
  clock_mono (1000 * sec) (h ++ [EReq (1000 * sec + tol) r]) /\
  checkpoints sha256 hmac s1' h = [(1010 * sec, tol)] /\
  option_map (fun a => h_tol (a_cfg a)) (p_active (run sha256 hmac s1' h)) = Some tol /\
  admit_of (run sha256 hmac s1' h) (1000 * sec + tol) r = None.
Proof. intros sha256 hmac. vm_compute. repeat split; intros; discriminate. Qed.

(** * The executable predicate [P_C09] says what it should (reflection): in a trace of acceptances,
    whenever a nonce is accepted again the earlier request's window - under the tolerance in force at
    the later acceptance - was over at the later clock reading. *)
Lemma no_later_dup_spec a later :
  no_later_dup a later = true <->
  forall b, In b later -> ac_nonce a = ac_nonce b -> ac_signed a + ac_tol b < ac_now b.
Proof.
  induction later as [|x tl IH]; simpl.
  - split; [intros _ b [] | reflexivity].
  - rewrite andb_true_iff, IH, orb_true_iff, negb_true_iff, N.eqb_neq, Z.ltb_lt. split.
    + intros [[H|H] Ht] b [E|Hin] En; subst; auto; congruence.
    + intros H. split.
      * destruct (N.eq_dec (ac_nonce a) (ac_nonce x)) as [E|NE]; [right; apply H; auto | left; exact NE].
      * intros b Hin. apply H. right. exact Hin.
Qed.

Theorem P_C09_spec tr :
  P_C09 tr = true <->
  forall pre a mid b post, tr = pre ++ a :: mid ++ b :: post ->
    ac_nonce a = ac_nonce b -> ac_signed a + ac_tol b < ac_now b.
Proof.
  induction tr as [|x tl IH]; simpl.
  - split; [|reflexivity]. intros _ pre a mid b post E. destruct pre; discriminate.
  - rewrite andb_true_iff, no_later_dup_spec, IH. split.
    + intros [H1 H2] pre a mid b post E En. destruct pre as [|p pre]; simpl in E; inversion E; subst.
      * apply H1; [apply in_or_app; right; left; reflexivity | exact En].
      * eapply H2; eauto.
    + intros H. split.
      * intros b Hin En. apply in_split in Hin. destruct Hin as (mid & post & ->).
        apply (H [] x mid b post); auto.
      * intros pre a mid b post E En. apply (H (x :: pre) a mid b post); [simpl; congruence | exact En].
Qed.

Lemma window_closed_between_admitted sha256 hmac s1 now1 r1 n t1 h now2 r2 t2 :
  admit_of s1 now1 r1 = Some (n, t1) ->
  let s1' := fst (step sha256 hmac s1 (EReq now1 r1)) in
  admit_of (run sha256 hmac s1' h) now2 r2 = Some (n, t2) ->
  exists k tolk, In (k, tolk) (checkpoints sha256 hmac s1' (h ++ [EReq now2 r2])) /\ t1 + tolk < k.
Proof.
  intros A1 s1' A2.
  exact (window_closed_between sha256 hmac s1' n t1 h now2 r2 t2
           (admitted_remembered sha256 hmac s1 now1 r1 n t1 A1) A2).
Qed.
