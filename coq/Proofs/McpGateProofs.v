From Coq Require Import String List Bool Arith Lia.
From HK Require Import Gen.McpTables Model.McpGate Model.McpSpec.
Import ListNotations.
Open Scope string_scope.

(** * Generic membership lemmas (all strings, not only table rows) *)

Lemma mem_str_In x l : mem_str x l = true <-> In x l.
Proof.
  unfold mem_str. rewrite existsb_exists. split.
  - intros [y [Hy He]]. apply String.eqb_eq in He. subst. exact Hy.
  - intros H. exists x. split; [exact H | apply String.eqb_refl].
Qed.

Definition subset (a b : list string) : bool := forallb (fun x => mem_str x b) a.

Lemma subset_incl a b : subset a b = true -> forall x, In x a -> In x b.
Proof.
  unfold subset. rewrite forallb_forall. intros H x Hx. apply mem_str_In. apply H. exact Hx.
Qed.

Lemma set_eq_mem a b :
  subset a b = true -> subset b a = true -> forall x, mem_str x a = mem_str x b.
Proof.
  intros Hab Hba x.
  destruct (mem_str x a) eqn:Ea, (mem_str x b) eqn:Eb; try reflexivity.
  - apply mem_str_In in Ea. apply (subset_incl _ _ Hab) in Ea. apply mem_str_In in Ea. congruence.
  - apply mem_str_In in Eb. apply (subset_incl _ _ Hba) in Eb. apply mem_str_In in Eb. congruence.
Qed.

Lemma lookup_role_In t tbl r : lookup_role t tbl = Some r -> In (t, r) tbl.
Proof.
  induction tbl as [|[k r0] tl IH]; simpl; [discriminate|].
  destruct (String.eqb t k) eqn:E.
  - apply String.eqb_eq in E. intros H. inversion H. subst. left. reflexivity.
  - intros H. right. apply IH. exact H.
Qed.

Lemma lookup_role_keys t tbl :
  (exists r, lookup_role t tbl = Some r) <-> In t (map fst tbl).
Proof.
  induction tbl as [|[k r0] tl IH]; simpl.
  - split; [intros [r H]; discriminate | intros []].
  - destruct (String.eqb t k) eqn:E.
    + apply String.eqb_eq in E. subst. split; [intros _; left; reflexivity | intros _; eexists; reflexivity].
    + apply String.eqb_neq in E. rewrite IH. split; [intros H; right; exact H | intros [H|H]; [congruence | exact H]].
Qed.

Lemma known_In t : known t = true <-> In t (map fst required_role_table).
Proof.
  unfold known, required. rewrite <- lookup_role_keys.
  destruct (lookup_role t required_role_table); split; intros H; try reflexivity; try discriminate.
  - eexists; reflexivity.
  - destruct H as [r H]. discriminate.
Qed.

Lemma known_mem t : known t = mem_str t (map fst required_role_table).
Proof.
  destruct (known t) eqn:E.
  - symmetry. apply mem_str_In. apply known_In. exact E.
  - destruct (mem_str t (map fst required_role_table)) eqn:E2; [|reflexivity].
    apply mem_str_In in E2. apply known_In in E2. congruence.
Qed.

(** * The order of the checks is what the theorems below assume; it is read off the
    source by the translator, so a reordered / removed / added check breaks this. *)
Lemma access_order_is :
  access_order = [CkUnknown; CkMutFlag; CkRtFlag; CkRole; CkPrincipal].
Proof. reflexivity. Qed.

Lemma gate_flags : gate_before_dispatch = true /\ descriptors_filtered_by_gate = true.
Proof. split; reflexivity. Qed.

(** * gate_spec: the gate is exactly the documented conjunction, for every string *)
Lemma gate_spec s t :
  access s t = Allowed <->
  exists r, required t = Some r /\ rank r <= rank (s_role s)
            /\ (needs_mut t = true -> s_mut s = true)
            /\ (needs_rt t = true -> s_rt s = true)
            /\ (mutating t = true -> s_principal s <> "").
Proof.
  unfold access. rewrite access_order_is. cbn [run_checks check_fails]. unfold known.
  destruct (required t) as [r|] eqn:Er; cbn [negb].
  2:{ split; [discriminate | intros [r [H _]]; discriminate]. }
  destruct (needs_mut t) eqn:Em, (s_mut s) eqn:Esm; cbn [andb negb];
    try (split; [discriminate | intros [r0 [_ [_ [H _]]]]; specialize (H eq_refl); discriminate]).
  all: destruct (needs_rt t) eqn:Ert, (s_rt s) eqn:Esr; cbn [andb negb];
    try (split; [discriminate | intros [r0 [_ [_ [_ [H _]]]]]; specialize (H eq_refl); discriminate]).
  all: destruct (Nat.leb (rank r) (rank (s_role s))) eqn:Erk; cbn [negb];
    try (apply Nat.leb_gt in Erk; split; [discriminate | intros [r0 [H0 [H _]]]; inversion H0; subst; lia]).
  all: apply Nat.leb_le in Erk.
  all: destruct (mutating t) eqn:Emu; cbn [andb];
    [ destruct (String.eqb (s_principal s) "") eqn:Ep;
      [ apply String.eqb_eq in Ep; split; [discriminate | intros [r0 [_ [_ [_ [_ H]]]]]; specialize (H eq_refl); congruence]
      | apply String.eqb_neq in Ep; split; [intros _; exists r; repeat split; auto; discriminate | reflexivity] ]
    | split; [intros _; exists r; repeat split; auto; discriminate | reflexivity] ].
Qed.

(** Every way of being refused names a failed clause. *)
Lemma denied_reason s t c :
  access s t = Denied c -> check_fails s t c = true /\ In c access_order.
Proof.
  unfold access. generalize access_order as cs. induction cs as [|c0 tl IH]; cbn [run_checks]; [discriminate|].
  destruct (check_fails s t c0) eqn:E.
  - intros H. inversion H. subst. split; [exact E | left; reflexivity].
  - intros H. destruct (IH H) as [H1 H2]. split; [exact H1 | right; exact H2].
Qed.

(** * Tables agree with each other (finite tables; vm_compute over all rows, lifted to
    every string by set_eq_mem) *)
Lemma tables_agree :
  subset (map fst required_role_table) dispatch_list = true /\
  subset dispatch_list (map fst required_role_table) = true /\
  subset (map fst required_role_table) descriptor_list = true /\
  subset descriptor_list (map fst required_role_table) = true.
Proof. vm_compute. repeat split. Qed.

Lemma dispatch_total t : known t = mem_str t dispatch_list.
Proof.
  rewrite known_mem. destruct tables_agree as [A [B _]]. apply set_eq_mem; assumption.
Qed.

Lemma descriptors_cover t : known t = mem_str t descriptor_list.
Proof.
  rewrite known_mem. destruct tables_agree as [_ [_ [A B]]]. apply set_eq_mem; assumption.
Qed.

Lemma descriptors_nodup : NoDup descriptor_list.
Proof.
  assert (H : forall l : list string,
             (fix nd (l : list string) : bool :=
                match l with [] => true | x :: tl => negb (mem_str x tl) && nd tl end) l = true -> NoDup l).
  { induction l as [|x tl IH]; intros H; [constructor|].
    apply andb_true_iff in H. destruct H as [H1 H2]. constructor.
    - intros Hin. apply mem_str_In in Hin. rewrite Hin in H1. discriminate.
    - apply IH. exact H2. }
  apply H. vm_compute. reflexivity.
Qed.

(** mutating tools: gated by a feature flag, need at least [operate] *)
Definition mutating_row_ok (t : string) : bool :=
  (needs_mut t || needs_rt t) &&
  match required t with Some r => Nat.leb 2 (rank r) | None => false end.

Lemma mutating_rows : forallb mutating_row_ok mutating_list = true.
Proof. vm_compute. reflexivity. Qed.

Lemma mutating_gated t :
  mutating t = true ->
  (needs_mut t = true \/ needs_rt t = true) /\
  exists r, required t = Some r /\ rank ROperate <= rank r.
Proof.
  intros H. apply mem_str_In in H.
  pose proof (proj1 (forallb_forall _ _) mutating_rows t H) as R.
  unfold mutating_row_ok in R. apply andb_true_iff in R. destruct R as [R1 R2].
  split. { apply orb_true_iff in R1. exact R1. }
  destruct (required t) as [r|]; [|discriminate].
  exists r. split; [reflexivity|]. apply Nat.leb_le in R2.
  replace (rank ROperate) with 2 by reflexivity. exact R2.
Qed.

(** rank is the strict order read < operate < admin *)
Lemma rank_order : rank RRead < rank ROperate /\ rank ROperate < rank RAdmin.
Proof. vm_compute. split; repeat constructor. Qed.

(** a mutating tool never runs for role [read], nor without its flag, nor without principal *)
Lemma mutating_needs s t :
  mutating t = true -> access s t = Allowed ->
  s_role s <> RRead /\ (s_mut s = true \/ s_rt s = true) /\ s_principal s <> "".
Proof.
  intros Hm Ha. apply gate_spec in Ha. destruct Ha as [r [Hr [Hrk [Hmu [Hrt Hp]]]]].
  destruct (mutating_gated t Hm) as [Hf [r' [Hr' Hrk']]].
  rewrite Hr in Hr'. inversion Hr'. subst r'.
  repeat split.
  - intros E. rewrite E in Hrk. destruct rank_order as [O1 O2]. lia.
  - destruct Hf as [Hf|Hf]; [left; auto | right; auto].
  - auto.
Qed.

(** * tools/list advertises exactly what tools/call would allow *)
Lemma list_call_agree s t : In t (list_tools s) <-> access s t = Allowed.
Proof.
  unfold list_tools. destruct gate_flags as [_ Hf]. rewrite Hf.
  rewrite filter_In. unfold allowedb. split.
  - intros [_ H]. destruct (access s t); [reflexivity | discriminate].
  - intros H. split; [| rewrite H; reflexivity].
    apply mem_str_In. rewrite <- descriptors_cover.
    apply gate_spec in H. destruct H as [r [Hr _]]. unfold known. rewrite Hr. reflexivity.
Qed.

Lemma list_tools_nodup s : NoDup (list_tools s).
Proof.
  unfold list_tools. destruct gate_flags as [_ Hf]. rewrite Hf.
  apply NoDup_filter. apply descriptors_nodup.
Qed.

(** * tools/call: a tool body runs iff the gate allows; the gate precedes dispatch *)
Lemma call_spec s t :
  (call s t = ODispatched <-> access s t = Allowed) /\ call s t <> ONoHandler.
Proof.
  unfold call. destruct gate_flags as [Hg _]. rewrite Hg.
  destruct (access s t) eqn:Ea.
  - assert (K : mem_str t dispatch_list = true).
    { rewrite <- dispatch_total. apply gate_spec in Ea. destruct Ea as [r [Hr _]].
      unfold known. rewrite Hr. reflexivity. }
    rewrite K. split; [split; reflexivity | discriminate].
  - split; [split; discriminate | discriminate].
Qed.

Lemma denied_no_dispatch s t : access s t <> Allowed -> exists c, call s t = ODenied c.
Proof.
  unfold call. destruct (access s t) as [|c]; [congruence | intros _; exists c; reflexivity].
Qed.

Lemma unknown_refused s t : known t = false -> call s t = ODenied CkUnknown.
Proof.
  intros H. unfold call, access. rewrite access_order_is. cbn [run_checks check_fails].
  rewrite H. reflexivity.
Qed.

(** * audit: exactly one record per mutating call, whatever the outcome; none otherwise *)
Lemma audit_once s t b :
  mutating t = true ->
  exists a, audit s t b = [a] /\
            (a = ADenied <-> access s t <> Allowed) /\
            (access s t = Allowed -> a = if b then ASuccess else AError).
Proof.
  intros Hm. unfold audit. rewrite Hm.
  destruct (call_spec s t) as [[H1 H2] H3].
  destruct (call s t) eqn:Ec.
  - exists ADenied. split; [reflexivity|]. split.
    + split; [intros _ Ha; apply H2 in Ha; discriminate | reflexivity].
    + intros Ha. apply H2 in Ha. discriminate.
  - exists (if b then ASuccess else AError). split; [reflexivity|]. split.
    + split; [destruct b; discriminate | intros Hn; exfalso; apply Hn; apply H1; reflexivity].
    + reflexivity.
  - congruence.
Qed.

Lemma audit_none s t b : mutating t = false -> audit s t b = [].
Proof. intros H. unfold audit. rewrite H. reflexivity. Qed.

(** * raising the role / switching flags on never takes a permission away *)
Lemma role_monotone s s' t :
  rank (s_role s) <= rank (s_role s') -> s_mut s' = s_mut s -> s_rt s' = s_rt s ->
  s_principal s' = s_principal s ->
  access s t = Allowed -> access s' t = Allowed.
Proof.
  intros Hr Hm Ht Hp Ha. apply gate_spec in Ha. apply gate_spec.
  destruct Ha as [r [A [B [C [D E]]]]]. exists r. rewrite Hm, Ht, Hp.
  repeat split; auto. lia.
Qed.

(** * actor binding and path confinement (trimmed inputs) *)
Lemma bind_actor_spec a p x :
  bind_actor a p = Some x -> p <> "" -> x = p.
Proof.
  unfold bind_actor. intros H Hp.
  apply String.eqb_neq in Hp.
  destruct (String.eqb a "") eqn:Ea.
  - rewrite Hp in H. rewrite String.eqb_refl in H. cbn in H. inversion H. reflexivity.
  - rewrite Ea, Hp in H. cbn in H. destruct (String.eqb a p) eqn:Eap; cbn in H; [|discriminate].
    apply String.eqb_eq in Eap. inversion H. congruence.
Qed.

Lemma bind_actor_mismatch a p :
  a <> "" -> p <> "" -> a <> p -> bind_actor a p = None.
Proof.
  intros Ha Hp Hap. unfold bind_actor.
  apply String.eqb_neq in Ha. apply String.eqb_neq in Hp. apply String.eqb_neq in Hap.
  rewrite Ha. rewrite Ha, Hp, Hap. reflexivity.
Qed.

Lemma path_confined cfg arg p :
  resolve_config_path cfg arg = Some p -> p = cfg /\ cfg <> "".
Proof.
  unfold resolve_config_path. destruct arg as [a|].
  - destruct (String.eqb a "") eqn:Ea.
    + destruct (String.eqb cfg "") eqn:Ec; [discriminate|]. intros H. inversion H.
      apply String.eqb_neq in Ec. split; [reflexivity | congruence].
    + destruct (String.eqb cfg "") eqn:Ec; [discriminate|].
      destruct (String.eqb a cfg) eqn:Eac; [|discriminate].
      apply String.eqb_eq in Eac. apply String.eqb_neq in Ec. intros H. inversion H. subst. split; [reflexivity | exact Ec].
  - destruct (String.eqb cfg "") eqn:Ec; [discriminate|]. intros H. inversion H.
    apply String.eqb_neq in Ec. split; [reflexivity | congruence].
Qed.

Lemma foreign_path_refused cfg a :
  a <> "" -> a <> cfg -> resolve_config_path cfg (Some a) = None.
Proof.
  intros Ha Hac. unfold resolve_config_path.
  apply String.eqb_neq in Ha. apply String.eqb_neq in Hac. rewrite Ha, Hac.
  destruct (String.eqb cfg ""); reflexivity.
Qed.

(** * the code's tables are the documented tables (every documented tool) *)
Definition spec_row_ok (row : string * (role * bool * bool * bool)) : bool :=
  let '(t, (r, m, rt, mu)) := row in
  match required t with Some r' => role_eqb r r' | None => false end
  && Bool.eqb (needs_mut t) m && Bool.eqb (needs_rt t) rt && Bool.eqb (mutating t) mu.

Lemma spec_rows : forallb spec_row_ok spec_table = true.
Proof. vm_compute. reflexivity. Qed.

Lemma role_eqb_eq a b : role_eqb a b = true -> a = b.
Proof. destruct a, b; simpl; congruence. Qed.

Lemma spec_lookup_In t tbl v : spec_lookup t tbl = Some v -> In (t, v) tbl.
Proof.
  induction tbl as [|[k v0] tl IH]; simpl; [discriminate|].
  destruct (String.eqb t k) eqn:E.
  - apply String.eqb_eq in E. intros H. inversion H. subst. left. reflexivity.
  - intros H. right. apply IH. exact H.
Qed.

Lemma roles_as_documented t r m rt mu :
  spec_of t = Some (r, m, rt, mu) ->
  required t = Some r /\ needs_mut t = m /\ needs_rt t = rt /\ mutating t = mu.
Proof.
  intros H. apply spec_lookup_In in H.
  pose proof (proj1 (forallb_forall _ _) spec_rows _ H) as R. unfold spec_row_ok in R.
  apply andb_true_iff in R. destruct R as [R Hmu].
  apply andb_true_iff in R. destruct R as [R Hrt].
  apply andb_true_iff in R. destruct R as [R Hm].
  destruct (required t) as [r'|]; [|discriminate].
  apply role_eqb_eq in R. subst r'.
  apply Bool.eqb_prop in Hmu. apply Bool.eqb_prop in Hrt. apply Bool.eqb_prop in Hm.
  repeat split; assumption.
Qed.

(** non-vacuity: a concrete server for which a mutating tool is allowed and one for which it is not *)
Example gate_example_allowed :
  access {| s_role := RAdmin; s_mut := true; s_rt := false; s_principal := "ops" |} "config_apply" = Allowed.
Proof. vm_compute. reflexivity. Qed.

Example gate_example_denied :
  access {| s_role := ROperate; s_mut := true; s_rt := false; s_principal := "ops" |} "config_apply" = Denied CkRole.
Proof. vm_compute. reflexivity. Qed.
