(** C14, MCP Admin-proxy mode: the source (internal/mcp/server.go) has the shape Model/ManageProxy.v assumes.  Everything here
    is about Gen/AdminProxy.v, which translate/adminproxy.go regenerates from the Go source on every run. *)
From Coq Require Import List ZArith Bool String.
From HK Require Import Gen.AdminProxy.
Import ListNotations.
Open Scope Z_scope.
Open Scope string_scope.

Theorem source_shape :
  ap_shape_ok = true /\ ap_only_get_raises = true /\ ap_retries_guarded = true /\ ap_last_attempt_final = true
  /\ ap_attempts_default = 1 /\ ap_attempts_get = ap_retry_max_get /\ ap_retry_max_get = 3
  /\ ap_retry_statuses = [408; 429; 500; 502; 503; 504].
Proof. repeat split; reflexivity. Qed.

(** the Go functions of the queue-mutation tools, and what each sends through callAdminJSON: always POST - the method
    that gets one attempt - to the endpoint of its own operation *)
Definition lookup_calls (n : string) : list (string * string) :=
  match find (fun e => String.eqb (fst e) n) ap_tool_calls with Some e => snd e | None => [] end.

Definition mutation_tool_calls : list (string * list (string * string)) :=
  map (fun n => (n, lookup_calls n))
      ["toolMessagesCancel"; "toolMessagesRequeue"; "toolMessagesResume"; "toolDLQRequeue"; "toolDLQDelete";
       "toolMessagesCancelByFilter"; "toolMessagesRequeueByFilter"; "toolMessagesResumeByFilter"].

Theorem mutation_tools_post_once :
  mutation_tool_calls =
  [("toolMessagesCancel", [("POST", "/messages/cancel")]);
   ("toolMessagesRequeue", [("POST", "/messages/requeue")]);
   ("toolMessagesResume", [("POST", "/messages/resume")]);
   ("toolDLQRequeue", [("POST", "/dlq/requeue")]);
   ("toolDLQDelete", [("POST", "/dlq/delete")]);
   ("toolMessagesCancelByFilter", [("POST", "/messages/cancel_by_filter|managedEndpointMessageActionPath(cancel_by_filter)")]);
   ("toolMessagesRequeueByFilter", [("POST", "/messages/requeue_by_filter|managedEndpointMessageActionPath(requeue_by_filter)")]);
   ("toolMessagesResumeByFilter", [("POST", "/messages/resume_by_filter|managedEndpointMessageActionPath(resume_by_filter)")])].
Proof. vm_compute. reflexivity. Qed.

(** no tool function sends anything but GET and POST through callAdminJSON, and every listing (GET) tool function sends
    nothing else *)
Theorem proxied_methods :
  forallb (fun e => forallb (fun c => String.eqb (fst c) "GET" || String.eqb (fst c) "POST") (snd e)) ap_tool_calls = true.
Proof. vm_compute. reflexivity. Qed.

