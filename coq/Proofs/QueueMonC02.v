(** The C02 monitor is sound for the model: on every trace of the model (either flavour, every
    configuration, every operation list and oracle) [c02_event] evaluates to [true] at every event,
    provided no successful enqueue re-uses the id of a message that was stored when it started (the one
    history in which the monitor, which identifies messages by id + immutable fields, cannot tell a
    replaced message from a changed one).

    The monitor is the predicate the correspondence check evaluates on traces of the Go stores; this
    theorem is the statement that it demands nothing the model does not deliver. *)
From Coq Require Import List ZArith NArith Bool Lia.
From HK Require Import Gen.Consts Model.Queue Model.QueueHash Model.QueueMon
  Proofs.QueueBase Proofs.QueueInv Proofs.QueueInvStep Proofs.QueueStep Proofs.QueueMonSound.
Import ListNotations.
Open Scope Z_scope.

(** ** DLQ depth: victims are the oldest dead messages *)
Lemma st_eqb_sym a b : st_eqb a b = st_eqb b a.
Proof. destruct a, b; reflexivity. Qed.

Lemma st_eqb_eq a b : st_eqb a b = true <-> a = b.
Proof. destruct a, b; simpl; split; intros H; try discriminate; reflexivity. Qed.

Lemma dead_count_eq l : dead_count l = Z.of_nat (length (filter (fun m => st_eqb (m_st m) Dead) l)).
Proof.
  unfold dead_count, count_st.
  rewrite (filter_ext (fun m => st_eqb Dead (m_st m)) (fun m => st_eqb (m_st m) Dead)); [reflexivity | intros; apply st_eqb_sym].
Qed.

Lemma dlq_victims_oldest depth hint l i :
  In i (dlq_depth_victims depth hint l) ->
  0 < depth /\ depth < dead_count l /\
  exists m, In m l /\ m_id m = i /\ m_st m = Dead /\
    forall d, In d l -> m_st d = Dead -> ~ In (m_id d) (dlq_depth_victims depth hint l) -> m_recv m <= m_recv d.
Proof.
  rewrite dead_count_eq. unfold dlq_depth_victims.
  set (deads := filter (fun m => st_eqb (m_st m) Dead) l).
  destruct ((0 <? depth) && (depth <? Z.of_nat (length deads))) eqn:E; [|intros []].
  apply andb_true_iff in E. destruct E as [E1 E2]. apply Z.ltb_lt in E1. apply Z.ltb_lt in E2.
  destruct (nth_error (sort_by m_recv true deads) _) as [cutm|]; [|intros []].
  set (sorted := sort_by m_recv true deads).
  set (cut := m_recv cutm).
  intros H. split; [exact E1|]. split; [exact E2|].
  assert (Hd : forall m, In m sorted <-> In m l /\ m_st m = Dead).
  { intros m. unfold sorted. rewrite In_sort_by. unfold deads. rewrite filter_In, st_eqb_eq. tauto. }
  assert (Hle : exists m, In m sorted /\ m_id m = i /\ m_recv m <= cut).
  { apply in_app_or in H. destruct H as [H | H].
    - apply in_map_iff in H. destruct H as [m [Em Hm]]. apply filter_In in Hm. destruct Hm as [Hm Hlt].
      apply Z.ltb_lt in Hlt. exists m. split; [exact Hm|]. split; [exact Em | unfold cut; lia].
    - apply In_firstn in H. apply In_prefer in H. apply in_map_iff in H. destruct H as [m [Em Hm]].
      apply filter_In in Hm. destruct Hm as [Hm Heq]. apply Z.eqb_eq in Heq.
      exists m. split; [exact Hm|]. split; [exact Em | unfold cut; lia]. }
  destruct Hle as [m [Hm [Ei Hc]]]. exists m. apply Hd in Hm. destruct Hm as [Hm Hs].
  split; [exact Hm|]. split; [exact Ei|]. split; [exact Hs|].
  intros d Hdl Hds Hnv.
  destruct (Z_lt_le_dec (m_recv d) cut) as [Hlt | Hge]; [|eapply Z.le_trans; eassumption].
  exfalso. apply Hnv. apply in_or_app. left. apply in_map_iff. exists d. split; [reflexivity|].
  apply filter_In. split; [apply Hd; auto | apply Z.ltb_lt; exact Hlt].
Qed.

Lemma count_dead_apply_pm_le pm l :
  (forall m m', pm m = Some m' -> m' = m) -> dead_count (apply_pm pm l) <= dead_count l.
Proof.
  intros Hs. unfold dead_count, count_st. apply Nat2Z.inj_le.
  induction l as [|x tl IH]; cbn [apply_pm filter length]; [apply Nat.le_refl|].
  destruct (pm x) as [x'|] eqn:E.
  - apply Hs in E. subst x'. cbn [filter]. destruct (st_eqb Dead (m_st x)); cbn [length]; lia.
  - destruct (st_eqb Dead (m_st x)); cbn [length]; lia.
Qed.

(** what is known about a message that a prune removed although its age did not qualify it *)
Lemma prune_removed_facts c now hint s m :
  NoDup (ids (msgs s)) -> In m (msgs s) -> ~ In (m_id m) (ids (msgs (prune c now hint s))) ->
  prune_age_eligible c now m = false ->
  m_st m = Dead /\ 0 < c_prune_iv c /\ 0 < c_dlq_depth c /\ c_dlq_depth c < dead_count (msgs s) /\
  forall d, In d (msgs (prune c now hint s)) -> m_st d = Dead -> m_recv m <= m_recv d.
Proof.
  intros ND Hm Hgone Ea. unfold prune in *.
  destruct (prune_due c now (last_prune s)) eqn:Ed.
  2:{ exfalso. apply Hgone. unfold ids. apply in_map. exact Hm. }
  pose proof (prune_enabled_iv _ _ _ Ed) as Hiv.
  simpl msgs in *. unfold prune_msgs in *.
  set (l1 := apply_pm (pm_prune_age c now) (msgs s)) in *.
  set (vs := dlq_depth_victims (c_dlq_depth c) hint l1) in *.
  assert (Hsame : forall a a', pm_prune_age c now a = Some a' -> a' = a).
  { intros a a'. unfold pm_prune_age. destruct (prune_age_eligible c now a); intros H; inversion H; reflexivity. }
  assert (H1 : In m l1).
  { apply apply_pm_In. exists m. split; [exact Hm|]. unfold pm_prune_age. rewrite Ea. reflexivity. }
  assert (Hsub : forall a, In a l1 -> In a (msgs s)).
  { intros a Ha. apply apply_pm_In in Ha. destruct Ha as [a0 [Ha0 Ep]]. apply Hsame in Ep. subst. exact Ha0. }
  assert (Hv : In (m_id m) vs).
  { destruct (memN (m_id m) vs) eqn:Ev; [apply memN_In; exact Ev|].
    exfalso. apply Hgone. unfold ids. apply in_map_iff. exists m. split; [reflexivity|].
    apply apply_pm_In. exists m. split; [exact H1|]. unfold pm_remove_ids. rewrite Ev. reflexivity. }
  destruct (dlq_victims_oldest _ _ _ _ Hv) as [Hd [Hcnt [m1 [Hm1 [Ei [Es Hold]]]]]].
  assert (m1 = m) by (apply (nodup_ids_inj (msgs s)); auto). subst m1.
  split; [exact Es|]. split; [exact Hiv|]. split; [exact Hd|]. split.
  - pose proof (count_dead_apply_pm_le (pm_prune_age c now) (msgs s) Hsame). fold l1 in H. lia.
  - intros d Hdin Hds. apply apply_pm_In in Hdin. destruct Hdin as [d0 [Hd0 Ep]].
    unfold pm_remove_ids in Ep. destruct (memN (m_id d0) vs) eqn:Ev; [discriminate|]. inversion Ep; subst d0.
    apply Hold; [exact Hd0 | exact Hds | apply memN_false; exact Ev].
Qed.

(** ** the shape of every step that prunes *)
Definition nice (pm : msg -> option msg) : Prop :=
  forall m, exists m', pm m = Some m' /\ m_id m' = m_id m /\ (m_st m' = Dead -> m' = m).

Lemma nice_some : nice (fun m => Some m).
Proof. intros m. exists m. auto. Qed.

Lemma nice_comp f g : nice f -> nice g -> nice (pm_comp f g).
Proof.
  intros Hf Hg m. destruct (Hf m) as [m1 [E1 [I1 D1]]]. destruct (Hg m1) as [m2 [E2 [I2 D2]]].
  exists m2. unfold pm_comp. rewrite E1. split; [exact E2|]. split; [congruence|].
  intros Hd. pose proof (D2 Hd) as E. subst m2. apply D1 in Hd. exact Hd.
Qed.

Lemma nice_sweep now : nice (pm_sweep now).
Proof.
  intros m. unfold pm_sweep. destruct (expired now m).
  - exists (release now m). split; [reflexivity|]. split; [reflexivity|]. simpl. discriminate.
  - exists m. auto.
Qed.

Lemma nice_lease now ttl picked : nice (pm_lease now ttl picked).
Proof.
  intros m. unfold pm_lease. destruct (lease_of picked (m_id m)) as [lid|].
  - eexists. split; [reflexivity|]. split; [reflexivity|]. simpl. discriminate.
  - exists m. auto.
Qed.

Definition after_prune_shape (P l' : list msg) : Prop :=
  exists pm2 news, l' = apply_pm pm2 P ++ news
    /\ (forall m m', In m P -> pm2 m = Some m' -> m_id m' = m_id m /\ (m_st m' = Dead -> m' = m))
    /\ (forall m, In m P -> pm2 m = None -> m_st m = Queued)
    /\ (forall n, In n news -> m_st n = Queued).

Lemma nice_shape pm P : nice pm -> after_prune_shape P (apply_pm pm P).
Proof.
  intros Hn. exists pm, []. rewrite app_nil_r. split; [reflexivity|]. split.
  - intros m m' _ E. destruct (Hn m) as [m1 [E1 [I1 D1]]]. rewrite E in E1. inversion E1; subst. auto.
  - split; [|intros n []]. intros m _ E. destruct (Hn m) as [m1 [E1 _]]. congruence.
Qed.

Lemma same_shape P : after_prune_shape P P.
Proof. rewrite <- (apply_pm_id P) at 2. apply nice_shape. apply nice_some. Qed.

Definition mk_news (now : Z) (ies : list (N * enq)) : list msg := map (fun p => mk_msg now (fst p) (snd p)) ies.

Lemma step_enqueue_shape fl c now single es o s s' r :
  es <> [] -> Inv s -> step_enqueue fl c now single es o s = (s', r) ->
  (msgs s' = msgs s /\ r = RBadOracle)
  \/ (msgs s' = msgs (prune c now (o_gone o) s) /\ exists e, r = RErr e)
  \/ (exists vs ies, assign_ids es (o_genids o) = Some ies
        /\ queued_ids (msgs (prune c now (o_gone o) s)) vs
        /\ (vs <> [] -> c_drop_oldest c = true /\ 0 < c_max_depth c)
        /\ msgs s' = apply_pm (pm_remove_ids vs) (msgs (prune c now (o_gone o) s)) ++ mk_news now ies
        /\ r = (if single then RUnit else RCount (Z.of_nat (length ies)) 0 false)).
Proof.
  intros Hne I H. unfold step_enqueue in H.
  destruct es as [|e0 es0]; [contradiction|].
  set (es := e0 :: es0) in *.
  destruct (assign_ids es (o_genids o)) as [ies|] eqn:EA; [|inversion H; subst; left; auto].
  set (s1 := prune c now (o_gone o) s) in *.
  set (l1 := msgs s1) in *.
  assert (Pruned : forall e, (s1, RErr e) = (s', r) ->
            (msgs s' = msgs s /\ r = RBadOracle) \/ (msgs s' = l1 /\ exists e, r = RErr e) \/
            (exists vs ies0, Some ies = Some ies0 /\ queued_ids l1 vs /\ (vs <> [] -> c_drop_oldest c = true /\ 0 < c_max_depth c)
               /\ msgs s' = apply_pm (pm_remove_ids vs) l1 ++ mk_news now ies0
               /\ r = (if single then RUnit else RCount (Z.of_nat (length ies0)) 0 false))).
  { intros e E. inversion E; subst. right. left. split; [reflexivity | exists e; reflexivity]. }
  destruct fl.
  - destruct (mem_plan c (Z.of_nat (length ies)) s1 l1) as [victims|] eqn:EP; [|eapply Pruned; exact H].
    apply mem_plan_spec in EP. destruct EP as [Q Hdrop].
    destruct single.
    + destruct (pressure c l1); [eapply Pruned; exact H|].
      destruct (negb (forallb (fun i => negb (has_id i l1) || memN i victims) (map fst ies))); [eapply Pruned; exact H|].
      inversion H; subst s' r. right. right. exists victims, ies. simpl. auto.
    + destruct (negb (nodupN (map fst ies) && forallb (fun i => negb (has_id i l1) || memN i victims) (map fst ies)));
        [eapply Pruned; exact H|].
      destruct (pressure c l1); [eapply Pruned; exact H|].
      inversion H; subst s' r. right. right. exists victims, ies. simpl. auto.
  - match type of H with (match ?rm with _ => _ end) = _ => set (room := rm) in * end.
    assert (Hroom : forall l2, room = Some l2 ->
              exists vs, l2 = apply_pm (pm_remove_ids vs) l1 /\ queued_ids l1 vs /\ (vs <> [] -> c_drop_oldest c = true /\ 0 < c_max_depth c)).
    { intros l2 Hr. unfold room in Hr.
      destruct (0 <? c_max_depth c) eqn:Ed.
      2:{ inversion Hr; subst. exists []. rewrite remove_nil. split; [reflexivity|]. split; [intros v []|]. intros N; contradiction. }
      apply Z.ltb_lt in Ed.
      destruct (c_drop_oldest c) eqn:Edo.
      - destruct (sql_make_room_spec _ _ _ _ _ _ Hr) as [vs [E Q]]. exists vs. split; [exact E|]. split; [exact Q|].
        intros _. split; [reflexivity | exact Ed].
      - destruct (c_max_depth c <? active l1 + Z.of_nat (length ies)); [discriminate|]. inversion Hr; subst.
        exists []. rewrite remove_nil. split; [reflexivity|]. split; [intros v []|]. intros N; contradiction. }
    destruct room as [l2|] eqn:Er; [|eapply Pruned; exact H].
    destruct (nodupN (map fst ies) && forallb (fun i => negb (has_id i l2)) (map fst ies)); [|eapply Pruned; exact H].
    destruct (Hroom l2 eq_refl) as [vs [E [Q Hdrop]]]. subst l2.
    inversion H; subst s' r. right. right. exists vs, ies. simpl. destruct single; auto.
Qed.

Lemma mk_news_queued now ies n : In n (mk_news now ies) -> m_st n = Queued.
Proof. unfold mk_news. intros H. apply in_map_iff in H. destruct H as [p [E _]]. subst n. reflexivity. Qed.

Lemma evict_shape P vs news :
  NoDup (ids P) -> queued_ids P vs -> (forall n, In n news -> m_st n = Queued) ->
  after_prune_shape P (apply_pm (pm_remove_ids vs) P ++ news).
Proof.
  intros ND Q Hn. exists (pm_remove_ids vs), news. split; [reflexivity|]. split.
  - intros m m' _ E. unfold pm_remove_ids in E. destruct (memN (m_id m) vs); inversion E; subst. auto.
  - split; [|exact Hn]. intros m Hm E. unfold pm_remove_ids in E. destruct (memN (m_id m) vs) eqn:Ev; [|discriminate].
    apply memN_In in Ev. destruct (Q _ Ev) as [m1 [H1 [Ei Eq]]].
    assert (m1 = m) by (apply (nodup_ids_inj P); auto). subst m1.
    unfold queuedb in Eq. apply st_eqb_eq in Eq. exact Eq.
Qed.

Theorem step_prune_shape fl c s x o s' r :
  Inv s -> prunes x = true -> step fl c s x o = (s', r) ->
  msgs s' = msgs s \/ after_prune_shape (msgs (prune c (op_now x) (o_gone o) s)) (msgs s').
Proof.
  intros I Hp H.
  pose proof (inv_prune c (op_now x) (o_gone o) s I) as I1.
  assert (Enq : forall now single es, op_now x = now -> es <> [] -> step_enqueue fl c now single es o s = (s', r) ->
            msgs s' = msgs s \/ after_prune_shape (msgs (prune c (op_now x) (o_gone o) s)) (msgs s')).
  { intros now single es En Hne Hs. rewrite En in *.
    destruct (step_enqueue_shape fl c now single es o s s' r Hne I Hs) as [[E _] | [[E _] | [vs [ies [_ [Q [_ [E _]]]]]]]].
    - left. exact E.
    - right. rewrite E. apply same_shape.
    - right. rewrite E. apply evict_shape; [apply I1 | exact Q | apply mk_news_queued]. }
  destruct x; simpl in Hp; try discriminate; cbn [step] in H; cbn [op_now] in *.
  - apply (Enq now true [e]); [reflexivity | discriminate | exact H].
  - destruct es as [|e0 es0]; [discriminate|]. apply (Enq now false (e0 :: es0)); [reflexivity | discriminate | exact H].
  - right. rewrite step_dequeue_eq in H. cbv zeta in H.
    assert (Hpre : exists pm, nice pm /\ msgs (deq_pre fl c now o s) = apply_pm pm (msgs (prune c now (o_gone o) s))).
    { unfold deq_pre. destruct fl.
      - exists (pm_sweep now). split; [apply nice_sweep | reflexivity].
      - destruct (sql_sweep_due now _).
        + exists (pm_sweep now). split; [apply nice_sweep | reflexivity].
        + exists (fun m => Some m). split; [apply nice_some | symmetry; apply apply_pm_id]. }
    destruct Hpre as [pm [Hn E]].
    destruct (valid_pick _ _ _ _ _ _ _).
    + inversion H; subst s' r. simpl msgs. rewrite E, apply_pm_comp. apply nice_shape. apply nice_comp; [exact Hn | apply nice_lease].
    + inversion H; subst s' r. rewrite E. apply nice_shape. exact Hn.
  - right. unfold step_list in H. destruct ord; inversion H; subst; apply same_shape.
  - right. unfold step_list_dead in H. inversion H; subst. apply same_shape.
  - right. unfold step_stats in H. inversion H; subst. apply same_shape.
Qed.

(** ** the relations of Proofs/QueueStep.v imply the monitor's boolean clauses *)
Lemma is_leased_st m : is_leased m = true -> m_st m = Leased.
Proof. unfold is_leased. apply st_eqb_eq. Qed.

Lemma optN_eqb_false a l : a <> Some l -> optN_eqb a (Some l) = false.
Proof.
  intros H. destruct a as [x|]; simpl; [|reflexivity].
  destruct (N.eqb x l) eqn:E; [|reflexivity]. apply N.eqb_eq in E. subst. contradiction.
Qed.

Lemma item_pairs_ids i l r : In (i, l) (item_pairs r) -> memN i (item_ids r) = true.
Proof.
  unfold item_pairs, item_ids. intros H. apply memN_In. apply in_map_iff in H. destruct H as [it [E H]].
  apply in_map_iff. exists it. split; [inversion E; reflexivity | exact H].
Qed.

Lemma manage_of_kind x k : manage_kind_of x = Some k -> manage_of x = Some (k, false).
Proof.
  destruct x; simpl; try discriminate.
  - intros H; inversion H; reflexivity.
  - destruct (f_preview f); [discriminate|]. intros H; inversion H; reflexivity.
Qed.

Lemma enq_success_ok x o r b a : enq_success (mkEvent x o r b a) = enq_ok x r.
Proof. reflexivity. Qed.

Lemma settles_intro x o r b a k (want : lease_kind -> bool) lid m :
  lease_op_kind x = Some k -> want k = true -> In lid (presented x) -> m_lease m = Some lid ->
  is_leased m = true -> op_now x < m_until m -> res_ok r = true ->
  settles (mkEvent x o r b a) want m = true.
Proof.
  intros Hk Hw Hin Hl Hle Hu Hok. unfold settles. cbn [ev_op ev_res]. rewrite Hk, Hw.
  unfold presents. rewrite Hl. apply memN_In in Hin. rewrite Hin, Hle.
  apply Z.ltb_lt in Hu. rewrite Hu. simpl. destruct x; try reflexivity. exact Hok.
Qed.

Lemma change_ok_of_change c x o r b a m m' :
  change c x r m m' -> change_ok c (mkEvent x o r b a) m m' = true.
Proof.
  intros H. unfold change_ok. cbn [ev_op ev_res].
  destruct (msg_eqb m m') eqn:Eq; [reflexivity|].
  destruct H as [E | Hrel Hexp Hor E | route target bt ttl lid m0 Ex H0 Hrd Hin Hfresh E
                 | k lid Hk Hpr Hl Hle Hu Hok Hnn E | k Hk Hal Hok E].
  - subst m'. rewrite msg_eqb_refl in Eq. discriminate.
  - subst m'. pose proof Hexp as Hexp'. unfold expired in Hexp'. apply andb_true_iff in Hexp'. destruct Hexp' as [Hl _].
    rewrite (is_leased_st m Hl). cbn [release upd m_st m_attempt]. rewrite Z.eqb_refl, Hexp.
    destruct Hor as [Hd | Hp]; rewrite ?Hd, ?Hp; simpl; rewrite ?orb_true_r; reflexivity.
  - subst m'. assert (Hdq : is_dequeue x = true) by (rewrite Ex; reflexivity).
    pose proof (item_pairs_ids _ _ _ Hin) as Hmem.
    destruct H0 as [H0 | [Hexp H0]]; subst m0.
    + unfold ready in Hrd. rewrite !andb_true_iff in Hrd. destruct Hrd as [[[Hq _] _] _].
      unfold queuedb in Hq. apply st_eqb_eq in Hq. rewrite Hq.
      cbn [leased_version upd m_st m_attempt]. rewrite Hdq, Hmem, Z.eqb_refl. reflexivity.
    + pose proof Hexp as Hexp'. unfold expired in Hexp'. apply andb_true_iff in Hexp'. destruct Hexp' as [Hl _].
      rewrite (is_leased_st m Hl). cbn [leased_version release upd m_st m_attempt m_lease].
      rewrite Hdq, Hexp, Hmem, (optN_eqb_false _ _ Hfresh), Z.eqb_refl. simpl. apply orb_true_r.
  - rewrite (is_leased_st m Hle).
    destruct k as [|d|by_|rs]; cbn [lease_effect] in E.
    + destruct (0 <? c_deliv_age c); [|discriminate]. inversion E; subst m'. cbn [upd m_st m_attempt].
      rewrite Z.eqb_refl. simpl. apply (settles_intro x o r b a KAck is_ack lid); auto.
    + inversion E; subst m'. cbn [upd m_st m_attempt]. rewrite Z.eqb_refl. simpl.
      rewrite (settles_intro x o r b a (KNack d) is_nack lid); auto. apply orb_true_r.
    + inversion E; subst m'. cbn [upd m_st m_attempt m_lease]. rewrite Z.eqb_refl, optN_eqb_refl.
      rewrite (settles_intro x o r b a (KExtend by_) is_extend lid); auto.
    + inversion E; subst m'. cbn [upd m_st m_attempt]. rewrite Z.eqb_refl. simpl.
      apply (settles_intro x o r b a (KDead rs) is_dead lid); auto.
  - rewrite (manage_of_kind x k Hk).
    destruct k; cbn [manage_effect] in E; try discriminate; inversion E; subst m';
      destruct (m_st m) eqn:Es; simpl in Hal; try discriminate;
      cbn [upd m_st m_attempt]; rewrite ?Es, Z.eqb_refl; reflexivity.
Qed.

Lemma removal_ok_of_removal c x o r b a m :
  removal c x r m ->
  (prunes x = true -> prune_reason c (op_now x) m -> prune_eligible c (mkEvent x o r b a) m = true) ->
  removal_ok c (mkEvent x o r b a) m = true.
Proof.
  intros H Hprune. unfold removal_ok.
  destruct H as [lid Hk Hpr Hl Hle Hu Hok Hd | [now [idl [Ex Hin]]] Hs Hok | Hp Hr | He Hdo Hmax Hq].
  - rewrite (settles_intro x o r b a KAck is_ack lid); auto.
  - subst x. cbn [ev_op]. rewrite Hs. apply memN_In in Hin. rewrite Hin. destruct (settles _ _ _); reflexivity.
  - rewrite (Hprune Hp Hr). rewrite !orb_true_r. reflexivity.
  - unfold evict_ok. rewrite enq_success_ok, He, Hdo, Hq. apply Z.ltb_lt in Hmax. rewrite Hmax. simpl. apply orb_true_r.
Qed.

(** ** one event *)
(** the one history the monitor cannot judge: a successful enqueue that re-uses the id of a message
    stored when the operation started (the memory store allows it when that message is evicted by the
    same operation; a prune of the same operation may also have removed it) *)
Definition fresh_enqueue (e : event) : Prop :=
  res_ok (ev_res e) = true -> forall p, In p (enq_assigned e) -> ~ In (fst p) (ids (ev_before e)).

Lemma NoDup_app_r (A : Type) (l1 l2 : list A) : NoDup (l1 ++ l2) -> NoDup l2.
Proof.
  induction l1 as [|a tl IH]; simpl; intros H; [exact H|]. inversion H; subst. apply IH. assumption.
Qed.

Lemma ids_mk_news now ies : ids (mk_news now ies) = map fst ies.
Proof. unfold ids, mk_news. rewrite map_map. apply map_ext. reflexivity. Qed.

Lemma find_fst_NoDup (ies : list (N * enq)) p :
  NoDup (map fst ies) -> In p ies -> find (fun q : N * enq => N.eqb (fst q) (fst p)) ies = Some p.
Proof.
  induction ies as [|q tl IH]; intros ND Hin; [destruct Hin|].
  simpl in ND. inversion ND as [|? ? Hnot ND1]; subst. simpl.
  destruct Hin as [Hq | Hin].
  - subst q. rewrite N.eqb_refl. reflexivity.
  - destruct (N.eqb (fst q) (fst p)) eqn:E.
    + apply N.eqb_eq in E. exfalso. apply Hnot. rewrite E. apply in_map. exact Hin.
    + apply IH; assumption.
Qed.

Lemma insert_ok_new x o r b a ies p :
  enq_ok x r = true -> assign_ids (enq_list x) (o_genids o) = Some ies -> NoDup (map fst ies) -> In p ies ->
  insert_ok (mkEvent x o r b a) (mk_msg (op_now x) (fst p) (snd p)) = true.
Proof.
  intros He EA ND Hp. unfold insert_ok. rewrite enq_success_ok, He. cbn [andb].
  unfold enq_assigned. cbn [ev_op ev_orc]. rewrite EA. cbn [mk_msg m_id].
  rewrite (find_fst_NoDup ies p ND Hp). apply msg_eqb_refl.
Qed.

Lemma prune_sub c now hint s m : In m (msgs (prune c now hint s)) -> In m (msgs s).
Proof.
  rewrite prune_msgs_eq. intros H. apply apply_pm_In in H. destruct H as [m0 [H0 E]].
  apply prune_pm_same in E. subst. exact H0.
Qed.

Lemma prune_eligible_holds fl c s x o s' r m :
  Inv s -> step fl c s x o = (s', r) -> In m (msgs s) -> ~ In (m_id m) (ids (msgs s')) ->
  prunes x = true -> prune_reason c (op_now x) m ->
  prune_eligible c (mkEvent x o r (msgs s) (msgs s')) m = true.
Proof.
  intros I H Hm Hno Hp [Hnl [Hiv Hcase]].
  unfold prune_eligible. cbn [ev_op ev_before ev_after]. rewrite Hp.
  assert (Eiv : (0 <? c_prune_iv c) = true) by (apply Z.ltb_lt; exact Hiv). rewrite Eiv. cbn [andb].
  destruct (prune_age_eligible c (op_now x) m) eqn:Ea; [reflexivity|]. cbn [orb].
  destruct Hcase as [Hc | [Hdead _]]; [discriminate|].
  pose proof (inv_nodup _ _ I) as ND.
  pose proof (inv_prune c (op_now x) (o_gone o) s I) as I1.
  destruct (step_prune_shape fl c s x o s' r I Hp H) as [Esame | [pm2 [news [E [Himg [Hnone Hnews]]]]]].
  { exfalso. apply Hno. rewrite Esame. unfold ids. apply in_map. exact Hm. }
  set (P := msgs (prune c (op_now x) (o_gone o) s)) in *.
  assert (HnoP : ~ In (m_id m) (ids P)).
  { intros Hin. unfold ids in Hin. apply in_map_iff in Hin. destruct Hin as [m1 [Ei H1]].
    assert (m1 = m) by (apply (nodup_ids_inj (msgs s)); auto; apply (prune_sub c (op_now x) (o_gone o)); exact H1). subst m1.
    destruct (pm2 m) as [m2|] eqn:E2.
    - apply Hno. rewrite E. unfold ids. rewrite map_app. apply in_or_app. left.
      destruct (Himg m m2 H1 E2) as [Eid _]. rewrite <- Eid. apply in_map. apply apply_pm_In. exists m. auto.
    - pose proof (Hnone m H1 E2) as Hq. rewrite Hq in Hdead. discriminate. }
  destruct (prune_removed_facts c (op_now x) (o_gone o) s m ND Hm HnoP Ea) as [Hd [_ [Hdepth [Hcnt Hold]]]].
  rewrite Hd. cbn [st_eqb andb].
  apply Z.ltb_lt in Hdepth. apply Z.ltb_lt in Hcnt. rewrite Hdepth, Hcnt. cbn [andb].
  apply forallb_forall. intros d Hdin. rewrite E in Hdin. apply in_app_or in Hdin.
  destruct (st_eqb (m_st d) Dead) eqn:Esd; [|reflexivity]. cbn [negb orb]. apply st_eqb_eq in Esd.
  destruct Hdin as [Hdin | Hdin].
  - apply apply_pm_In in Hdin. destruct Hdin as [d0 [Hd0 Ed]].
    destruct (Himg d0 d Hd0 Ed) as [_ Hsame]. specialize (Hsame Esd). subst d0.
    apply Z.leb_le. apply Hold; assumption.
  - rewrite (Hnews d Hdin) in Esd. discriminate.
Qed.

Lemma enq_ok_inserted fl c s x o s' r :
  Inv s -> step fl c s x o = (s', r) -> enq_ok x r = true ->
  exists n, In n (msgs s') /\ insert_ok (mkEvent x o r (msgs s) (msgs s')) n = true.
Proof.
  intros I H He.
  assert (I' : Inv s') by (pose proof (step_inv fl c s x o I) as I1; rewrite H in I1; exact I1).
  pose proof (inv_nodup _ _ I') as ND'.
  assert (Enq : forall now single es, op_now x = now -> enq_list x = es -> es <> [] ->
            step_enqueue fl c now single es o s = (s', r) ->
            exists n, In n (msgs s') /\ insert_ok (mkEvent x o r (msgs s) (msgs s')) n = true).
  { intros now single es En El Hne Hs.
    destruct (step_enqueue_shape fl c now single es o s s' r Hne I Hs) as [[_ Er] | [[_ [e Er]] | [vs [ies [EA [_ [_ [E _]]]]]]]].
    - subst r. destruct x; try discriminate; destruct es0; discriminate.
    - subst r. destruct x; try discriminate; destruct es0; discriminate.
    - pose proof (assign_ids_length _ _ _ EA) as Hlen.
      destruct ies as [|p tl]; [destruct es; [contradiction | discriminate]|].
      exists (mk_msg now (fst p) (snd p)). split.
      + rewrite E. apply in_or_app. right. left. reflexivity.
      + rewrite <- En. apply (insert_ok_new x o r (msgs s) (msgs s') (p :: tl) p); auto.
        * rewrite El. exact EA.
        * rewrite E in ND'. unfold ids in ND'. rewrite map_app in ND'. apply NoDup_app_r in ND'.
          fold (ids (mk_news now (p :: tl))) in ND'. rewrite ids_mk_news in ND'. exact ND'.
        * left. reflexivity. }
  destruct x; simpl in He; try discriminate; cbn [step] in H.
  - apply (Enq now true [e]); [reflexivity | reflexivity | discriminate | exact H].
  - destruct es as [|e0 es0]; [discriminate|]. apply (Enq now false (e0 :: es0)); [reflexivity | reflexivity | discriminate | exact H].
Qed.

Theorem c02_event_holds fl c s x o s' r :
  Inv s -> step fl c s x o = (s', r) -> fresh_enqueue (mkEvent x o r (msgs s) (msgs s')) ->
  c02_event c (mkEvent x o r (msgs s) (msgs s')) = true.
Proof.
  intros I H Hfresh.
  set (e := mkEvent x o r (msgs s) (msgs s')) in *.
  assert (I' : Inv s') by (pose proof (step_inv fl c s x o I) as I1; rewrite H in I1; exact I1).
  destruct (step_sound fl c s x o s' r I H) as [pm [news [E [P N]]]].
  pose proof (inv_nodup _ _ I) as ND. pose proof (inv_nodup _ _ I') as ND'.
  assert (Hnews : forall n, In n news ->
            enq_ok x r = true /\ exists ies p, assign_ids (enq_list x) (o_genids o) = Some ies /\ NoDup (map fst ies)
                                               /\ In p ies /\ n = mk_msg (op_now x) (fst p) (snd p)).
  { intros n Hn. destruct N as [N | [Hok [ies [EA En]]]]; [subst news; destruct Hn|]. split; [exact Hok|].
    exists ies. pose proof Hn as Hn'. rewrite En in Hn'. apply in_map_iff in Hn'. destruct Hn' as [p [Ep Hp]]. exists p.
    split; [exact EA|]. split; [|split; [exact Hp | symmetry; exact Ep]].
    rewrite E in ND'. unfold ids in ND'. rewrite map_app in ND'. apply NoDup_app_r in ND'.
    rewrite En in ND'. fold (mk_news (op_now x) ies) in ND'. fold (ids (mk_news (op_now x) ies)) in ND'.
    rewrite ids_mk_news in ND'. exact ND'. }
  assert (Hnewfresh : forall n, In n news -> ~ In (m_id n) (ids (msgs s))).
  { intros n Hn. destruct (Hnews n Hn) as [Hok [ies [p [EA [_ [Hp En]]]]]]. subst n. cbn [mk_msg m_id].
    apply Hfresh; [apply (enq_ok_res_ok x); exact Hok|]. unfold enq_assigned, e. cbn [ev_op ev_orc]. rewrite EA. exact Hp. }
  assert (F1 : forall m m', In m (msgs s) -> pm m = Some m' -> survivor e m = Some m' /\ change c x r m m').
  { intros m m' Hm Ep. pose proof (P m Hm) as Pm. rewrite Ep in Pm. split; [|exact Pm].
    pose proof (change_same_imm _ _ _ _ _ Pm) as S.
    assert (Hin' : In m' (msgs s')) by (rewrite E; apply in_or_app; left; apply apply_pm_In; exists m; auto).
    assert (Eid : m_id m = m_id m') by (destruct S as [Eid _]; exact Eid).
    unfold survivor, e. cbn [ev_after]. rewrite Eid, (find_id_In_NoDup _ _ ND' Hin').
    rewrite (same_imm_imm_eq _ _ S). reflexivity. }
  assert (F2 : forall m, In m (msgs s) -> pm m = None ->
            survivor e m = None /\ removal c x r m /\ ~ In (m_id m) (ids (msgs s'))).
  { intros m Hm Ep. pose proof (P m Hm) as Pm. rewrite Ep in Pm.
    assert (Hno : ~ In (m_id m) (ids (msgs s'))).
    { rewrite E. unfold ids. rewrite map_app. intros Hin. apply in_app_or in Hin. destruct Hin as [Hin | Hin].
      - apply in_map_iff in Hin. destruct Hin as [m2' [Ei H2']]. apply apply_pm_In in H2'. destruct H2' as [m2 [H2 Ep2]].
        pose proof (P m2 H2) as P2. rewrite Ep2 in P2. apply change_same_imm in P2. destruct P2 as [Eid2 _].
        assert (m2 = m) by (apply (nodup_ids_inj (msgs s)); auto; congruence). subst m2. congruence.
      - apply in_map_iff in Hin. destruct Hin as [n [Ei Hn]]. apply (Hnewfresh n Hn). rewrite Ei.
        unfold ids. apply in_map. exact Hm. }
    split; [|split; [exact Pm | exact Hno]]. unfold survivor, e. cbn [ev_after].
    apply find_id_None in Hno. rewrite Hno. reflexivity. }
  unfold c02_event.
  apply andb_true_iff; split; [apply andb_true_iff; split; [apply andb_true_iff; split; [apply andb_true_iff; split|]|]|].
  - apply nodupN_NoDup. exact ND'.
  - apply forallb_forall. intros m Hm. apply (inv_coh _ _ I'). exact Hm.
  - apply forallb_forall. intros m Hm. unfold e in Hm. cbn [ev_before] in Hm.
    destruct (pm m) as [m'|] eqn:Ep.
    + destruct (F1 m m' Hm Ep) as [Sv Ch]. rewrite Sv. apply change_ok_of_change. exact Ch.
    + destruct (F2 m Hm Ep) as [Sv [Rm Hno]]. rewrite Sv. apply removal_ok_of_removal; [exact Rm|].
      intros Hp Hr. apply (prune_eligible_holds fl c s x o s' r m); assumption.
  - apply forallb_forall. intros m' Hin. unfold inserted in Hin. apply filter_In in Hin. destruct Hin as [Hin Hf].
    unfold e in Hin, Hf. cbn [ev_before ev_after] in Hin, Hf. rewrite E in Hin. apply in_app_or in Hin. destruct Hin as [Hin | Hin].
    + exfalso. apply apply_pm_In in Hin. destruct Hin as [m [Hm Ep]].
      pose proof (P m Hm) as Pm. rewrite Ep in Pm. pose proof (change_same_imm _ _ _ _ _ Pm) as S.
      assert (Eid : m_id m = m_id m') by (destruct S as [Eid _]; exact Eid).
      rewrite <- Eid, (find_id_In_NoDup _ _ ND Hm), (same_imm_imm_eq _ _ S) in Hf. discriminate.
    + destruct (Hnews m' Hin) as [Hok [ies [p [EA [NDi [Hp En]]]]]]. subst m'.
      apply (insert_ok_new x o r (msgs s) (msgs s') ies p); assumption.
  - destruct (evicted c e) as [|v tl] eqn:Ev; [reflexivity|]. cbn [length Nat.eqb orb].
    assert (Hv : In v (evicted c e)) by (rewrite Ev; left; reflexivity).
    unfold evicted in Hv. apply filter_In in Hv. destruct Hv as [Hrem Hcond].
    unfold removed in Hrem. apply filter_In in Hrem. destruct Hrem as [Hvb Hsv].
    unfold e in Hvb. cbn [ev_before] in Hvb.
    destruct (pm v) as [v'|] eqn:Ep.
    { destruct (F1 v v' Hvb Ep) as [Sv _]. rewrite Sv in Hsv. discriminate. }
    destruct (F2 v Hvb Ep) as [_ [Rm Hno]].
    apply andb_true_iff in Hcond. destruct Hcond as [Hcond Hnd]. apply andb_true_iff in Hcond. destruct Hcond as [Hns Hnp].
    apply negb_true_iff in Hns. apply negb_true_iff in Hnp.
    destruct Rm as [lid Hk Hpr Hl Hle Hu Hok Hd | [now [idl [Ex Hin]]] Hs Hok | Hp Hr | He Hdo Hmax Hq].
    + unfold e in Hns. rewrite (settles_intro x o r (msgs s) (msgs s') KAck is_ack lid) in Hns; auto. discriminate.
    + unfold e in Hnd. cbn [ev_op] in Hnd. rewrite Ex in Hnd. discriminate.
    + unfold e in Hnp. rewrite (prune_eligible_holds fl c s x o s' r v) in Hnp; auto. discriminate.
    + destruct (enq_ok_inserted fl c s x o s' r I H He) as [n [Hn Hins]].
      fold e in Hins. destruct (filter (insert_ok e) (ev_after e)) as [|y ys] eqn:Ef; [|reflexivity].
      exfalso. assert (Hnf : In n (filter (insert_ok e) (ev_after e))) by (apply filter_In; split; [exact Hn | exact Hins]).
      rewrite Ef in Hnf. destruct Hnf.
Qed.

(** ** every trace *)
Lemma run_c02 fl c xs : forall s iss ins,
  Inv s -> Forall fresh_enqueue (fst (run fl c s xs)) ->
  forallb (fun t : bool * bool * bool * bool * bool * bool => fst (fst (fst (fst (fst t)))))
          (mon_all fl c iss ins (fst (run fl c s xs))) = true.
Proof.
  induction xs as [|[x o] tl IH]; intros s iss ins I Hf; [reflexivity|].
  simpl in *. pose proof (step_inv fl c s x o I) as I1.
  destruct (step fl c s x o) as [s' r] eqn:Es. simpl in I1.
  destruct (run fl c s' tl) as [evs sf] eqn:Er. simpl in *.
  inversion Hf as [|? ? Hfe Hrest]; subst.
  apply andb_true_iff. split.
  - apply (c02_event_holds fl c s x o s' r I Es Hfe).
  - specialize (IH s' (iss ++ item_leases r) (upd_ins ins (mkEvent x o r (msgs s) (msgs s'))) I1).
    rewrite Er in IH. simpl in IH. apply IH. exact Hrest.
Qed.

(** P_C02 holds on every model trace in which no successful enqueue re-uses a stored id *)
Theorem P_C02_holds_on_model fl c xs :
  Forall fresh_enqueue (model_trace fl c xs) -> P_C02 fl c (model_trace fl c xs) = true.
Proof. intros H. unfold P_C02. apply (run_c02 fl c xs init [] []); [apply inv_init | exact H]. Qed.

(** the premise is decidable per event, and the oracle's generated ids being new is enough for it *)
Definition fresh_enqueueb (e : event) : bool :=
  negb (res_ok (ev_res e)) || forallb (fun p : N * enq => negb (memN (fst p) (ids (ev_before e)))) (enq_assigned e).

Lemma fresh_enqueueb_spec e : fresh_enqueueb e = true -> fresh_enqueue e.
Proof.
  unfold fresh_enqueueb, fresh_enqueue. intros H Hok p Hp. rewrite Hok in H. simpl in H.
  rewrite forallb_forall in H. specialize (H p Hp). apply negb_true_iff in H. apply memN_false. exact H.
Qed.
