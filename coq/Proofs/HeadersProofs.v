(** Lemmas about Model/Headers.v (C07). *)
From Coq Require Import List NArith ZArith Bool Lia.
From Coq Require String.
From HK Require Import Model.Headers.
Import ListNotations.
Open Scope N_scope.

(** ** byte strings *)
Lemma beq_refl : forall a, beq a a = true.
Proof. induction a; simpl; auto. rewrite N.eqb_refl. auto. Qed.

Lemma beq_eq : forall a b, beq a b = true <-> a = b.
Proof.
  induction a; destruct b; simpl; split; intros H; try congruence; auto.
  - apply andb_true_iff in H. destruct H as [H1 H2]. apply N.eqb_eq in H1. apply IHa in H2. congruence.
  - inversion H; subst. rewrite N.eqb_refl. simpl. apply beq_refl.
Qed.

Lemma beq_neq : forall a b, beq a b = false <-> a <> b.
Proof.
  intros. split; intros H.
  - intros E. apply beq_eq in E. congruence.
  - destruct (beq a b) eqn:E; auto. apply beq_eq in E. contradiction.
Qed.

Lemma beq_sym : forall a b, beq a b = beq b a.
Proof.
  intros. destruct (beq a b) eqn:E.
  - apply beq_eq in E. subst. symmetry. apply beq_refl.
  - symmetry. apply beq_neq. apply beq_neq in E. congruence.
Qed.

Lemma is_nil_spec : forall a, is_nil a = true <-> a = [].
Proof. destruct a; simpl; split; congruence. Qed.

(** ** canonical keys *)
Ltac nb :=
  unfold canon_char, to_lower, is_lower, is_upper, is_digit, in_range in *;
  repeat match goal with
         | |- context [N.leb ?a ?b] => destruct (N.leb_spec a b)
         | |- context [N.eqb ?a ?b] => destruct (N.eqb_spec a b)
         | |- context [N.ltb ?a ?b] => destruct (N.ltb_spec a b)
         | _ : context [N.leb ?a ?b] |- _ => destruct (N.leb_spec a b)
         | _ : context [N.eqb ?a ?b] |- _ => destruct (N.eqb_spec a b)
         | _ : context [N.ltb ?a ?b] |- _ => destruct (N.ltb_spec a b)
         end; cbn [andb orb negb] in *; try lia; try congruence; try (exfalso; lia).

Lemma canon_char_idem : forall u c, canon_char u (canon_char u c) = canon_char u c.
Proof. intros [|] c; nb. Qed.

Lemma to_lower_canon_char : forall u c, to_lower (canon_char u c) = to_lower c.
Proof. intros [|] c; nb. Qed.

Lemma is_token_letter_up : forall c, is_lower c = true -> is_token (c - 32) = true.
Proof.
  intros c H. unfold is_token.
  assert (is_upper (c - 32) = true) as ->.
  { revert H. nb. }
  rewrite orb_true_r. reflexivity.
Qed.

Lemma is_token_letter_down : forall c, is_upper c = true -> is_token (c + 32) = true.
Proof.
  intros c H. unfold is_token.
  assert (is_lower (c + 32) = true) as ->.
  { revert H. nb. }
  rewrite orb_true_r. reflexivity.
Qed.

Lemma is_token_canon_char : forall u c, is_token c = true -> is_token (canon_char u c) = true.
Proof.
  intros u c H. unfold canon_char.
  destruct (u && is_lower c) eqn:E1.
  - apply andb_true_iff in E1. apply is_token_letter_up. tauto.
  - destruct (negb u && is_upper c) eqn:E2; auto.
    apply andb_true_iff in E2. apply is_token_letter_down. tauto.
Qed.

Lemma canon_go_idem : forall s u, canon_go u (canon_go u s) = canon_go u s.
Proof.
  induction s; intros u; simpl; auto.
  rewrite canon_char_idem. f_equal. apply IHs.
Qed.

Lemma canon_go_token : forall s u, forallb is_token s = true -> forallb is_token (canon_go u s) = true.
Proof.
  induction s; intros u H; simpl in *; auto.
  apply andb_true_iff in H. destruct H as [H1 H2].
  rewrite is_token_canon_char by auto. simpl. apply IHs. auto.
Qed.

Theorem canon_key_idempotent : forall s, canon_key (canon_key s) = canon_key s.
Proof.
  intros s. unfold canon_key. destruct (forallb is_token s) eqn:E.
  - rewrite canon_go_token by auto. apply canon_go_idem.
  - rewrite E. reflexivity.
Qed.

Lemma lower_canon_go : forall s u, lower (canon_go u s) = lower s.
Proof.
  induction s; intros u; simpl; auto.
  rewrite to_lower_canon_char. f_equal. apply IHs.
Qed.

Lemma lower_canon_key : forall s, lower (canon_key s) = lower s.
Proof. intros s. unfold canon_key. destruct (forallb is_token s); auto. apply lower_canon_go. Qed.

Lemma stripped_canon_key : forall k, stripped (canon_key k) = stripped k.
Proof. intros k. unfold stripped. rewrite lower_canon_key. reflexivity. Qed.

Lemma canon_go_length : forall s u, length (canon_go u s) = length s.
Proof. induction s; intros; simpl; auto. Qed.

Lemma canon_key_length : forall s, length (canon_key s) = length s.
Proof. intros. unfold canon_key. destruct (forallb is_token s); auto. apply canon_go_length. Qed.

Lemma canon_key_nil : forall s, canon_key s = [] <-> s = [].
Proof.
  intros s. split; intros H.
  - apply length_zero_iff_nil. rewrite <- canon_key_length. rewrite H. reflexivity.
  - subst. reflexivity.
Qed.

(** every spelling of a stripped name is stripped: [stripped] looks at the lower-cased name only *)
Lemma stripped_case_variant : forall k name,
  In name stripped_names -> lower k = name -> stripped k = true.
Proof.
  intros k name Hin Hl. unfold stripped. rewrite Hl. apply existsb_exists.
  exists name. split; auto. apply beq_refl.
Qed.

Lemma stripped_spec : forall k, stripped k = true <-> In (lower k) stripped_names.
Proof.
  intros k. unfold stripped. rewrite existsb_exists. split.
  - intros [x [Hin Hb]]. apply beq_eq in Hb. subst. auto.
  - intros H. exists (lower k). split; auto. apply beq_refl.
Qed.

(** ** string maps *)
Lemma mget_mset : forall m k k' v, mget k (mset k' v m) = if beq k k' then Some v else mget k m.
Proof.
  induction m as [|[k0 v0] tl IH]; intros; simpl.
  - destruct (beq k k'); reflexivity.
  - destruct (beq k' k0) eqn:E; simpl.
    + apply beq_eq in E. subst. destruct (beq k k0); reflexivity.
    + destruct (beq k k0) eqn:E2.
      * apply beq_eq in E2. subst. rewrite beq_sym. rewrite E. reflexivity.
      * apply IH.
Qed.

Lemma mget_in : forall m k v, mget k m = Some v -> In (k, v) m.
Proof.
  induction m as [|[k0 v0] tl IH]; intros k v H; simpl in *; try discriminate.
  destruct (beq k k0) eqn:E.
  - apply beq_eq in E. inversion H; subst. auto.
  - right. auto.
Qed.

Lemma mget_keys : forall m k, In k (map fst m) <-> exists v, mget k m = Some v.
Proof.
  induction m as [|[k0 v0] tl IH]; intros k; simpl.
  - split; [tauto | intros [v H]; discriminate].
  - destruct (beq k k0) eqn:E.
    + apply beq_eq in E. subst. split; eauto.
    + apply beq_neq in E. rewrite <- IH. split; intros H; [destruct H; [congruence | auto] | auto].
Qed.

Lemma hget_none : forall h k, ~ In k (map fst h) -> hget k h = None.
Proof.
  induction h as [|[k0 vs] tl IH]; intros k H; simpl in *; auto.
  destruct (beq k k0) eqn:E.
  - apply beq_eq in E. subst. tauto.
  - apply IH. tauto.
Qed.

(** ** copy_base: what is stored comes from a non-stripped received name *)
Lemma copy_base_sound : forall h acc k v,
  mget k (fold_left copy_step h acc) = Some v ->
  mget k acc = Some v \/
  exists k0 vs, In (k0, vs) h /\ stripped k0 = false /\ canon_key k0 = k /\ v = join_comma vs.
Proof.
  induction h as [|[k0 vs] tl IH]; intros acc k v H; simpl in *; auto.
  apply IH in H. destruct H as [H | [k1 [vs1 [Hin H]]]].
  - unfold copy_step in H. simpl in H. destruct (stripped k0) eqn:Es; auto.
    rewrite mget_mset in H. destruct (beq k (canon_key k0)) eqn:E; auto.
    apply beq_eq in E. inversion H; subst. right. exists k0, vs. auto.
  - right. exists k1, vs1. tauto.
Qed.

Lemma extras_sound : forall extra acc k v,
  mget k (fold_left extra_step extra acc) = Some v ->
  mget k acc = Some v \/
  exists e, In e extra /\ snd e = v /\ canon_key (trim_space (fst e)) = k /\ k <> [].
Proof.
  induction extra as [|e tl IH]; intros acc k v H; simpl in *; auto.
  apply IH in H. destruct H as [H | [e1 [Hin H]]].
  - unfold extra_step in H. destruct (is_nil (canon_key (trim_space (fst e)))) eqn:En; auto.
    rewrite mget_mset in H. destruct (beq k (canon_key (trim_space (fst e)))) eqn:E; auto.
    apply beq_eq in E. inversion H; subst. right. exists e. repeat split; auto.
    intros Hn. rewrite Hn in En. discriminate.
  - right. exists e1. tauto.
Qed.

Lemma copy_headers_ok_inv : forall h max extra out,
  copy_headers h max extra = CopyOk out ->
  ((max <= 0)%Z /\ h = [] /\ extra = [] /\ out = []) \/
  ((0 < max)%Z /\ out = append_extras (copy_base h) extra /\ (kv_size out <= max)%Z).
Proof.
  intros h max extra out H. unfold copy_headers in H.
  destruct (Z.leb_spec max 0).
  - left. destruct h; destruct extra; try discriminate. inversion H. auto.
  - right. destruct (Z.ltb_spec max (kv_size (append_extras (copy_base h) extra))); try discriminate.
    inversion H; subst. auto.
Qed.

(** Authorization / Proxy-Authorization / Cookie received at ingress are never stored:
    a stripped key in the stored map can only be a configured forward-auth extra, and then
    its value is the auth service's, not the received one. *)
Theorem stripped_never_stored : forall h max extra out k v,
  copy_headers h max extra = CopyOk out ->
  mget k out = Some v -> stripped k = true ->
  exists e, In e extra /\ snd e = v /\ canon_key (trim_space (fst e)) = k.
Proof.
  intros h max extra out k v Hc Hg Hs.
  apply copy_headers_ok_inv in Hc. destruct Hc as [[_ [_ [_ Ho]]] | [_ [Ho _]]]; subst out.
  - simpl in Hg. discriminate.
  - unfold append_extras in Hg. apply extras_sound in Hg. destruct Hg as [Hg | [e [Hin [Hv [Hk _]]]]].
    + unfold copy_base in Hg. apply copy_base_sound in Hg. destruct Hg as [Hg | [k0 [vs [_ [Hns [Hk _]]]]]].
      * simpl in Hg. discriminate.
      * subst k. rewrite stripped_canon_key in Hs. congruence.
    + exists e. auto.
Qed.

Corollary stripped_never_stored_keys : forall h max out k,
  copy_headers h max [] = CopyOk out -> In k (map fst out) -> stripped k = false.
Proof.
  intros h max out k Hc Hin. apply mget_keys in Hin. destruct Hin as [v Hv].
  destruct (stripped k) eqn:E; auto.
  destruct (stripped_never_stored _ _ _ _ _ _ Hc Hv E) as [e [[] _]].
Qed.

(** ** net/http grouping *)
Definition groupf (w : list (bytes * bytes)) (h0 : hdr) : hdr :=
  fold_left (fun h p => hadd (canon_key (fst p)) (snd p) h) w h0.

Definition vals (k : bytes) (w : list (bytes * bytes)) : list bytes :=
  map snd (filter (fun p => beq (canon_key (fst p)) k) w).

Lemma hget_hadd : forall h k k' v,
  hget k (hadd k' v h) =
  if beq k k' then Some (match hget k' h with Some vs => vs ++ [v] | None => [v] end) else hget k h.
Proof.
  induction h as [|[k0 vs] tl IH]; intros; simpl.
  - destruct (beq k k'); reflexivity.
  - destruct (beq k' k0) eqn:E; simpl.
    + apply beq_eq in E. subst. destruct (beq k k0); reflexivity.
    + destruct (beq k k0) eqn:E2.
      * apply beq_eq in E2. subst. rewrite beq_sym, E. reflexivity.
      * apply IH.
Qed.

Lemma hget_groupf : forall w h0 k,
  hget k (groupf w h0) =
  match hget k h0 with
  | Some vs => Some (vs ++ vals k w)
  | None => match vals k w with [] => None | l => Some l end
  end.
Proof.
  induction w as [|[n v] tl IH]; intros h0 k; simpl.
  - destruct (hget k h0); auto. rewrite app_nil_r. reflexivity.
  - unfold groupf in *. simpl. rewrite IH. rewrite hget_hadd. unfold vals. simpl.
    rewrite (beq_sym (canon_key n) k).
    destruct (beq k (canon_key n)) eqn:E; simpl.
    + apply beq_eq in E. subst k. destruct (hget (canon_key n) h0).
      * rewrite <- app_assoc. reflexivity.
      * reflexivity.
    + reflexivity.
Qed.

Lemma hget_group : forall w k,
  hget k (group w) = match vals k w with [] => None | l => Some l end.
Proof. intros. unfold group. fold (groupf w []). rewrite hget_groupf. reflexivity. Qed.

Definition keys_ok (h : hdr) : Prop :=
  NoDup (map fst h) /\ Forall (fun k => canon_key k = k) (map fst h).

Lemma hadd_keys : forall h k v, map fst (hadd k v h) = map fst h \/ (~ In k (map fst h) /\ map fst (hadd k v h) = map fst h ++ [k]).
Proof.
  induction h as [|[k0 vs] tl IH]; intros; simpl.
  - right. auto.
  - destruct (beq k k0) eqn:E; simpl; auto.
    apply beq_neq in E. destruct (IH k v) as [H | [H1 H2]].
    + left. rewrite H. reflexivity.
    + right. split; [intros [Hx | Hx]; [congruence | contradiction] | rewrite H2; reflexivity].
Qed.

Lemma NoDup_snoc : forall (l : list bytes) k, NoDup l -> ~ In k l -> NoDup (l ++ [k]).
Proof.
  induction l as [|a l IH]; intros k Hnd Hn; simpl.
  - constructor; auto; constructor.
  - inversion Hnd; subst. constructor.
    + intros Hin. apply in_app_or in Hin. destruct Hin as [Hin | [Hin | []]]; auto.
      subst. apply Hn. left. reflexivity.
    + apply IH; auto. intros Hin. apply Hn. right. auto.
Qed.

Lemma keys_ok_hadd : forall h k v, keys_ok h -> canon_key k = k -> keys_ok (hadd k v h).
Proof.
  intros h k v [Hnd Hc] Hk. unfold keys_ok. destruct (hadd_keys h k v) as [H | [Hn H]]; rewrite H; auto.
  split.
  - apply NoDup_snoc; auto.
  - apply Forall_app. split; auto.
Qed.

Lemma keys_ok_groupf : forall w h0, keys_ok h0 -> keys_ok (groupf w h0).
Proof.
  induction w as [|[n v] tl IH]; intros h0 H; simpl; auto.
  unfold groupf in *. simpl. apply IH. apply keys_ok_hadd; auto. apply canon_key_idempotent.
Qed.

Lemma keys_ok_group : forall w, keys_ok (group w).
Proof. intros. unfold group. fold (groupf w []). apply keys_ok_groupf. split; constructor. Qed.

Lemma group_nil : forall w, group w = [] -> w = [].
Proof.
  intros [|[n v] tl] H; auto. exfalso.
  assert (hget (canon_key n) (group ((n, v) :: tl)) <> None).
  { rewrite hget_group. unfold vals. simpl. rewrite beq_refl. simpl. discriminate. }
  rewrite H in H0. simpl in H0. congruence.
Qed.

(** ** copy_base over a header with distinct canonical keys *)
Lemma copy_base_get : forall h acc k, keys_ok h ->
  mget k (fold_left copy_step h acc) =
  match hget k h with
  | Some vs => if stripped k then mget k acc else Some (join_comma vs)
  | None => mget k acc
  end.
Proof.
  induction h as [|[k0 vs] tl IH]; intros acc k [Hnd Hc]; simpl; auto.
  simpl in Hnd, Hc. inversion Hnd as [|? ? Hnotin Hnd']; subst. inversion Hc as [|? ? Hk0 Hc']; subst.
  rewrite IH by (split; auto).
  unfold copy_step at 1 2. simpl.
  destruct (beq k k0) eqn:E.
  - apply beq_eq in E. subst k. rewrite (hget_none tl k0 Hnotin).
    destruct (stripped k0); auto. rewrite mget_mset, Hk0, beq_refl. reflexivity.
  - assert (mget k (if stripped k0 then acc else mset (canon_key k0) (join_comma vs) acc) = mget k acc) as ->.
    { destruct (stripped k0); auto. rewrite mget_mset, Hk0, E. reflexivity. }
    reflexivity.
Qed.

Lemma extra_fold_default : forall k extra r,
  fold_left (extra_upd k) extra r =
  match fold_left (extra_upd k) extra None with Some v => Some v | None => r end.
Proof.
  induction extra as [|e tl IH]; intros r; simpl; auto.
  rewrite IH. rewrite (IH (extra_upd k None e)).
  destruct (fold_left (extra_upd k) tl None); auto.
  unfold extra_upd. destruct (negb (is_nil (canon_key (trim_space (fst e)))) && beq k (canon_key (trim_space (fst e)))); auto.
Qed.

Lemma extras_get : forall extra acc k,
  mget k (fold_left extra_step extra acc) =
  match extra_lookup k extra with Some v => Some v | None => mget k acc end.
Proof.
  unfold extra_lookup.
  induction extra as [|e tl IH]; intros acc k; simpl; auto.
  rewrite IH. rewrite (extra_fold_default k tl (extra_upd k None e)).
  destruct (fold_left (extra_upd k) tl None); auto.
  unfold extra_step, extra_upd.
  destruct (is_nil (canon_key (trim_space (fst e)))) eqn:En; simpl; auto.
  rewrite mget_mset. destruct (beq k (canon_key (trim_space (fst e)))); auto.
Qed.

Lemma extra_lookup_some : forall k extra v,
  extra_lookup k extra = Some v ->
  exists e, In e extra /\ snd e = v /\ canon_key (trim_space (fst e)) = k /\ k <> [].
Proof.
  unfold extra_lookup. intros k extra. induction extra as [|e tl IH] using rev_ind; intros v H; simpl in *; try discriminate.
  rewrite fold_left_app in H. simpl in H. unfold extra_upd at 1 in H.
  destruct (negb (is_nil (canon_key (trim_space (fst e)))) && beq k (canon_key (trim_space (fst e)))) eqn:E.
  - apply andb_true_iff in E. destruct E as [E1 E2]. apply beq_eq in E2. inversion H; subst.
    exists e. repeat split; auto.
    + apply in_or_app. right. left. reflexivity.
    + intros Hn. rewrite Hn in E1. simpl in E1. discriminate.
  - apply IH in H. destruct H as [e1 [Hin H]]. exists e1. split; auto. apply in_or_app. auto.
Qed.

Lemma extra_lookup_none : forall k extra,
  extra_lookup k extra = None ->
  forall e, In e extra -> canon_key (trim_space (fst e)) = k -> k = [].
Proof.
  unfold extra_lookup. intros k extra. induction extra as [|e tl IH] using rev_ind; intros H e0 Hin Hk; simpl in *; try contradiction.
  rewrite fold_left_app in H. simpl in H. unfold extra_upd at 1 in H.
  destruct (negb (is_nil (canon_key (trim_space (fst e)))) && beq k (canon_key (trim_space (fst e)))) eqn:E; try discriminate.
  apply in_app_or in Hin. destruct Hin as [Hin | [Hin | []]].
  - eapply IH; eauto.
  - subst e0. rewrite Hk in E. rewrite beq_refl, andb_true_r in E. apply negb_false_iff in E.
    apply is_nil_spec. auto.
Qed.

Lemma vals_nonempty : forall k w, vals k w <> [] <-> exists n, In n (map fst w) /\ canon_key n = k.
Proof.
  intros k w. unfold vals. split.
  - intros H. destruct (filter (fun p => beq (canon_key (fst p)) k) w) as [|p l] eqn:E; try (simpl in H; congruence).
    assert (In p (filter (fun p => beq (canon_key (fst p)) k) w)) by (rewrite E; left; auto).
    apply filter_In in H0. destruct H0 as [Hin Hb]. apply beq_eq in Hb.
    exists (fst p). split; auto. apply in_map. auto.
  - intros [n [Hin Hk]]. apply in_map_iff in Hin. destruct Hin as [p [Hp Hin]]. subst n.
    assert (In p (filter (fun p => beq (canon_key (fst p)) k) w)).
    { apply filter_In. split; auto. apply beq_eq. auto. }
    intros Hn. apply map_eq_nil in Hn. rewrite Hn in H. contradiction.
Qed.

Lemma wire_values_vals : forall n w, wire_values n w = vals (canon_key n) w.
Proof. reflexivity. Qed.

(** The stored map, for the header lines net/http accepted ([w], in wire order): under the
    canonical form of every non-stripped received name stands the comma-join of all values
    received under names that canonicalise to it, in order; configured forward-auth extras
    override; the key set is exactly these; the size limit holds. *)
Theorem copy_headers_spec : forall w max extra out,
  copy_headers (group w) max extra = CopyOk out ->
  (forall n, stripped n = false -> extra_lookup (canon_key n) extra = None ->
     mget (canon_key n) out =
     match wire_values n w with [] => None | vs => Some (join_comma vs) end)
  /\ (forall k v, extra_lookup k extra = Some v -> mget k out = Some v)
  /\ (forall k, In k (map fst out) <->
        (exists n, In n (map fst w) /\ stripped n = false /\ canon_key n = k)
        \/ (exists e, In e extra /\ canon_key (trim_space (fst e)) = k /\ k <> []))
  /\ ((0 < max)%Z -> (kv_size out <= max)%Z).
Proof.
  intros w max extra out Hc.
  apply copy_headers_ok_inv in Hc. destruct Hc as [[Hm [Hg [He Ho]]] | [Hm [Ho Hsz]]].
  - apply group_nil in Hg. subst. split; [|split; [|split]].
    + intros. simpl. reflexivity.
    + intros k v H. discriminate.
    + intros k. simpl. split; [tauto|].
      intros [[n [[] _]] | [e [[] _]]].
    + lia.
  - assert (Hget : forall k, mget k out =
                match extra_lookup k extra with
                | Some v => Some v
                | None => if stripped k then None
                          else match vals k w with [] => None | l => Some (join_comma l) end
                end).
    { intros k. subst out. unfold append_extras. rewrite extras_get.
      destruct (extra_lookup k extra); auto.
      unfold copy_base. rewrite copy_base_get by apply keys_ok_group.
      rewrite hget_group. simpl. destruct (vals k w); auto. destruct (stripped k); auto. }
    split; [|split; [|split]].
    + intros n Hs Hx. rewrite Hget, Hx. rewrite stripped_canon_key, Hs. rewrite wire_values_vals. reflexivity.
    + intros k v Hx. rewrite Hget, Hx. reflexivity.
    + intros k. split.
      * intros Hin. apply mget_keys in Hin. destruct Hin as [v Hv]. rewrite Hget in Hv.
        destruct (extra_lookup k extra) eqn:Ex.
        -- right. apply extra_lookup_some in Ex. destruct Ex as [e [Hin [_ [Hk Hn]]]]. exists e. auto.
        -- left. destruct (stripped k) eqn:Es; try discriminate.
           assert (vals k w <> []) by (destruct (vals k w); [discriminate | discriminate]).
           apply vals_nonempty in H. destruct H as [n [Hin Hk]]. exists n. repeat split; auto.
           rewrite <- stripped_canon_key. rewrite Hk. auto.
      * intros H. apply mget_keys. rewrite Hget. destruct (extra_lookup k extra) eqn:Ex; eauto.
        destruct H as [[n [Hin [Hs Hk]]] | [e [Hin [Hk Hn]]]].
        -- rewrite <- Hk. rewrite stripped_canon_key, Hs. rewrite Hk.
           assert (vals k w <> []) by (apply vals_nonempty; eauto).
           destruct (vals k w); [congruence | eauto].
        -- exfalso. apply Hn. eapply extra_lookup_none; eauto.
    + auto.
Qed.

(** the request is refused (413) exactly when the limit is exceeded *)
Lemma copy_headers_reject : forall h max extra, (0 < max)%Z ->
  (copy_headers h max extra = CopyReject <-> (max < kv_size (append_extras (copy_base h) extra))%Z).
Proof.
  intros h max extra Hm. unfold copy_headers. destruct (Z.leb_spec max 0); try lia.
  destruct (Z.ltb_spec max (kv_size (append_extras (copy_base h) extra))); split; intros; try lia; try discriminate; auto.
Qed.

(** ** push delivery: the body is the payload; every stored pair is set on the request *)
Lemma delivery_body_id : forall p, delivery_body p = p.
Proof. reflexivity. Qed.

(** ** non-vacuity *)
Import String.StringSyntax.
Local Open Scope string_scope.
Example copy_headers_example :
  copy_headers (group [(bs "x-a", bs "1"); (bs "COOKIE", bs "s"); (bs "X-A", bs "2, 3"); (bs "authorization", bs "t")]) 100
               [(bs "cookie", bs "from-auth")]
  = CopyOk [(bs "X-A", bs "1,2, 3"); (bs "Cookie", bs "from-auth")].
Proof. vm_compute. reflexivity. Qed.

Example copy_headers_reject_example :
  copy_headers (group [(bs "x-a", bs "12345")]) 7 [] = CopyReject.
Proof. vm_compute. reflexivity. Qed.
