(** Lemmas about Model/HostMatch.v (matchHosts). *)
From Coq Require Import List NArith Bool Lia Arith.
From HK Require Import Model.RBytes Model.HostMatch Proofs.RBytesProofs.
Import ListNotations.
Open Scope N_scope.

(** when one allowed-host entry [a] accepts the normalised request host [h] *)
Definition host_pattern_matches (a h : bytes) : Prop :=
  a = star \/ a = h \/
  (exists d, a = star_dot ++ d /\ d <> [] /\ exists x, h = x ++ 46 :: d).

Lemma suffix_not_self : forall (x d : bytes) c, d <> x ++ c :: d.
Proof.
  intros x d c H. apply (f_equal (@List.length N)) in H. rewrite app_length in H. simpl in H. lia.
Qed.

Lemma match_hosts_loop_spec : forall h al,
  match_hosts_loop h al = true <-> exists a, In a al /\ host_pattern_matches a h.
Proof.
  intros h al. induction al as [|a t IH]; cbn [match_hosts_loop In].
  - split; [discriminate | intros [a [[] _]]].
  - destruct (beq a star) eqn:E1.
    { apply beq_eq in E1. split; [intros _; exists a; split; [left; reflexivity | left; exact E1] | reflexivity]. }
    destruct (beq h a) eqn:E2.
    { apply beq_eq in E2. split; [intros _; exists a; split; [left; reflexivity | right; left; congruence] | reflexivity]. }
    apply beq_neq in E1. apply beq_neq in E2.
    assert (Hrest : (exists a0, In a0 t /\ host_pattern_matches a0 h) ->
                    exists a0, (a = a0 \/ In a0 t) /\ host_pattern_matches a0 h).
    { intros [a0 [Hi Hm]]. exists a0. split; [right; exact Hi | exact Hm]. }
    destruct (prefixb star_dot a) eqn:E3.
    + apply prefixb_spec in E3. destruct E3 as [d Hd]. subst a. rewrite trim_prefix_app.
      destruct (is_empty d || beq h d) eqn:E4.
      * rewrite IH. split; [exact Hrest|].
        intros [a0 [[Ha|Hi] Hm]]; [|exists a0; split; assumption].
        subst a0. exfalso. destruct Hm as [Hm | [Hm | [d' [Hd' [Hne [x Hx]]]]]].
        -- contradiction.
        -- apply E2. congruence.
        -- apply app_inv_head in Hd'. subst d'.
           apply orb_true_iff in E4. destruct E4 as [E4|E4].
           ++ apply is_empty_nil in E4. contradiction.
           ++ apply beq_eq in E4. subst h. exact (suffix_not_self x d 46 Hx).
      * apply orb_false_iff in E4. destruct E4 as [E4 E5].
        apply is_empty_false in E4.
        destruct (suffixb (46 :: d) h) eqn:E6.
        -- split; [|reflexivity]. intros _. apply suffixb_spec in E6. destruct E6 as [x Hx].
           exists (star_dot ++ d). split; [left; reflexivity|].
           right. right. exists d. split; [reflexivity|]. split; [exact E4|]. exists x. exact Hx.
        -- rewrite IH. split; [exact Hrest|].
           intros [a0 [[Ha|Hi] Hm]]; [|exists a0; split; assumption].
           subst a0. exfalso. destruct Hm as [Hm | [Hm | [d' [Hd' [Hne [x Hx]]]]]].
           ++ contradiction.
           ++ apply E2. congruence.
           ++ apply app_inv_head in Hd'. subst d'.
              assert (suffixb (46 :: d) h = true) by (apply suffixb_spec; exists x; exact Hx).
              congruence.
    + rewrite IH. split; [exact Hrest|].
      intros [a0 [[Ha|Hi] Hm]]; [|exists a0; split; assumption].
      subst a0. exfalso. destruct Hm as [Hm | [Hm | [d' [Hd' _]]]].
      * contradiction.
      * apply E2. congruence.
      * subst a. rewrite prefixb_app in E3. discriminate.
Qed.

Lemma match_hosts_spec : forall h al,
  match_hosts h al = true <->
  al = [] \/ (h <> [] /\ exists a, In a al /\ host_pattern_matches a h).
Proof.
  intros h al. unfold match_hosts. destruct al as [|a t].
  - split; [intros _; left; reflexivity | reflexivity].
  - destruct (is_empty h) eqn:E.
    + apply is_empty_nil in E. split; [discriminate|]. intros [H|[H _]]; [discriminate | contradiction].
    + apply is_empty_false in E. rewrite match_hosts_loop_spec. split.
      * intro H. right. split; assumption.
      * intros [H|[_ H]]; [discriminate | exact H].
Qed.

(** "*.d" admits proper sub-domains only: the host ends with "." ++ d, so it is
    strictly longer than d; d itself and look-alikes (no dot before d) are refused.
    (The literal host "*.d" equals the pattern and matches by the exact-match rule.) *)
Lemma host_wildcard_proper : forall h d,
  match_hosts h [star_dot ++ d] = true <->
  h <> [] /\ (h = star_dot ++ d \/ (d <> [] /\ exists x, h = x ++ 46 :: d)).
Proof.
  intros h d. rewrite match_hosts_spec. split.
  - intros [H | [Hne [a [[Ha|[]] Hm]]]]; [discriminate|]. subst a. split; [exact Hne|].
    destruct Hm as [Hm | [Hm | [d' [Hd' [Hn Hx]]]]].
    + discriminate.
    + left. congruence.
    + apply app_inv_head in Hd'. subst d'. right. split; assumption.
  - intros [Hne H]. right. split; [exact Hne|]. exists (star_dot ++ d). split; [left; reflexivity|].
    destruct H as [H | [Hn Hx]].
    + right. left. congruence.
    + right. right. exists d. split; [reflexivity|]. split; assumption.
Qed.

Lemma host_wildcard_rejects_apex : forall d, match_hosts d [star_dot ++ d] = false.
Proof.
  intro d. destruct (match_hosts d [star_dot ++ d]) eqn:E; [|reflexivity].
  apply host_wildcard_proper in E. destruct E as [_ [H | [_ [x H]]]].
  - exfalso. apply (f_equal (@List.length N)) in H. rewrite app_length in H. simpl in H. lia.
  - exfalso. exact (suffix_not_self x d 46 H).
Qed.

Lemma app_eq_len : forall (x y a b : bytes),
  List.length x = List.length y -> x ++ a = y ++ b -> x = y /\ a = b.
Proof.
  induction x as [|x0 x IH]; destruct y as [|y0 y]; simpl; intros a b Hl H; try discriminate.
  - split; [reflexivity | exact H].
  - inversion H; subst. destruct (IH y a b) as [E1 E2]; [lia | assumption |]. subst. split; reflexivity.
Qed.

(** a look-alike host (the byte before the domain is not a dot) is refused *)
Lemma host_wildcard_rejects_lookalike : forall x c d,
  c <> 46 -> match_hosts (x ++ c :: d) [star_dot ++ d] = false.
Proof.
  intros x c d Hc. destruct (match_hosts (x ++ c :: d) [star_dot ++ d]) eqn:E; [|reflexivity].
  apply host_wildcard_proper in E. destruct E as [_ [H | [_ [y H]]]].
  - exfalso.
    assert (Hl : List.length (x ++ c :: d) = List.length (star_dot ++ d)) by (rewrite H; reflexivity).
    rewrite !app_length in Hl. simpl in Hl.
    destruct x as [|x0 [|x1 x]]; simpl in *.
    + apply (f_equal (@List.length N)) in H. simpl in H. lia.
    + inversion H. subst. apply Hc. reflexivity.
    + lia.
  - exfalso.
    assert (Hl : List.length x = List.length y).
    { apply (f_equal (@List.length N)) in H. rewrite !app_length in H. simpl in H. lia. }
    assert (Hxy : x = y /\ c :: d = 46 :: d).
    { apply app_eq_len; assumption. }
    destruct Hxy as [_ Hcd]. inversion Hcd. contradiction.
Qed.
