(** Sessions of Pull / Worker / Admin requests over one store (Model/Bearer.v handler skeletons).
    The per-request facts of Proofs/BearerProofs.v ("an unauthorized request leaves the store untouched
    and issues no store call") lift to whole sessions: for every sequence of requests - authorized and
    not, on any of the three surfaces, in any order - the final store and the sequence of store calls
    are exactly those of the authorized requests alone.  Unauthorized traffic is invisible to the
    queue, wherever it is interleaved. *)
From Coq Require Import List NArith Bool Lia Arith.
From HK Require Import Model.RBytes Model.PathClean Model.Bearer Model.PullAuthCompile
  Proofs.RBytesProofs Proofs.BearerProofs.
Import ListNotations.
Open Scope N_scope.

Section Sessions.
Variable store : Type.
Variable run_op : pull_opk -> bytes -> store -> N * store.
Variable admin_router : bytes -> bytes -> store -> N * store * bool.

Inductive sreq :=
| SPull (method url_path : bytes) (vals : list bytes)
| SWorker (op : pull_opk) (ep : bytes) (pre_ok : bool) (md : option (list bytes))
| SAdmin (method url_path : bytes) (vals : list bytes).

Definition authorized (c : auth_cfg) (r : sreq) : bool :=
  match r with
  | SPull _ p v => authorize_pull c p v
  | SWorker _ ep _ md => authorize_worker c (trim ep) md
  | SAdmin _ _ v => authorize_admin c v
  end.

(** what one request leaves behind: the store, the pull/worker store calls it issued, and whether it
    reached the Admin router *)
Definition serve (c : auth_cfg) (st : store) (r : sreq) : store * list (pull_opk * bytes) * bool :=
  match r with
  | SPull m p v => let o := pull_serve store run_op c m p v st in (o_store _ o, o_calls _ o, false)
  | SWorker op ep pre md => let o := worker_call store run_op c op ep pre md st in (o_store _ o, o_calls _ o, false)
  | SAdmin m p v => let o := admin_serve store admin_router c m p v st in (ad_store _ o, [], ad_routed _ o)
  end.

Record trace := { t_store : store; t_calls : list (pull_opk * bytes); t_routed : list bool }.

Definition step (c : auth_cfg) (t : trace) (r : sreq) : trace :=
  let '(st', calls, routed) := serve c (t_store t) r in
  {| t_store := st'; t_calls := t_calls t ++ calls;
     t_routed := if routed then t_routed t ++ [true] else t_routed t |}.

Definition session (c : auth_cfg) (reqs : list sreq) (t : trace) : trace := fold_left (step c) reqs t.

Lemma serve_unauthorized c st r : authorized c r = false -> serve c st r = (st, [], false).
Proof.
  intros H. destruct r as [m p v|op ep pre md|m p v]; cbn [authorized serve] in *.
  - destruct (pull_unauthorized_no_effect store run_op c m p v st H) as [Hs [Hc _]].
    cbv zeta. rewrite Hs, Hc. reflexivity.
  - destruct (worker_unauthorized_no_effect store run_op c op ep pre md st H) as [Hs [Hc _]].
    cbv zeta. rewrite Hs, Hc. reflexivity.
  - destruct (admin_unauthorized_no_effect store admin_router c m p v st H) as [_ [Hs Hr]].
    cbv zeta. rewrite Hs, Hr. reflexivity.
Qed.

Lemma step_unauthorized c t r : authorized c r = false -> step c t r = t.
Proof.
  intros H. unfold step. rewrite (serve_unauthorized c (t_store t) r H).
  rewrite app_nil_r. destruct t; reflexivity.
Qed.

Lemma session_ignores_unauthorized c reqs t :
  session c reqs t = session c (filter (authorized c) reqs) t.
Proof.
  unfold session. revert t. induction reqs as [|r tl IH]; intros t; cbn [fold_left filter]; [reflexivity|].
  destruct (authorized c r) eqn:Ha.
  - cbn [fold_left]. apply IH.
  - rewrite (step_unauthorized c t r Ha). apply IH.
Qed.

Lemma session_all_unauthorized c reqs t :
  Forall (fun r => authorized c r = false) reqs -> session c reqs t = t.
Proof.
  intros H. rewrite session_ignores_unauthorized.
  replace (filter (authorized c) reqs) with (@nil sreq); [reflexivity|].
  symmetry. induction H as [|r tl Hr _ IH]; cbn [filter]; [reflexivity|]. rewrite Hr. exact IH.
Qed.

(** inserting unauthorized requests anywhere into a session changes nothing *)
Lemma session_insert_unauthorized c pre r post t :
  authorized c r = false -> session c (pre ++ r :: post) t = session c (pre ++ post) t.
Proof.
  intros H. unfold session. rewrite !fold_left_app. cbn [fold_left].
  rewrite (step_unauthorized c _ r H). reflexivity.
Qed.

End Sessions.
