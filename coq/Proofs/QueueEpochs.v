(** C03, history level: between two dequeues that return the same message id, the lease issued by
    the first one ended - by expiry, by ack/nack/dead-letter presenting that very lease while it was
    unexpired, or by an operator cancel.  Stated over arbitrary histories of the model. *)
From Coq Require Import List ZArith NArith Bool Lia.
From HK Require Import Gen.Consts Model.Queue Model.QueueHash Model.QueueMon
  Proofs.QueueBase Proofs.QueueInv Proofs.QueueInvStep Proofs.QueueStep Proofs.QueueTrace Proofs.QueueLease Proofs.QueueFence.
Import ListNotations.
Open Scope Z_scope.

(** message [i] holds lease [l] in the list *)
Definition holds (i l : N) (ms : list msg) : bool :=
  match find_id i ms with
  | Some m => is_leased m && match m_lease m with Some x => N.eqb x l | None => false end
  | None => false
  end.

Lemma holds_spec i l ms : holds i l ms = true -> exists m, find_id i ms = Some m /\ is_leased m = true /\ m_lease m = Some l.
Proof.
  unfold holds. destruct (find_id i ms) as [m|]; [|discriminate]. rewrite andb_true_iff. intros [A B].
  exists m. split; [reflexivity|]. split; [exact A|]. destruct (m_lease m) as [x|]; [|discriminate].
  apply N.eqb_eq in B. subst. reflexivity.
Qed.

(** how the lease [l] of message [i] can stop being held across one sound event *)
Definition ended_legally (c : cfg) (e : event) (i l : N) : Prop :=
  exists m, find_id i (ev_before e) = Some m /\ m_lease m = Some l /\ is_leased m = true /\
    ((expired (op_now (ev_op e)) m = true /\ releases (ev_op e) = true)
     \/ (In l (presented (ev_op e)) /\ op_now (ev_op e) < m_until m
         /\ exists k, lease_op_kind (ev_op e) = Some k /\ is_extend k = false)
     \/ manage_kind_of (ev_op e) = Some MCancel).

Lemma event_ends_lease c e i l :
  event_sound c e -> holds i l (ev_before e) = true -> holds i l (ev_after e) = false -> ended_legally c e i l.
Proof.
  intros [[NDb _] [[NDa [COa _]] Sp]] Hb Ha.
  destruct (holds_spec i l _ Hb) as [m [F [Il L]]]. exists m. split; [exact F|]. split; [exact L|]. split; [exact Il|].
  apply find_id_Some in F. destruct F as [Hm Ei]. subst i.
  destruct (spec_fate c _ _ _ _ _ m NDb Sp Hm) as [[m' [Hm' Ch]] | Rm].
  - (* the message survives as m': it no longer holds l *)
    destruct (change_same_imm _ _ _ _ _ Ch) as [Eid _].
    assert (F2 : find_id (m_id m) (ev_after e) = Some m') by (rewrite Eid; apply find_id_In_NoDup; assumption).
    unfold holds in Ha. rewrite F2 in Ha.
    assert (Hne : m_lease m' <> Some l).
    { intros Hl. rewrite Hl, N.eqb_refl, andb_true_r in Ha.
      pose proof (COa m' Hm') as Co. unfold coherent in Co. rewrite Hl in Co. unfold is_leased in Ha.
      destruct (m_st m'); simpl in Ha, Co; discriminate. }
    apply (lease_ends_legally c (ev_op e) (ev_res e) m m' l Ch L Il Hne).
  - (* removed while leased: only by its own ack *)
    destruct (removal_of_live_lease c _ _ m Rm Il) as [Hk [lid [L2 [Hp Hu]]]].
    right. left. assert (lid = l) by congruence. subst lid. split; [exact Hp|]. split; [exact Hu|].
    exists KAck. split; [exact Hk | reflexivity].
Qed.

(** a boolean that is true at position i and false at position j > i flips somewhere in between *)
Lemma first_flip (P : nat -> bool) i j : (i < j)%nat -> P i = true -> P j = false ->
  exists k, (i <= k < j)%nat /\ P k = true /\ P (S k) = false.
Proof.
  intros Hij. induction j as [|j IH]; [lia|]. intros Pi Pj.
  destruct (Nat.eq_dec i j) as [E | N].
  - subst. exists j. split; [lia|]. split; assumption.
  - destruct (P j) eqn:Ej.
    + exists j. split; [lia|]. split; assumption.
    + destruct IH as [k [Hk [A B]]]; [lia | exact Pi | reflexivity|]. exists k. split; [lia|]. split; assumption.
Qed.

(** the states along a trace: state 0 = before the first event, state (S k) = after event k *)
Definition state_at (evs : list event) (k : nat) : list msg :=
  match k with
  | O => match evs with e :: _ => ev_before e | [] => [] end
  | S k' => match nth_error evs k' with Some e => ev_after e | None => [] end
  end.

Theorem lease_epochs fl c xs i j ei ej m l :
  let evs := model_trace fl c xs in
  (i < j)%nat -> nth_error evs i = Some ei -> nth_error evs j = Some ej ->
  is_dequeue (ev_op ei) = true -> In (m, l) (item_pairs (ev_res ei)) ->
  is_dequeue (ev_op ej) = true -> In m (item_ids (ev_res ej)) ->
  (* the first dequeue left m leased under l; the second found it not held under l any more, or expired *)
  holds m l (ev_after ei) = true ->
  holds m l (ev_after ej) = false ->
  exists k ek, (i < k <= j)%nat /\ nth_error evs k = Some ek /\ ended_legally c ek m l.
Proof.
  intros evs Hij Hi Hj _ _ _ _ Hh Hn.
  pose proof (trace_sound fl c xs) as TS. fold evs in TS.
  set (P := fun k => holds m l (state_at evs (S k))).
  assert (Pi : P i = true) by (unfold P, state_at; rewrite Hi; exact Hh).
  assert (Pj : P j = false) by (unfold P, state_at; rewrite Hj; exact Hn).
  destruct (first_flip P i j Hij Pi Pj) as [k [Hk [A B]]].
  unfold P, state_at in A, B.
  destruct (nth_error evs k) as [e1|] eqn:E1; [|discriminate].
  destruct (nth_error evs (S k)) as [e2|] eqn:E2.
  2:{ exfalso. apply nth_error_None in E2. assert (j < length evs)%nat by (apply nth_error_Some; congruence). lia. }
  exists (S k), e2. split; [lia|]. split; [exact E2|].
  apply event_ends_lease.
  - rewrite Forall_forall in TS. apply TS. apply (nth_error_In _ _ E2).
  - (* chained: what event k left is what event S k found *)
    pose proof (proj2 (run_chained fl c init xs) k e1 e2) as Ch. unfold model_trace in evs. fold evs in Ch.
    rewrite <- (Ch E1 E2). exact A.
  - exact B.
Qed.

(** ** the same, stated on dequeue results only *)
Fixpoint state_before (fl : flavour) (c : cfg) (s : state) (xs : list (op * oracle)) (k : nat) : state :=
  match k, xs with
  | S k', (x, o) :: tl => state_before fl c (fst (step fl c s x o)) tl k'
  | _, _ => s
  end.

Lemma run_event_step fl c s xs k e :
  Inv s -> nth_error (fst (run fl c s xs)) k = Some e ->
  exists x o, nth_error xs k = Some (x, o) /\ ev_op e = x /\ ev_orc e = o
    /\ Inv (state_before fl c s xs k)
    /\ step fl c (state_before fl c s xs k) x o = (state_before fl c s xs (S k), ev_res e)
    /\ ev_before e = msgs (state_before fl c s xs k) /\ ev_after e = msgs (state_before fl c s xs (S k)).
Proof.
  revert s k. induction xs as [|[x o] tl IH]; intros s k I H; [destruct k; discriminate|].
  simpl in H. destruct (step fl c s x o) as [s' r] eqn:Es. destruct (run fl c s' tl) as [evs sf] eqn:Er. simpl in H.
  destruct k as [|k].
  - inversion H; subst e. exists x, o. simpl.
    assert (E0 : forall s0, state_before fl c s0 tl 0 = s0) by (intros; destruct tl as [|[? ?] ?]; reflexivity).
    rewrite !E0, Es. simpl. split; [reflexivity|]. split; [reflexivity|]. split; [reflexivity|]. split; [exact I|]. split; [reflexivity|]. split; reflexivity.
  - simpl in H. assert (I' : Inv s') by (pose proof (step_inv fl c s x o I) as X; rewrite Es in X; exact X).
    specialize (IH s' k I'). rewrite Er in IH. simpl in IH. destruct (IH H) as [x1 [o1 [A [B [Cc [D [E [F G]]]]]]]].
    exists x1, o1. simpl. rewrite Es. simpl. split; [exact A|]. split; [exact B|]. split; [exact Cc|]. split; [exact D|]. split; [exact E|]. split; assumption.
Qed.

Lemma state_before_issued_mono fl c s xs i j l :
  (i <= j)%nat -> In l (issued (state_before fl c s xs i)) -> In l (issued (state_before fl c s xs j)).
Proof.
  revert s i j. induction xs as [|[x o] tl IH]; intros s i j Hij H.
  - destruct i; destruct j; simpl in *; exact H.
  - destruct i as [|i]; destruct j as [|j]; simpl in *; try lia; try exact H.
    + (* i = 0 < j *)
      apply (IH _ O j); [lia|]. destruct tl as [|[x2 o2] tl2]; simpl; apply step_issued_mono; exact H.
    + apply (IH _ i j); [lia | exact H].
Qed.

Theorem lease_epochs_dequeues fl c xs i j ei ej m l l2 :
  let evs := model_trace fl c xs in
  (i < j)%nat -> nth_error evs i = Some ei -> nth_error evs j = Some ej ->
  is_dequeue (ev_op ei) = true -> In (m, l) (item_pairs (ev_res ei)) ->
  is_dequeue (ev_op ej) = true -> In (m, l2) (item_pairs (ev_res ej)) ->
  l <> l2 /\ exists k ek, (i < k <= j)%nat /\ nth_error evs k = Some ek /\ ended_legally c ek m l.
Proof.
  intros evs Hij Hi Hj Di Pi Dj Pj.
  destruct (run_event_step fl c init xs i ei inv_init Hi) as [xi [oi [_ [Exi [Eoi [Ii [Si [Bi Ai]]]]]]]].
  destruct (run_event_step fl c init xs j ej inv_init Hj) as [xj [oj [_ [Exj [Eoj [Ij [Sj [Bj Aj]]]]]]]].
  (* unpack the two dequeues *)
  assert (Hdeq : forall e x o s1 s2 mm ll, ev_op e = x -> is_dequeue (ev_op e) = true -> Inv s1 ->
            step fl c s1 x o = (s2, ev_res e) -> In (mm, ll) (item_pairs (ev_res e)) ->
            holds mm ll (msgs s2) = true /\ ~ In ll (issued s1) /\ In ll (issued s2)).
  { intros e x o s1 s2 mm ll Ex De I1 St Pn. rewrite Ex in De. destruct x; simpl in De; try discriminate. cbn [step] in St.
    destruct (ev_res e) as [| | |items| | | | |] eqn:Er; simpl in Pn; try contradiction.
    apply in_map_iff in Pn. destruct Pn as [[[[i0 l0] a0] u0] [Ep Hit]]. simpl in Ep. inversion Ep; subst i0 l0.
    destruct (dequeue_sound fl c now route target batch ttl o s1 s2 items I1 St) as [_ [_ [_ Hall]]].
    destruct (Hall _ _ _ _ Hit) as [m0 [_ [_ [F [_ [_ [_ [Nin Iin]]]]]]]].
    split; [|split; assumption]. unfold holds. rewrite F. simpl. rewrite N.eqb_refl. reflexivity. }
  destruct (Hdeq ei xi oi _ _ m l Exi Di Ii Si Pi) as [Hh [_ Iss]].
  destruct (Hdeq ej xj oj _ _ m l2 Exj Dj Ij Sj Pj) as [Hh2 [Nin2 _]].
  assert (Hne : l <> l2).
  { intros E. subst l2. apply Nin2. apply (state_before_issued_mono fl c init xs (S i) j l); [lia | exact Iss]. }
  split; [exact Hne|].
  apply (lease_epochs fl c xs i j ei ej m l Hij Hi Hj Di Pi Dj).
  - unfold item_ids. unfold item_pairs in Pj. apply in_map_iff in Pj. destruct Pj as [it [Ep Hit]].
    apply in_map_iff. exists it. split; [inversion Ep; reflexivity | exact Hit].
  - rewrite Ai. exact Hh.
  - rewrite Aj. unfold holds in *. destruct (find_id m (msgs (state_before fl c init xs (S j)))) as [mj|]; [|reflexivity].
    rewrite andb_true_iff in Hh2. destruct Hh2 as [_ Hl]. destruct (m_lease mj) as [x|]; [|rewrite andb_false_r; reflexivity].
    apply N.eqb_eq in Hl. subst x. apply andb_false_iff. right. apply N.eqb_neq. intros E. apply Hne. symmetry. exact E.
Qed.
