(** Non-vacuity examples for the C11 theorems. *)
From Coq Require Import List NArith Bool.
From Coq Require Strings.String.
Import Coq.Strings.String.StringSyntax.
Delimit Scope string_scope with string.
From HK Require Import Model.RBytes Model.PathClean Model.Bearer Model.PullAuthCompile.
Import ListNotations.
Open Scope N_scope.
Open Scope string_scope.

Definition b (s : String.string) : bytes := s2b s.

Definition ex_cfg : auth_cfg :=
  {| a_global := [b "global-tok"];
     a_admin := [b "admin-tok"];
     a_routes := [ {| pr_route := b "/r1"; pr_endpoint := b "/pull/r1"; pr_tokens := [b "r1-tok"; b "r1-alt"] |};
                   {| pr_route := b "/r2"; pr_endpoint := b "/pull/r2"; pr_tokens := [] |} ] |}.

Definition run (op : pull_opk) (route : bytes) (st : N) : N * N := (200, st + 1).
Definition pull (path auth : String.string) := pull_serve N run ex_cfg (b "POST") (b path) [b auth] 10.
Definition st_of (o : outcome N) := (o_status N o, o_store N o, List.length (o_calls N o)).

Example ex_route_token_ok : st_of (pull "/pull/r1/dequeue" "Bearer r1-tok") = (200, 11, 1%nat).
Proof. vm_compute. reflexivity. Qed.
Example ex_route_token_padded_ok : st_of (pull "/pull/r1/./ack" "Bearer   r1-alt  ") = (200, 11, 1%nat).
Proof. vm_compute. reflexivity. Qed.
(** the override REPLACES the global list *)
Example ex_global_on_override_route : st_of (pull "/pull/r1/dequeue" "Bearer global-tok") = (401, 10, 0%nat).
Proof. vm_compute. reflexivity. Qed.
Example ex_global_on_plain_route : st_of (pull "/pull/r2/nack" "Bearer global-tok") = (200, 11, 1%nat).
Proof. vm_compute. reflexivity. Qed.
Example ex_other_routes_token : st_of (pull "/pull/r2/dequeue" "Bearer r1-tok") = (401, 10, 0%nat).
Proof. vm_compute. reflexivity. Qed.
(** near misses *)
Example ex_prefix : st_of (pull "/pull/r1/dequeue" "Bearer r1-to") = (401, 10, 0%nat).
Proof. vm_compute. reflexivity. Qed.
Example ex_suffix : st_of (pull "/pull/r1/dequeue" "Bearer 1-tok") = (401, 10, 0%nat).
Proof. vm_compute. reflexivity. Qed.
Example ex_longer : st_of (pull "/pull/r1/dequeue" "Bearer r1-tokx") = (401, 10, 0%nat).
Proof. vm_compute. reflexivity. Qed.
Example ex_case : st_of (pull "/pull/r1/dequeue" "Bearer R1-TOK") = (401, 10, 0%nat).
Proof. vm_compute. reflexivity. Qed.
Example ex_lower_scheme : st_of (pull "/pull/r1/dequeue" "bearer r1-tok") = (401, 10, 0%nat).
Proof. vm_compute. reflexivity. Qed.
Example ex_basic : st_of (pull "/pull/r1/dequeue" "Basic cjEtdG9r") = (401, 10, 0%nat).
Proof. vm_compute. reflexivity. Qed.
Example ex_empty_token : st_of (pull "/pull/r1/dequeue" "Bearer ") = (401, 10, 0%nat).
Proof. vm_compute. reflexivity. Qed.
Example ex_absent : st_of (pull_serve N run ex_cfg (b "POST") (b "/pull/r1/dequeue") [] 10) = (401, 10, 0%nat).
Proof. vm_compute. reflexivity. Qed.
Example ex_second_value_ignored :
  st_of (pull_serve N run ex_cfg (b "POST") (b "/pull/r1/dequeue") [b "Bearer nope"; b "Bearer r1-tok"] 10) = (401, 10, 0%nat).
Proof. vm_compute. reflexivity. Qed.
Example ex_unknown_endpoint_uses_global : st_of (pull "/pull/zzz/dequeue" "Bearer r1-tok") = (401, 10, 0%nat).
Proof. vm_compute. reflexivity. Qed.

(** gRPC: scheme case-insensitive, every value considered *)
Definition wk (ep : String.string) (md : option (list String.string)) :=
  st_of (worker_call N run ex_cfg OpDequeue (b ep) true (option_map (map b) md) 10).
Example ex_grpc_ok : wk " /pull/r1 " (Some ["bearer r1-tok"]) = (200, 11, 1%nat).
Proof. vm_compute. reflexivity. Qed.
Example ex_grpc_second_value : wk "/pull/r1" (Some ["Basic x"; "BEARER r1-alt"]) = (200, 11, 1%nat).
Proof. vm_compute. reflexivity. Qed.
Example ex_grpc_global_on_override : wk "/pull/r1" (Some ["Bearer global-tok"]) = (16, 10, 0%nat).
Proof. vm_compute. reflexivity. Qed.
Example ex_grpc_no_md : wk "/pull/r2" None = (16, 10, 0%nat).
Proof. vm_compute. reflexivity. Qed.
Example ex_grpc_case_variant : wk "/pull/r2" (Some ["Bearer Global-tok"]) = (16, 10, 0%nat).
Proof. vm_compute. reflexivity. Qed.

(** Admin: every path behind the same check *)
Definition adm (path auth : String.string) :=
  let o := admin_serve N (fun _ _ s => (200, s + 1, true)) ex_cfg (b "GET") (b path) [b auth] 10 in
  (ad_status N o, ad_store N o, ad_routed N o).
Example ex_admin_healthz_401 : adm "/healthz" "Bearer admin-to" = (401, 10, false).
Proof. vm_compute. reflexivity. Qed.
Example ex_admin_ok : adm "/dlq" "Bearer admin-tok" = (200, 11, true).
Proof. vm_compute. reflexivity. Qed.
Example ex_admin_pull_token : adm "/messages" "Bearer global-tok" = (401, 10, false).
Proof. vm_compute. reflexivity. Qed.

(** the compile rule *)
Definition ci (has_api : bool) (glob : list String.string) (routes : list (list String.string)) : compile_in :=
  {| c_has_pull_api := has_api; c_global := map b glob;
     c_pull_routes := map (fun ts => {| pr_route := b "/r"; pr_endpoint := b "/p"; pr_tokens := map b ts |}) routes;
     c_bad_token := false |}.
Example ex_compile : map compile_ok
   [ ci true ["raw:g"] [[]; ["raw:a"]];     (* global tokens: fine *)
     ci true [] [["raw:a"]; ["raw:b"]];      (* every route has its own: fine *)
     ci true [] [["raw:a"]; []];             (* one route would be open: rejected *)
     ci true [] [];                          (* pull_api block without any token: rejected *)
     ci false [] [];                         (* no pull at all: fine *)
     ci false ["raw:g"] [[]] ]               (* pull route without pull_api block: rejected *)
   = [true; true; false; false; true; false].
Proof. vm_compute. reflexivity. Qed.
