(** One attempt record per sent item of a micro-batch, carrying the outcome of the very settlement the item gets. *)
From Coq Require Import ZArith QArith List Bool NArith Lia.
From HK Require Import Model.Queue Model.Retry Model.Dispatcher Model.PushLoop.
Import ListNotations.
Open Scope Z_scope.

Lemma attempt_records_one rc a r u : exists x, attempt_records rc a r u = [x]
  /\ ar_attempt x = a /\ ar_result x = r /\ ar_outcome x = outcome_of (classify r a (rc_max rc))
  /\ ar_reason x = reason_of (classify r a (rc_max rc)).
Proof. unfold attempt_records. eexists. split; [reflexivity|]. cbn. repeat split. Qed.

(** the records are those of the sent items, one each, in order *)
Theorem run_records_one_per_sent_item : forall its stop,
  map fst (run_records stop its) = map it_lease (sent_items stop its).
Proof.
  induction its as [|it tl IH]; intros stop; [reflexivity|].
  destruct stop as [|stop']; [reflexivity|]. cbn [run_records sent_items].
  destruct (it_target it) as [rc|]; [|apply IH].
  destruct (attempt_records_one rc (it_attempt it) (it_result it) (it_draw it)) as [x [E _]].
  rewrite E. cbn [map app fst]. f_equal. apply IH.
Qed.

(** every record belongs to a leased item, has that item's attempt number and answer, and its outcome (and dead reason) is the one of
    the settlement [expected] prescribes for that very lease *)
Theorem run_records_match_the_settlement : forall its stop l r,
  In (l, r) (run_records stop its) ->
  exists it rc, In it its /\ it_lease it = l /\ it_target it = Some rc
    /\ ar_attempt r = it_attempt it /\ ar_result r = it_result it
    /\ In (settle_kind rc it, l) (expected stop its)
    /\ kind_outcome (settle_kind rc it) = Some (ar_outcome r)
    /\ match ar_reason r with
       | Some why => settle_kind rc it = KDead (reason_code why)
       | None => forall x, settle_kind rc it <> KDead x
       end.
Proof.
  induction its as [|it tl IH]; intros stop l r H; [contradiction|].
  destruct stop as [|stop']; [contradiction|]. cbn [run_records] in H.
  destruct (it_target it) as [rc|] eqn:T.
  - apply in_app_or in H as [H|H].
    + destruct (attempt_records_one rc (it_attempt it) (it_result it) (it_draw it)) as [x [E [Ha [Hr [Ho Hw]]]]].
      rewrite E in H. cbn [map] in H. destruct H as [H|[]]. inversion H; subst l r. clear H.
      exists it, rc. split; [left; reflexivity|]. split; [reflexivity|]. split; [exact T|].
      split; [exact Ha|]. split; [exact Hr|]. split.
      * cbn [expected]. rewrite T. left. reflexivity.
      * rewrite Ho, Hw. unfold settle_kind. destruct (classify (it_result it) (it_attempt it) (rc_max rc)) as [| |why]; cbn.
        -- split; [reflexivity|]. intros y Hy; discriminate.
        -- split; [reflexivity|]. intros y Hy; discriminate.
        -- split; reflexivity.
    + destruct (IH stop' l r H) as [it' [rc' [Hin [Hl [Ht [Ha [Hr [He Hrest]]]]]]]].
      exists it', rc'. split; [right; exact Hin|]. repeat (split; [assumption|]).
      split; [|exact Hrest]. cbn [expected]. right. exact He.
  - destruct (IH stop' l r H) as [it' [rc' [Hin [Hl [Ht [Ha [Hr [He Hrest]]]]]]]].
    exists it', rc'. split; [right; exact Hin|]. repeat (split; [assumption|]).
    split; [|exact Hrest]. cbn [expected]. right. exact He.
Qed.

(** an item that is not sent has no record *)
Theorem unsent_items_have_no_record : forall its stop l,
  ~ In l (map it_lease (sent_items stop its)) -> forall r, ~ In (l, r) (run_records stop its).
Proof.
  intros its stop l H r Hin. apply H. rewrite <- run_records_one_per_sent_item.
  apply in_map_iff. exists (l, r). split; [reflexivity|exact Hin].
Qed.

Lemma sent_items_sub : forall its stop it, In it (sent_items stop its) -> In it its.
Proof.
  induction its as [|x tl IH]; intros stop it H; [contradiction|].
  destruct stop as [|s]; [contradiction|]. cbn [sent_items] in H.
  destruct (it_target x); [destruct H as [H|H]; [left; exact H|right; eapply IH; exact H]|right; eapply IH; exact H].
Qed.

Lemma sent_items_leases_nodup : forall its stop, NoDup (map it_lease its) -> NoDup (map it_lease (sent_items stop its)).
Proof.
  induction its as [|x tl IH]; intros stop ND; [constructor|].
  destruct stop as [|s]; [constructor|]. cbn [sent_items]. cbn [map] in ND. inversion ND as [|a l Hn ND']; subst.
  destruct (it_target x); [|apply IH; exact ND'].
  cbn [map]. constructor; [|apply IH; exact ND'].
  intros Hin. apply Hn. apply in_map_iff in Hin as [y [E Hy]]. apply in_map_iff. exists y. split; [exact E|].
  eapply sent_items_sub. exact Hy.
Qed.

(** with distinct leases (one Dequeue never hands out a lease twice) no lease has two records *)
Theorem run_records_at_most_one_per_lease : forall its stop,
  NoDup (map it_lease its) -> NoDup (map fst (run_records stop its)).
Proof. intros its stop ND. rewrite run_records_one_per_sent_item. apply sent_items_leases_nodup. exact ND. Qed.
