(** C14, MCP tools in Admin-proxy mode (Model/ManageProxy.v): what the tool sends, what it reports, what a
    refusal does, and how often the store can be touched by one call whatever the transport does. *)
From Coq Require Import List ZArith NArith Bool Lia.
From HK Require Import Gen.Consts Gen.AdminProxy Model.Queue Model.QueueHash Model.QueueMon Model.Headers Model.Publish Model.ManageGlue
  Model.ManageProxy Proofs.QueueBase Proofs.QueueInv Proofs.QueueInvStep Proofs.QueueStep Proofs.QueueManage
  Proofs.HeadersProofs Proofs.ManageGlueProofs.
Import ListNotations.
Open Scope Z_scope.

(** * the attempt loop *)

(** the retry policy as the code has it *)
Theorem retry_policy_spec :
  max_attempts MPost = 1%nat /\ max_attempts MGet = 3%nat
  /\ (forall st, should_retry true st = false)                                   (* never after the last attempt *)
  /\ should_retry false None = true                                              (* a transport error: yes *)
  /\ (forall st, should_retry false (Some st) = true
                 <-> st = 408 \/ st = 429 \/ st = 500 \/ st = 502 \/ st = 503 \/ st = 504).
Proof.
  repeat split; try reflexivity.
  - unfold should_retry, retry_status, proxy_retry_statuses. simpl. rewrite !orb_false_r, !orb_true_iff, !Z.eqb_eq. tauto.
  - unfold should_retry, retry_status, proxy_retry_statuses. simpl. rewrite !orb_false_r, !orb_true_iff, !Z.eqb_eq. tauto.
Qed.

Lemma call_admin_bounds left : forall fs h s s' c sent seen,
  call_admin left fs h s = (s', c, (sent, seen)) -> (sent <= left)%nat /\ (seen <= sent)%nat.
Proof.
  induction left as [|left' IH]; intros fs h s s' c sent seen H; simpl in H.
  - inversion H. lia.
  - destruct (call_admin left' (tl fs) h s) as [[s2 c2] [sent2 seen2]] eqn:E0.
    pose proof (IH _ _ _ _ _ _ _ E0) as B0.
    destruct (hd FtPass fs).
    + destruct (h s) as [s1 r]. destruct (call_admin left' (tl fs) h s1) as [[s3 c3] [sent3 seen3]] eqn:E1.
      pose proof (IH _ _ _ _ _ _ _ E1) as B1.
      destruct (ok_status (status_of r)); [inversion H; lia|].
      destruct (should_retry _ _); inversion H; lia.
    + destruct (should_retry _ _); inversion H; lia.
    + destruct (h s) as [s1 r]. destruct (call_admin left' (tl fs) h s1) as [[s3 c3] [sent3 seen3]] eqn:E1.
      pose proof (IH _ _ _ _ _ _ _ E1) as B1.
      destruct (should_retry _ _); inversion H; lia.
    + destruct (h s) as [s1 r]. destruct (call_admin left' (tl fs) h s1) as [[s3 c3] [sent3 seen3]] eqn:E1.
      pose proof (IH _ _ _ _ _ _ _ E1) as B1.
      destruct (ok_status (status_of r)); [inversion H; lia|].
      destruct (should_retry _ _); inversion H; lia.
    + destruct (should_retry _ _); inversion H; lia.
Qed.

(** a handler that only reads leaves the store alone however often it is retried *)
Lemma call_admin_read_only left : forall fs h s,
  (forall s0, fst (h s0) = s0) -> fst (fst (call_admin left fs h s)) = s.
Proof.
  induction left as [|left' IH]; intros fs h s RO; simpl; [reflexivity|].
  pose proof (RO s) as R. destruct (h s) as [s1 r]. simpl in R. subst s1.
  pose proof (IH (tl fs) h s RO) as I. destruct (call_admin left' (tl fs) h s) as [[s2 c2] [sent2 seen2]]. simpl in I. subst s2.
  destruct (hd FtPass fs); repeat match goal with |- context [if ?b then _ else _] => destruct b end; reflexivity.
Qed.

(** one attempt: the five things that can happen *)
Lemma call_admin_one fs h s :
  call_admin 1 fs h s =
  match hd FtPass fs with
  | FtPass => (fst (h s), CResp (snd (h s)), (1%nat, 1%nat))
  | FtNoReach => (s, CErr, (1%nat, 0%nat))
  | FtLost => (fst (h s), CErr, (1%nat, 1%nat))
  | FtGarbled => (fst (h s), if ok_status (status_of (snd (h s))) then CErr else CResp (snd (h s)), (1%nat, 1%nat))
  | FtStatus st => (s, CResp (HErr st (GPub CStoreUnavailable)), (1%nat, 0%nat))
  end.
Proof.
  simpl. destruct (hd FtPass fs); destruct (h s) as [s1 r]; simpl; try reflexivity;
    destruct (ok_status (status_of r)); reflexivity.
Qed.

(** a write (one attempt): the handler runs at most once; the store afterwards is the old one or the handler's *)
Lemma call_admin_write fs h s s' c sent seen :
  call_admin (max_attempts MPost) fs h s = (s', c, (sent, seen)) ->
  sent = 1%nat /\ (seen <= 1)%nat
  /\ (seen = 0%nat -> s' = s /\ (c = CErr \/ exists st, c = CResp (HErr st (GPub CStoreUnavailable))))
  /\ (seen = 1%nat -> s' = fst (h s) /\ (c = CErr \/ c = CResp (snd (h s)))).
Proof.
  change (max_attempts MPost) with 1%nat. rewrite call_admin_one.
  destruct (hd FtPass fs); intros H; inversion H; subst; clear H; repeat split; try lia; intros; try discriminate; eauto.
  destruct (ok_status _); auto.
Qed.

(** * the tool *)
Lemma tool_result_ok c r : tool_result c = r -> status_of r = 200 -> c = CResp r /\ (forall st g, r <> HErr st g).
Proof.
  destruct c as [|r0]; simpl; intros E S; subst r; [discriminate|].
  destruct r0; simpl in *; try discriminate; split; try reflexivity; intros; discriminate.
Qed.

Lemma tool_result_error c : status_of (tool_result c) <> 200 -> tool_result c = HErr 0 GToolError.
Proof. destruct c as [|r0]; simpl; [reflexivity|]. destruct r0; simpl; intros H; try reflexivity; contradiction. Qed.

Lemma proxy_request_reject e now t fs s :
  proxy_decide e t = PReject -> proxy_request e now t fs s = (s, HErr 0 GToolError, (O, O)).
Proof. intros H. unfold proxy_request. rewrite H. reflexivity. Qed.

Lemma proxy_request_send e now t fs s q :
  proxy_decide e t = PSend q ->
  proxy_request e now t fs s =
  (let '(s', c, n) := call_admin (max_attempts MPost) fs (sent_handler (xe_cfg e) now q) s in (s', tool_result c, n)).
Proof. intros H. unfold proxy_request. rewrite H. reflexivity. Qed.

(** (d) at most one state-changing Admin request per tool call, whatever the transport does *)
Theorem at_most_once e now t fs s s' r sent seen :
  proxy_request e now t fs s = (s', r, (sent, seen)) ->
  (sent <= 1)%nat /\ (seen <= sent)%nat
  /\ (seen = 0%nat -> s' = s)
  /\ (seen = 1%nat -> exists q, proxy_decide e t = PSend q /\ s' = fst (sent_handler (xe_cfg e) now q s)).
Proof.
  intros H. destruct (proxy_decide e t) as [|q] eqn:D.
  - rewrite (proxy_request_reject _ _ _ _ _ D) in H. inversion H; subst. repeat split; try lia; intros; discriminate.
  - rewrite (proxy_request_send _ _ _ _ _ _ D) in H.
    destruct (call_admin (max_attempts MPost) fs (sent_handler (xe_cfg e) now q) s) as [[s1 c] [a b]] eqn:E.
    inversion H; subst; clear H.
    destruct (call_admin_write _ _ _ _ _ _ _ E) as [Hs [Hb [H0 H1]]].
    repeat split; try lia.
    + intros Z0. apply H0. exact Z0.
    + intros Z1. exists q. split; [reflexivity|]. apply H1. exact Z1.
Qed.

(** the store after a tool call is the store before, or the store after the one request - for every fault script *)
Corollary at_most_once_state e now t fs s s' r n :
  proxy_request e now t fs s = (s', r, n) ->
  s' = s \/ exists q, proxy_decide e t = PSend q /\ s' = fst (sent_handler (xe_cfg e) now q s).
Proof.
  destruct n as [sent seen]. intros H. destruct (at_most_once _ _ _ _ _ _ _ _ _ H) as [A [B [C D]]].
  destruct seen as [|[|k]]; [left; apply C; reflexivity | right; apply D; reflexivity | lia].
Qed.

(** the reads: up to three attempts, and a handler that only reads leaves the store alone *)
Theorem reads_retry_but_do_not_write e fs s s' r sent seen :
  proxy_read e fs s = (s', r, (sent, seen)) -> s' = s /\ (sent <= 3)%nat /\ (seen <= sent)%nat.
Proof.
  unfold proxy_read. destruct (xe_gate e); cbn [negb]; [|intros H; inversion H; subst; repeat split; lia].
  destruct (xe_allowed e); cbn [negb]; [|intros H; inversion H; subst; repeat split; lia].
  intros H.
  destruct (call_admin (max_attempts MGet) fs (read_handler (xe_auth e)) s) as [[s1 c] [a b]] eqn:E. inversion H; subst; clear H.
  split.
  - pose proof (call_admin_read_only (max_attempts MGet) fs (read_handler (xe_auth e)) s (fun _ => eq_refl)) as R.
    rewrite E in R. exact R.
  - apply (call_admin_bounds _ _ _ _ _ _ _ _ E).
Qed.

(** * (a) the request carries the selection the tool was given *)
Lemma dedup_first_length l : forall seen, (length (dedup_first l seen) <= length l)%nat.
Proof.
  induction l as [|i tl IH]; intros seen; simpl; [lia|].
  destruct (memN i seen); [specialize (IH seen); lia | simpl; specialize (IH (i :: seen)); lia].
Qed.

Lemma trims_length raw : (length (trims raw) <= length raw)%nat.
Proof.
  unfold trims. induction raw as [|r tl IH]; simpl; [lia|].
  rewrite app_length. destruct (trimmed_id r); simpl; lia.
Qed.

Lemma no_blank_store_ids idl : no_blank (store_ids idl).
Proof. unfold no_blank, store_ids. intros r Hr. apply in_map_iff in Hr. destruct Hr as [i [E _]]. subst r. discriminate. Qed.

(** what the Admin server's parseManageIDs makes of the list the tool sends: the same list *)
Lemma admin_reparses_ids raw idl : mcp_parse_ids raw = Some idl -> parse_manage_ids (store_ids idl) = Some idl.
Proof.
  intros P. destruct (ids_accepted_spec raw) as [A _]. destruct (A idl P) as [L [NB [E [NE [ND _]]]]].
  unfold parse_manage_ids, parse_ids_with, admin_max_list_limit.
  assert (Len : (length idl <= length raw)%nat).
  { rewrite E. pose proof (dedup_first_length (trims raw) []). pose proof (trims_length raw). lia. }
  assert (L1 : (1 <= length idl)%nat) by (destruct idl; [contradiction | simpl; lia]).
  assert (Ls : length (store_ids idl) = length idl) by (unfold store_ids; apply map_length).
  rewrite !Ls.
  assert (G : (Z.of_nat (length idl) =? 0) || (1000 <? Z.of_nat (length idl)) = false).
  { apply orb_false_iff. split; [apply Z.eqb_neq; lia | apply Z.ltb_ge; lia]. }
  rewrite G, (dedup_trim_some _ [] (no_blank_store_ids idl)), trims_store_ids.
  rewrite (dedup_first_id idl [] ND (fun i _ F => F)).
  destruct idl; [contradiction | reflexivity].
Qed.

Lemma tool_states_same k : mcp_filter_tool_states k = filter_endpoint_states k.
Proof. destruct k; reflexivity. Qed.

Lemma admin_limit_in_range l : 1 <= l <= 1000 -> admin_limit l = Some l.
Proof.
  intros R. unfold admin_limit, admin_default_list_limit, admin_max_list_limit.
  replace (l =? 0) with false by (symmetry; apply Z.eqb_neq; lia).
  replace (l <? 0) with false by (symmetry; apply Z.ltb_ge; lia).
  replace (1000 <? l) with false by (symmetry; apply Z.ltb_ge; lia). reflexivity.
Qed.

(** what the Admin server's parseMessageManageFilter makes of the payload the tool builds: the parsed filter of the
    tool, selector removed, route kept (global endpoint) or removed (scoped endpoint, which pins it itself) *)
Lemma admin_reparses_filter k a p wr :
  mcp_parse_filter (mcp_filter_tool_states k) a = Some p ->
  parse_filter (filter_endpoint_states k) (body_of_pfilt wr p)
  = Some (mkPF (if wr then pf_route p else RSBlank) (pf_target p) (pf_state p) (pf_limit p) (pf_before p) (pf_preview p) LBlank LBlank).
Proof.
  intros P. destruct (mcp_parse_filter_some _ _ _ P) as [_ [_ [Lm [Ps [_ [Er [Ens [_ [_ _]]]]]]]]].
  destruct (mcp_limit_reaches_store _ _ Lm) as [_ [_ R]].
  unfold parse_filter, body_of_pfilt. simpl. rewrite (admin_limit_in_range _ R).
  assert (S : parse_state (filter_endpoint_states k)
                (match pf_state p with Some s => RsKnown s | None => RsBlank end) = Some (pf_state p)).
  { rewrite <- tool_states_same. destruct (pf_state p) as [x|] eqn:Ex; [|reflexivity].
    destruct (parse_state_some _ _ _ Ps) as [_ Hin]. simpl. rewrite Hin. reflexivity. }
  rewrite S.
  replace (time_of (match pf_before p with Some t => TOk t | None => TAbsent end)) with (Some (pf_before p))
    by (destruct (pf_before p); reflexivity).
  f_equal. f_equal.
  - destruct wr; [|reflexivity]. destruct (pf_route p); try reflexivity. contradiction.
  - destruct (pf_target p); reflexivity.
Qed.

(** the request as a whole *)
Definition audit_carried (e : xenv) (a : paudit) (q : hreq) : Prop :=
  h_post q = true /\ h_auth q = xe_auth e
  /\ a_reason (h_audit q) = pa_reason a /\ pa_reason a <> []
  /\ a_reqid (h_audit q) = pa_reqid a
  /\ a_actor (h_audit q) = (if is_nil (pa_actor a) then xe_principal e else pa_actor a)
  /\ (xe_principal e <> [] -> a_actor (h_audit q) = xe_principal e).

Lemma audit_carried_spec e a q :
  audit_carried e a q <->
  (h_post q = true /\ h_auth q = xe_auth e
   /\ a_reason (h_audit q) = pa_reason a /\ pa_reason a <> []
   /\ a_reqid (h_audit q) = pa_reqid a
   /\ a_actor (h_audit q) = (if is_nil (pa_actor a) then xe_principal e else pa_actor a)
   /\ (xe_principal e <> [] -> a_actor (h_audit q) = xe_principal e)).
Proof. reflexivity. Qed.

Lemma sent_audit_carried e a rq :
  parse_maudit (ma_of (xe_principal e) a) = Some rq -> audit_carried e a (sent_hreq e a) /\ rq = pa_reqid a.
Proof.
  unfold parse_maudit, ma_of. simpl. intros H.
  destruct (pa_wf a); simpl in H; [|discriminate].
  destruct (pa_reason a) as [|b0 bt] eqn:Er; simpl in H; [discriminate|].
  destruct (is_nil (pa_actor a) || is_nil (xe_principal e) || beq (pa_actor a) (xe_principal e)) eqn:Ea; simpl in H; [|discriminate].
  inversion H; subst rq. split; [|reflexivity].
  unfold audit_carried, sent_hreq, sent_audit. simpl. rewrite Er. repeat split; try discriminate.
  intros Pn. destruct (pa_actor a) as [|c0 ct] eqn:Eact; simpl in *; [reflexivity|].
  destruct (xe_principal e) as [|p0 pt] eqn:Ep; [contradiction|]. simpl in Ea.
  apply (proj1 (HeadersProofs.beq_eq (c0 :: ct) (p0 :: pt))). exact Ea.
Qed.

Theorem request_faithful e t q :
  proxy_decide e t = PSend q ->
  xe_gate e = true /\ xe_allowed e = true
  /\ match t with
     | PtIds k a =>
         audit_carried e (xi_audit a) (sn_req q)
         /\ exists raw idl, xi_ids a = IBIds raw /\ mcp_parse_ids raw = Some idl
              /\ sn_ep q = EpIds k /\ sn_body q = BIds (IBIds (store_ids idl))
              /\ parse_manage_ids (store_ids idl) = Some idl                 (* the Admin server reads back exactly that list *)
              /\ (forall i, In i idl <-> exists r, In r raw /\ trimmed_id r = Some i)
     | PtFilter k a =>
         audit_carried e (xf_audit a) (sn_req q)
         /\ exists p b, mcp_parse_filter (mcp_filter_tool_states k) (mf_of (xe_principal e) a) = Some p
              /\ sn_body q = BFilter (FBOk b)
              /\ fb_limit b = pf_limit p /\ 1 <= fb_limit b <= 1000 /\ fb_preview b = pf_preview p /\ pf_preview p = xf_preview a
              /\ mcp_limit (xf_limit a) = Some (fb_limit b)
              /\ ((sn_ep q = EpFilter k
                   /\ parse_filter (filter_endpoint_states k) b
                      = Some (mkPF (pf_route p) (pf_target p) (pf_state p) (pf_limit p) (pf_before p) (pf_preview p) LBlank LBlank))
                  \/ (exists ap ep rt, pf_app p = LValid ap /\ pf_ep p = LValid ep /\ find_endpoint (xe_cfg e) ap ep = Some rt
                        /\ sn_ep q = EpScopedFilter k (LValid ap) (LValid ep)
                        /\ parse_filter (filter_endpoint_states k) b
                           = Some (mkPF RSBlank (pf_target p) (pf_state p) (pf_limit p) (pf_before p) (pf_preview p) LBlank LBlank)))
     end.
Proof.
  destruct t as [k a | k a]; simpl.
  - unfold proxy_decide_ids. intros H.
    destruct (xe_gate e); simpl in H; [|discriminate].
    destruct (xi_unknown a); [discriminate|].
    destruct (parse_maudit (ma_of (xe_principal e) (xi_audit a))) as [rq|] eqn:Pa; [|discriminate].
    destruct (xi_ids a) as [|raw] eqn:Ei; [discriminate|].
    destruct (mcp_parse_ids raw) as [idl|] eqn:P; [|discriminate].
    destruct (xe_allowed e); simpl in H; [|discriminate].
    inversion H; subst q; clear H. simpl.
    split; [reflexivity|]. split; [reflexivity|].
    split; [apply (sent_audit_carried _ _ _ Pa)|].
    exists raw, idl. repeat split; try reflexivity; try assumption.
    + apply (admin_reparses_ids _ _ P).
    + destruct (ids_accepted_spec raw) as [A _]. destruct (A idl P) as [_ [_ [_ [_ [_ [Hin _]]]]]]. apply Hin.
    + destruct (ids_accepted_spec raw) as [A _]. destruct (A idl P) as [_ [_ [_ [_ [_ [Hin _]]]]]]. apply Hin.
  - unfold proxy_decide_filter. intros H.
    destruct (xe_gate e); simpl in H; [|discriminate].
    destruct (parse_maudit (ma_of (xe_principal e) (xf_audit a))) as [rq|] eqn:Pa; [|discriminate].
    destruct (mcp_parse_filter (mcp_filter_tool_states k) (mf_of (xe_principal e) a)) as [p|] eqn:P; [|discriminate].
    destruct (mcp_parse_filter_some _ _ _ P) as [_ [_ [Lm [_ [_ [_ [_ [_ [Pv _]]]]]]]]]. simpl in Lm, Pv.
    destruct (mcp_limit_reaches_store _ _ Lm) as [_ [_ R]].
    assert (common : forall wr, fb_limit (body_of_pfilt wr p) = pf_limit p /\ 1 <= fb_limit (body_of_pfilt wr p) <= 1000
                                /\ fb_preview (body_of_pfilt wr p) = pf_preview p /\ pf_preview p = xf_preview a
                                /\ mcp_limit (xf_limit a) = Some (fb_limit (body_of_pfilt wr p))).
    { intros wr. simpl. repeat split; try assumption; try lia. }
    destruct (pf_app p) as [| |ap] eqn:Eapp; destruct (pf_ep p) as [| |ep] eqn:Eep;
      try (destruct (match opt_route (pf_route p) with None => any_managed (xe_cfg e) | Some r => route_is_managed (xe_cfg e) r end); [discriminate|];
           destruct (xe_allowed e); simpl in H; [|discriminate]; inversion H; subst q; clear H; simpl;
           split; [reflexivity|]; split; [reflexivity|]; split; [apply (sent_audit_carried _ _ _ Pa)|];
           exists p, (body_of_pfilt true p); split; [reflexivity|]; split; [reflexivity|];
           destruct (common true) as [c1 [c2 [c3 [c4 c5]]]]; repeat (split; [assumption|]);
           left; split; [reflexivity|]; apply (admin_reparses_filter k _ p true P)).
    destruct (mcp_managed_policy_ok (xe_cfg e) (xe_principal e) rq); simpl in H; [|discriminate].
    destruct (find_endpoint (xe_cfg e) ap ep) as [rt|] eqn:Ef; [|discriminate].
    destruct (xe_allowed e); simpl in H; [|discriminate]. inversion H; subst q; clear H. simpl.
    split; [reflexivity|]. split; [reflexivity|]. split; [apply (sent_audit_carried _ _ _ Pa)|].
    exists p, (body_of_pfilt false p). split; [reflexivity|]. split; [reflexivity|].
    destruct (common false) as [c1 [c2 [c3 [c4 c5]]]]. repeat (split; [assumption|]).
    right. exists ap, ep, rt. repeat split; try reflexivity; try assumption.
    apply (admin_reparses_filter k _ p false P).
Qed.

(** * (b) what the tool reports is what the Admin API answered to that one request *)
Lemma serve_filter_ok now d s s' m n p :
  serve now d s = (s', HFilterOk m n p) -> exists k f, d = DCall (SCFilter k f).
Proof.
  destruct d as [st c | c]; simpl; intros H; [inversion H|].
  destruct (exec_call now c s) as [s1 r] eqn:E. destruct (exec_call_count _ _ _ _ _ E) as [n0 [m0 [p0 Er]]]. subst r.
  destruct c as [k idl | k f]; simpl in H; inversion H. eauto.
Qed.

Lemma serve_ids_ok now d s s' n :
  serve now d s = (s', HIdsOk n) -> exists k idl, d = DCall (SCIds k idl).
Proof.
  destruct d as [st c | c]; simpl; intros H; [inversion H|].
  destruct (exec_call now c s) as [s1 r] eqn:E. destruct (exec_call_count _ _ _ _ _ E) as [n0 [m0 [p0 Er]]]. subst r.
  destruct c as [k idl | k f]; simpl in H; inversion H. eauto.
Qed.

Theorem counts_faithful e now t fs s s' r sent seen :
  Inv s -> proxy_request e now t fs s = (s', r, (sent, seen)) -> status_of r = 200 ->
  exists q, proxy_decide e t = PSend q
    /\ sent_handler (xe_cfg e) now q s = (s', r)        (* the result is the Admin API's answer; the store is that request's *)
    /\ sent = 1%nat /\ seen = 1%nat
    /\ match r with
       | HIdsOk n => n = changed_count (msgs s) (msgs s')
       | HFilterOk m n p =>
           exists k f, decide (xe_cfg e) (sn_ep q) (sn_req q) (sn_body q) (msgs s) = DCall (SCFilter k f)
             /\ p = f_preview f /\ m = Z.of_nat (length (filter_select (fk_kind k) f (msgs s)))
             /\ (if p then s' = s /\ n = 0 else n = m /\ n = changed_count (msgs s) (msgs s'))
       | HErr _ _ => False
       end.
Proof.
  intros I H Hs. destruct (proxy_decide e t) as [|q] eqn:D.
  - rewrite (proxy_request_reject _ _ _ _ _ D) in H. inversion H; subst. discriminate.
  - rewrite (proxy_request_send _ _ _ _ _ _ D) in H.
    destruct (call_admin (max_attempts MPost) fs (sent_handler (xe_cfg e) now q) s) as [[s1 c] [a b]] eqn:E.
    injection H as Hs1 Hr Ha Hb0. subst s1 a b.
    destruct (tool_result_ok _ _ Hr Hs) as [Ec Hne]. subst c. clear Hr.
    destruct (call_admin_write _ _ _ _ _ _ _ E) as [Hsent [Hb [H0 H1]]].
    assert (Hseen : seen = 1%nat).
    { destruct seen as [|[|z]]; [|reflexivity|lia].
      destruct (H0 eq_refl) as [_ [X | [st X]]]; [discriminate|]. inversion X. exfalso. apply (Hne st (GPub CStoreUnavailable)). auto. }
    destruct (H1 Hseen) as [Es' [X | X]]; [discriminate|]. injection X as Er.
    assert (Eh : sent_handler (xe_cfg e) now q s = (s', r)).
    { destruct (sent_handler (xe_cfg e) now q s) as [sa ra] eqn:Eh0. simpl in Es', Er. subst. reflexivity. }
    exists q. split; [reflexivity|]. split; [exact Eh|]. split; [exact Hsent|]. split; [exact Hseen|].
    unfold sent_handler, admin_request in Eh.
    destruct r as [st g | n | m n p].
    + apply (Hne st g). reflexivity.
    + destruct (serve_ids_ok _ _ _ _ _ Eh) as [k [idl Ed]]. rewrite Ed in Eh.
      apply (proj2 (response_counts_ids now k idl s s' n I Eh)).
    + destruct (serve_filter_ok _ _ _ _ _ _ _ Eh) as [k [f Ed]]. rewrite Ed in Eh. exists k, f. split; [exact Ed|].
      destruct (response_counts_filter now k f s s' m n p I Eh) as [_ [Hp [Hm Hrest]]]. auto.
Qed.

(** * (c) refusals *)
Theorem refusals e now t fs s :
  (* refused by the tool: nothing is sent, nothing changes, the result is an error *)
  (proxy_decide e t = PReject -> proxy_request e now t fs s = (s, HErr 0 GToolError, (O, O)))
  (* refused by the Admin API (400 / 401 / 404 / 405): nothing changes whatever else the transport does, the result is an error *)
  /\ (forall q st c, proxy_decide e t = PSend q -> snd (sent_handler (xe_cfg e) now q s) = HErr st c ->
        exists n, proxy_request e now t fs s = (s, HErr 0 GToolError, n))
  (* whatever happened: a result that is not a success is the error result *)
  /\ (forall s' r n, proxy_request e now t fs s = (s', r, n) -> status_of r <> 200 -> r = HErr 0 GToolError).
Proof.
  split; [apply proxy_request_reject|]. split.
  - intros q st c D Hh. rewrite (proxy_request_send _ _ _ _ _ _ D).
    destruct (sent_handler (xe_cfg e) now q s) as [sa ra] eqn:Eh. simpl in Hh. subst ra.
    unfold sent_handler in Eh. destruct (rejected_no_effect_admin _ _ _ _ _ _ _ _ _ Eh) as [_ Es]. subst sa.
    change (max_attempts MPost) with 1%nat. rewrite call_admin_one. unfold sent_handler. rewrite Eh. simpl.
    destruct (hd FtPass fs); simpl; try (eexists; reflexivity).
    destruct (ok_status st); eexists; reflexivity.
  - intros s' r n H Hs. destruct (proxy_decide e t) as [|q] eqn:D.
    + rewrite (proxy_request_reject _ _ _ _ _ D) in H. inversion H. reflexivity.
    + rewrite (proxy_request_send _ _ _ _ _ _ D) in H.
      destruct (call_admin (max_attempts MPost) fs (sent_handler (xe_cfg e) now q) s) as [[s1 c] n1].
      inversion H; subst. apply tool_result_error. exact Hs.
Qed.

(** the tool-side refusal of the by-filter tools is the refusal of the direct (SQLite) mode on the same arguments,
    plus the endpoint allowlist *)
Theorem filter_refusal_as_direct e k a :
  proxy_decide_filter e k a = PReject <->
  (xe_allowed e = false \/ exists st c, mcp_decide_filter (direct_env e) k (mf_of (xe_principal e) a) = DReject st c).
Proof.
  unfold proxy_decide_filter, mcp_decide_filter, direct_env, mreject. simpl.
  destruct (xe_gate e); simpl; [|split; [intros _; right; eauto | reflexivity]].
  destruct (parse_maudit (ma_of (xe_principal e) (xf_audit a))) as [rq|]; [|split; [intros _; right; eauto | reflexivity]].
  destruct (mcp_parse_filter (mcp_filter_tool_states k) (mf_of (xe_principal e) a)) as [p|]; [|split; [intros _; right; eauto | reflexivity]].
  assert (leaf_other :
    (if match opt_route (pf_route p) with None => any_managed (xe_cfg e) | Some r => route_is_managed (xe_cfg e) r end
     then PReject
     else if negb (xe_allowed e) then PReject
          else PSend (mkSent (EpFilter k) (sent_hreq e (xf_audit a)) (BFilter (FBOk (body_of_pfilt true p))))) = PReject
    <-> (xe_allowed e = false \/
         exists st c, match opt_route (pf_route p) with
                      | Some r => if route_is_managed (xe_cfg e) r then DReject 0 GToolError
                                  else DCall (SCFilter k (mk_store_filt (opt_route (pf_route p)) p))
                      | None => if any_managed (xe_cfg e) then DReject 0 GToolError
                                else DCall (SCFilter k (mk_store_filt (opt_route (pf_route p)) p))
                      end = DReject st c)).
  { destruct (opt_route (pf_route p)) as [r|];
      [destruct (route_is_managed (xe_cfg e) r) | destruct (any_managed (xe_cfg e))];
      destruct (xe_allowed e); simpl; split; intros H;
        try reflexivity; try discriminate H; try (left; reflexivity); try (right; eexists; eexists; reflexivity);
        destruct H as [H | [st [c H]]]; discriminate H. }
  destruct (pf_app p) as [| |ap]; destruct (pf_ep p) as [| |ep]; try exact leaf_other.
  destruct (mcp_managed_policy_ok (xe_cfg e) (xe_principal e) rq); simpl;
    [|split; [intros _; right; eauto | reflexivity]].
  destruct (find_endpoint (xe_cfg e) ap ep); [|split; [intros _; right; eauto | reflexivity]].
  destruct (xe_allowed e); simpl; split; intros H;
    try reflexivity; try discriminate H; try (left; reflexivity);
    destruct H as [H | [st [c H]]]; discriminate H.
Qed.

(** * proxy mode and direct mode agree *)
(** the audit strings of a call as parseMutationAuditArgs leaves them: trimmed (parseString) and within the caps
    (validateMutationAuditFields) *)
Definition audit_normal (principal : bytes) (a : paudit) : Prop :=
  trim_space (pa_reason a) = pa_reason a /\ trim_space (pa_reqid a) = pa_reqid a /\ trim_space principal = principal
  /\ blen (pa_reason a) <= max_reason_len /\ blen principal <= max_actor_len /\ blen (pa_reqid a) <= max_reqid_len.

Lemma touches_any_managed x st idl ms : touches_managed x st idl ms = true -> any_managed x = true.
Proof.
  unfold touches_managed, any_managed. intros H. apply existsb_exists in H. destruct H as [i [_ H]].
  destruct (find_id i ms) as [m|]; [|discriminate]. apply andb_true_iff in H. destruct H as [_ H].
  unfold route_is_managed in H. apply existsb_exists in H. destruct H as [rt [Hin H]]. apply andb_true_iff in H.
  apply existsb_exists. exists rt. tauto.
Qed.

Lemma policy_same x principal reqid :
  match audit_policy_error x principal reqid true with None => true | Some _ => false end = mcp_managed_policy_ok x principal reqid.
Proof.
  unfold audit_policy_error, mcp_managed_policy_ok.
  destruct (x_req_actor x && is_nil principal); [reflexivity|].
  destruct (x_req_reqid x && is_nil reqid); [reflexivity|]. simpl.
  destruct (actor_policy_on x); simpl; [|reflexivity].
  destruct (is_nil principal); [reflexivity|]. destruct (actor_allowed x principal); reflexivity.
Qed.

Lemma ids_states_same k : ids_endpoint_states k = mcp_ids_tool_states k.
Proof. destruct k; reflexivity. Qed.

Lemma sent_audit_parsed e a rq :
  xe_principal e <> [] -> audit_normal (xe_principal e) a ->
  parse_maudit (ma_of (xe_principal e) a) = Some rq ->
  parse_audit (xe_cfg e) (sent_audit (xe_principal e) a) = Some (pa_reason a, xe_principal e, pa_reqid a) /\ rq = pa_reqid a.
Proof.
  intros Pn [T1 [T2 [T3 [L1 [L2 L3]]]]] Pa.
  destruct (sent_audit_carried e a rq Pa) as [[_ [_ [_ [Rn [_ [_ Hact]]]]]] Erq]. split; [|exact Erq].
  specialize (Hact Pn). unfold sent_hreq in Hact. simpl in Hact.
  unfold parse_audit. unfold sent_audit in *. simpl in *. rewrite Hact, T1, T2, T3.
  destruct (pa_reason a) as [|b0 bt] eqn:Er; [contradiction|]. rewrite andb_false_r.
  replace (max_reason_len <? blen (b0 :: bt)) with false by (symmetry; apply Z.ltb_ge; exact L1).
  replace (max_actor_len <? blen (xe_principal e)) with false by (symmetry; apply Z.ltb_ge; exact L2).
  replace (max_reqid_len <? blen (pa_reqid a)) with false by (symmetry; apply Z.ltb_ge; exact L3).
  reflexivity.
Qed.

Definition tool_audit (t : ptool) : paudit :=
  match t with PtIds _ a => xi_audit a | PtFilter _ a => xf_audit a end.

Definition dec_rel (A D : decision) : Prop :=
  (A = D /\ exists c, D = DCall c) \/ (exists st g, A = DReject st g /\ D = mreject).

Lemma serve_relate now A D s :
  dec_rel A D -> (fst (serve now A s), tool_result (CResp (snd (serve now A s)))) = serve now D s.
Proof.
  intros [[E [c Ec]] | [st [g [EA ED]]]].
  - subst A D. simpl. destruct (exec_call now c s) as [s1 r] eqn:E. simpl.
    destruct (exec_call_count _ _ _ _ _ E) as [n [m [p Er]]]. subst r. destruct c; reflexivity.
  - subst A D. reflexivity.
Qed.

Lemma proxy_send_nofault e now t s q :
  proxy_decide e t = PSend q ->
  fst (proxy_request e now t [] s)
  = (fst (sent_handler (xe_cfg e) now q s), tool_result (CResp (snd (sent_handler (xe_cfg e) now q s)))).
Proof.
  intros D. rewrite (proxy_request_send _ _ _ _ _ _ D). change (max_attempts MPost) with 1%nat. rewrite call_admin_one. reflexivity.
Qed.

Theorem proxy_agrees_with_direct e now t s :
  xe_auth e = true -> xe_allowed e = true -> xe_principal e <> [] -> audit_normal (xe_principal e) (tool_audit t) ->
  fst (proxy_request e now t [] s) = mcp_request (direct_env e) now (direct_tool e t) s.
Proof.
  intros Au Al Pn An.
  destruct (proxy_decide e t) as [|q] eqn:D.
  - (* refused by the tool: the direct mode refuses too *)
    rewrite (proxy_request_reject _ _ _ _ _ D). simpl. unfold mcp_request.
    assert (R : mcp_decide (direct_env e) (direct_tool e t) (msgs s) = mreject).
    { destruct t as [k a | k a]; simpl in *.
      - unfold proxy_decide_ids in D. unfold mcp_decide_ids, direct_env, mi_of. simpl.
        destruct (xe_gate e); simpl in *; [|reflexivity].
        destruct (xi_unknown a); [reflexivity|].
        destruct (parse_maudit (ma_of (xe_principal e) (xi_audit a))); [|reflexivity].
        destruct (xi_ids a) as [|raw]; [reflexivity|].
        destruct (mcp_parse_ids raw); [|reflexivity].
        rewrite Al in D. discriminate.
      - destruct (proj1 (filter_refusal_as_direct e k a) D) as [X | [st [c X]]]; [congruence|].
        rewrite X. unfold mcp_decide_filter, mreject in X. split_match X; inversion X; reflexivity. }
    rewrite R. reflexivity.
  - rewrite (proxy_send_nofault _ _ _ _ _ D). unfold sent_handler, admin_request, mcp_request. apply serve_relate.
    destruct t as [k a | k a]; simpl in *.
    + (* id tools *)
      unfold proxy_decide_ids in D. unfold mcp_decide_ids, direct_env, mi_of. simpl.
      destruct (xe_gate e); simpl in *; [|discriminate].
      destruct (xi_unknown a); [discriminate|].
      destruct (parse_maudit (ma_of (xe_principal e) (xi_audit a))) as [rq|] eqn:Pa; [|discriminate].
      destruct (xi_ids a) as [|raw]; [discriminate|].
      destruct (mcp_parse_ids raw) as [idl|] eqn:P; [|discriminate].
      rewrite Al in D. simpl in D. inversion D; subst q; clear D. simpl.
      destruct (sent_audit_parsed e _ _ Pn An Pa) as [Ea Erq]. subst rq.
      unfold decide_ids, gate, sent_hreq. simpl. rewrite Au. simpl. rewrite Ea, (admin_reparses_ids _ _ P), ids_states_same.
      destruct (touches_managed (xe_cfg e) (mcp_ids_tool_states k) idl (msgs s)) eqn:Tm.
      * rewrite (touches_any_managed _ _ _ _ Tm). simpl. rewrite <- policy_same.
        destruct (audit_policy_error (xe_cfg e) (xe_principal e) (pa_reqid (xi_audit a)) true) as [c|].
        -- right. eauto.
        -- left. split; [reflexivity | eauto].
      * rewrite andb_false_r. left. split; [reflexivity | eauto].
    + (* by-filter tools *)
      unfold proxy_decide_filter in D. unfold mcp_decide_filter, direct_env. simpl.
      destruct (xe_gate e); simpl in *; [|discriminate].
      destruct (parse_maudit (ma_of (xe_principal e) (xf_audit a))) as [rq|] eqn:Pa; [|discriminate].
      destruct (mcp_parse_filter (mcp_filter_tool_states k) (mf_of (xe_principal e) a)) as [p|] eqn:P; [|discriminate].
      destruct (sent_audit_parsed e _ _ Pn An Pa) as [Ea Erq]. subst rq.
      destruct (mcp_parse_filter_some _ _ _ P) as [_ [_ [_ [_ [_ [_ [Ens _]]]]]]].
      assert (other :
        (if match opt_route (pf_route p) with None => any_managed (xe_cfg e) | Some r => route_is_managed (xe_cfg e) r end
         then PReject
         else if negb (xe_allowed e) then PReject
              else PSend (mkSent (EpFilter k) (sent_hreq e (xf_audit a)) (BFilter (FBOk (body_of_pfilt true p))))) = PSend q ->
        dec_rel (decide (xe_cfg e) (sn_ep q) (sn_req q) (sn_body q) (msgs s))
                match opt_route (pf_route p) with
                | Some r => if route_is_managed (xe_cfg e) r then mreject
                            else DCall (SCFilter k (mk_store_filt (opt_route (pf_route p)) p))
                | None => if any_managed (xe_cfg e) then mreject
                          else DCall (SCFilter k (mk_store_filt (opt_route (pf_route p)) p))
                end).
      { intros H.
        destruct (match opt_route (pf_route p) with None => any_managed (xe_cfg e) | Some r => route_is_managed (xe_cfg e) r end) eqn:Bl; [discriminate|].
        rewrite Al in H. simpl in H. inversion H; subst q; clear H. simpl.
        unfold decide_filter, gate, sent_hreq. simpl. rewrite Au. simpl.
        rewrite (admin_reparses_filter k _ p true P). simpl.
        destruct (pf_route p) as [| |r] eqn:Er; [| contradiction |]; simpl in *; rewrite Ea, Bl; simpl;
          left; (split; [reflexivity | eauto]). }
      destruct (pf_app p) as [| |ap] eqn:Eapp; destruct (pf_ep p) as [| |ep] eqn:Eep; try (apply other; exact D).
      destruct (mcp_managed_policy_ok (xe_cfg e) (xe_principal e) (pa_reqid (xf_audit a))) eqn:Pol; simpl in D; [|discriminate].
      destruct (find_endpoint (xe_cfg e) ap ep) as [rt|] eqn:Ef; [|discriminate].
      rewrite Al in D. simpl in D. inversion D; subst q; clear D. simpl.
      unfold decide_scoped_filter, sent_hreq. simpl. rewrite Au, Ef. simpl.
      rewrite (admin_reparses_filter k _ p false P). simpl. rewrite Ea.
      rewrite <- policy_same in Pol.
      destruct (audit_policy_error (xe_cfg e) (xe_principal e) (pa_reqid (xf_audit a)) true); [discriminate|].
      left. split; [reflexivity | eauto].
Qed.

(** * non-vacuity *)
Definition px_ctx : ctx := ex_ctx.
Definition px_env : xenv := mkXEnv true [111%N; 112%N; 115%N] px_ctx true true.
Definition px_audit : paudit := mkPA true [119%N; 104%N; 121%N] [] [].
Definition px_filter (lim : Z) : ptool :=
  PtFilter FCancel (mkXF false true px_audit (RtPlain 1) LBlank LBlank RBlank (RsKnown Queued) TAbsent (MLInt lim) false).
Definition px_states (s : state) : list (N * st) := map (fun m => (m_id m, m_st m)) (msgs s).

(** the answer of the one request is lost: the newest queued message on route 1 is canceled, the tool reports an error,
    one request was sent and served - and nothing else happens, although the script would let a second request through *)
Example ex_lost_answer_applied_once :
  let '(s', r, n) := proxy_request px_env 100 (px_filter 1) [FtLost; FtPass] (state_of ex_pop) in
  (px_states s', r, n)
  = ([(1%N, Queued); (2%N, Dead); (3%N, Canceled); (4%N, Delivered); (5%N, Canceled)], HErr 0 GToolError, (1%nat, 1%nat)).
Proof. vm_compute. reflexivity. Qed.

Example ex_pass :
  let '(s', r, n) := proxy_request px_env 100 (px_filter 1) [] (state_of ex_pop) in
  (px_states s', r, n)
  = ([(1%N, Queued); (2%N, Dead); (3%N, Canceled); (4%N, Delivered); (5%N, Canceled)], HFilterOk 1 1 false, (1%nat, 1%nat)).
Proof. vm_compute. reflexivity. Qed.

(** why one attempt matters: the same loop with two attempts for a write cancels two messages for limit 1 and
    reports one *)
Example ex_second_attempt_would_double :
  match proxy_decide px_env (px_filter 1) with
  | PSend q =>
      let '(s', c, n) := call_admin 2 [FtLost; FtPass] (sent_handler px_ctx 100 q) (state_of ex_pop) in
      (px_states s', tool_result c, n)
      = ([(1%N, Canceled); (2%N, Dead); (3%N, Canceled); (4%N, Delivered); (5%N, Canceled)], HFilterOk 1 1 false, (2%nat, 2%nat))
  | PReject => False
  end.
Proof. vm_compute. reflexivity. Qed.

(** refused by the tool (limit 0; actor that is not the principal): nothing is sent *)
Example ex_refused_sends_nothing :
  proxy_request px_env 100 (px_filter 0) [] (state_of ex_pop) = (state_of ex_pop, HErr 0 GToolError, (O, O))
  /\ proxy_decide px_env (PtIds MCancel (mkXI false (mkPA true [119%N] [120%N] []) (IBIds [RPlain 1]))) = PReject.
Proof. vm_compute. split; reflexivity. Qed.

(** refused by the Admin API (a managed route without selector is stopped by the tool; a managed id without an allowed
    actor is stopped by the Admin server): error result, nothing changes *)
Example ex_refused_by_admin :
  let x := mkCtx true true true true true false false [[115%N; 118%N; 99%N]] [] 0 0
                 [mkRoute 1%N [1000%N] true true true true 0 0 None; mkRoute 5%N [1000%N] true true true true 0 0 (Some (1%N, 2%N))] in
  let e := mkXEnv true [111%N; 112%N; 115%N] x true true in
  let pop := [ex_msg 1 1 Queued 50; ex_msg 2 5 Queued 50] in
  proxy_request e 100 (PtIds MCancel (mkXI false px_audit (IBIds [RPlain 2]))) [] (state_of pop)
  = (state_of pop, HErr 0 GToolError, (1%nat, 1%nat))
  /\ snd (fst (proxy_request e 100 (PtIds MCancel (mkXI false px_audit (IBIds [RPlain 1]))) [] (state_of pop))) = HIdsOk 1.
Proof. vm_compute. split; reflexivity. Qed.

(** the request that is built *)
Example ex_request_built :
  proxy_decide px_env (PtIds MRequeueDead (mkXI false (mkPA true [119%N] [] [114%N; 49%N]) (IBIds [RPadded 2; RPlain 2; RPlain 9])))
  = PSend (mkSent (EpIds MRequeueDead) (mkHReq true true (mkAudit [119%N] [111%N; 112%N; 115%N] [114%N; 49%N]))
                  (BIds (IBIds [RPlain 2; RPlain 9])))
  /\ proxy_decide px_env (PtFilter FRequeue (mkXF false true px_audit RtBlank (LValid 1) (LValid 2) (RPadded 1000) (RsKnown Dead) (TOk 77) MLAbsent true))
     = PSend (mkSent (EpScopedFilter FRequeue (LValid 1) (LValid 2)) (mkHReq true true (mkAudit [119%N; 104%N; 121%N] [111%N; 112%N; 115%N] []))
                     (BFilter (FBOk (mkFBody RtBlank LBlank LBlank (RPlain 1000) (RsKnown Dead) (TOk 77) 100 true)))).
Proof. vm_compute. split; reflexivity. Qed.

(** reads are retried (503, transport error) up to three attempts, not on a 400; the store is untouched *)
Example ex_reads_retry :
  proxy_read px_env [FtStatus 503; FtNoReach; FtPass] (state_of ex_pop) = (state_of ex_pop, HIdsOk 0, (3%nat, 1%nat))
  /\ proxy_read px_env [FtStatus 503; FtStatus 503; FtStatus 503; FtPass] (state_of ex_pop) = (state_of ex_pop, HErr 0 GToolError, (3%nat, 0%nat))
  /\ proxy_read px_env [FtStatus 400; FtPass] (state_of ex_pop) = (state_of ex_pop, HErr 0 GToolError, (1%nat, 0%nat))
  /\ proxy_read px_env [FtGarbled; FtPass] (state_of ex_pop) = (state_of ex_pop, HErr 0 GToolError, (1%nat, 1%nat)).
Proof. vm_compute. repeat split; reflexivity. Qed.
