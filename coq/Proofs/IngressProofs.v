From Coq Require Import ZArith List Bool NArith Lia.
From HK Require Import Model.NonceCache Model.Hmac Model.BasicAuth Model.Ingress Model.HmacHistory
  Proofs.NonceCacheProofs Proofs.HmacProofs.
Import ListNotations.
Open Scope Z_scope.

(** ** basic auth *)
Lemma lookup_user_In u users p : lookup_user u users = Some p -> In (u, p) users.
Proof.
  induction users as [|[k v] tl IH]; simpl; [discriminate|].
  destruct (beqb u k) eqn:E.
  - apply beqb_eq in E. intros H. inversion H; subst. left. reflexivity.
  - intros H. right. apply IH. exact H.
Qed.

Definition basic_valid (users : list (bytes * bytes)) (h : headers) : Prop :=
  exists u p, parse_basic (header_get authorization_name h) = Some (u, p) /\ lookup_user u users = Some p.

Lemma basic_verify_spec users h :
  users <> [] -> (basic_verify users h = true <-> basic_valid users h).
Proof.
  intros Hne. unfold basic_verify, basic_valid. destruct users as [|u0 tl]; [congruence|].
  destruct (parse_basic (header_get authorization_name h)) as [[u p]|].
  - destruct (lookup_user u (u0 :: tl)) as [want|] eqn:L.
    + split.
      * intros E. apply beqb_eq in E. subst. exists u, want. auto.
      * intros (u' & p' & E1 & E2). inversion E1; subst. rewrite L in E2. inversion E2; subst. apply beqb_refl.
    + split; [discriminate|]. intros (u' & p' & E1 & E2). inversion E1; subst. congruence.
  - split; [discriminate|]. intros (u' & p' & E1 & _). discriminate.
Qed.

(** ** the enqueue loop *)
Lemma enqueue_all_spec targets res :
  let '(ok, done) := enqueue_all targets res in
  (ok = true -> done = targets) /\
  (ok = false -> exists k, done = firstn k targets /\ (k < length targets)%nat /\ nth k res true = false).
Proof.
  revert res. induction targets as [|t tl IH]; intros res; simpl.
  - split; [reflexivity | discriminate].
  - destruct res as [|[|] rtl].
    + specialize (IH []). simpl. destruct (enqueue_all tl []) as [ok done]. destruct IH as [I1 I2]. split.
      * intros H. rewrite I1 by exact H. reflexivity.
      * intros H. destruct (I2 H) as (k & E & L & N). exists (S k). simpl. repeat split; [congruence | lia|].
        destruct k; exact N.
    + specialize (IH rtl). simpl. destruct (enqueue_all tl rtl) as [ok done]. destruct IH as [I1 I2]. split.
      * intros H. rewrite I1 by exact H. reflexivity.
      * intros H. destruct (I2 H) as (k & E & L & N). exists (S k). simpl. repeat split; [congruence | lia | exact N].
    + split; [discriminate|]. intros _. exists 0%nat. simpl. repeat split; lia.
Qed.

Section Crypto.
Variable sha256 : bytes -> bytes.
Variable hmac : bytes -> bytes -> bytes.
Notation serve := (serve sha256 hmac).
Notation verify := (verify sha256 hmac).

Definition status_of (x : Z * list bytes * cache) : Z := fst (fst x).
Definition enq_of (x : Z * list bytes * cache) : list bytes := snd (fst x).

Definition targets_of (rc : route_cfg) : list bytes :=
  match rc_targets rc with [] => [default_target] | ts => ts end.

(** every authentication stage the route declares was passed *)
Definition authenticated (rc : route_cfg) (c : cache) (now : Z) (r : hreq) (o : oracle) : Prop :=
  (rc_basic rc <> [] -> basic_valid (rc_basic rc) (q_headers r)) /\
  (rc_forward rc = true -> exists copied, o_fwd o = F2xx copied) /\
  (forall cfg, rc_hmac rc = Some cfg -> fst (verify cfg c now r) = true).

(** The handler, read as a decision list. *)
Lemma serve_cases rc c now r o :
  let res := serve (RRoute rc) c now r o in
  (o_rate_ok o = false /\ status_of res = 429 /\ enq_of res = []) \/
  (exists st, o_backpressure o = Some st /\ enq_of res = [] /\ status_of res = (if st <=? 0 then 503 else st)) \/
  (basic_verify (rc_basic rc) (q_headers r) = false /\ status_of res = 401 /\ enq_of res = []) \/
  (basic_verify (rc_basic rc) (q_headers r) = true /\
   ((Z.of_nat (length (q_body r)) > rc_max_body rc /\ status_of res = 413 /\ enq_of res = []) \/
    (o_body_err o = true /\ status_of res = 400 /\ enq_of res = []) \/
    (rc_forward rc = true /\ forward_status (o_fwd o) <> 0 /\ status_of res = forward_status (o_fwd o) /\ enq_of res = []) \/
    ((rc_forward rc = true -> forward_status (o_fwd o) = 0) /\
     ((exists cfg, rc_hmac rc = Some cfg /\ fst (verify cfg c now r) = false /\ status_of res = 401 /\ enq_of res = []) \/
      ((forall cfg, rc_hmac rc = Some cfg -> fst (verify cfg c now r) = true) /\
       ((o_hdr_fit o = false /\ status_of res = 413 /\ enq_of res = []) \/
        (o_hdr_fit o = true /\
         let '(ok, done) := enqueue_all (targets_of rc) (o_enq o) in
         enq_of res = done /\ status_of res = (if ok then 202 else 503)))))))).
Proof.
  unfold Ingress.serve, status_of, enq_of, targets_of. cbn zeta.
  destruct (o_rate_ok o); cbn [negb]; [|left; auto].
  right. destruct (o_backpressure o) as [st|]; [left; exists st; auto|].
  right. destruct (basic_verify (rc_basic rc) (q_headers r)); cbn [negb]; [|left; auto].
  right. split; [reflexivity|].
  destruct (Z.of_nat (length (q_body r)) >? rc_max_body rc) eqn:B; [left; apply Z.gtb_lt in B; repeat split; auto; lia|].
  right. destruct (o_body_err o); [left; auto|].
  right. destruct (rc_forward rc) eqn:F.
  - destruct (forward_status (o_fwd o) =? 0) eqn:FS; cbn [negb].
    + apply Z.eqb_eq in FS. right. split; [auto|].
      destruct (rc_hmac rc) as [cfg|].
      * destruct (verify cfg c now r) as [hok c1] eqn:V. destruct hok; cbn [negb].
        -- right. split; [intros cfg' E; inversion E; subst; rewrite V; reflexivity|].
           destruct (o_hdr_fit o); cbn [negb]; [right|left; auto]. split; [reflexivity|].
           destruct (enqueue_all _ (o_enq o)) as [ok done]. simpl. auto.
        -- left. exists cfg. rewrite V. simpl. auto.
      * right. split; [intros cfg' E; discriminate|].
        destruct (o_hdr_fit o); cbn [negb]; [right|left; auto]. split; [reflexivity|].
        destruct (enqueue_all _ (o_enq o)) as [ok done]. simpl. auto.
    + apply Z.eqb_neq in FS. left. auto.
  - rewrite Z.eqb_refl. cbn [negb]. right. split; [intros; discriminate|].
    destruct (rc_hmac rc) as [cfg|].
    + destruct (verify cfg c now r) as [hok c1] eqn:V. destruct hok; cbn [negb].
      * right. split; [intros cfg' E; inversion E; subst; rewrite V; reflexivity|].
        destruct (o_hdr_fit o); cbn [negb]; [right|left; auto]. split; [reflexivity|].
        destruct (enqueue_all _ (o_enq o)) as [ok done]. simpl. auto.
      * left. exists cfg. rewrite V. simpl. auto.
    + right. split; [intros cfg' E; discriminate|].
      destruct (o_hdr_fit o); cbn [negb]; [right|left; auto]. split; [reflexivity|].
      destruct (enqueue_all _ (o_enq o)) as [ok done]. simpl. auto.
Qed.

Lemma forward_status_zero a : forward_status a = 0 <-> exists copied, a = F2xx copied.
Proof.
  destruct a; simpl; split; try discriminate; try (intros [x H]; discriminate); eauto.
Qed.

(** oracle validity: a backpressure refusal never carries the success status
    (runtimeState.allowIngressEnqueue returns 503) *)
Definition bp_valid (o : oracle) : Prop := forall st, o_backpressure o = Some st -> st <> 202.

Lemma basic_stage rc r :
  basic_verify (rc_basic rc) (q_headers r) = true -> rc_basic rc <> [] -> basic_valid (rc_basic rc) (q_headers r).
Proof. intros H Hne. apply basic_verify_spec; assumption. Qed.

(** * Soundness: anything enqueued was authenticated by every mechanism the route declares. *)
Theorem enqueue_implies_authenticated rc c now r o :
  enq_of (serve (RRoute rc) c now r o) <> [] -> authenticated rc c now r o.
Proof.
  intros H. pose proof (serve_cases rc c now r o) as C. cbn zeta in C.
  destruct C as [(_ & _ & E)|[(st & _ & E & _)|[(_ & _ & E)|(BV & C)]]]; try congruence.
  destruct C as [(_ & _ & E)|[(_ & _ & E)|[(_ & _ & _ & E)|(FW & C)]]]; try congruence.
  destruct C as [(cfg & _ & _ & _ & E)|(HV & C)]; try congruence.
  unfold authenticated. repeat split.
  - apply basic_stage. exact BV.
  - intros F. apply forward_status_zero. auto.
  - exact HV.
Qed.

(** ... and so was every request answered 202; all its targets were enqueued. *)
Theorem accepted_implies_authenticated rc c now r o :
  bp_valid o -> status_of (serve (RRoute rc) c now r o) = 202 ->
  authenticated rc c now r o /\ enq_of (serve (RRoute rc) c now r o) = targets_of rc.
Proof.
  intros BP H. pose proof (serve_cases rc c now r o) as C. cbn zeta in C.
  destruct C as [(_ & S & _)|[(st & B & _ & S)|[(_ & S & _)|(BV & C)]]]; try (rewrite S in H; discriminate).
  { exfalso. rewrite S in H. destruct (st <=? 0); [discriminate|]. exact (BP st B H). }
  destruct C as [(_ & S & _)|[(_ & S & _)|[(_ & NZ & S & _)|(FW & C)]]]; try (rewrite S in H; discriminate).
  { exfalso. rewrite S in H. destruct (o_fwd o); simpl in H; discriminate. }
  destruct C as [(cfg & _ & _ & S & _)|(HV & C)]; try (rewrite S in H; discriminate).
  destruct C as [(_ & S & _)|(_ & C)]; try (rewrite S in H; discriminate).
  pose proof (enqueue_all_spec (targets_of rc) (o_enq o)) as ES.
  destruct (enqueue_all (targets_of rc) (o_enq o)) as [ok done]. destruct C as [E S].
  destruct ok; [|rewrite S in H; discriminate].
  split.
  - unfold authenticated. repeat split; [apply basic_stage; exact BV | intros F; apply forward_status_zero; auto | exact HV].
  - rewrite E. apply ES. reflexivity.
Qed.

(** * Fail closed: every answer other than 202 leaves the queue untouched - except the one documented
    case: all authentication passed, the store refused the k-th target of a fan-out route, the first k
    targets are already enqueued and the answer is 503. *)
Theorem fail_closed rc c now r o :
  let res := serve (RRoute rc) c now r o in
  status_of res <> 202 ->
  enq_of res = [] \/
  (status_of res = 503 /\ authenticated rc c now r o /\
   exists k, enq_of res = firstn k (targets_of rc) /\ (0 < k < length (targets_of rc))%nat /\ nth k (o_enq o) true = false).
Proof.
  intros res H. pose proof (serve_cases rc c now r o) as C. fold res in C. cbn zeta in C.
  destruct C as [(_ & _ & E)|[(st & _ & E & _)|[(_ & _ & E)|(BV & C)]]]; auto.
  destruct C as [(_ & _ & E)|[(_ & _ & E)|[(_ & _ & _ & E)|(FW & C)]]]; auto.
  destruct C as [(cfg & _ & _ & _ & E)|(HV & C)]; auto.
  destruct C as [(_ & _ & E)|(_ & C)]; auto.
  pose proof (enqueue_all_spec (targets_of rc) (o_enq o)) as ES.
  destruct (enqueue_all (targets_of rc) (o_enq o)) as [ok done]. destruct C as [E St]. destruct ES as [_ ES].
  destruct ok; [congruence|]. destruct (ES eq_refl) as (k & Ek & Lk & Nk).
  destruct k as [|k]; [left; rewrite E, Ek; reflexivity|].
  right. split; [exact St|]. split.
  - unfold authenticated. repeat split; [apply basic_stage; exact BV | intros F; apply forward_status_zero; auto | exact HV].
  - exists (S k). rewrite E. repeat split; auto; lia.
Qed.

Theorem no_route_untouched allowed c now r o :
  let res := serve (RNone allowed) c now r o in
  enq_of res = [] /\ (status_of res = 404 \/ status_of res = 405).
Proof. simpl. unfold status_of, enq_of. simpl. split; [reflexivity|]. destruct allowed; auto. Qed.

(** * Statuses of authentication failures.  [reaches_auth]: the request is not turned away earlier
    for a reason that has nothing to do with authentication (rate limit, backpressure). *)
Definition reaches_auth (o : oracle) : Prop := o_rate_ok o = true /\ o_backpressure o = None.
Definition body_ok (rc : route_cfg) (r : hreq) (o : oracle) : Prop :=
  Z.of_nat (length (q_body r)) <= rc_max_body rc /\ o_body_err o = false.

Theorem basic_failure_401 rc c now r o :
  reaches_auth o -> rc_basic rc <> [] -> ~ basic_valid (rc_basic rc) (q_headers r) ->
  status_of (serve (RRoute rc) c now r o) = 401 /\ enq_of (serve (RRoute rc) c now r o) = [].
Proof.
  intros [R1 R2] Hne NV. pose proof (serve_cases rc c now r o) as C. cbn zeta in C.
  destruct C as [(X & _)|[(st & X & _)|[(_ & S & E)|(BV & _)]]]; try congruence; auto.
  exfalso. apply NV. apply basic_stage; assumption.
Qed.

Theorem forward_failure_status rc c now r o :
  reaches_auth o -> basic_verify (rc_basic rc) (q_headers r) = true -> body_ok rc r o ->
  rc_forward rc = true -> (forall copied, o_fwd o <> F2xx copied) ->
  enq_of (serve (RRoute rc) c now r o) = [] /\
  status_of (serve (RRoute rc) c now r o) =
    match o_fwd o with F401 => 401 | F403 => 403 | _ => 503 end.
Proof.
  intros [R1 R2] BV [B1 B2] F NF. pose proof (serve_cases rc c now r o) as C. cbn zeta in C.
  destruct C as [(X & _)|[(st & X & _)|[(X & _)|(_ & C)]]]; try congruence.
  destruct C as [(X & _)|[(X & _)|[(_ & _ & S & E)|(FW & _)]]]; try congruence; try lia.
  - split; [exact E|]. rewrite S. destruct (o_fwd o); simpl; try reflexivity. exfalso. eapply NF; eauto.
  - exfalso. apply FW in F. apply forward_status_zero in F. destruct F as [x F]. eapply NF; eauto.
Qed.

Theorem hmac_failure_401 rc c now r o cfg :
  reaches_auth o -> basic_verify (rc_basic rc) (q_headers r) = true -> body_ok rc r o ->
  (rc_forward rc = true -> exists copied, o_fwd o = F2xx copied) ->
  rc_hmac rc = Some cfg -> fst (verify cfg c now r) = false ->
  status_of (serve (RRoute rc) c now r o) = 401 /\ enq_of (serve (RRoute rc) c now r o) = [].
Proof.
  intros [R1 R2] BV [B1 B2] FW HC HV. pose proof (serve_cases rc c now r o) as C. cbn zeta in C.
  destruct C as [(X & _)|[(st & X & _)|[(X & _)|(_ & C)]]]; try congruence.
  destruct C as [(X & _)|[(X & _)|[(F & NZ & _)|(_ & C)]]]; try congruence; try lia.
  - exfalso. apply NZ. apply forward_status_zero. auto.
  - destruct C as [(cfg' & _ & _ & S & E)|(HV' & _)]; [auto|].
    rewrite (HV' cfg HC) in HV. discriminate.
Qed.

(** the nonce cache is only ever touched by the HMAC stage *)
Theorem cache_only_by_hmac rc c now r o :
  rc_hmac rc = None -> snd (serve (RRoute rc) c now r o) = c.
Proof.
  intros H. unfold Ingress.serve. rewrite H.
  repeat match goal with |- context [if ?b then _ else _] => destruct b end; try reflexivity;
  try (destruct (o_backpressure o); reflexivity).
  all: destruct (o_backpressure o); try reflexivity;
       repeat match goal with |- context [if ?b then _ else _] => destruct b end; try reflexivity;
       destruct (enqueue_all _ _); reflexivity.
Qed.

End Crypto.
