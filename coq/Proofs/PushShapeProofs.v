(** The shape of PushDispatcher.runRoute as the translator reads it from the source on every run (Gen/PushShape.v) is the one
    Model/PushLoop.v was written for: lease actions are batched exactly on single-target routes, flushed when the mutation batch is
    full and once more after the loop, a message for an unconfigured target is retried after [missing_target_backoff], and the stop
    branch APPLIES THE PENDING ACTIONS before it hands the rest back and returns (fix b30c35c; the pinned tree only handed back). *)
From Coq Require Import ZArith List String Bool.
From HK Require Import Gen.PushShape Model.Queue Model.Dispatcher Model.PushLoop.
Import ListNotations.
Open Scope string_scope.

(** the stop branch settles what was already delivered, then hands the rest back *)
Definition expected_stop_branch_calls : list string := ["applyLeaseActions"; "requeueLeases"].

Lemma push_shape_understood : ps_shape_ok = true.
Proof. reflexivity. Qed.

Lemma push_shape_is_the_models :
  ps_missing_target_backoff_ns = missing_target_backoff
  /\ ps_batch_iff_single_target = true
  /\ ps_flush_when_ge_mutation_batch = true
  /\ ps_final_flush = true
  /\ ps_stop_branch_calls = expected_stop_branch_calls.
Proof. repeat split; reflexivity. Qed.
