(** Lemmas about Model/Resolve.v: first-match resolution, channel isolation,
    the 404/405 branch, and Prop-level readings of every matcher. *)
From Coq Require Import List NArith Bool Lia Arith.
From HK Require Import Model.RBytes Model.PathClean Model.PathMatch Model.HostMatch Model.Resolve
     Proofs.RBytesProofs Proofs.PathProofs Proofs.HostProofs.
Import ListNotations.
Open Scope N_scope.

(** ---- generic: [find] returns the first element satisfying the predicate *)
Lemma find_first : forall (A : Type) (f : A -> bool) (l : list A) (x : A),
  find f l = Some x <->
  exists i, nth_error l i = Some x /\ f x = true /\
            forall j y, (j < i)%nat -> nth_error l j = Some y -> f y = false.
Proof.
  intros A f l. induction l as [|a l IH]; intros x; simpl.
  - split; [discriminate|]. intros [i [H _]]. destruct i; discriminate.
  - destruct (f a) eqn:Fa.
    + split.
      * intro H. inversion H; subst. exists 0%nat. split; [reflexivity|]. split; [exact Fa|].
        intros j y Hj. lia.
      * intros [i [Hn [Hf Hb]]]. destruct i as [|i].
        -- simpl in Hn. exact Hn.
        -- exfalso. assert (f a = false) by (apply (Hb 0%nat a); [lia | reflexivity]). congruence.
    + rewrite IH. split.
      * intros [i [Hn [Hf Hb]]]. exists (S i). split; [exact Hn|]. split; [exact Hf|].
        intros j y Hj Hy. destruct j as [|j]; [simpl in Hy; inversion Hy; subst; exact Fa|].
        apply (Hb j y); [lia | exact Hy].
      * intros [i [Hn [Hf Hb]]]. destruct i as [|i].
        -- simpl in Hn. inversion Hn; subst. congruence.
        -- exists i. split; [exact Hn|]. split; [exact Hf|].
           intros j y Hj Hy. apply (Hb (S j) y); [lia | exact Hy].
Qed.

Section Proofs.
Variable parse_addr : bytes -> option ip.

Lemma resolve_first_match : forall rs q p r,
  resolve parse_addr rs q p = Some r <->
  exists i, nth_error rs i = Some r /\ criteria parse_addr q p r = true /\
            forall j r', (j < i)%nat -> nth_error rs j = Some r' -> criteria parse_addr q p r' = false.
Proof. intros. unfold resolve. apply find_first. Qed.

Lemma resolve_none : forall rs q p,
  resolve parse_addr rs q p = None <-> forall r, In r rs -> criteria parse_addr q p r = false.
Proof.
  intros rs q p. unfold resolve. split.
  - intros H r Hr. exact (find_none _ _ H r Hr).
  - intro H. destruct (find (criteria parse_addr q p) rs) eqn:E; [|reflexivity].
    apply find_some in E. destruct E as [Hi Hc]. rewrite (H r Hi) in Hc. discriminate.
Qed.

Lemma accepts_ingress_spec : forall r,
  accepts_ingress r = true <-> r_channel r <> ch_outbound /\ r_channel r <> ch_internal.
Proof.
  intro r. unfold accepts_ingress. rewrite andb_true_iff, !negb_true_iff, !beq_neq. reflexivity.
Qed.

Lemma cbm_accepts : forall q p r, criteria_but_method parse_addr q p r = true -> accepts_ingress r = true.
Proof.
  intros q p r H. unfold criteria_but_method in H.
  do 5 (apply andb_true_iff in H; destruct H as [H _]). exact H.
Qed.

Lemma criteria_accepts : forall q p r, criteria parse_addr q p r = true -> accepts_ingress r = true.
Proof.
  intros q p r H. unfold criteria in H. apply andb_true_iff in H. destruct H as [H _].
  eapply cbm_accepts. exact H.
Qed.

(** channel isolation: whatever the configuration and the request, ingress never
    hands a request to a route declared outbound or internal *)
Lemma channel_isolation : forall rs q p r,
  resolve parse_addr rs q p = Some r -> r_channel r <> ch_outbound /\ r_channel r <> ch_internal.
Proof.
  intros rs q p r H. unfold resolve in H. apply find_some in H. destruct H as [_ H].
  apply accepts_ingress_spec. eapply criteria_accepts. exact H.
Qed.

(** ---- matcher specifications *)
Lemma match_methods_spec : forall m allowed,
  match_methods m allowed = true <-> m <> [] /\ ((allowed = [] /\ m = m_post) \/ In m allowed).
Proof.
  intros m allowed. unfold match_methods. destruct (is_empty m) eqn:E.
  - apply is_empty_nil in E. split; [discriminate | intros [H _]; contradiction].
  - apply is_empty_false in E. destruct allowed as [|a t].
    + rewrite beq_eq. split.
      * intro H. split; [exact E | left; split; [reflexivity | exact H]].
      * intros [_ [[_ H] | []]]. exact H.
    + rewrite mem_In. split.
      * intro H. split; [exact E | right; exact H].
      * intros [_ [[H _] | H]]; [discriminate | exact H].
Qed.

Lemma shiftr_lxor_zero : forall a b k, N.shiftr (N.lxor a b) k = 0 <-> N.shiftr a k = N.shiftr b k.
Proof.
  intros a b k. rewrite N.shiftr_lxor. split.
  - apply N.lxor_eq.
  - intro H. rewrite H. apply N.lxor_nilpotent.
Qed.

(** an address is inside a prefix iff it has no zone, the same family, and the
    same first [p_len] bits *)
Lemma prefix_contains_spec : forall p a,
  prefix_contains p a = true <->
  ip_zone a = false /\ p_v4 p = ip_v4 a /\
  N.shiftr (ip_bits a) (width (p_v4 p) - p_len p) = N.shiftr (p_addr p) (width (p_v4 p) - p_len p).
Proof.
  intros p a. unfold prefix_contains. rewrite !andb_true_iff, negb_true_iff, eqb_true_iff, N.eqb_eq, shiftr_lxor_zero.
  tauto.
Qed.

(** an IPv4-mapped IPv6 address is compared as the IPv4 address it carries *)
Lemma unmap_mapped : forall n z, n < two32 ->
  unmap {| ip_v4 := false; ip_bits := 65535 * two32 + n; ip_zone := z |} =
  {| ip_v4 := true; ip_bits := n; ip_zone := false |}.
Proof.
  intros n z Hn. unfold unmap, is4in6. cbn [ip_v4 ip_bits negb andb].
  assert (E : N.shiftr (65535 * two32 + n) 32 = 65535).
  { rewrite N.shiftr_div_pow2. change (2 ^ 32) with two32.
    rewrite N.div_add_l by (unfold two32; lia). rewrite N.div_small by exact Hn. lia. }
  rewrite E. cbn [N.eqb Pos.eqb]. f_equal.
  rewrite N.add_comm. rewrite N.mod_add by (unfold two32; lia). apply N.mod_small. exact Hn.
Qed.

Lemma match_remote_spec : forall a allowed,
  match_remote a allowed = true <->
  allowed = [] \/ exists x p, a = Some x /\ In p allowed /\ prefix_contains p x = true.
Proof.
  intros a allowed. unfold match_remote. destruct allowed as [|p0 t].
  - split; [intros _; left; reflexivity | reflexivity].
  - destruct a as [x|].
    + rewrite existsb_exists. split.
      * intros [p [Hi Hc]]. right. exists x, p. split; [reflexivity | split; assumption].
      * intros [H | [x' [p [Hx [Hi Hc]]]]]; [discriminate|]. inversion Hx; subst. exists p. split; assumption.
    + split; [discriminate|]. intros [H | [x' [p [Hx _]]]]; discriminate.
Qed.

Lemma is_nil_false : forall (A : Type) (l : list A), negb (is_nil l) = true <-> l <> [].
Proof. intros A l. destruct l; simpl; split; intro H; congruence. Qed.

Definition header_value_ok (expected v : bytes) : Prop :=
  v = expected \/ exists part, In part (split_on 44 v) /\ trim part = expected.

Lemma header_value_matches_spec : forall e v, header_value_matches e v = true <-> header_value_ok e v.
Proof.
  intros e v. unfold header_value_matches, header_value_ok.
  rewrite orb_true_iff, beq_eq, existsb_exists. split.
  - intros [H | [part [Hi Hp]]]; [left; exact H | right; exists part; split; [exact Hi | apply beq_eq; exact Hp]].
  - intros [H | [part [Hi Hp]]]; [left; exact H | right; exists part; split; [exact Hi | apply beq_eq; exact Hp]].
Qed.

(** every required header is present and every (name, value) pair is carried by some
    value of that header, whole or as a comma-separated part; names are compared
    after canonicalisation, i.e. case-insensitively *)
Lemma match_headers_spec : forall h expected required,
  match_headers h expected required = true <->
  (forall n, In n required -> header_values n h <> []) /\
  (forall n v, In (n, v) expected -> exists x, In x (header_values n h) /\ header_value_ok v x).
Proof.
  intros h expected required. unfold match_headers.
  rewrite andb_true_iff, !forallb_forall. split.
  - intros [H1 H2]. split.
    + intros n Hn. apply is_nil_false. apply H1. exact Hn.
    + intros n v Hnv. specialize (H2 (n, v) Hnv). simpl in H2.
      apply andb_true_iff in H2. destruct H2 as [_ H2]. unfold match_header_values in H2.
      apply existsb_exists in H2. destruct H2 as [x [Hx Hm]]. exists x. split; [exact Hx|].
      apply header_value_matches_spec. exact Hm.
  - intros [H1 H2]. split.
    + intros n Hn. apply is_nil_false. apply H1. exact Hn.
    + intros [n v] Hnv. simpl. destruct (H2 n v Hnv) as [x [Hx Hm]].
      apply andb_true_iff. split.
      * apply is_nil_false. intro E. rewrite E in Hx. destruct Hx.
      * unfold match_header_values. apply existsb_exists. exists x. split; [exact Hx|].
        apply header_value_matches_spec. exact Hm.
Qed.

Lemma match_query_spec : forall q expected required,
  match_query q expected required = true <->
  (forall n, In n required -> assoc_present n q = true /\ assoc_values n q <> []) /\
  (forall n v, In (n, v) expected -> assoc_present n q = true /\ In v (assoc_values n q)).
Proof.
  intros q expected required. unfold match_query.
  rewrite andb_true_iff, !forallb_forall. split.
  - intros [H1 H2]. split.
    + intros n Hn. specialize (H1 n Hn). apply andb_true_iff in H1. destruct H1 as [Ha Hb].
      split; [exact Ha | apply is_nil_false; exact Hb].
    + intros n v Hnv. specialize (H2 (n, v) Hnv). simpl in H2. apply andb_true_iff in H2.
      destruct H2 as [Ha Hb]. split; [exact Ha | apply mem_In; exact Hb].
  - intros [H1 H2]. split.
    + intros n Hn. destruct (H1 n Hn) as [Ha Hb]. apply andb_true_iff. split; [exact Ha | apply is_nil_false; exact Hb].
    + intros [n v] Hnv. simpl. destruct (H2 n v Hnv) as [Ha Hb]. apply andb_true_iff.
      split; [exact Ha | apply mem_In; exact Hb].
Qed.

(** the criteria, read as the property text states them *)
Lemma criteria_spec : forall q p r,
  criteria parse_addr q p r = true <->
  (r_channel r <> ch_outbound /\ r_channel r <> ch_internal) /\
  match_path p (r_path r) = true /\
  match_hosts (normalize_host (q_host q)) (r_hosts r) = true /\
  match_headers (q_headers q) (r_headers r) (r_header_exists r) = true /\
  match_query (q_query q) (r_query r) (r_query_exists r) = true /\
  match_remote (parse_remote_addr parse_addr (q_remote q)) (r_remote r) = true /\
  match_methods (q_method q) (r_methods r) = true.
Proof.
  intros q p r. unfold criteria, criteria_but_method.
  rewrite !andb_true_iff, accepts_ingress_spec. tauto.
Qed.

(** ---- allowed methods *)
Lemma add_new_In : forall ms seen m, In m (add_new seen ms) <-> In m seen \/ In m ms.
Proof.
  induction ms as [|a ms IH]; intros seen m; simpl.
  - tauto.
  - destruct (mem a seen) eqn:E.
    + rewrite IH. apply mem_In in E. split; [tauto|]. intros [H | [H | H]]; [tauto | subst; tauto | tauto].
    + rewrite IH. rewrite in_app_iff. simpl. tauto.
Qed.

Lemma NoDup_snoc : forall (A : Type) (l : list A) (a : A), NoDup l -> ~ In a l -> NoDup (l ++ [a]).
Proof.
  intros A l a H Hn. induction H as [|x l Hx Hl IH]; simpl.
  - constructor; [intros [] | constructor].
  - constructor.
    + rewrite in_app_iff. simpl. intros [Hi | [He | []]]; [contradiction|]. subst. apply Hn. left. reflexivity.
    + apply IH. intro Hi. apply Hn. right. exact Hi.
Qed.

Lemma add_new_NoDup : forall ms seen, NoDup seen -> NoDup (add_new seen ms).
Proof.
  induction ms as [|a ms IH]; intros seen H; simpl; [exact H|].
  destruct (mem a seen) eqn:E; [apply IH; exact H|].
  apply IH. apply NoDup_snoc; [exact H|].
  intro Hi. apply mem_In in Hi. congruence.
Qed.

Definition am_step (q : request) (p : bytes) (seen : list bytes) (r : route) : list bytes :=
  if criteria_but_method parse_addr q p r then add_new seen (methods_of r) else seen.

Lemma allowed_fold_In : forall q p rs seen m,
  In m (fold_left (am_step q p) rs seen) <->
  In m seen \/ exists r, In r rs /\ criteria_but_method parse_addr q p r = true /\ In m (methods_of r).
Proof.
  intros q p. induction rs as [|r rs IH]; intros seen m; simpl.
  - split; [tauto | intros [H | [r [[] _]]]; exact H].
  - rewrite IH. unfold am_step. destruct (criteria_but_method parse_addr q p r) eqn:E.
    + rewrite add_new_In. split.
      * intros [[H | H] | [r' [Hi [Hc Hm]]]].
        -- left. exact H.
        -- right. exists r. split; [left; reflexivity | split; assumption].
        -- right. exists r'. split; [right; exact Hi | split; assumption].
      * intros [H | [r' [[Hr | Hi] [Hc Hm]]]].
        -- left. left. exact H.
        -- subst r'. left. right. exact Hm.
        -- right. exists r'. split; [exact Hi | split; assumption].
    + split.
      * intros [H | [r' [Hi [Hc Hm]]]]; [left; exact H|].
        right. exists r'. split; [right; exact Hi | split; assumption].
      * intros [H | [r' [[Hr | Hi] [Hc Hm]]]]; [left; exact H | subst r'; congruence |].
        right. exists r'. split; [exact Hi | split; assumption].
Qed.

Lemma allowed_methods_fold : forall rs q p,
  allowed_methods parse_addr rs q p = fold_left (am_step q p) rs [].
Proof. reflexivity. Qed.

(** Allow lists exactly the methods of the ingress-accepting routes that match on
    everything but the method, each once *)
Lemma allowed_methods_spec : forall rs q p m,
  In m (allowed_methods parse_addr rs q p) <->
  exists r, In r rs /\ criteria_but_method parse_addr q p r = true /\ In m (methods_of r).
Proof.
  intros rs q p m. rewrite allowed_methods_fold, allowed_fold_In. split.
  - intros [[] | H]. exact H.
  - intro H. right. exact H.
Qed.

Lemma allowed_fold_NoDup : forall q p rs seen, NoDup seen -> NoDup (fold_left (am_step q p) rs seen).
Proof.
  intros q p. induction rs as [|r rs IH]; intros seen H; simpl; [exact H|].
  apply IH. unfold am_step. destruct (criteria_but_method parse_addr q p r); [apply add_new_NoDup|]; exact H.
Qed.

Lemma allowed_methods_NoDup : forall rs q p, NoDup (allowed_methods parse_addr rs q p).
Proof. intros. rewrite allowed_methods_fold. apply allowed_fold_NoDup. constructor. Qed.

Lemma methods_of_nonempty : forall r, methods_of r <> [].
Proof. intro r. unfold methods_of. destruct (r_methods r); discriminate. Qed.

(** 405 instead of 404 exactly when some ingress-accepting route matches on everything but the method *)
Lemma allowed_methods_nonempty : forall rs q p,
  allowed_methods parse_addr rs q p <> [] <->
  exists r, In r rs /\ criteria_but_method parse_addr q p r = true.
Proof.
  intros rs q p. split.
  - intro H. destruct (allowed_methods parse_addr rs q p) as [|m l] eqn:E; [contradiction|].
    assert (Hm : In m (allowed_methods parse_addr rs q p)) by (rewrite E; left; reflexivity).
    apply allowed_methods_spec in Hm. destruct Hm as [r [Hi [Hc _]]]. exists r. split; assumption.
  - intros [r [Hi Hc]] E.
    destruct (methods_of r) as [|m l] eqn:Em; [exact (methods_of_nonempty r Em)|].
    assert (Hm : In m (allowed_methods parse_addr rs q p)).
    { apply allowed_methods_spec. exists r. split; [exact Hi|]. split; [exact Hc|]. rewrite Em. left. reflexivity. }
    rewrite E in Hm. destruct Hm.
Qed.

(** methods of outbound/internal routes never show up in Allow *)
Lemma allowed_methods_isolated : forall rs q p m,
  In m (allowed_methods parse_addr rs q p) ->
  exists r, In r rs /\ r_channel r <> ch_outbound /\ r_channel r <> ch_internal /\ In m (methods_of r).
Proof.
  intros rs q p m H. apply allowed_methods_spec in H. destruct H as [r [Hi [Hc Hm]]].
  exists r. split; [exact Hi|].
  apply cbm_accepts in Hc. apply accepts_ingress_spec in Hc. tauto.
Qed.

(** ---- the handler *)
Section Serve.
Variable store : Type.
Variable pipeline : route -> request -> bytes -> store -> N * store.

(** no route: 404, or 405 with the Allow list when only the method differs; the queue is untouched *)
Lemma no_match_no_effect : forall rs q st,
  resolve parse_addr rs q (ingress_request_path (q_url_path q)) = None ->
  let al := allowed_methods parse_addr rs q (ingress_request_path (q_url_path q)) in
  let '(resp, st') := ingress_serve parse_addr store pipeline rs q st in
  st' = st /\
  ((al = [] /\ rs_status resp = 404 /\ rs_allow resp = None) \/
   (al <> [] /\ rs_status resp = 405 /\ rs_allow resp = Some (join comma_space al))).
Proof.
  intros rs q st H. unfold ingress_serve. rewrite H.
  destruct (allowed_methods parse_addr rs q (ingress_request_path (q_url_path q))) as [|m l] eqn:E; simpl.
  - split; [reflexivity | left; repeat split; reflexivity].
  - split; [reflexivity | right; split; [discriminate | split; reflexivity]].
Qed.

(** a resolved request is handed to exactly the resolved route and to nothing else *)
Lemma match_dispatch : forall rs q st r,
  resolve parse_addr rs q (ingress_request_path (q_url_path q)) = Some r ->
  ingress_serve parse_addr store pipeline rs q st =
  (let '(code, st') := pipeline r q (ingress_request_path (q_url_path q)) st in
   ({| rs_status := code; rs_allow := None |}, st')).
Proof. intros rs q st r H. unfold ingress_serve. rewrite H. reflexivity. Qed.

End Serve.
End Proofs.
