(** Soundness of the overlap monitor (Model/Overlap.v) with respect to the sequential queue
    specification Model/Queue.v: a history that is linearizable never makes the monitor fire
    ([overlap_monitor_no_false_alarm]); and the monitor is not vacuous (it fires on a history in
    which two real-time ordered dequeues return one message under a live lease). *)
From Coq Require Import List ZArith NArith Bool Lia Permutation.
From HK Require Import Gen.Consts Model.Queue Model.QueueHash Model.QueueMon Model.Overlap
  Proofs.QueueBase Proofs.QueueInv Proofs.QueueInvStep Proofs.QueueStep Proofs.QueueLease
  Proofs.QueueFence Proofs.QueueTrace Proofs.QueueRedeliver.
Import ListNotations.
Open Scope Z_scope.

(** ** linearizability of a recorded history *)

(** the recorded call [k] is the model operation [x] (run with oracle [o]) and the model's answer
    [r] is what was recorded *)
Definition matches (k : call) (x : op) (o : oracle) (r : res) : Prop :=
  h_call k <= h_ret k /\ h_now k = op_now x /\
  match x with
  | Dequeue _ _ _ _ _ => h_kind k = HDeq /\ r = RItems (h_items k)
  | LeaseOp _ kd _ =>
      h_leases k = presented x /\ h_ok k = res_ok r /\
      match kd with
      | KAck => h_kind k = HAck
      | KNack _ => h_kind k = HNack
      | KDead _ => h_kind k = HDead
      | KExtend b => h_kind k = HExtend /\ h_by k = b
      end
  | LeaseBatch _ _ _ => h_kind k = HBatch /\ h_leases k = presented x
  | Manage _ MCancel ids =>
      h_kind k = HCancel /\ h_ids k = norm_ids ids [] /\
      h_ok k = match r with RCount n _ _ => 0 <? n | _ => false end
  | Manage _ _ _ => h_kind k = HRequeue \/ h_kind k = HOther
  | ManageF _ MCancel _ => h_kind k = HCancelF
  | ManageF _ _ _ => h_kind k = HRequeue \/ h_kind k = HOther
  | Enqueue _ _ | EnqueueBatch _ _ =>
      h_kind k = HEnqueue /\
      forall ies, assign_ids (enq_list x) (o_genids o) = Some ies -> incl (map fst ies) (h_ids k)
  | _ => h_kind k = HOther
  end.

Definition lstep := (call * (op * oracle))%type.

Fixpoint lin_end (fl : flavour) (c : cfg) (s : state) (l : list lstep) : state :=
  match l with
  | [] => s
  | (_, (x, o)) :: tl => lin_end fl c (fst (step fl c s x o)) tl
  end.

(** executing the calls in this order on Model/Queue.step yields the recorded results *)
Fixpoint lin_run (fl : flavour) (c : cfg) (s : state) (l : list lstep) : Prop :=
  match l with
  | [] => True
  | (k, (x, o)) :: tl => matches k x o (snd (step fl c s x o)) /\ lin_run fl c (fst (step fl c s x o)) tl
  end.

(** the order extends real time: nobody is placed after a call that was issued after he returned *)
Definition rt_ok (l : list call) : Prop := ForallOrdPairs (fun x y => ~ (h_ret y < h_call x)) l.

(** [h] is linearizable with respect to the queue specification: some total order of its calls
    extends the real-time order and, executed in that order by the model from a reachable state
    (the model state after an arbitrary earlier history [pre]), returns the recorded results; the
    dequeues' choices are arbitrary valid oracles (a dequeue step answers [RItems] only for a valid
    oracle).  Stamps come from one counter: call stamps are pairwise different. *)
Definition linearizable (fl : flavour) (c : cfg) (h : history) : Prop :=
  NoDup (map h_call h) /\
  exists (pre : list (op * oracle)) (l : list lstep),
    Permutation h (map fst l) /\ rt_ok (map fst l) /\ lin_run fl c (snd (run fl c init pre)) l.

(** ** executing a linearization *)
Lemma lin_end_app fl c s l1 l2 : lin_end fl c s (l1 ++ l2) = lin_end fl c (lin_end fl c s l1) l2.
Proof. revert s. induction l1 as [|[k [x o]] tl IH]; intros s; simpl; [reflexivity | apply IH]. Qed.

Lemma lin_run_app fl c s l1 l2 :
  lin_run fl c s (l1 ++ l2) <-> lin_run fl c s l1 /\ lin_run fl c (lin_end fl c s l1) l2.
Proof.
  revert s. induction l1 as [|[k [x o]] tl IH]; intros s; simpl; [tauto|].
  rewrite IH. tauto.
Qed.

Lemma lin_end_inv fl c s l : InvI s -> InvI (lin_end fl c s l).
Proof.
  revert s. induction l as [|[k [x o]] tl IH]; intros s I; simpl; [exact I|].
  apply IH. apply step_invI. exact I.
Qed.

(** ** one step, seen from one message that holds the lease [L] *)
Definition ends_lease (x : op) (r : res) (i L : N) (until : Z) : Prop :=
  (until <= op_now x /\ releases x = true)
  \/ (In L (presented x) /\ res_ok r = true /\ exists k, lease_op_kind x = Some k /\ is_extend k = false)
  \/ (exists now idl, x = Manage now MCancel idl /\ In i (norm_ids idl [])
                      /\ exists n mt p, r = RCount n mt p /\ 0 < n)
  \/ (exists now f, x = ManageF now MCancel f).

Lemma leased_of_lease s m L : Inv s -> In m (msgs s) -> m_lease m = Some L -> is_leased m = true.
Proof.
  intros I Hm E. pose proof (inv_coh _ _ I m Hm) as Cc. unfold coherent in Cc. rewrite E in Cc.
  unfold is_leased. destruct (m_st m); simpl; try discriminate; reflexivity.
Qed.

Lemma selected_count k nids l m :
  In m l -> memN (m_id m) nids = true -> allowed_from k (m_st m) = true ->
  0 < Z.of_nat (length (selected k nids l)).
Proof.
  intros Hm A B. unfold selected.
  assert (Hin : In m (filter (fun m0 => memN (m_id m0) nids && allowed_from k (m_st m0)) l)).
  { apply filter_In. split; [exact Hm | rewrite A, B; reflexivity]. }
  destruct (filter _ l); [destruct Hin | simpl; lia].
Qed.

Lemma step_manage_fate now k idl s i m L :
  Inv s -> find_id i (msgs s) = Some m -> m_lease m = Some L ->
  let sr := step_manage now k idl s in
  find_id i (msgs (fst sr)) = Some m
  \/ (k = MCancel /\ In i (norm_ids idl []) /\ exists n mt p, snd sr = RCount n mt p /\ 0 < n).
Proof.
  intros I F E. cbv zeta. unfold step_manage. cbn [fst snd msgs set_msgs].
  pose proof (find_id_Some _ _ _ F) as [Hm Ei].
  pose proof (leased_of_lease s m L I Hm E) as Il.
  rewrite find_id_apply_pm; [|apply imm_pres_id_pres; apply pm_manage_imm | apply I].
  rewrite F. unfold pm_manage. rewrite Ei.
  destruct (memN i (norm_ids idl [])) eqn:Mi; [|left; reflexivity].
  unfold is_leased in Il. destruct (m_st m) eqn:Es; simpl in Il; try discriminate.
  destruct k; simpl; try (left; reflexivity).
  right. split; [reflexivity|]. split; [apply memN_In; exact Mi|].
  eexists. eexists. eexists. split; [reflexivity|].
  apply (selected_count MCancel (norm_ids idl []) (msgs s) m Hm); [rewrite Ei; exact Mi | rewrite Es; reflexivity].
Qed.

Lemma step_lease_fate fl c s x o s' r i m L :
  Inv s -> step fl c s x o = (s', r) -> find_id i (msgs s) = Some m -> m_lease m = Some L ->
  (exists m', find_id i (msgs s') = Some m' /\ m_lease m' = Some L /\ m_until m <= m_until m')
  \/ ends_lease x r i L (m_until m).
Proof.
  intros I H F E.
  pose proof (find_id_Some _ _ _ F) as [Hm Ei].
  pose proof (leased_of_lease s m L I Hm E) as Il.
  (* operator mutations by id: computed directly (the [change] relation does not say which ids were named) *)
  destruct (match x with Manage _ _ _ => true | _ => false end) eqn:IsM.
  { destruct x as [| | | | |now k idl| | | | | |]; try discriminate. cbn [step] in H.
    destruct (step_manage_fate now k idl s i m L I F E) as [K | [Ek [Hin [n [mt [p [Er Hn]]]]]]]; rewrite H in *; cbn [fst snd] in *.
    - left. exists m. split; [exact K|]. split; [exact E | lia].
    - right. right. right. left. subst k. exists now, idl. split; [reflexivity|]. split; [exact Hin|].
      exists n, mt, p. split; assumption. }
  pose proof (step_sound fl c s x o s' r I H) as SS.
  assert (I' : Inv s') by (pose proof (step_inv fl c s x o I) as Q; rewrite H in Q; exact Q).
  destruct (spec_fate c x o r (msgs s) (msgs s') m (inv_nodup _ _ I) SS Hm) as [[m' [Hm' Ch]] | Rm].
  - assert (Fi : find_id i (msgs s') = Some m').
    { pose proof (change_same_imm c x r m m' Ch) as [Eid _]. rewrite <- Ei, Eid.
      apply find_id_In_NoDup; [apply I' | exact Hm']. }
    destruct Ch as [Es | Hr He Es | route target b ttl lid m0 Ex H0 Hrd _ Es | k lid Hk Hp Hl _ Hu Hok Hne Es | k Hk Ha Hok Es].
    + subst m'. left. exists m. split; [exact Fi|]. split; [exact E | lia].
    + right. left. unfold expired in He. apply andb_true_iff in He. destruct He as [_ He]. apply Z.leb_le in He.
      split; assumption.
    + destruct H0 as [H0 | [He H0]]; subst m0.
      * unfold ready, queuedb in Hrd. rewrite !andb_true_iff in Hrd. destruct Hrd as [[[Hq _] _] _].
        unfold is_leased in Il. destruct (m_st m); discriminate.
      * right. left. unfold expired in He. apply andb_true_iff in He. destruct He as [_ He]. apply Z.leb_le in He.
        split; [exact He | rewrite Ex; reflexivity].
    + assert (lid = L) by congruence. subst lid.
      destruct k as [| d | by_ | rs].
      * right. right. left. split; [exact Hp|]. split; [exact Hok|]. exists KAck. split; [exact Hk | reflexivity].
      * right. right. left. split; [exact Hp|]. split; [exact Hok|]. exists (KNack d). split; [exact Hk | reflexivity].
      * left. exists m'. split; [exact Fi|]. unfold lease_effect in Es. inversion Es; subst m'. simpl.
        split; [exact E|]. unfold is_noop_extend in Hne. apply Z.leb_gt in Hne. lia.
      * right. right. left. split; [exact Hp|]. split; [exact Hok|]. exists (KDead rs). split; [exact Hk | reflexivity].
    + (* by-filter operator mutation (by-id ones were handled above) *)
      unfold is_leased in Il. destruct (m_st m) eqn:Est; simpl in Il; try discriminate.
      destruct k; simpl in Ha; try discriminate.
      destruct x; simpl in Hk; try discriminate.
      right. right. right. right. destruct (f_preview f); [discriminate|]. inversion Hk; subst. exists now, f. reflexivity.
  - destruct Rm as [lid Hk Hp Hl _ Hu Hok _ | _ Hd _ | _ [Hn _] | _ _ _ Hq].
    + assert (lid = L) by congruence. subst lid.
      right. right. left. split; [exact Hp|]. split; [exact Hok|]. exists KAck. split; [exact Hk | reflexivity].
    + unfold is_leased in Il. rewrite Hd in Il. discriminate.
    + congruence.
    + unfold queuedb in Hq. unfold is_leased in Il. destruct (m_st m); discriminate.
Qed.

(** a successful positive extend of [L] adds exactly its amount *)
Lemma step_extend_exact fl c s now by_ p o s' r i m L :
  Inv s -> step fl c s (LeaseOp now (KExtend by_) (LKnown L p)) o = (s', r) -> res_ok r = true -> 0 < by_ ->
  find_id i (msgs s) = Some m -> m_lease m = Some L ->
  exists m', find_id i (msgs s') = Some m' /\ m_lease m' = Some L /\ m_until m' = m_until m + by_.
Proof.
  intros I H Hok Hby F E. cbn [step] in H.
  assert (Hn : is_noop_extend (KExtend by_) = false) by (unfold is_noop_extend; apply Z.leb_gt; exact Hby).
  destruct (lease_op_fenced fl c now (KExtend by_) L p s s' r I Hn H) as [pm [El Hc]].
  pose proof (find_id_Some _ _ _ F) as [Hm Ei].
  destruct (current now L (msgs s)) as [mc|] eqn:Ec.
  - destruct Hc as [_ [Hpm Hoth]].
    apply current_spec in Ec. destruct Ec as [Hmc [Lmc _]].
    assert (mc = m) by (apply (inv_linj _ _ I mc m L); assumption). subst mc.
    rewrite El. rewrite find_id_apply_pm_on.
    + rewrite F, Hpm. unfold lease_effect. eexists. split; [reflexivity|]. simpl. split; [exact E | reflexivity].
    + intros y y' Hy Ey. destruct (N.eq_dec (m_id y) (m_id m)) as [Eq | Ne0].
      2:{ assert (Ne : y <> m) by (intros Q; subst y; apply Ne0; reflexivity).
          rewrite (Hoth y Hy Ne) in Ey. inversion Ey. reflexivity. }
      assert (y = m) by (apply (nodup_ids_inj (msgs s)); [apply I | exact Hy | exact Hm | exact Eq]).
      subst y. rewrite Hpm in Ey. unfold lease_effect in Ey. inversion Ey. reflexivity.
    + apply I.
  - destruct Hc as [[Er | Er] _]; subst r; discriminate.
Qed.

(** ** reading a recorded call back from the operation it matches *)
Lemma inN_In x l : inN x l = true <-> In x l.
Proof.
  unfold inN. rewrite existsb_exists. split.
  - intros [y [Hy E]]. apply N.eqb_eq in E. subst. exact Hy.
  - intros H. exists x. split; [exact H | apply N.eqb_refl].
Qed.

Lemma matches_deq k x o r :
  h_kind k = HDeq -> matches k x o r ->
  exists route target b ttl, x = Dequeue (h_now k) route target b ttl /\ r = RItems (h_items k).
Proof.
  intros Hk [_ [Hn M]].
  destruct x as [now e|now es|now route target batch ttl|now kd lr|now kd ls|now mk idl|now mk f|now f ord|now route limit before|now idl|now|now];
    cbn [op_now] in Hn.
  3:{ destruct M as [_ Er]. exists route, target, batch, ttl. rewrite Hn. split; [reflexivity | exact Er]. }
  all: exfalso.
  - destruct M as [M _]; congruence.
  - destruct M as [M _]; congruence.
  - destruct M as [_ [_ M]]. destruct kd; [| | destruct M as [M _] |]; congruence.
  - destruct M as [M _]; congruence.
  - destruct mk; [destruct M as [M _] | destruct M | destruct M | destruct M | destruct M]; congruence.
  - destruct mk; [| destruct M | destruct M | destruct M | destruct M]; congruence.
  - congruence.
  - congruence.
  - congruence.
  - congruence.
  - congruence.
Qed.

Lemma matches_good_extend L k x o r :
  is_good_extend L k = true -> matches k x o r ->
  exists p, x = LeaseOp (h_now k) (KExtend (h_by k)) (LKnown L p) /\ res_ok r = true /\ 0 < h_by k.
Proof.
  unfold is_good_extend. intros G [_ [Hn M]].
  destruct (hkind_eqb (h_kind k) HExtend) eqn:Ek; [|discriminate].
  destruct (h_ok k) eqn:Eok; [|discriminate].
  destruct (0 <? h_by k) eqn:Eby; [|discriminate]. apply Z.ltb_lt in Eby. apply inN_In in G.
  assert (Hk : h_kind k = HExtend) by (destruct (h_kind k); simpl in Ek; try discriminate; reflexivity).
  destruct x as [now e|now es|now route target batch ttl|now kd lr|now kd ls|now mk idl|now mk f|now f ord|now route limit before|now idl|now|now];
    cbn [op_now] in Hn.
  4:{ destruct M as [Hl [Ho M]]. destruct kd as [| d | b | rs]; try congruence.
      destruct M as [_ Eb]. rewrite Hl in G. cbn [presented] in G.
      destruct lr as [l0 p0| |]; simpl in G; try contradiction. destruct G as [G | []]. subst l0.
      exists p0. rewrite Hn, Eb. split; [reflexivity|]. split; [congruence | rewrite <- Eb; exact Eby]. }
  all: exfalso.
  - destruct M as [M _]; congruence.
  - destruct M as [M _]; congruence.
  - destruct M as [M _]; congruence.
  - destruct M as [M _]; congruence.
  - destruct mk; [destruct M as [M _] | destruct M | destruct M | destruct M | destruct M]; congruence.
  - destruct mk; [| destruct M | destruct M | destruct M | destruct M]; congruence.
  - congruence.
  - congruence.
  - congruence.
  - congruence.
  - congruence.
Qed.

(** what the record of a lease-ending step looks like *)
Lemma matches_ends k x o r i L u :
  matches k x o r -> ends_lease x r i L u ->
  (notices_expiry (h_kind k) = true /\ u <= h_now k)
  \/ (settles_one (h_kind k) = true /\ h_ok k = true /\ inN L (h_leases k) = true)
  \/ (h_kind k = HBatch /\ inN L (h_leases k) = true)
  \/ (h_kind k = HCancel /\ h_ok k = true /\ inN i (h_ids k) = true)
  \/ h_kind k = HCancelF.
Proof.
  intros [_ [Hn M]] [[Hu Hr] | [[Hp [Hok [kd [Hk Hne]]]] | [[now [idl [Ex [Hin [n [mt [p [Er Hpos]]]]]]]] | [now [f Ex]]]]].
  - left. rewrite Hn. split; [|exact Hu].
    destruct x; simpl in Hr; try discriminate.
    + destruct M as [M _]. rewrite M. reflexivity.
    + destruct M as [_ [_ M]]. destruct k0; [| | destruct M as [M _] |]; rewrite M; reflexivity.
    + destruct M as [M _]. rewrite M. reflexivity.
  - destruct x; simpl in Hk; try discriminate.
    + right. left. destruct M as [Hl [Ho M]]. inversion Hk; subst kd.
      split; [destruct k0; [| | discriminate |]; rewrite M; reflexivity|].
      split; [congruence|]. apply inN_In. rewrite Hl. exact Hp.
    + right. right. left. destruct M as [M Hl]. split; [exact M|]. apply inN_In. rewrite Hl. exact Hp.
  - right. right. right. left. subst x. destruct M as [Mk [Mi Mo]]. split; [exact Mk|].
    split; [rewrite Mo, Er; apply Z.ltb_lt; exact Hpos|]. apply inN_In. rewrite Mi. exact Hin.
  - right. right. right. right. subst x. exact M.
Qed.

(** ** following the lease through a linearization segment *)
Definition extsum (L : N) (cs : list call) : Z := zsum (fun e => if is_good_extend L e then h_by e else 0) cs.

Lemma track fl c i L : forall l s m,
  Inv s -> lin_run fl c s l -> find_id i (msgs s) = Some m -> m_lease m = Some L ->
  (exists m', find_id i (msgs (lin_end fl c s l)) = Some m' /\ m_lease m' = Some L
              /\ m_until m + extsum L (map fst l) <= m_until m')
  \/ (exists l1 k x o l2 m1,
        l = l1 ++ (k, (x, o)) :: l2
        /\ find_id i (msgs (lin_end fl c s l1)) = Some m1 /\ m_lease m1 = Some L
        /\ m_until m + extsum L (map fst l1) <= m_until m1
        /\ matches k x o (snd (step fl c (lin_end fl c s l1) x o))
        /\ ends_lease x (snd (step fl c (lin_end fl c s l1) x o)) i L (m_until m1)).
Proof.
  induction l as [|[k [x o]] tl IH]; intros s m I R F E.
  - left. exists m. simpl. split; [exact F|]. split; [exact E | unfold extsum; simpl; lia].
  - cbn [lin_run] in R. destruct R as [M R].
    destruct (step fl c s x o) as [s' r] eqn:Es. cbn [fst snd] in M, R.
    assert (I' : Inv s') by (pose proof (step_inv fl c s x o I) as Q; rewrite Es in Q; exact Q).
    destruct (step_lease_fate fl c s x o s' r i m L I Es F E) as [[m' [F' [E' Hu]]] | Hend].
    + (* the lease is kept; a good extend adds its amount *)
      assert (Hinc : m_until m + (if is_good_extend L k then h_by k else 0) <= m_until m').
      { destruct (is_good_extend L k) eqn:G; [|lia].
        destruct (matches_good_extend L k x o r G M) as [p [Ex [Hok Hby]]]. subst x.
        destruct (step_extend_exact fl c s _ _ p o s' r i m L I Es Hok Hby F E) as [m2 [F2 [_ U2]]].
        rewrite F' in F2. inversion F2; subst m2. lia. }
      destruct (IH s' m' I' R F' E') as [[m2 [F2 [E2 U2]]] | [l1 [k1 [x1 [o1 [l2 [m1 [El [F1 [E1 [U1 [M1 H1]]]]]]]]]]]].
      * left. exists m2. cbn [lin_end]. rewrite Es. cbn [fst]. split; [exact F2|]. split; [exact E2|].
        unfold extsum in *. cbn [map fst zsum fold_right]. fold (zsum (fun e => if is_good_extend L e then h_by e else 0) (map fst tl)). lia.
      * right. exists ((k, (x, o)) :: l1), k1, x1, o1, l2, m1. cbn [lin_end]. rewrite Es. cbn [fst].
        split; [rewrite El; reflexivity|]. split; [exact F1|]. split; [exact E1|].
        split; [|split; assumption].
        unfold extsum in *. cbn [map fst zsum fold_right]. fold (zsum (fun e => if is_good_extend L e then h_by e else 0) (map fst l1)). lia.
    + right. exists [], k, x, o, tl, m. cbn [lin_end app]. rewrite Es. cbn [snd].
      split; [reflexivity|]. split; [exact F|]. split; [exact E|]. split; [unfold extsum; simpl; lia|]. split; assumption.
Qed.

(** ** sums over histories *)
Lemma zsum_app f a b : zsum f (a ++ b) = zsum f a + zsum f b.
Proof. unfold zsum. induction a as [|x tl IH]; simpl; [reflexivity | rewrite IH; lia]. Qed.

Lemma zsum_perm f l l' : Permutation l l' -> zsum f l = zsum f l'.
Proof. unfold zsum. induction 1; simpl; lia. Qed.

Lemma zsum_zero f l : (forall e, In e l -> f e = 0) -> zsum f l = 0.
Proof.
  unfold zsum. induction l as [|x tl IH]; simpl; intros H; [reflexivity|].
  rewrite (H x (or_introl eq_refl)), IH; [reflexivity|]. intros e He. apply H. right. exact He.
Qed.

Lemma zsum_le f g l : (forall e, In e l -> f e <= g e) -> zsum f l <= zsum g l.
Proof.
  unfold zsum. induction l as [|x tl IH]; simpl; intros H; [lia|].
  pose proof (H x (or_introl eq_refl)). assert (forall e, In e tl -> f e <= g e) by (intros; apply H; right; assumption).
  specialize (IH H1). lia.
Qed.

Lemma zsum_filter f p l : (forall e, In e l -> p e = false -> f e = 0) -> zsum f (filter p l) = zsum f l.
Proof.
  unfold zsum. induction l as [|x tl IH]; simpl; intros H; [reflexivity|].
  assert (Ht : forall e, In e tl -> p e = false -> f e = 0) by (intros; apply H; [right|]; assumption).
  destruct (p x) eqn:Ep; simpl; rewrite (IH Ht); [reflexivity|]. rewrite (H x (or_introl eq_refl) Ep). reflexivity.
Qed.

Lemma ext_counts_good L a x e : ext_counts L a x e = true -> is_good_extend L e = true.
Proof. unfold ext_counts. destruct (is_good_extend L e); [reflexivity | discriminate]. Qed.

Lemma good_extend_pos L e : is_good_extend L e = true -> 0 < h_by e.
Proof.
  unfold is_good_extend. destruct (hkind_eqb _ _); [|discriminate]. destruct (h_ok e); [|discriminate].
  destruct (0 <? h_by e) eqn:E; [|discriminate]. intros _. apply Z.ltb_lt. exact E.
Qed.

Lemma ext_total_filter h L a x : ext_total (filter (is_good_extend L) h) L a x = ext_total h L a x.
Proof.
  unfold ext_total. apply zsum_filter. intros e _ Hp.
  destruct (ext_counts L a x e) eqn:Ec; [|reflexivity]. apply ext_counts_good in Ec. congruence.
Qed.

(** ** the real-time order *)
Lemma rt_split (l1 : list call) x l2 :
  rt_ok (l1 ++ x :: l2) ->
  (forall y, In y l1 -> ~ (h_ret x < h_call y)) /\ (forall y, In y l2 -> ~ (h_ret y < h_call x)) /\ rt_ok l2.
Proof.
  unfold rt_ok. induction l1 as [|z tl IH]; simpl; intros H.
  - inversion H as [|? ? Hx Htl]; subst. split; [intros y []|]. split; [|exact Htl].
    intros y Hy. rewrite Forall_forall in Hx. apply Hx. exact Hy.
  - inversion H as [|? ? Hz Htl]; subst. destruct (IH Htl) as [A [B Cc]]. split; [|split; assumption].
    intros y [Ey | Hy]; [subst y|apply A; exact Hy].
    rewrite Forall_forall in Hz. apply Hz. apply in_or_app. right. left. reflexivity.
Qed.

Lemma lin_run_wf fl c : forall l s, lin_run fl c s l -> forall k, In k (map fst l) -> h_call k <= h_ret k.
Proof.
  induction l as [|[k0 [x o]] tl IH]; intros s R k Hk; [destruct Hk|].
  cbn [lin_run] in R. destruct R as [M R]. destruct Hk as [Ek | Hk].
  - simpl in Ek. subst k0. destruct M as [W _]. exact W.
  - apply (IH _ R k Hk).
Qed.

(** the extends that the monitor counts for [x] all lie between [a] and [x] in the linearization *)
Lemma ext_total_bound L c1 a mid x post :
  rt_ok (c1 ++ a :: mid ++ x :: post) -> h_call a <= h_ret a -> h_call x <= h_ret x ->
  ext_total (c1 ++ a :: mid ++ x :: post) L a x <= extsum L mid.
Proof.
  intros RT Wa Wx.
  destruct (rt_split c1 a (mid ++ x :: post) RT) as [B1 [_ RT2]].
  destruct (rt_split mid x post RT2) as [_ [B2 _]].
  unfold ext_total, extsum.
  set (f := fun e => if ext_counts L a x e then h_by e else 0).
  replace (c1 ++ a :: mid ++ x :: post) with (c1 ++ [a] ++ mid ++ [x] ++ post) by reflexivity.
  rewrite !zsum_app.
  assert (Z1 : zsum f c1 = 0).
  { apply zsum_zero. intros e He. unfold f, ext_counts. destruct (is_good_extend L e); [|reflexivity].
    assert (Hb : hb a e = false) by (unfold hb; apply Z.ltb_ge; specialize (B1 e He); lia). rewrite Hb. reflexivity. }
  assert (Z2 : zsum f [a] = 0).
  { unfold zsum, f, ext_counts. simpl. destruct (is_good_extend L a); [|reflexivity].
    assert (Hb : hb a a = false) by (unfold hb; apply Z.ltb_ge; lia). rewrite Hb. reflexivity. }
  assert (Z3 : zsum f [x] = 0).
  { unfold zsum, f, ext_counts. simpl. destruct (is_good_extend L x); [|reflexivity].
    assert (Hb : hb x x = false) by (unfold hb; apply Z.ltb_ge; lia). rewrite Hb. destruct (hb a x); reflexivity. }
  assert (Z4 : zsum f post = 0).
  { apply zsum_zero. intros e He. unfold f, ext_counts. destruct (is_good_extend L e); [|reflexivity].
    assert (Hb : hb e x = false) by (unfold hb; apply Z.ltb_ge; specialize (B2 e He); lia). rewrite Hb.
    destruct (hb a e); reflexivity. }
  rewrite Z1, Z2, Z3, Z4.
  assert (zsum f mid <= zsum (fun e => if is_good_extend L e then h_by e else 0) mid).
  { apply zsum_le. intros e _. unfold f. destruct (ext_counts L a x e) eqn:Ec.
    - rewrite (ext_counts_good _ _ _ _ Ec). lia.
    - destruct (is_good_extend L e) eqn:G; [apply good_extend_pos in G|]; lia. }
  lia.
Qed.

(** splitting a list of linearization steps along a split of its calls *)
Lemma map_fst_split (l : list lstep) c1 a c2 :
  map fst l = c1 ++ a :: c2 -> exists l1 xo l2, l = l1 ++ (a, xo) :: l2 /\ map fst l1 = c1 /\ map fst l2 = c2.
Proof.
  revert c1. induction l as [|[k xo] tl IH]; intros c1 H.
  - destruct c1; discriminate.
  - destruct c1 as [|z c1']; simpl in H.
    + inversion H; subst. exists [], xo, tl. repeat split; reflexivity.
    + inversion H; subst. destruct (IH c1' H2) as [l1 [xo' [l2 [El [E1 E2]]]]].
      exists ((z, xo) :: l1), xo', l2. subst tl. simpl. rewrite E1. split; [reflexivity|]. split; [reflexivity | exact E2].
Qed.

(** ** the core: no double lease in a linearizable history *)
Lemma returns_spec m b : returns m b = true -> h_kind b = HDeq /\ In m (map it_id (h_items b)).
Proof.
  unfold returns. destruct (hkind_eqb (h_kind b) HDeq) eqn:E; [|discriminate]. intros H. apply inN_In in H.
  split; [destruct (h_kind b); simpl in E; try discriminate; reflexivity | exact H].
Qed.

Lemma release_capable_expiry exts m L un a r :
  notices_expiry (h_kind r) = true -> lease_end exts L un a r <= h_now r -> release_capable exts m L un a r = true.
Proof.
  intros Hk Hu. apply Z.leb_le in Hu. unfold release_capable.
  destruct (h_kind r); simpl in Hk; try discriminate; try exact Hu.
  - destruct (if h_ok r then inN L (h_leases r) else false); [reflexivity | exact Hu].
  - destruct (if h_ok r then inN L (h_leases r) else false); [reflexivity | exact Hu].
  - destruct (if h_ok r then inN L (h_leases r) else false); [reflexivity | exact Hu].
  - destruct (inN L (h_leases r)); [reflexivity | exact Hu].
Qed.

Lemma double_lease_impossible fl c (l : list lstep) s0 a b m L att un :
  Inv s0 -> rt_ok (map fst l) -> lin_run fl c s0 l ->
  In a (map fst l) -> In b (map fst l) ->
  h_kind a = HDeq -> In (m, L, att, un) (h_items a) ->
  returns m b = true -> hb a b = true ->
  h_now b < lease_end (map fst l) L un a b ->
  exists r, In r (map fst l) /\ may_be_between a b r = true /\ release_capable (map fst l) m L un a r = true.
Proof.
  intros I0 RT R Ha Hb Ka Hit Rb Hab Live.
  destruct (returns_spec m b Rb) as [Kb Hmb].
  pose proof (lin_run_wf fl c l s0 R) as WF.
  assert (Wa : h_call a <= h_ret a) by (apply WF; exact Ha).
  assert (Wb : h_call b <= h_ret b) by (apply WF; exact Hb).
  unfold hb in Hab. apply Z.ltb_lt in Hab.
  (* positions: a strictly before b *)
  destruct (in_split a (map fst l) Ha) as [c1 [c2 Ec]].
  assert (Hb2 : In b c2).
  { rewrite Ec in Hb. apply in_app_or in Hb. destruct Hb as [Hb | [Hb | Hb]]; [| |exact Hb].
    - exfalso. rewrite Ec in RT. destruct (rt_split c1 a c2 RT) as [B1 _]. apply (B1 b Hb). exact Hab.
    - exfalso. subst b. lia. }
  destruct (in_split b c2 Hb2) as [mid [post Ec2]]. subst c2.
  destruct (map_fst_split l c1 a (mid ++ b :: post) Ec) as [l1 [[xa oa] [l2' [El [E1 E2]]]]].
  destruct (map_fst_split l2' mid b post E2) as [lmid [[xb ob] [lpost [El2 [Emid Epost]]]]].
  subst l2'. subst l.
  apply lin_run_app in R. destruct R as [_ R].
  set (sA := lin_end fl c s0 l1) in *.
  assert (IA : Inv sA).
  { unfold sA. clear -I0. revert s0 I0. induction l1 as [|[k [x o]] tl IH]; intros s0 I0; simpl; [exact I0|].
    apply IH. apply step_inv. exact I0. }
  cbn [lin_run] in R. destruct R as [MA R].
  destruct (step fl c sA xa oa) as [sA' rA] eqn:EsA. cbn [fst snd] in MA, R.
  assert (IA' : Inv sA') by (pose proof (step_inv fl c sA xa oa IA) as Q; rewrite EsA in Q; exact Q).
  apply lin_run_app in R. destruct R as [Rmid R].
  cbn [lin_run] in R. destruct R as [MB _].
  (* dequeue a leased m under L until un *)
  destruct (matches_deq a xa oa rA Ka MA) as [ra [ta [ba [ttla [Exa ErA]]]]]. subst xa rA.
  cbn [step] in EsA.
  destruct (dequeue_sound fl c (h_now a) ra ta ba ttla oa sA sA' (h_items a) IA EsA) as [_ [_ [_ HallA]]].
  destruct (HallA m L att un Hit) as [m0 [_ [_ [FA [_ [Eun _]]]]]].
  set (mA := leased_version (h_now a) (eff_ttl ttla) L m0) in *.
  assert (LA : m_lease mA = Some L) by reflexivity.
  assert (UA : m_until mA = un) by (rewrite Eun; reflexivity).
  (* follow the lease through the calls linearized between a and b *)
  destruct (track fl c m L lmid sA' mA IA' Rmid FA LA) as
      [[m' [FB [LB UB]]] | [la [r [xr [or [lb [m1 [Elm [F1 [L1 [U1 [Mr Hend]]]]]]]]]]]].
  - (* still leased under L when b runs: b cannot have returned m *)
    exfalso.
    set (sB := lin_end fl c sA' lmid) in *.
    assert (IB : Inv sB).
    { unfold sB. clear -IA'. revert sA' IA'. induction lmid as [|[k [x o]] tl IH]; intros s I; simpl; [exact I|].
      apply IH. apply step_inv. exact I. }
    destruct (step fl c sB xb ob) as [sB' rB] eqn:EsB. cbn [snd] in MB.
    destruct (matches_deq b xb ob rB Kb MB) as [rb [tb [bb [ttlb [Exb ErB]]]]]. subst xb rB.
    cbn [step] in EsB.
    pose proof (find_id_Some _ _ _ FB) as [HmB EiB].
    assert (Hun : unavailable (h_now b) m' = false).
    { destruct (unavailable (h_now b) m') eqn:Eu; [|reflexivity]. exfalso.
      apply (dequeue_never_returns_unavailable fl c (h_now b) rb tb bb ttlb ob sB sB' (h_items b) m' IB EsB HmB Eu).
      rewrite EiB. exact Hmb. }
    pose proof (leased_of_lease sB m' L IB HmB LB) as IlB.
    unfold unavailable in Hun. unfold is_leased in IlB. destruct (m_st m'); simpl in IlB; try discriminate.
    apply Z.ltb_ge in Hun.
    rewrite <- Emid in *.
    assert (Hbd : ext_total (map fst (l1 ++ (a, (Dequeue (h_now a) ra ta ba ttla, oa)) :: lmid ++ (b, (Dequeue (h_now b) rb tb bb ttlb, ob)) :: lpost)) L a b
                  <= extsum L (map fst lmid)).
    { rewrite Ec. rewrite Ec in RT. apply ext_total_bound; assumption. }
    unfold lease_end in Live. lia.
  - (* the lease ended at the call r *)
    subst lmid. rewrite map_app in Emid. cbn [map fst] in Emid.
    set (ma := map fst la) in *. set (mb := map fst lb) in *.
    assert (Ecalls : map fst (l1 ++ (a, (Dequeue (h_now a) ra ta ba ttla, oa)) :: (la ++ (r, (xr, or)) :: lb) ++ (b, (xb, ob)) :: lpost)
                     = c1 ++ a :: ma ++ r :: (mb ++ b :: post)).
    { rewrite Ec, <- Emid. rewrite <- app_assoc. reflexivity. }
    rewrite Ecalls in *.
    assert (Ecalls2 : c1 ++ a :: ma ++ r :: (mb ++ b :: post) = (c1 ++ a :: ma) ++ r :: (mb ++ b :: post)).
    { rewrite <- app_assoc. reflexivity. }
    exists r. split; [apply in_or_app; right; right; apply in_or_app; right; left; reflexivity|].
    destruct (rt_split c1 a (ma ++ r :: (mb ++ b :: post)) RT) as [_ [Aft _]].
    assert (RT2 := RT). rewrite Ecalls2 in RT2.
    destruct (rt_split (c1 ++ a :: ma) r (mb ++ b :: post) RT2) as [_ [Aft2 _]].
    assert (Wr : h_call r <= h_ret r) by (destruct Mr as [W _]; exact W).
    split.
    + unfold may_be_between, hb.
      assert (H1 : (h_ret r <? h_call a) = false).
      { apply Z.ltb_ge. assert (Q : ~ h_ret r < h_call a) by (apply Aft; apply in_or_app; right; left; reflexivity). lia. }
      assert (H2 : (h_ret b <? h_call r) = false).
      { apply Z.ltb_ge. assert (Q : ~ h_ret b < h_call r) by (apply Aft2; apply in_or_app; right; left; reflexivity). lia. }
      rewrite H1, H2. reflexivity.
    + assert (Hbd : ext_total (c1 ++ a :: ma ++ r :: (mb ++ b :: post)) L a r <= extsum L ma)
        by (apply ext_total_bound; assumption).
      destruct (matches_ends r xr or _ m L (m_until m1) Mr Hend) as [[Hk Hu] | [[Hk [Hok Hl]] | [[Hk Hl] | [[Hk [Hok Hi]] | Hk]]]].
      * apply release_capable_expiry; [exact Hk|]. unfold lease_end. unfold ma in *. lia.
      * unfold release_capable. destruct (h_kind r); simpl in Hk; try discriminate; rewrite Hok, Hl; reflexivity.
      * unfold release_capable. rewrite Hk, Hl. reflexivity.
      * unfold release_capable. rewrite Hk, Hok, Hi. reflexivity.
      * unfold release_capable. rewrite Hk. reflexivity.
Qed.

(** ** lease ids, message ids inside one answer, lease_until *)
Lemma lin_inv fl c : forall l s, Inv s -> Inv (lin_end fl c s l).
Proof. induction l as [|[k [x o]] tl IH]; intros s I; simpl; [exact I|]. apply IH. apply step_inv. exact I. Qed.

Lemma lin_pick fl c l s0 a :
  Inv s0 -> lin_run fl c s0 l -> In a (map fst l) ->
  exists l1 x o l2, l = l1 ++ (a, (x, o)) :: l2 /\ Inv (lin_end fl c s0 l1)
                    /\ matches a x o (snd (step fl c (lin_end fl c s0 l1) x o)).
Proof.
  intros I R Ha. destruct (in_split a (map fst l) Ha) as [c1 [c2 Ec]].
  destruct (map_fst_split l c1 a c2 Ec) as [l1 [[x o] [l2 [El _]]]]. subst l.
  exists l1, x, o, l2. split; [reflexivity|]. split; [apply lin_inv; exact I|].
  apply lin_run_app in R. destruct R as [_ R]. cbn [lin_run] in R. destruct R as [M _]. exact M.
Qed.

Lemma not_deq_kind k : hkind_eqb (h_kind k) HDeq = false -> h_kind k <> HDeq.
Proof. intros E H. rewrite H in E. discriminate. Qed.

Lemma deq_kind k : hkind_eqb (h_kind k) HDeq = true -> h_kind k = HDeq.
Proof. destruct (h_kind k); simpl; intros E; try discriminate; reflexivity. Qed.

Lemma matches_item_leases fl c s k x o :
  matches k x o (snd (step fl c s x o)) ->
  item_leases (snd (step fl c s x o)) = map it_lease (deq_items_of k).
Proof.
  intros M. unfold deq_items_of. destruct (hkind_eqb (h_kind k) HDeq) eqn:Ek.
  - apply deq_kind in Ek. destruct (matches_deq k x o _ Ek M) as [ro [t [b [ttl [_ Er]]]]]. rewrite Er. reflexivity.
  - apply not_deq_kind in Ek.
    destruct (step_issued fl c s x o) as [[_ Hn] | [now [route [target [batch [ttl [Ex _]]]]]]]; [exact Hn|].
    exfalso. apply Ek. subst x. destruct M as [_ [_ [M _]]]. exact M.
Qed.

Lemma lin_issued fl c : forall l s, lin_run fl c s l ->
  issued (lin_end fl c s l) = issued s ++ all_leases (map fst l).
Proof.
  induction l as [|[k [x o]] tl IH]; intros s R; simpl; [rewrite app_nil_r; reflexivity|].
  cbn [lin_run] in R. destruct R as [M R]. rewrite (IH _ R), step_handed_out, (matches_item_leases fl c s k x o M).
  rewrite <- app_assoc. reflexivity.
Qed.

Lemma first_dup_None l : NoDup l -> first_dup l = None.
Proof.
  induction 1 as [|x tl Hx ND IH]; simpl; [reflexivity|].
  destruct (inN x tl) eqn:E; [apply inN_In in E; contradiction | exact IH].
Qed.

Lemma NoDup_app_r (A : Type) (l1 l2 : list A) : NoDup (l1 ++ l2) -> NoDup l2.
Proof. induction l1 as [|x tl IH]; simpl; intros H; [exact H|]. inversion H; subst. apply IH. assumption. Qed.

Lemma dup_lease_none fl c h : linearizable fl c h -> dup_lease h = None.
Proof.
  intros [_ [pre [l [P [_ R]]]]]. unfold dup_lease.
  assert (I : InvI (snd (run fl c init pre))) by (apply run_invI; split; [apply inv_init | constructor]).
  pose proof (lin_end_inv fl c _ l I) as [_ ND].
  rewrite (lin_issued fl c l _ R) in ND. apply NoDup_app_r in ND.
  assert (P2 : Permutation (all_leases h) (all_leases (map fst l))) by (unfold all_leases; apply Permutation_flat_map; exact P).
  rewrite first_dup_None; [reflexivity|]. apply (Permutation_NoDup (Permutation_sym P2)). exact ND.
Qed.

Lemma first_some_None (A B : Type) (f : A -> option B) l :
  (forall x, In x l -> f x = None) -> first_some f l = None.
Proof.
  induction l as [|x tl IH]; simpl; intros H; [reflexivity|].
  rewrite (H x (or_introl eq_refl)). apply IH. intros y Hy. apply H. right. exact Hy.
Qed.

Lemma distinctN_NoDup l : NoDup l -> distinctN l = true.
Proof.
  induction 1 as [|x tl Hx ND IH]; simpl; [reflexivity|].
  destruct (inN x tl) eqn:E; [apply inN_In in E; contradiction | exact IH].
Qed.

Lemma shape_none fl c l s0 a :
  Inv s0 -> lin_run fl c s0 l -> In a (map fst l) -> shape_from a = None.
Proof.
  intros I R Ha. unfold shape_from. destruct (hkind_eqb (h_kind a) HDeq) eqn:Ek; [|reflexivity]. apply deq_kind in Ek.
  destruct (lin_pick fl c l s0 a I R Ha) as [l1 [x [o [l2 [_ [Is M]]]]]].
  destruct (step fl c (lin_end fl c s0 l1) x o) as [s' r] eqn:Es. cbn [snd] in M.
  destruct (matches_deq a x o r Ek M) as [ro [t [b [ttl [Ex Er]]]]]. subst x r. cbn [step] in Es.
  destruct (dequeue_sound fl c (h_now a) ro t b ttl o _ s' (h_items a) Is Es) as [ND [_ [_ Hall]]].
  change (map (fun it : N * N * Z * Z => fst (fst (fst it))) (h_items a)) with (map it_id (h_items a)) in ND.
  rewrite (distinctN_NoDup _ ND). apply first_some_None. intros [[[i lid] att] un] Hit.
  destruct (Hall i lid att un Hit) as [m0 [_ [_ [_ [_ [_ [Hlt _]]]]]]].
  unfold it_until. cbn [snd]. apply Z.ltb_lt in Hlt. rewrite Hlt. reflexivity.
Qed.

(** ** the attempt counter *)
Lemma change_attempt c x r m m' :
  change c x r m m' -> ~ In (m_id m) (item_ids r) -> m_attempt m' = m_attempt m.
Proof.
  intros H Hn. destruct H as [E | _ _ E | route target b ttl lid m0 _ _ _ Hin _ | k lid _ _ _ _ _ _ _ E | k _ _ _ E].
  - subst. reflexivity.
  - subst. reflexivity.
  - exfalso. apply Hn. unfold item_pairs in Hin. unfold item_ids. apply in_map_iff in Hin.
    destruct Hin as [it [Eit Hit]]. apply in_map_iff. exists it. split; [inversion Eit; reflexivity | exact Hit].
  - unfold lease_effect in E. destruct k; [destruct (0 <? c_deliv_age c)| | |]; inversion E; reflexivity.
  - unfold manage_effect in E. destruct k; inversion E; reflexivity.
Qed.

Lemma step_attempt fl c s x o s' r i :
  Inv s -> step fl c s x o = (s', r) -> ~ In i (item_ids r) ->
  (forall ies, assign_ids (enq_list x) (o_genids o) = Some ies -> ~ In i (map fst ies)) ->
  match find_id i (msgs s) with
  | None => find_id i (msgs s') = None
  | Some m => find_id i (msgs s') = None \/ exists m', find_id i (msgs s') = Some m' /\ m_attempt m' = m_attempt m
  end.
Proof.
  intros I H Hd He. destruct (step_sound fl c s x o s' r I H) as [pm [news [El [P Nw]]]].
  assert (Fn : find_id i news = None).
  { destruct (find_id i news) as [m'|] eqn:F; [|reflexivity]. exfalso.
    apply find_id_Some in F. destruct F as [Hin Eid].
    destruct Nw as [Nw | [_ [ies [Ea En]]]]; [subst news; destruct Hin|].
    subst news. apply in_map_iff in Hin. destruct Hin as [p [Ep Hp]]. apply (He ies Ea).
    apply in_map_iff. exists p. split; [|exact Hp]. subst m'. exact Eid. }
  assert (Pid : forall y y', In y (msgs s) -> pm y = Some y' -> m_id y' = m_id y).
  { intros y y' Hy Ey. specialize (P y Hy). rewrite Ey in P. destruct (change_same_imm c x r y y' P) as [Q _]. symmetry. exact Q. }
  rewrite El, find_id_app, (find_id_apply_pm_on pm (msgs s) i Pid (inv_nodup _ _ I)).
  destruct (find_id i (msgs s)) as [m|] eqn:F; [|exact Fn].
  apply find_id_Some in F. destruct F as [Hm Ei]. specialize (P m Hm).
  destruct (pm m) as [m'|]; [|left; exact Fn].
  right. exists m'. split; [reflexivity|]. apply (change_attempt c x r m m' P). rewrite Ei. exact Hd.
Qed.

Definition undisturbing (i : N) (k : call) : Prop :=
  (h_kind k = HDeq -> ~ In i (map it_id (h_items k))) /\ (h_kind k = HEnqueue -> ~ In i (h_ids k)).

Lemma matches_undisturbed fl c s k x o i :
  matches k x o (snd (step fl c s x o)) -> undisturbing i k ->
  ~ In i (item_ids (snd (step fl c s x o)))
  /\ (forall ies, assign_ids (enq_list x) (o_genids o) = Some ies -> ~ In i (map fst ies)).
Proof.
  intros M [U1 U2]. split.
  - destruct (hkind_eqb (h_kind k) HDeq) eqn:Ek.
    + apply deq_kind in Ek. destruct (matches_deq k x o _ Ek M) as [ro [t [b [ttl [_ Er]]]]]. rewrite Er.
      exact (U1 Ek).
    + apply not_deq_kind in Ek.
      destruct (step_issued fl c s x o) as [[_ Hn] | [now [route [target [batch [ttl [Ex _]]]]]]].
      * unfold item_leases in Hn. apply map_eq_nil in Hn. unfold item_ids. rewrite Hn. intros [].
      * exfalso. apply Ek. subst x. destruct M as [_ [_ [M _]]]. exact M.
  - intros ies Ea Hin. destruct M as [_ [_ M]].
    destruct x as [now e|now es|now route target batch ttl|now kd lr|now kd ls|now mk idl|now mk f|now f ord|now route limit before|now idl|now|now].
    1,2: destruct M as [Mk Mi]; apply (U2 Mk); apply (Mi ies Ea); exact Hin.
    all: cbn [enq_list assign_ids] in Ea; inversion Ea; subst ies; destruct Hin.
Qed.

Lemma attempt_track fl c i : forall l s,
  Inv s -> lin_run fl c s l -> (forall k, In k (map fst l) -> undisturbing i k) ->
  match find_id i (msgs s) with
  | None => find_id i (msgs (lin_end fl c s l)) = None
  | Some m => find_id i (msgs (lin_end fl c s l)) = None
              \/ exists m', find_id i (msgs (lin_end fl c s l)) = Some m' /\ m_attempt m' = m_attempt m
  end.
Proof.
  induction l as [|[k [x o]] tl IH]; intros s I R U.
  - simpl. destruct (find_id i (msgs s)) as [m|]; [right; exists m; split; reflexivity | reflexivity].
  - cbn [lin_run] in R. destruct R as [M R]. cbn [lin_end].
    destruct (matches_undisturbed fl c s k x o i M (U k (or_introl eq_refl))) as [Hd He].
    destruct (step fl c s x o) as [s' r] eqn:Es. cbn [fst snd] in *.
    assert (I' : Inv s') by (pose proof (step_inv fl c s x o I) as Q; rewrite Es in Q; exact Q).
    pose proof (step_attempt fl c s x o s' r i I Es Hd He) as S1.
    assert (U' : forall k0, In k0 (map fst tl) -> undisturbing i k0) by (intros k0 Hk0; apply U; right; exact Hk0).
    specialize (IH s' I' R U').
    destruct (find_id i (msgs s)) as [m|].
    + destruct S1 as [S1 | [m' [S1 A1]]]; rewrite S1 in IH; [left; exact IH|].
      destruct IH as [IH | [m2 [F2 A2]]]; [left; exact IH|]. right. exists m2. split; [exact F2 | congruence].
    + rewrite S1 in IH. exact IH.
Qed.

Lemma attempt_of_spec m b att : attempt_of m b = Some att -> exists it, In it (h_items b) /\ it_id it = m /\ it_attempt it = att.
Proof.
  unfold attempt_of. destruct (find _ (h_items b)) as [it|] eqn:F; [|discriminate].
  intros H. inversion H; subst. apply find_some in F. destruct F as [Hin E]. apply N.eqb_eq in E.
  exists it. repeat split; assumption.
Qed.

Lemma nodup_call_split (c1 : list call) a c2 k :
  NoDup (map h_call (c1 ++ a :: c2)) -> In k c1 \/ In k c2 -> h_call k <> h_call a.
Proof.
  intros ND Hk E. rewrite map_app in ND. cbn [map] in ND. apply NoDup_remove_2 in ND. apply ND.
  rewrite <- E. apply in_or_app. destruct Hk as [Hk | Hk]; [left | right]; apply in_map; exact Hk.
Qed.

Lemma attempt_impossible fl c (l : list lstep) s0 a b m L att un att_b :
  Inv s0 -> rt_ok (map fst l) -> NoDup (map h_call (map fst l)) -> lin_run fl c s0 l ->
  In a (map fst l) -> In b (map fst l) ->
  h_kind a = HDeq -> In (m, L, att, un) (h_items a) ->
  returns m b = true -> hb a b = true -> attempt_of m b = Some att_b ->
  (forall k, In k (map fst l) -> disturbs m a b k = false) ->
  att_b = att + 1.
Proof.
  intros I0 RT NDc R Ha Hb Ka Hit Rb Hab Hatt Hdist.
  destruct (returns_spec m b Rb) as [Kb _].
  pose proof (lin_run_wf fl c l s0 R) as WF.
  assert (Wa : h_call a <= h_ret a) by (apply WF; exact Ha).
  unfold hb in Hab. apply Z.ltb_lt in Hab.
  destruct (in_split a (map fst l) Ha) as [c1 [c2 Ec]].
  assert (Hb2 : In b c2).
  { rewrite Ec in Hb. apply in_app_or in Hb. destruct Hb as [Hb | [Hb | Hb]]; [| |exact Hb].
    - exfalso. rewrite Ec in RT. destruct (rt_split c1 a c2 RT) as [B1 _]. apply (B1 b Hb). exact Hab.
    - exfalso. subst b. lia. }
  destruct (in_split b c2 Hb2) as [mid [post Ec2]]. subst c2.
  (* nothing between a and b disturbs m *)
  assert (Umid : forall k, In k mid -> undisturbing m k).
  { intros k Hk.
    assert (Hkl : In k (map fst l)) by (rewrite Ec; apply in_or_app; right; right; apply in_or_app; left; exact Hk).
    specialize (Hdist k Hkl). unfold disturbs in Hdist.
    assert (Na : same_call a k = false).
    { unfold same_call. apply Z.eqb_neq. intros E. rewrite Ec in NDc.
      apply (nodup_call_split c1 a (mid ++ b :: post) k NDc); [right; apply in_or_app; left; exact Hk | symmetry; exact E]. }
    assert (Nb : same_call b k = false).
    { unfold same_call. apply Z.eqb_neq. intros E. rewrite Ec in NDc.
      replace (c1 ++ a :: mid ++ b :: post) with ((c1 ++ a :: mid) ++ b :: post) in NDc by (rewrite <- app_assoc; reflexivity).
      apply (nodup_call_split (c1 ++ a :: mid) b post k NDc); [left; apply in_or_app; right; right; exact Hk | symmetry; exact E]. }
    rewrite Na, Nb in Hdist.
    assert (Mb : may_be_between a b k = true).
    { rewrite Ec in RT. destruct (rt_split c1 a (mid ++ b :: post) RT) as [_ [Aft RT2]].
      destruct (in_split k mid Hk) as [m1 [m2 Em]]. subst mid.
      replace ((m1 ++ k :: m2) ++ b :: post) with (m1 ++ k :: (m2 ++ b :: post)) in RT2 by (rewrite <- app_assoc; reflexivity).
      destruct (rt_split m1 k (m2 ++ b :: post) RT2) as [_ [Aft2 _]].
      unfold may_be_between, hb.
      assert (H1 : (h_ret k <? h_call a) = false).
      { apply Z.ltb_ge. assert (Q : ~ h_ret k < h_call a) by (apply Aft; apply in_or_app; left; apply in_or_app; right; left; reflexivity). lia. }
      assert (H2 : (h_ret b <? h_call k) = false).
      { apply Z.ltb_ge. assert (Q : ~ h_ret b < h_call k) by (apply Aft2; apply in_or_app; right; left; reflexivity). lia. }
      rewrite H1, H2. reflexivity. }
    rewrite Mb in Hdist. split; intros Hkk; rewrite Hkk in Hdist; intros Hin; apply inN_In in Hin; congruence. }
  destruct (map_fst_split l c1 a (mid ++ b :: post) Ec) as [l1 [[xa oa] [l2' [El [E1 E2]]]]].
  destruct (map_fst_split l2' mid b post E2) as [lmid [[xb ob] [lpost [El2 [Emid Epost]]]]].
  subst l2'. subst l.
  apply lin_run_app in R. destruct R as [_ R].
  set (sA := lin_end fl c s0 l1) in *.
  assert (IA : Inv sA) by (apply lin_inv; exact I0).
  cbn [lin_run] in R. destruct R as [MA R].
  destruct (step fl c sA xa oa) as [sA' rA] eqn:EsA. cbn [fst snd] in MA, R.
  assert (IA' : Inv sA') by (pose proof (step_inv fl c sA xa oa IA) as Q; rewrite EsA in Q; exact Q).
  apply lin_run_app in R. destruct R as [Rmid R].
  cbn [lin_run] in R. destruct R as [MB _].
  destruct (matches_deq a xa oa rA Ka MA) as [ra [ta [ba [ttla [Exa ErA]]]]]. subst xa rA.
  cbn [step] in EsA.
  destruct (dequeue_sound fl c (h_now a) ra ta ba ttla oa sA sA' (h_items a) IA EsA) as [_ [_ [_ HallA]]].
  destruct (HallA m L att un Hit) as [m0 [_ [_ [FA [EattA _]]]]].
  assert (Umid' : forall k, In k (map fst lmid) -> undisturbing m k) by (rewrite Emid; exact Umid).
  pose proof (attempt_track fl c m lmid sA' IA' Rmid Umid') as T. rewrite FA in T.
  set (sB := lin_end fl c sA' lmid) in *.
  assert (IB : Inv sB) by (apply lin_inv; exact IA').
  destruct (step fl c sB xb ob) as [sB' rB] eqn:EsB. cbn [snd] in MB.
  destruct (matches_deq b xb ob rB Kb MB) as [rb [tb [bb [ttlb [Exb ErB]]]]]. subst xb rB.
  cbn [step] in EsB.
  destruct (dequeue_sound fl c (h_now b) rb tb bb ttlb ob sB sB' (h_items b) IB EsB) as [_ [_ [_ HallB]]].
  destruct (attempt_of_spec m b att_b Hatt) as [[[[ib lb] ab] ub] [Hitb [Eib Eab]]].
  unfold it_id in Eib. unfold it_attempt in Eab. cbn [fst snd] in Eib, Eab. subst ib ab.
  destruct (HallB m lb att_b ub Hitb) as [mb0 [FB0 [_ [_ [EattB _]]]]].
  rewrite deq_pre_msgs in FB0.
  rewrite (find_id_apply_pm _ _ m (deq_pre_pm_id_pres fl c (h_now b) ob sB) (inv_nodup _ _ IB)) in FB0.
  destruct T as [T | [m' [T AT]]]; rewrite T in FB0; [discriminate|].
  pose proof (find_id_Some _ _ _ T) as [Hm' _].
  destruct (deq_pre_cases fl c (h_now b) ob sB m' (inv_nodup _ _ IB) Hm') as [[E _] | [E | [E _]]]; rewrite E in FB0;
    [discriminate | |]; inversion FB0; subst mb0.
  - rewrite EattB, AT. unfold leased_version. simpl. lia.
  - rewrite EattB. unfold release. simpl. rewrite AT. unfold leased_version. simpl. lia.
Qed.

(** ** the monitor never fires on a linearizable history *)
Lemma ext_total_perm h calls L a x :
  Permutation h calls -> ext_total (filter (is_good_extend L) h) L a x = ext_total calls L a x.
Proof. intros P. rewrite ext_total_filter. unfold ext_total. apply zsum_perm. exact P. Qed.

Lemma release_capable_perm h calls m L un a r :
  Permutation h calls ->
  release_capable (filter (is_good_extend L) h) m L un a r = release_capable calls m L un a r.
Proof. intros P. unfold release_capable, lease_end. rewrite (ext_total_perm h calls L a r P). reflexivity. Qed.

Section NoFalseAlarm.
Variables (fl : flavour) (c : cfg) (h : history).
Hypothesis Lin : linearizable fl c h.

Lemma double_from_none a : In a h -> double_from h a = None.
Proof.
  intros Ha. destruct Lin as [_ [pre [l [P [RT R]]]]].
  assert (I0 : Inv (snd (run fl c init pre))) by apply reachable_inv.
  unfold double_from. destruct (hkind_eqb (h_kind a) HDeq) eqn:Ek; [|reflexivity]. apply deq_kind in Ek.
  apply first_some_None. intros [[[m L] att] un] Hit. unfold double_item.
  cbn [it_id it_lease it_until fst snd].
  apply first_some_None. intros b Hb.
  destruct (returns m b) eqn:Rb; [|reflexivity].
  destruct (hb a b) eqn:Hab; [|reflexivity].
  destruct (h_now b <? lease_end (filter (is_good_extend L) h) L un a b) eqn:Live; [|reflexivity].
  apply Z.ltb_lt in Live. unfold lease_end in Live. rewrite (ext_total_perm h (map fst l) L a b P) in Live.
  destruct (double_lease_impossible fl c l _ a b m L att un I0 RT R
              (Permutation_in _ P Ha) (Permutation_in _ P Hb) Ek Hit Rb Hab Live) as [r [Hr [Mb Rc]]].
  assert (Ex : excused h (filter (is_good_extend L) h) m L un a b = true).
  { unfold excused. apply existsb_exists. exists r. split; [apply (Permutation_in _ (Permutation_sym P) Hr)|].
    rewrite Mb. rewrite (release_capable_perm h (map fst l) m L un a r P). exact Rc. }
  rewrite Ex. reflexivity.
Qed.

Lemma attempt_from_none a : In a h -> attempt_from h a = None.
Proof.
  intros Ha. destruct Lin as [NDh [pre [l [P [RT R]]]]].
  assert (I0 : Inv (snd (run fl c init pre))) by apply reachable_inv.
  assert (NDc : NoDup (map h_call (map fst l))).
  { apply (Permutation_NoDup (Permutation_map h_call P)). exact NDh. }
  unfold attempt_from. destruct (hkind_eqb (h_kind a) HDeq) eqn:Ek; [|reflexivity]. apply deq_kind in Ek.
  apply first_some_None. intros [[[m L] att] un] Hit. unfold attempt_item.
  cbn [it_id it_attempt fst snd].
  apply first_some_None. intros b Hb.
  destruct (returns m b) eqn:Rb; [|reflexivity].
  destruct (hb a b) eqn:Hab; [|reflexivity].
  destruct (attempt_of m b) as [att_b|] eqn:Hatt; [|reflexivity].
  destruct (att_b =? att + 1) eqn:Eq; [reflexivity|].
  destruct (existsb (disturbs m a b) h) eqn:Ed; [reflexivity|].
  exfalso. apply Z.eqb_neq in Eq. apply Eq.
  apply (attempt_impossible fl c l _ a b m L att un att_b I0 RT NDc R
           (Permutation_in _ P Ha) (Permutation_in _ P Hb) Ek Hit Rb Hab Hatt).
  intros k Hk. apply (Permutation_in _ (Permutation_sym P)) in Hk.
  destruct (disturbs m a b k) eqn:Dk; [|reflexivity].
  assert (existsb (disturbs m a b) h = true) by (apply existsb_exists; exists k; split; assumption). congruence.
Qed.

Lemma shape_from_none a : In a h -> shape_from a = None.
Proof.
  intros Ha. destruct Lin as [_ [pre [l [P [RT R]]]]].
  apply (shape_none fl c l _ a (reachable_inv fl c pre) R (Permutation_in _ P Ha)).
Qed.

Theorem overlap_check_no_false_alarm cands : incl cands h -> overlap_check h cands = None.
Proof.
  intros Hin. unfold overlap_check. rewrite (dup_lease_none fl c h Lin).
  apply first_some_None. intros a Ha. apply Hin in Ha. unfold per_call.
  rewrite (shape_from_none a Ha), (double_from_none a Ha). apply attempt_from_none. exact Ha.
Qed.

Theorem overlap_monitor_no_false_alarm : overlap_violation h = None.
Proof. apply overlap_check_no_false_alarm. apply incl_refl. Qed.
End NoFalseAlarm.

(** ** non-vacuity *)
Module OverlapExamples.
Definition cfg0 := mkCfg 0 false 0 0 0 0 0 0.
Definition o0 := mkOracle [] [] [] [].
Definition enq7 := mkEnq (Some 7%N) 1%N 1%N None None 5%N 0%N 0%N.

Definition k_enq := mkCall 1 2 100 HEnqueue [] 0 [7%N] true [].
Definition k_deqA := mkCall 3 4 200 HDeq [] 0 [] true [(7%N, 1%N, 1, 1200)].
Definition k_nack (cl rt : Z) := mkCall cl rt 300 HNack [1%N] 0 [] true [].
Definition k_deqB (cl rt : Z) := mkCall cl rt 300 HDeq [] 0 [] true [(7%N, 2%N, 2, 1300)].

Definition x_enq := (Enqueue 100 enq7, o0).
Definition x_deqA := (Dequeue 200 None None 1 1000, mkOracle [(7%N, 1%N)] [] [] []).
Definition x_nack := (LeaseOp 300 (KNack 0) (LKnown 1%N false), o0).
Definition x_deqB := (Dequeue 300 None None 1 1000, mkOracle [(7%N, 2%N)] [] [] []).

(** sequential: enqueue; dequeue a; nack; dequeue b *)
Definition h_seq : history := [k_enq; k_deqA; k_nack 5 6; k_deqB 7 8].

Ltac nodup_z := repeat (constructor; [simpl; intuition discriminate|]); constructor.
Ltac rt_tac := unfold rt_ok; repeat (constructor; [repeat (constructor; [simpl; lia|]); constructor|]); constructor.

Example h_seq_linearizable : linearizable Mem cfg0 h_seq.
Proof.
  split; [simpl; nodup_z|].
  exists [], [(k_enq, x_enq); (k_deqA, x_deqA); (k_nack 5 6, x_nack); (k_deqB 7 8, x_deqB)].
  split; [apply Permutation_refl|]. split; [simpl; rt_tac|].
  cbn [lin_run]. unfold matches.
  repeat split; try (vm_compute; congruence); try reflexivity.
  intros ies H. vm_compute in H. inversion H; subst. vm_compute. intros a0 Ha. exact Ha.
Qed.

Example h_seq_passes : overlap_violation h_seq = None.
Proof. vm_compute. reflexivity. Qed.

(** concurrent: the nack was issued while dequeue b was in flight (issued after b, returned before
    b returned); recorded order b, nack; linearized as nack, b *)
Definition h_conc : history := [k_enq; k_deqA; k_deqB 5 8; k_nack 6 7].

Example h_conc_linearizable : linearizable Mem cfg0 h_conc.
Proof.
  split; [simpl; nodup_z|].
  exists [], [(k_enq, x_enq); (k_deqA, x_deqA); (k_nack 6 7, x_nack); (k_deqB 5 8, x_deqB)].
  split.
  - unfold h_conc. simpl. apply perm_skip. apply perm_skip. apply perm_swap.
  - split; [simpl; rt_tac|].
    cbn [lin_run]. unfold matches.
    repeat split; try (vm_compute; congruence); try reflexivity.
    intros ies H. vm_compute in H. inversion H; subst. vm_compute. intros a0 Ha. exact Ha.
Qed.

Example h_conc_passes : overlap_violation h_conc = None.
Proof. vm_compute. reflexivity. Qed.

(** the monitor fires: b was issued after a had returned, got the same message while a's lease
    (until 1200) was live at b's phase time 300, and nothing that could end the lease was issued
    before b returned (the nack came after b had returned; no nack at all in the second history) *)
Definition h_bad_late_nack : history := [k_enq; k_deqA; k_deqB 5 6; k_nack 7 8].
Definition h_bad : history := [k_enq; k_deqA; k_deqB 5 6].

Example monitor_fires_late_nack : overlap_violation h_bad_late_nack = Some (WDouble 3 5 7%N 1%N).
Proof. vm_compute. reflexivity. Qed.

Example monitor_fires : overlap_violation h_bad = Some (WDouble 3 5 7%N 1%N).
Proof. vm_compute. reflexivity. Qed.

(** hence (contrapositive of the theorem) these histories are not linearizable *)
Example h_bad_not_linearizable : forall fl c, ~ linearizable fl c h_bad.
Proof.
  intros fl c Lin. pose proof (overlap_monitor_no_false_alarm fl c h_bad Lin) as H.
  rewrite monitor_fires in H. discriminate.
Qed.

(** an extend that had returned before b was issued keeps the lease live past the returned
    lease_until: b at phase time 1250 > 1200 is still flagged; without the extend it is an expiry *)
Definition k_ext := mkCall 5 6 300 HExtend [1%N] 500 [] true [].
Definition k_deqB_late (cl rt : Z) := mkCall cl rt 1250 HDeq [] 0 [] true [(7%N, 2%N, 2, 2250)].

Example monitor_counts_extends :
  overlap_violation [k_enq; k_deqA; k_ext; k_deqB_late 7 8] = Some (WDouble 3 7 7%N 1%N)
  /\ overlap_violation [k_enq; k_deqA; k_deqB_late 7 8] = None.
Proof. split; vm_compute; reflexivity. Qed.

(** the other alarms *)
Example monitor_fires_dup_lease :
  overlap_violation [k_deqA; mkCall 5 6 200 HDeq [] 0 [] true [(8%N, 1%N, 1, 1200)]] = Some (WDupLease 1%N).
Proof. vm_compute. reflexivity. Qed.

Example monitor_fires_attempt :
  overlap_violation [k_deqA; k_nack 5 6; mkCall 7 8 300 HDeq [] 0 [] true [(7%N, 2%N, 3, 1300)]]
  = Some (WAttempt 3 7 7%N 1 3).
Proof. vm_compute. reflexivity. Qed.
End OverlapExamples.
