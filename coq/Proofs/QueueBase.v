(** Basic lemmas about the queue model: the per-message map/filter primitive, lookups,
    the reachable-state invariant. *)
From Coq Require Import List ZArith NArith Bool Lia.
From HK Require Import Gen.Consts Model.Queue.
Import ListNotations.
Open Scope Z_scope.

Definition ids (l : list msg) : list N := map m_id l.

(** a per-message function keeps the identity of the message it is applied to *)
Definition id_pres (pm : msg -> option msg) : Prop :=
  forall m m', pm m = Some m' -> m_id m' = m_id m.

(** the fields no operation may alter *)
Definition same_imm (a b : msg) : Prop :=
  m_id a = m_id b /\ m_route a = m_route b /\ m_target a = m_target b /\ m_recv a = m_recv b
  /\ m_body a = m_body b /\ m_hdr a = m_hdr b /\ m_trace a = m_trace b.

Definition imm_pres (pm : msg -> option msg) : Prop :=
  forall m m', pm m = Some m' -> same_imm m m'.

Lemma same_imm_refl m : same_imm m m.
Proof. repeat split. Qed.

Lemma same_imm_trans a b c : same_imm a b -> same_imm b c -> same_imm a c.
Proof. unfold same_imm; intuition congruence. Qed.

Lemma imm_pres_id_pres pm : imm_pres pm -> id_pres pm.
Proof. intros H m m' E. destruct (H m m' E) as [E1 _]. congruence. Qed.

Lemma upd_same_imm m s n r l u a : same_imm m (upd m s n r l u a).
Proof. repeat split. Qed.

Lemma release_same_imm now m : same_imm m (release now m).
Proof. apply upd_same_imm. Qed.

(** ** memN / N.eqb *)
Lemma memN_In x l : memN x l = true <-> In x l.
Proof.
  unfold memN. rewrite existsb_exists. split.
  - intros [y [Hy E]]. apply N.eqb_eq in E. subst. exact Hy.
  - intros H. exists x. split; [exact H | apply N.eqb_refl].
Qed.

Lemma memN_false x l : memN x l = false <-> ~ In x l.
Proof.
  rewrite <- memN_In. destruct (memN x l); split; intros H; try congruence;
    try (exfalso; apply H; reflexivity).
Qed.

Lemma nodupN_NoDup l : nodupN l = true <-> NoDup l.
Proof.
  induction l as [|x tl IH]; simpl.
  - split; intros; [constructor | reflexivity].
  - rewrite andb_true_iff, negb_true_iff, memN_false, IH. split.
    + intros [A B]. constructor; assumption.
    + intros H. inversion H; subst. split; assumption.
Qed.

(** ** apply_pm *)
Lemma apply_pm_In pm l m' :
  In m' (apply_pm pm l) <-> exists m, In m l /\ pm m = Some m'.
Proof.
  induction l as [|x tl IH]; simpl.
  - split; [tauto | intros [m [[] _]]].
  - destruct (pm x) as [x'|] eqn:E; simpl; rewrite IH; split.
    + intros [H | [m [Hm Hp]]]; [exists x; subst; auto | exists m; auto].
    + intros [m [[Hm | Hm] Hp]]; [subst; left; congruence | right; exists m; auto].
    + intros [m [Hm Hp]]; exists m; auto.
    + intros [m [[Hm | Hm] Hp]]; [subst; congruence | exists m; auto].
Qed.

Lemma apply_pm_app pm l1 l2 : apply_pm pm (l1 ++ l2) = apply_pm pm l1 ++ apply_pm pm l2.
Proof.
  induction l1 as [|x tl IH]; simpl; [reflexivity|].
  destruct (pm x); simpl; rewrite IH; reflexivity.
Qed.

Definition pm_comp (f g : msg -> option msg) (m : msg) : option msg :=
  match f m with Some m' => g m' | None => None end.

Lemma apply_pm_comp f g l : apply_pm g (apply_pm f l) = apply_pm (pm_comp f g) l.
Proof.
  induction l as [|x tl IH]; simpl; [reflexivity|].
  unfold pm_comp at 1. destruct (f x) as [x'|]; simpl; [destruct (g x')|]; rewrite IH; reflexivity.
Qed.

Lemma apply_pm_ext f g l : (forall m, In m l -> f m = g m) -> apply_pm f l = apply_pm g l.
Proof.
  induction l as [|x tl IH]; simpl; intros H; [reflexivity|].
  rewrite (H x (or_introl eq_refl)), IH; [reflexivity|]. intros m Hm. apply H. right. exact Hm.
Qed.

Lemma apply_pm_id l : apply_pm (fun m => Some m) l = l.
Proof. induction l as [|x tl IH]; simpl; [reflexivity | rewrite IH; reflexivity]. Qed.

Lemma apply_pm_ids_incl pm l : id_pres pm -> incl (ids (apply_pm pm l)) (ids l).
Proof.
  intros P i Hi. unfold ids in *. apply in_map_iff in Hi. destruct Hi as [m' [E Hm']].
  apply apply_pm_In in Hm'. destruct Hm' as [m [Hm Hp]]. apply in_map_iff. exists m. split; [|exact Hm].
  rewrite <- E. symmetry. apply P. exact Hp.
Qed.

Lemma apply_pm_NoDup pm l : id_pres pm -> NoDup (ids l) -> NoDup (ids (apply_pm pm l)).
Proof.
  intros P. induction l as [|x tl IH]; simpl; intros H; [constructor|].
  inversion H as [|? ? Hx Htl]; subst.
  destruct (pm x) as [x'|] eqn:E; simpl; [|apply IH; exact Htl].
  constructor; [|apply IH; exact Htl].
  intros Hin. apply Hx. rewrite (P x x' E) in Hin. apply (apply_pm_ids_incl pm tl P). exact Hin.
Qed.

(** ** find_id *)
Lemma find_id_Some i l m : find_id i l = Some m -> In m l /\ m_id m = i.
Proof.
  induction l as [|x tl IH]; simpl; [discriminate|].
  destruct (N.eqb (m_id x) i) eqn:E.
  - intros H. inversion H; subst. split; [left; reflexivity | apply N.eqb_eq; exact E].
  - intros H. destruct (IH H) as [A B]. split; [right; exact A | exact B].
Qed.

Lemma find_id_None i l : find_id i l = None <-> ~ In i (ids l).
Proof.
  induction l as [|x tl IH]; simpl; [tauto|].
  destruct (N.eqb (m_id x) i) eqn:E.
  - apply N.eqb_eq in E. split; [discriminate | intros H; exfalso; apply H; left; exact E].
  - apply N.eqb_neq in E. rewrite IH. tauto.
Qed.

Lemma find_id_In_NoDup l m : NoDup (ids l) -> In m l -> find_id (m_id m) l = Some m.
Proof.
  induction l as [|x tl IH]; simpl; intros ND Hin; [destruct Hin|].
  inversion ND as [|? ? Hx Htl]; subst.
  destruct Hin as [E | Hin].
  - subst. rewrite N.eqb_refl. reflexivity.
  - destruct (N.eqb (m_id x) (m_id m)) eqn:E.
    + apply N.eqb_eq in E. exfalso. apply Hx. rewrite E. apply in_map. exact Hin.
    + apply IH; assumption.
Qed.

Lemma has_id_In i l : has_id i l = true <-> In i (ids l).
Proof.
  unfold has_id. destruct (find_id i l) eqn:E.
  - split; [|reflexivity]. intros _. apply find_id_Some in E. destruct E as [A B]. subst. apply in_map. exact A.
  - split; [discriminate|]. intros H. apply find_id_None in E. contradiction.
Qed.

Lemma find_id_apply_pm pm l i :
  id_pres pm -> NoDup (ids l) ->
  find_id i (apply_pm pm l) = match find_id i l with Some m => pm m | None => None end.
Proof.
  intros P. induction l as [|x tl IH]; simpl; intros ND; [reflexivity|].
  inversion ND as [|? ? Hx Htl]; subst.
  destruct (N.eqb (m_id x) i) eqn:E.
  - apply N.eqb_eq in E. destruct (pm x) as [x'|] eqn:Ep; simpl.
    + rewrite (P x x' Ep), E, N.eqb_refl. reflexivity.
    + apply find_id_None. intros Hin. apply Hx. rewrite E. apply (apply_pm_ids_incl pm tl P). exact Hin.
  - destruct (pm x) as [x'|] eqn:Ep; simpl; [|apply IH; exact Htl].
    rewrite (P x x' Ep), E. apply IH. exact Htl.
Qed.

Lemma find_id_app i l1 l2 :
  find_id i (l1 ++ l2) = match find_id i l1 with Some m => Some m | None => find_id i l2 end.
Proof.
  induction l1 as [|x tl IH]; simpl; [reflexivity|].
  destruct (N.eqb (m_id x) i); [reflexivity | exact IH].
Qed.

(** ** the per-message functions of the model keep the immutable fields *)
Lemma pm_sweep_imm now : imm_pres (pm_sweep now).
Proof.
  intros m m' H. unfold pm_sweep in H. destruct (expired now m); inversion H; subst;
    [apply release_same_imm | apply same_imm_refl].
Qed.

Lemma pm_prune_age_imm c now : imm_pres (pm_prune_age c now).
Proof.
  intros m m' H. unfold pm_prune_age in H. destruct (prune_age_eligible c now m); inversion H; subst.
  apply same_imm_refl.
Qed.

Lemma pm_remove_ids_imm l : imm_pres (pm_remove_ids l).
Proof.
  intros m m' H. unfold pm_remove_ids in H. destruct (memN (m_id m) l); inversion H; subst.
  apply same_imm_refl.
Qed.

Lemma pm_lease_imm now ttl picked : imm_pres (pm_lease now ttl picked).
Proof.
  intros m m' H. unfold pm_lease in H. destruct (lease_of picked (m_id m)); inversion H; subst;
    [apply upd_same_imm | apply same_imm_refl].
Qed.

Lemma lease_effect_imm c now k : imm_pres (lease_effect c now k).
Proof.
  intros m m' H. unfold lease_effect in H.
  destruct k; try (destruct (0 <? c_deliv_age c)); inversion H; subst; apply upd_same_imm.
Qed.

Lemma manage_effect_imm now k : imm_pres (manage_effect now k).
Proof.
  intros m m' H. unfold manage_effect in H. destruct k; inversion H; subst; apply upd_same_imm.
Qed.

Lemma pm_on_id_imm i f : imm_pres f -> imm_pres (pm_on_id i f).
Proof.
  intros P m m' H. unfold pm_on_id in H. destruct (N.eqb (m_id m) i); [apply P; exact H|].
  inversion H; subst. apply same_imm_refl.
Qed.

Lemma pm_manage_imm now k l : imm_pres (pm_manage now k l).
Proof.
  intros m m' H. unfold pm_manage in H.
  destruct (memN (m_id m) l && allowed_from k (m_st m)); [apply (manage_effect_imm now k); exact H|].
  inversion H; subst. apply same_imm_refl.
Qed.

Lemma pm_comp_imm f g : imm_pres f -> imm_pres g -> imm_pres (pm_comp f g).
Proof.
  intros Pf Pg m m' H. unfold pm_comp in H. destruct (f m) as [x|] eqn:E; [|discriminate].
  eapply same_imm_trans; [apply Pf; exact E | apply Pg; exact H].
Qed.

Lemma pm_some_imm : imm_pres (fun m => Some m).
Proof. intros m m' H. inversion H; subst. apply same_imm_refl. Qed.

Lemma pm_release_imm now : imm_pres (fun x => Some (release now x)).
Proof. intros m m' H. inversion H; subst. apply release_same_imm. Qed.

#[export] Hint Resolve pm_sweep_imm pm_prune_age_imm pm_remove_ids_imm pm_lease_imm lease_effect_imm
  manage_effect_imm pm_on_id_imm pm_manage_imm pm_comp_imm pm_some_imm pm_release_imm imm_pres_id_pres : qimm.

(** ** pruning is a per-message filter *)
Definition pm_prune_msgs (c : cfg) (now : Z) (hint : list N) (l : list msg) : msg -> option msg :=
  pm_comp (pm_prune_age c now)
          (pm_remove_ids (dlq_depth_victims (c_dlq_depth c) hint (apply_pm (pm_prune_age c now) l))).

Lemma prune_msgs_pm c now hint l : prune_msgs c now hint l = apply_pm (pm_prune_msgs c now hint l) l.
Proof. unfold prune_msgs, pm_prune_msgs. rewrite apply_pm_comp. reflexivity. Qed.

Lemma pm_prune_msgs_imm c now hint l : imm_pres (pm_prune_msgs c now hint l).
Proof. unfold pm_prune_msgs. auto with qimm. Qed.

(** what a prune leaves of a message: the message itself, unchanged, or nothing *)
Lemma pm_prune_msgs_same c now hint l m m' : pm_prune_msgs c now hint l m = Some m' -> m' = m.
Proof.
  unfold pm_prune_msgs, pm_comp, pm_prune_age, pm_remove_ids.
  destruct (prune_age_eligible c now m); [discriminate|].
  destruct (memN (m_id m) _); intros H; inversion H; reflexivity.
Qed.

Definition prune_pm (c : cfg) (now : Z) (hint : list N) (s : state) : msg -> option msg :=
  if prune_due c now (last_prune s) then pm_prune_msgs c now hint (msgs s) else (fun m => Some m).

Lemma prune_msgs_eq c now hint s : msgs (prune c now hint s) = apply_pm (prune_pm c now hint s) (msgs s).
Proof.
  unfold prune, prune_pm. destruct (prune_due c now (last_prune s)); simpl.
  - apply prune_msgs_pm.
  - symmetry. apply apply_pm_id.
Qed.

Lemma prune_pm_same c now hint s m m' : prune_pm c now hint s m = Some m' -> m' = m.
Proof.
  unfold prune_pm. destruct (prune_due c now (last_prune s)).
  - apply pm_prune_msgs_same.
  - intros H; inversion H; reflexivity.
Qed.

Lemma prune_pm_imm c now hint s : imm_pres (prune_pm c now hint s).
Proof. intros m m' H. apply prune_pm_same in H. subst. apply same_imm_refl. Qed.

Lemma prune_order c now hint s : order (prune c now hint s) = order s.
Proof. unfold prune. destruct (prune_due _ _ _); reflexivity. Qed.

Lemma prune_issued c now hint s : issued (prune c now hint s) = issued s.
Proof. unfold prune. destruct (prune_due _ _ _); reflexivity. Qed.

Lemma prune_last_sweep c now hint s : last_sweep (prune c now hint s) = last_sweep s.
Proof. unfold prune. destruct (prune_due _ _ _); reflexivity. Qed.

Lemma NoDup_app_intro (A : Type) (l1 l2 : list A) :
  NoDup l1 -> NoDup l2 -> (forall x, In x l1 -> In x l2 -> False) -> NoDup (l1 ++ l2).
Proof.
  induction l1 as [|a tl IH]; simpl; intros N1 N2 D; [exact N2|].
  inversion N1 as [|? ? Ha Htl]; subst. constructor.
  - intros Hin. apply in_app_or in Hin. destruct Hin as [Hin | Hin]; [contradiction|].
    apply (D a); [left; reflexivity | exact Hin].
  - apply IH; [exact Htl | exact N2|]. intros x Hx Hy. apply (D x); [right; exact Hx | exact Hy].
Qed.
Arguments NoDup_app_intro {A}.

Lemma apply_pm_ids_incl_on pm l :
  (forall x x', In x l -> pm x = Some x' -> m_id x' = m_id x) -> incl (ids (apply_pm pm l)) (ids l).
Proof.
  intros P i Hi. unfold ids in *. apply in_map_iff in Hi. destruct Hi as [m' [E Hm']].
  apply apply_pm_In in Hm'. destruct Hm' as [m [Hm Hp]]. apply in_map_iff. exists m. split; [|exact Hm].
  rewrite <- E. symmetry. apply (P m m' Hm Hp).
Qed.

Lemma find_id_apply_pm_on pm l i :
  (forall x x', In x l -> pm x = Some x' -> m_id x' = m_id x) -> NoDup (ids l) ->
  find_id i (apply_pm pm l) = match find_id i l with Some m => pm m | None => None end.
Proof.
  induction l as [|x tl IH]; simpl; intros P ND; [reflexivity|].
  inversion ND as [|? ? Hx Htl]; subst.
  assert (Ptl : forall y y', In y tl -> pm y = Some y' -> m_id y' = m_id y) by (intros; apply P; [right|]; assumption).
  destruct (N.eqb (m_id x) i) eqn:E.
  - apply N.eqb_eq in E. destruct (pm x) as [x'|] eqn:Ep; simpl.
    + rewrite (P x x' (or_introl eq_refl) Ep), E, N.eqb_refl. reflexivity.
    + apply find_id_None. intros Hin. apply Hx. rewrite E. apply (apply_pm_ids_incl_on pm tl Ptl). exact Hin.
  - destruct (pm x) as [x'|] eqn:Ep; simpl; [|apply IH; assumption].
    rewrite (P x x' (or_introl eq_refl) Ep), E. apply IH; assumption.
Qed.
