(** Non-vacuity examples for the C10 theorems: concrete configurations and requests
    on which the hypotheses hold and the interesting branches are taken. *)
From Coq Require Import List NArith Bool.
From Coq Require Strings.String.
Import Coq.Strings.String.StringSyntax.
Delimit Scope string_scope with string.
From HK Require Import Model.RBytes Model.PathClean Model.PathMatch Model.HostMatch Model.Resolve.
Import ListNotations.
Open Scope N_scope.
Open Scope string_scope.

Definition b (s : String.string) : bytes := s2b s.

Definition mk (ch path : String.string) (methods hosts : list String.string) (remote : list prefix) : route :=
  {| r_channel := b ch; r_path := b path; r_methods := map b methods; r_hosts := map b hosts;
     r_headers := []; r_header_exists := []; r_query := []; r_query_exists := [];
     r_remote := remote; r_targets := [] |}.

Definition ex_routes : list route :=
  [ mk "outbound" "/jobs" [] [] [];
    mk "internal" "/jobs/nightly" [] [] [];
    mk "" "/hooks/partner" ["POST"; "PUT"] ["*.example.com"] [];
    mk "inbound" "/hooks" [] [] [{| p_v4 := true; p_addr := 3405803776; p_len := 24 |}];   (* 203.0.113.0/24 *)
    mk "" "/jobs/nightly/run" ["DELETE"] [] [] ].

Definition ex_parse (s : bytes) : option ip :=
  if beq s (b "203.0.113.7") then Some {| ip_v4 := true; ip_bits := 3405803783; ip_zone := false |}
  else if beq s (b "::ffff:203.0.113.7") then Some {| ip_v4 := false; ip_bits := 65535 * two32 + 3405803783; ip_zone := false |}
  else if beq s (b "198.51.100.1") then Some {| ip_v4 := true; ip_bits := 3325256705; ip_zone := false |}
  else None.

Definition req (m path host remote : String.string) : request :=
  {| q_method := b m; q_url_path := b path; q_host := b host; q_headers := []; q_query := []; q_remote := b remote |}.

Definition res (q : request) : N := resolve_index ex_parse ex_routes q (clean (q_url_path q)) 0.

(** dot segments are cleaned before matching; the outbound and the internal route are
    skipped although their paths match; the first inbound route that matches wins *)
Example ex_outbound_not_reachable : res (req "POST" "/jobs" "a" "203.0.113.7:1") = 0.
Proof. vm_compute. reflexivity. Qed.
Example ex_internal_not_reachable : res (req "POST" "/jobs/nightly" "a" "203.0.113.7:1") = 0.
Proof. vm_compute. reflexivity. Qed.
Example ex_traversal_into_outbound : res (req "POST" "/hooks/../jobs/./x" "a" "203.0.113.7:1") = 0.
Proof. vm_compute. reflexivity. Qed.
Example ex_inbound_below_internal : res (req "DELETE" "/jobs/nightly/run/1" "a" "x") = 5.
Proof. vm_compute. reflexivity. Qed.
Example ex_first_match_wins : res (req "PUT" "/hooks/partner/evt" "API.Example.COM:8443" "198.51.100.1:9") = 3.
Proof. vm_compute. reflexivity. Qed.
Example ex_falls_through_on_host : res (req "POST" "/hooks/partner" "evilexample.com" "[::ffff:203.0.113.7]:9") = 4.
Proof. vm_compute. reflexivity. Qed.
Example ex_apex_refused : res (req "POST" "/hooks/partner" "example.com" "198.51.100.1:9") = 0.
Proof. vm_compute. reflexivity. Qed.
Example ex_no_segment_boundary : res (req "POST" "/hooksx" "a" "203.0.113.7:1") = 0.
Proof. vm_compute. reflexivity. Qed.
Example ex_trailing_dot_port_quirk :
  normalize_host (b "example.com.:8080") = b "example.com." /\ normalize_host (b "Example.com.") = b "example.com".
Proof. vm_compute. split; reflexivity. Qed.

(** 405 with Allow when only the method differs, 404 otherwise; the store is returned unchanged *)
Definition serve (q : request) (st : N) := ingress_serve ex_parse N (fun _ _ _ s => (202, s + 1)) ex_routes q st.

Example ex_405 :
  serve (req "GET" "/hooks/partner" "api.example.com" "203.0.113.7:1") 7 =
  ({| rs_status := 405; rs_allow := Some (b "POST, PUT") |}, 7).
Proof. vm_compute. reflexivity. Qed.
Example ex_404 : serve (req "GET" "/jobs" "a" "203.0.113.7:1") 7 = ({| rs_status := 404; rs_allow := None |}, 7).
Proof. vm_compute. reflexivity. Qed.
Example ex_202 : serve (req "POST" "/hooks/a" "a" "203.0.113.7:1") 7 = ({| rs_status := 202; rs_allow := None |}, 8).
Proof. vm_compute. reflexivity. Qed.

Example ex_clean : map (fun s => clean (b s)) ["/a/b/../c"; "/../.."; "a/../.."; ""; "/a//b/./"]
                   = map b ["/a/c"; "/"; ".."; "."; "/a/b"].
Proof. vm_compute. reflexivity. Qed.
