(** Lemmas about the egress model (Model/Egress.v). *)
From Coq Require Import String Ascii List Bool NArith ZArith Arith Lia.
From HK Require Import Model.StrUtil Model.IpClass Model.IpSpec Model.Egress Proofs.IpClassProofs.
Import ListNotations.
Local Open Scope string_scope.

(** * strings *)

Lemma append_nil_r s : s ++ "" = s.
Proof. induction s; cbn; congruence. Qed.

Lemma length_append s t : String.length (s ++ t) = String.length s + String.length t.
Proof. induction s; cbn; auto. Qed.

Lemma has_suffix_spec suf s : has_suffix suf s = true <-> exists p, s = p ++ suf.
Proof.
  induction s as [|c t IH]; cbn [has_suffix].
  - destruct (String.eqb_spec "" suf) as [E|E].
    + split; [intros _; exists ""; subst; reflexivity | reflexivity].
    + split; [discriminate|]. intros [p Hp]. destruct p; cbn in Hp; [congruence | discriminate].
  - destruct (String.eqb_spec (String c t) suf) as [E|E].
    + split; [intros _; exists ""; subst; reflexivity | reflexivity].
    + rewrite IH. split.
      * intros [p Hp]. exists (String c p). cbn. congruence.
      * intros [p Hp]. destruct p as [|c' p]; cbn in Hp; [congruence|].
        inversion Hp; subst. exists p. reflexivity.
Qed.

(** * host rules *)

Definition host_rule (d : string) (sub : bool) : rule :=
  {| r_is_cidr := false; r_host := d; r_sub := sub; r_px := {| px_fam := FBad; px_addr := 0; px_bits := 0 |} |}.

Lemma match_host_exact h r :
  r_sub r = false -> r_host r <> "*" ->
  (match_host h r = true <-> h = r_host r /\ h <> "").
Proof.
  intros Hs Hw. unfold match_host. rewrite Hs.
  destruct (String.eqb_spec (r_host r) "") as [E|E]; cbn [orb negb].
  - split; [discriminate | intros [H1 H2]; congruence].
  - destruct (String.eqb_spec h "") as [E2|E2].
    + split; [discriminate | intros [_ H]; contradiction].
    + destruct (String.eqb_spec (r_host r) "*"); [contradiction|].
      destruct (String.eqb_spec h (r_host r)); split; auto; try discriminate; tauto.
Qed.

(** "*.d" matches proper sub-domains only: the host must end in "." ++ d. *)
Lemma match_host_wildcard h r :
  r_sub r = true -> r_host r <> "" -> r_host r <> "*" ->
  (match_host h r = true <-> exists p, h = p ++ "." ++ r_host r).
Proof.
  intros Hs Hne Hw. unfold match_host. rewrite Hs.
  destruct (String.eqb_spec (r_host r) "") as [E|E]; [contradiction|]. cbn [orb negb].
  assert (Hlen : forall p, p ++ "." ++ r_host r <> r_host r).
  { intros p Hp. apply (f_equal String.length) in Hp. rewrite !length_append in Hp. cbn in Hp. lia. }
  destruct (String.eqb_spec h "") as [E2|E2].
  - split; [discriminate|]. intros [p Hp]. subst h. destruct p; discriminate.
  - destruct (String.eqb_spec (r_host r) "*"); [contradiction|].
    destruct (String.eqb_spec h (r_host r)) as [E3|E3].
    + split; [discriminate|]. intros [p Hp]. exfalso. apply (Hlen p). congruence.
    + apply has_suffix_spec.
Qed.

Lemma apex_not_matched d : d <> "*" -> match_host d (host_rule d true) = false.
Proof.
  intros Hw. destruct (match_host d (host_rule d true)) eqn:E; [|reflexivity].
  exfalso. destruct (String.eqb_spec d "") as [E0|E0].
  - subst. discriminate.
  - apply match_host_wildcard in E; auto. destruct E as [p Hp]. cbn [host_rule r_host] in Hp.
    apply (f_equal String.length) in Hp. rewrite !length_append in Hp. cbn in Hp. lia.
Qed.

Lemma star_matches_all h r : r_host r = "*" -> h <> "" -> match_host h r = true.
Proof.
  intros Hr Hh. unfold match_host. rewrite Hr. cbn.
  destruct (String.eqb_spec h ""); [contradiction | reflexivity].
Qed.

Lemma match_rule_spec host ips r :
  match_rule host ips r = true <->
  if r_is_cidr r then exists i, In i ips /\ cidr_hit (r_px r) i = true
  else match_host host r = true.
Proof.
  unfold match_rule. destruct (r_is_cidr r); [apply existsb_exists | reflexivity].
Qed.

Lemma match_rules_spec host ips rs :
  match_rules host ips rs = true <-> exists r, In r rs /\ match_rule host ips r = true.
Proof. apply existsb_exists. Qed.

(** a CIDR/IP rule hits an address iff the address it denotes lies in the rule's block *)
Lemma cidr_hit_spec px i :
  cidr_hit px i = true <->
  match px_fam px, denotes i with
  | F4, A4 v => spec_in_block 32 (px_bits px) (px_addr px) v
  | F6, A6 w => spec_in_block 128 (px_bits px) (px_addr px) w
  | _, _ => False
  end.
Proof.
  rewrite <- cidr_contains_denoted. unfold cidr_hit.
  destruct (netip_from_ip i); [reflexivity | split; [discriminate | contradiction]].
Qed.

(** * resolution *)

Definition resolved_addrs (u : hop) : list ip :=
  match h_literal u with
  | Some a => [a]
  | None => match h_dns u with DnsErr => [] | DnsOk l => somes l end
  end.

Lemma somes_In {A} (l : list (option A)) x : In x (somes l) <-> In (Some x) l.
Proof.
  induction l as [|[y|] t IH]; cbn; [tauto | |].
  - rewrite IH. split; intros [H|H]; auto; left; congruence.
  - rewrite IH. split; [auto | intros [H|H]; [discriminate | auto]].
Qed.

Lemma resolve_true u ips :
  resolve true u = Some ips <-> ips = resolved_addrs u /\ ips <> [].
Proof.
  unfold resolve, resolved_addrs. cbn [negb].
  destruct (h_literal u).
  - split; [intros H; inversion H; split; [reflexivity | discriminate] | intros [H _]; congruence].
  - destruct (h_dns u) as [|l].
    + split; [discriminate | intros [H1 H2]; congruence].
    + destruct (somes l) eqn:E.
      * split; [discriminate | intros [H1 H2]; congruence].
      * split; [intros H; inversion H; split; [reflexivity | discriminate] | intros [H _]; congruence].
Qed.

Lemma resolve_false u : resolve false u = Some [].
Proof. reflexivity. Qed.

(** * checkEgressPolicyURL: exact characterisation of "allowed" *)

Definition ips_seen (p : policy) (u : hop) : list ip :=
  if need_ips p then resolved_addrs u else [].

Definition allow_b (p : policy) (u : hop) : bool :=
  scheme_ok (h_scheme u)
  && (negb (p_https_only p) || (to_lower (h_scheme u) =? "https"))
  && negb (norm_host (h_hostname u) =? "")
  && match resolve (need_ips p) u with
     | None => false
     | Some ips =>
         (negb (p_rebind p) || forallb is_allowed_ip ips)
         && negb (match_rules (norm_host (h_hostname u)) ips (p_deny p))
         && (is_nil (p_allow p) || match_rules (norm_host (h_hostname u)) ips (p_allow p))
     end.

Lemma check_allow_b p u : check p u = Allow <-> allow_b p u = true.
Proof.
  unfold check, allow_b.
  destruct (scheme_ok (h_scheme u)); cbn [negb andb];
    [| split; discriminate].
  destruct (p_https_only p), (to_lower (h_scheme u) =? "https"); cbn [negb andb orb];
    try (split; discriminate).
  all: destruct (norm_host (h_hostname u) =? ""); cbn [negb andb]; try (split; discriminate).
  all: destruct (resolve (need_ips p) u) as [ips|]; try (split; discriminate).
  all: destruct (p_rebind p), (forallb is_allowed_ip ips); cbn [negb andb orb]; try (split; discriminate).
  all: destruct (p_deny p) as [|d ds]; cbn [is_nil negb andb];
    [ change (match_rules (norm_host (h_hostname u)) ips []) with false; cbn [negb andb]
    | destruct (match_rules (norm_host (h_hostname u)) ips (d :: ds)); cbn [negb andb]; try (split; discriminate) ].
  all: destruct (p_allow p) as [|a al]; cbn [is_nil negb andb orb]; try (split; reflexivity).
  all: destruct (match_rules (norm_host (h_hostname u)) ips (a :: al)); cbn [negb]; split; (reflexivity || discriminate).
Qed.

Lemma check_allow_iff p u :
  check p u = Allow <->
  scheme_ok (h_scheme u) = true /\
  (p_https_only p = true -> to_lower (h_scheme u) = "https") /\
  norm_host (h_hostname u) <> "" /\
  (need_ips p = true -> resolved_addrs u <> []) /\
  (p_rebind p = true -> forall i, In i (resolved_addrs u) -> is_allowed_ip i = true) /\
  match_rules (norm_host (h_hostname u)) (ips_seen p u) (p_deny p) = false /\
  (p_allow p <> [] -> match_rules (norm_host (h_hostname u)) (ips_seen p u) (p_allow p) = true).
Proof.
  rewrite check_allow_b. unfold allow_b, ips_seen.
  rewrite !andb_true_iff, negb_true_iff, String.eqb_neq.
  assert (Hho : negb (p_https_only p) || (to_lower (h_scheme u) =? "https") = true <->
                (p_https_only p = true -> to_lower (h_scheme u) = "https")).
  { destruct (p_https_only p); cbn [negb orb].
    - rewrite String.eqb_eq. tauto.
    - split; [discriminate | reflexivity]. }
  rewrite Hho. clear Hho.
  assert (Hrb : forall ips, negb (p_rebind p) || forallb is_allowed_ip ips = true <->
                (p_rebind p = true -> forall i, In i ips -> is_allowed_ip i = true)).
  { intros ips. destruct (p_rebind p); cbn [negb orb].
    - rewrite forallb_forall. tauto.
    - split; [discriminate | reflexivity]. }
  assert (Hal : forall ips, is_nil (p_allow p) || match_rules (norm_host (h_hostname u)) ips (p_allow p) = true <->
                (p_allow p <> [] -> match_rules (norm_host (h_hostname u)) ips (p_allow p) = true)).
  { intros ips. destruct (p_allow p); cbn [is_nil orb].
    - split; [congruence | reflexivity].
    - split; [auto | intros H; apply H; discriminate]. }
  destruct (need_ips p) eqn:Eneed.
  - destruct (resolve true u) as [ips|] eqn:Er.
    + apply resolve_true in Er. destruct Er as [Er Hne]. subst ips.
      rewrite !andb_true_iff, negb_true_iff, Hrb, Hal. tauto.
    + split; [intros [_ H]; discriminate |].
      intros (_ & _ & _ & H & _). specialize (H eq_refl).
      assert (resolve true u = Some (resolved_addrs u)) by (apply resolve_true; auto). congruence.
  - cbn [resolve negb].
    assert (Erb : p_rebind p = false).
    { unfold need_ips in Eneed. apply orb_false_iff in Eneed. tauto. }
    rewrite !andb_true_iff, negb_true_iff, Hal, Erb. cbn [negb orb].
    split.
    + intros (((H1 & H2) & H3) & ((_ & H4) & H5)). repeat split; auto; discriminate.
    + intros (H1 & H2 & H3 & _ & _ & H4 & H5). repeat split; auto.
Qed.

(** * Consequences for one hop *)

Lemma scheme_closed p u : check p u = Allow ->
  to_lower (h_scheme u) = "http" \/ to_lower (h_scheme u) = "https".
Proof.
  intros H. apply check_allow_iff in H. destruct H as [H _]. unfold scheme_ok in H.
  apply orb_true_iff in H. rewrite !String.eqb_eq in H. exact H.
Qed.

Lemma https_only_closed p u : p_https_only p = true -> check p u = Allow ->
  to_lower (h_scheme u) = "https".
Proof. intros Hp H. apply check_allow_iff in H. tauto. Qed.

Lemma empty_host_refused p u : norm_host (h_hostname u) = "" -> check p u <> Allow.
Proof. intros Hn H. apply check_allow_iff in H. tauto. Qed.

Lemma deny_wins p u :
  match_rules (norm_host (h_hostname u)) (ips_seen p u) (p_deny p) = true -> check p u <> Allow.
Proof. intros Hm H. apply check_allow_iff in H. destruct H as (_ & _ & _ & _ & _ & H & _). congruence. Qed.

Lemma allowlist_closed p u : p_allow p <> [] -> check p u = Allow ->
  match_rules (norm_host (h_hostname u)) (ips_seen p u) (p_allow p) = true.
Proof. intros Hp H. apply check_allow_iff in H. tauto. Qed.

(** with a CIDR rule anywhere, or rebind protection, the addresses are looked at *)
Lemma ips_seen_when_needed p u : need_ips p = true -> ips_seen p u = resolved_addrs u.
Proof. unfold ips_seen. intros ->. reflexivity. Qed.

Lemma cidr_rule_needs_ips p r : (In r (p_allow p) \/ In r (p_deny p)) -> r_is_cidr r = true -> need_ips p = true.
Proof.
  intros Hin Hc. unfold need_ips, has_cidr_rules. apply orb_true_iff. right. apply orb_true_iff.
  destruct Hin as [Hin|Hin]; [left | right]; apply existsb_exists; exists r; auto.
Qed.

Lemma rebind_safe p u : p_rebind p = true -> check p u = Allow ->
  resolved_addrs u <> [] /\
  forall i, In i (resolved_addrs u) ->
    ~ spec_loopback i /\ ~ spec_private i /\ ~ spec_link_local i /\ ~ spec_multicast i /\ ~ spec_unspecified i.
Proof.
  intros Hp H. apply check_allow_iff in H. destruct H as (_ & _ & _ & Hne & Hall & _).
  split.
  - apply Hne. unfold need_ips. rewrite Hp. reflexivity.
  - intros i Hi. specialize (Hall Hp i Hi). apply is_allowed_ip_spec in Hall.
    destruct Hall as (_ & H1 & H2 & H3 & H4 & H5 & _). repeat split; assumption.
Qed.

(** * The hop loop *)

Fixpoint take_while {A} (f : A -> bool) (l : list A) : list A :=
  match l with
  | [] => []
  | x :: t => if f x then x :: take_while f t else []
  end.

Definition hop_budget (p : policy) : nat := if p_redirects p then max_requests else 1.

Lemma allowed_true p u : allowed p u = true <-> check p u = Allow.
Proof. unfold allowed. destruct (check p u); split; congruence. Qed.

Lemma follow_sent p : forall rest n,
  fst (follow p n rest) =
  firstn (if p_redirects p then max_requests - n else 0) (take_while (allowed p) rest).
Proof.
  induction rest as [|nxt rest IH]; intros n; cbn [follow take_while].
  - destruct (p_redirects p); [rewrite firstn_nil|]; reflexivity.
  - destruct (p_redirects p) eqn:Er; cbn [negb].
    + destruct (Nat.leb max_requests n) eqn:El.
      * apply Nat.leb_le in El. replace (max_requests - n) with 0 by lia. reflexivity.
      * apply Nat.leb_gt in El. unfold allowed at 1.
        destruct (check p nxt) eqn:Ec.
        -- specialize (IH (S n)). try rewrite Er in IH. destruct (follow p (S n) rest) as [s o]. cbn [fst] in *.
           replace (max_requests - n) with (S (max_requests - S n)) by lia. cbn [firstn]. rewrite IH. reflexivity.
        -- cbn [fst]. rewrite firstn_nil. reflexivity.
        -- cbn [fst]. rewrite firstn_nil. reflexivity.
    + reflexivity.
Qed.

(** The requests sent are exactly: the longest all-allowed prefix of the chain, cut at one
    request when redirects are off and at ten when they are on. *)
Lemma deliver_sent p chain :
  fst (deliver p chain) = firstn (hop_budget p) (take_while (allowed p) chain).
Proof.
  unfold deliver, hop_budget. destruct chain as [|h0 rest]; cbn [take_while].
  - rewrite firstn_nil. reflexivity.
  - unfold allowed at 1. destruct (check p h0) eqn:Ec.
    + pose proof (follow_sent p rest 1) as H. destruct (follow p 1 rest) as [s o]. cbn [fst] in *.
      rewrite H. destruct (p_redirects p); reflexivity.
    + cbn [fst]. rewrite firstn_nil. reflexivity.
    + cbn [fst]. rewrite firstn_nil. reflexivity.
Qed.

Lemma take_while_nth {A} (f : A -> bool) l : forall i x,
  nth_error (take_while f l) i = Some x ->
  nth_error l i = Some x /\ forall j, j <= i -> exists y, nth_error l j = Some y /\ f y = true.
Proof.
  induction l as [|a t IH]; intros i x; cbn [take_while].
  - destruct i; discriminate.
  - destruct (f a) eqn:Ea; [|destruct i; discriminate].
    destruct i as [|i]; cbn [nth_error].
    + intros H. split; [exact H|]. intros j Hj. assert (j = 0) by lia. subst. exists a. split; [reflexivity | exact Ea].
    + intros H. destruct (IH i x H) as [H1 H2]. split; [exact H1|].
      intros [|j] Hj; [exists a; split; [reflexivity | exact Ea] |].
      apply H2. lia.
Qed.

Lemma firstn_nth {A} (l : list A) : forall n i x,
  nth_error (firstn n l) i = Some x -> nth_error l i = Some x /\ i < n.
Proof.
  induction l as [|a t IH]; intros n i x.
  - rewrite firstn_nil. destruct i; discriminate.
  - destruct n; cbn [firstn]; [destruct i; discriminate|].
    destruct i; cbn [nth_error].
    + intros H; split; [exact H | lia].
    + intros H. destruct (IH n i x H). split; [assumption | lia].
Qed.

(** A request goes out to hop [i] only if hops 0..i all passed the policy check. *)
Lemma no_send_when_denied p chain i h :
  nth_error (fst (deliver p chain)) i = Some h ->
  nth_error chain i = Some h /\
  forall j, j <= i -> exists hj, nth_error chain j = Some hj /\ check p hj = Allow.
Proof.
  rewrite deliver_sent. intros H. apply firstn_nth in H. destruct H as [H _].
  apply take_while_nth in H. destruct H as [H1 H2]. split; [exact H1|].
  intros j Hj. destruct (H2 j Hj) as [y [Hy1 Hy2]]. exists y. split; [exact Hy1 | apply allowed_true; exact Hy2].
Qed.

Lemma sent_length p chain : length (fst (deliver p chain)) <= hop_budget p.
Proof. rewrite deliver_sent. apply firstn_le_length. Qed.

Lemma redirects_off p chain : p_redirects p = false ->
  length (fst (deliver p chain)) <= 1 /\ forall i, 1 <= i -> nth_error (fst (deliver p chain)) i = None.
Proof.
  intros Hr. pose proof (sent_length p chain) as H. unfold hop_budget in H. rewrite Hr in H.
  split; [exact H|]. intros i Hi. apply nth_error_None. lia.
Qed.

Lemma hop_limit p chain : length (fst (deliver p chain)) <= 10.
Proof.
  pose proof (sent_length p chain) as H. unfold hop_budget, max_requests in H.
  destruct (p_redirects p); lia.
Qed.

(** every allowed hop within the budget *is* contacted (the policy refuses nothing it allows) *)
Lemma allowed_prefix_sent p chain i :
  i < hop_budget p ->
  (forall j, j <= i -> exists hj, nth_error chain j = Some hj /\ check p hj = Allow) ->
  exists h, nth_error chain i = Some h /\ nth_error (fst (deliver p chain)) i = Some h.
Proof.
  rewrite deliver_sent. generalize (hop_budget p) as n. revert i.
  induction chain as [|a t IH]; intros i n Hi Hall.
  - destruct (Hall 0 ltac:(lia)) as [h [Hh _]]. discriminate.
  - cbn [take_while]. destruct (Hall 0 ltac:(lia)) as [h0 [Hh0 Hc0]]. cbn in Hh0. inversion Hh0; subst h0.
    apply allowed_true in Hc0. rewrite Hc0.
    destruct n; [lia|]. cbn [firstn]. destruct i as [|i]; cbn [nth_error].
    + exists a. split; reflexivity.
    + apply IH; [lia|]. intros j Hj. apply (Hall (S j)). lia.
Qed.

(** The outcome: a refusal names the first hop that is not allowed, and that hop was not contacted. *)
Lemma follow_stopped p : forall rest n v,
  snd (follow p n rest) = OStopped v ->
  v <> Allow /\ exists h, nth_error rest (length (fst (follow p n rest))) = Some h /\ check p h = v.
Proof.
  induction rest as [|nxt rest IH]; intros n v; cbn [follow].
  - discriminate.
  - destruct (p_redirects p); cbn [negb]; [|discriminate].
    destruct (Nat.leb max_requests n); [discriminate|].
    destruct (check p nxt) eqn:Ec.
    + specialize (IH (S n) v). destruct (follow p (S n) rest) as [s o]. cbn [fst snd length nth_error] in *. exact IH.
    + cbn. intros H; inversion H; subst. split; [discriminate|]. exists nxt. split; [reflexivity | exact Ec].
    + cbn. intros H; inversion H; subst. split; [discriminate|]. exists nxt. split; [reflexivity | exact Ec].
Qed.

Lemma deliver_stopped p chain v :
  snd (deliver p chain) = OStopped v ->
  v <> Allow /\ exists h, nth_error chain (length (fst (deliver p chain))) = Some h /\ check p h = v.
Proof.
  unfold deliver. destruct chain as [|h0 rest]; [discriminate|].
  destruct (check p h0) eqn:Ec.
  - pose proof (follow_stopped p rest 1 v) as H. destruct (follow p 1 rest) as [s o]. cbn [fst snd length nth_error] in *. exact H.
  - cbn. intros H; inversion H; subst. split; [discriminate|]. exists h0. split; [reflexivity | exact Ec].
  - cbn. intros H; inversion H; subst. split; [discriminate|]. exists h0. split; [reflexivity | exact Ec].
Qed.

(** A target the policy refuses: nothing at all is sent. *)
Lemma denied_target_sends_nothing p h0 rest why :
  check p h0 = Deny why -> deliver p (h0 :: rest) = ([], OStopped (Deny why)).
Proof. intros H. unfold deliver. rewrite H. reflexivity. Qed.

(** * push.go: a policy denial is dead-lettered as policy_denied at once, whatever the attempt
    number and the retry budget. *)
Lemma denied_is_dead_unretried why status attempt max :
  classify (result_of (OStopped (Deny why)) status) attempt max = LMarkDead DPolicyDenied.
Proof. reflexivity. Qed.

Lemma policy_denied_only_for_denial o status attempt max :
  classify (result_of o status) attempt max = LMarkDead DPolicyDenied <-> exists why, o = OStopped (Deny why).
Proof.
  split.
  - destruct o as [|v|]; cbn.
    + unfold classify. cbn. destruct ((200 <=? status)%Z && (status <? 300)%Z); [discriminate|].
      destruct (((status =? 408)%Z || (status =? 429)%Z || (500 <=? status)%Z)); cbn;
        destruct (attempt <=? max)%Z; cbn; discriminate.
    + destruct v; cbn; try (unfold classify; cbn; destruct (attempt <=? max)%Z; discriminate).
      intros _. eexists; reflexivity.
    + unfold classify; cbn; destruct (attempt <=? max)%Z; discriminate.
  - intros [why ->]. reflexivity.
Qed.

(** * Non-vacuity: concrete policies, hops and chains that meet the hypotheses. *)

Definition ip4 (a b c d : N) : ip := {| ip_fam := F4; ip_val := quad a b c d |}.
Definition mk_hop (scheme host : string) (lit : option ip) (ans : list ip) : hop :=
  {| h_scheme := scheme; h_hostname := host; h_literal := lit; h_dns := DnsOk (map Some ans) |}.
Definition cidr_rule (f : fam) (a bits : N) : rule :=
  {| r_is_cidr := true; r_host := ""; r_sub := false; r_px := {| px_fam := f; px_addr := a; px_bits := bits |} |}.
Definition default_policy : policy :=
  {| p_https_only := true; p_redirects := false; p_rebind := true; p_allow := []; p_deny := [] |}.
Definition open_policy (allow deny : list rule) : policy :=
  {| p_https_only := false; p_redirects := true; p_rebind := true; p_allow := allow; p_deny := deny |}.

Example ex_public_allowed :
  check default_policy (mk_hop "https" "Example.COM." None [ip4 93 184 216 34]) = Allow.
Proof. vm_compute. reflexivity. Qed.

Example ex_private_answer_denied :
  check default_policy (mk_hop "https" "example.com" None [ip4 93 184 216 34; ip4 10 0 0 7]) = Deny RDisallowedIP.
Proof. vm_compute. reflexivity. Qed.

Example ex_mapped_loopback_denied :
  check default_policy (mk_hop "https" "::ffff:127.0.0.1" (Some {| ip_fam := F6; ip_val := mapped_lo + quad 127 0 0 1 |}) []) = Deny RDisallowedIP.
Proof. vm_compute. reflexivity. Qed.

Example ex_wildcard :
  let p := open_policy [host_rule "example.com" true] [] in
  check p (mk_hop "http" "api.example.com" None [ip4 1 1 1 1]) = Allow /\
  check p (mk_hop "http" "example.com" None [ip4 1 1 1 1]) = Deny RNotAllowlisted /\
  check p (mk_hop "http" "badexample.com" None [ip4 1 1 1 1]) = Deny RNotAllowlisted.
Proof. vm_compute. repeat split. Qed.

Example ex_deny_beats_allow :
  let p := open_policy [host_rule "*" false] [cidr_rule F4 (quad 1 1 1 0) 24] in
  check p (mk_hop "http" "one.example" None [ip4 8 8 8 8; ip4 1 1 1 1]) = Deny RDenied /\
  check p (mk_hop "http" "one.example" None [ip4 8 8 8 8]) = Allow.
Proof. vm_compute. repeat split. Qed.

Example ex_chain :
  let p := open_policy [] [host_rule "evil.example" false] in
  let a := mk_hop "http" "a.example" None [ip4 1 1 1 1] in
  let e := mk_hop "http" "evil.example" None [ip4 1 1 1 2] in
  deliver p [a; a; e; a] = ([a; a], OStopped (Deny RDenied)) /\
  deliver {| p_https_only := false; p_redirects := false; p_rebind := true; p_allow := []; p_deny := [] |} [a; a; a] = ([a], OResponse) /\
  length (fst (deliver p (repeat a 15))) = 10.
Proof. vm_compute. repeat split. Qed.

(** * Statement-shaped corollaries used by Properties/C16.v *)

Lemma classes_are_rfc_ranges i :
  (is_loopback i = true <-> spec_loopback i) /\ (is_private i = true <-> spec_private i) /\
  (is_ll_unicast i = true <-> spec_link_local i) /\ (is_multicast i = true <-> spec_multicast i) /\
  (is_unspecified i = true <-> spec_unspecified i).
Proof.
  exact (conj (is_loopback_spec i) (conj (is_private_spec i) (conj (is_ll_unicast_spec i)
        (conj (is_multicast_spec i) (is_unspecified_spec i))))).
Qed.

Lemma match_rules_full_spec host ips rs :
  match_rules host ips rs = true <->
  exists r, In r rs /\
    if r_is_cidr r then exists i, In i ips /\ cidr_hit (r_px r) i = true
    else match_host host r = true.
Proof.
  rewrite match_rules_spec.
  split; intros [r [Hin H]]; exists r; (split; [exact Hin | apply match_rule_spec; exact H]).
Qed.

Lemma cidr_rules_see_addresses p u r :
  (In r (p_allow p) \/ In r (p_deny p)) -> r_is_cidr r = true -> ips_seen p u = resolved_addrs u.
Proof. intros Hin Hc. apply ips_seen_when_needed. exact (cidr_rule_needs_ips p r Hin Hc). Qed.

(** * IP/CIDR rules written in IPv4-mapped notation (parseEgressRule after fix 4e2df4c) *)

Lemma compile_prefix_mapped px :
  px_fam px = F6 -> (96 <= px_bits px)%N -> (mapped_lo <= px_addr px <= mapped_hi)%N ->
  compile_prefix px = {| px_fam := F4; px_addr := (px_addr px - mapped_lo)%N; px_bits := (px_bits px - 96)%N |}.
Proof.
  intros Hf Hb Hm. unfold compile_prefix, is4in6. rewrite Hf.
  unfold mapped_lo, mapped_hi, c32 in *. eval_consts.
  assert (E : (px_addr px / 4294967296 =? 65535)%N = true) by lia.
  assert (E2 : (96 <=? px_bits px)%N = true) by lia.
  rewrite E, E2. cbn [andb]. f_equal. lia.
Qed.

Lemma compile_prefix_other px :
  (px_fam px <> F6 \/ (px_bits px < 96)%N \/ ~ (mapped_lo <= px_addr px <= mapped_hi)%N) ->
  compile_prefix px = px.
Proof.
  intros H. unfold compile_prefix, is4in6. destruct (px_fam px) eqn:Ef; try reflexivity.
  unfold mapped_lo, mapped_hi, c32 in *. eval_consts.
  destruct H as [H|[H|H]]; [congruence | |].
  - assert (E2 : (96 <=? px_bits px)%N = false) by lia. rewrite E2, andb_false_r. reflexivity.
  - assert (E : (px_addr px / 4294967296 =? 65535)%N = false) by lia. rewrite E. reflexivity.
Qed.

(** A rule in mapped notation hits exactly the addresses its unmapped form names: those that
    denote an IPv4 address inside a.b.c.d/(n-96) ... *)
Lemma mapped_rule_hits_unmapped_form px i :
  px_fam px = F6 -> (96 <= px_bits px)%N -> (mapped_lo <= px_addr px <= mapped_hi)%N ->
  (cidr_hit (compile_prefix px) i = true <->
   match denotes i with
   | A4 v => spec_in_block 32 (px_bits px - 96) (px_addr px - mapped_lo) v
   | _ => False
   end).
Proof.
  intros Hf Hb Hm. rewrite (compile_prefix_mapped px Hf Hb Hm), cidr_hit_spec. cbn [px_fam px_addr px_bits].
  destruct (denotes i); tauto.
Qed.

(** ... equivalently, those whose own IPv4-mapped spelling lies in the 128-bit block as written. *)
Lemma div_pow2_shift_mapped k a v :
  (k <= 32)%N -> ((mapped_lo + a) / 2 ^ k = (mapped_lo + v) / 2 ^ k <-> a / 2 ^ k = v / 2 ^ k)%N.
Proof.
  intros Hk.
  assert (Hm : mapped_lo = (65535 * 2 ^ (32 - k) * 2 ^ k)%N).
  { rewrite <- N.mul_assoc, <- N.pow_add_r. replace (32 - k + k)%N with 32%N by lia. reflexivity. }
  assert (Hnz : (2 ^ k <> 0)%N) by (apply N.pow_nonzero; discriminate).
  rewrite Hm, !N.div_add_l by exact Hnz. lia.
Qed.

Lemma mapped_rule_hits_mapped_spelling px i :
  px_fam px = F6 -> (96 <= px_bits px <= 128)%N -> (mapped_lo <= px_addr px <= mapped_hi)%N ->
  (cidr_hit (compile_prefix px) i = true <->
   match denotes i with
   | A4 v => spec_in_block 128 (px_bits px) (px_addr px) (mapped_lo + v)
   | _ => False
   end).
Proof.
  intros Hf Hb Hm. rewrite (mapped_rule_hits_unmapped_form px i Hf (proj1 Hb) Hm).
  destruct (denotes i) as [v| |]; try tauto.
  unfold spec_in_block, blk_size.
  replace (32 - (px_bits px - 96))%N with (128 - px_bits px)%N by lia.
  replace (px_addr px) with (mapped_lo + (px_addr px - mapped_lo))%N at 2 by lia.
  rewrite div_pow2_shift_mapped by lia. split; intros [H1 H2]; (split; [lia | exact H2]).
Qed.

(** so a deny rule in that notation wins like any other ([deny_wins]) *)
Lemma mapped_deny_rule_wins p u r px i v :
  In r (p_deny p) -> r_is_cidr r = true -> r_px r = compile_prefix px ->
  px_fam px = F6 -> (96 <= px_bits px)%N -> (mapped_lo <= px_addr px <= mapped_hi)%N ->
  In i (resolved_addrs u) -> denotes i = A4 v ->
  spec_in_block 32 (px_bits px - 96) (px_addr px - mapped_lo) v ->
  check p u <> Allow.
Proof.
  intros Hin Hc Hpx Hf Hb Hm Hi Hd Hblk. apply deny_wins. apply match_rules_full_spec.
  exists r. split; [exact Hin|]. rewrite Hc.
  rewrite (cidr_rules_see_addresses p u r (or_intror Hin) Hc).
  exists i. split; [exact Hi|]. rewrite Hpx.
  apply (mapped_rule_hits_unmapped_form px i Hf Hb Hm). rewrite Hd. exact Hblk.
Qed.

Example ex_mapped_deny_rule :
  let px := {| px_fam := F6; px_addr := (mapped_lo + quad 8 8 8 8)%N; px_bits := 128 |} in
  let r := {| r_is_cidr := true; r_host := ""; r_sub := false; r_px := compile_prefix px |} in
  let pol := open_policy [] [r] in
  check pol (mk_hop "http" "::ffff:8.8.8.8" (Some {| ip_fam := F6; ip_val := (mapped_lo + quad 8 8 8 8)%N |}) []) = Deny RDenied /\
  check pol (mk_hop "http" "8.8.8.8" (Some (ip4 8 8 8 8)) []) = Deny RDenied /\
  check pol (mk_hop "http" "8.8.8.9" (Some (ip4 8 8 8 9)) []) = Allow /\
  compile_prefix {| px_fam := F6; px_addr := mapped_lo; px_bits := 95 |} = {| px_fam := F6; px_addr := mapped_lo; px_bits := 95 |}.
Proof. vm_compute. repeat split. Qed.
