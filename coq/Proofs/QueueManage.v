(** C14 - operator mutations touch exactly what they name. *)
From Coq Require Import List ZArith NArith Bool Lia Sorted Permutation.
From HK Require Import Gen.Consts Model.Queue Model.QueueHash Model.QueueMon
  Proofs.QueueBase Proofs.QueueInv Proofs.QueueInvStep Proofs.QueueStep Proofs.QueueLease Proofs.QueueFence.
Import ListNotations.
Open Scope Z_scope.

Lemma pm_manage_id_pres now k idl : id_pres (pm_manage now k idl).
Proof. apply imm_pres_id_pres. apply pm_manage_imm. Qed.

(** by ids: exactly the named messages in an allowed state change, exactly as the operation defines;
    everything else is identical; nothing appears; the count is the number selected *)
Theorem manage_by_ids_exact now k idl s s' r :
  Inv s -> step_manage now k idl s = (s', r) ->
  let nids := norm_ids idl [] in
  let sel m := memN (m_id m) nids && allowed_from k (m_st m) in
  (forall m, In m (msgs s) -> find_id (m_id m) (msgs s') = if sel m then manage_effect now k m else Some m)
  /\ incl (ids (msgs s')) (ids (msgs s))
  /\ exists n matched, r = RCount n matched false /\ n = Z.of_nat (length (filter sel (msgs s))).
Proof.
  intros I H. unfold step_manage in H. inversion H; subst s' r; clear H. cbv zeta. simpl.
  split; [|split].
  - intros m Hm. rewrite find_id_apply_pm; [|apply pm_manage_id_pres | apply I].
    rewrite (find_id_In_NoDup (msgs s) m (inv_nodup _ _ I) Hm). reflexivity.
  - apply apply_pm_ids_incl. apply pm_manage_id_pres.
  - eexists. eexists. split; [reflexivity|]. reflexivity.
Qed.

(** every selected message really changes state, so the count is the number of messages changed *)
Lemma manage_effect_changes now k m : allowed_from k (m_st m) = true -> manage_effect now k m <> Some m.
Proof.
  intros Ha H. unfold manage_effect in H. destruct k; inversion H as [E];
    apply (f_equal m_st) in E; simpl in E; rewrite <- E in Ha; discriminate.
Qed.

Theorem manage_count_is_changed now k idl s s' n matched :
  Inv s -> step_manage now k idl s = (s', RCount n matched false) ->
  n = Z.of_nat (length (filter (fun m => negb (opt_msg_eqb (find_id (m_id m) (msgs s')) (Some m))) (msgs s))).
Proof.
  intros I H. destruct (manage_by_ids_exact now k idl s s' _ I H) as [Hf [_ [n' [m' [Er En]]]]].
  inversion Er as [[E1 E2]]. rewrite En. f_equal. f_equal. apply filter_ext_in. intros m Hm.
  rewrite (Hf m Hm).
  destruct (memN (m_id m) (norm_ids idl []) && allowed_from k (m_st m)) eqn:E.
  - apply andb_true_iff in E. destruct E as [_ Ea].
    destruct (manage_effect now k m) as [x|] eqn:Ef; [|reflexivity].
    simpl. symmetry. apply negb_true_iff.
    destruct (msg_eqb x m) eqn:Eq; [|reflexivity]. exfalso.
    (* msg_eqb x m = true would make the states equal *)
    unfold msg_eqb in Eq. rewrite !andb_true_iff in Eq. destruct Eq as [[[[[[_ Es] _] _] _] _] _].
    unfold manage_effect in Ef. destruct k; inversion Ef; subst x; simpl in Es;
      destruct (m_st m); simpl in Ea, Es; discriminate.
  - simpl. symmetry. apply negb_false_iff.
    unfold msg_eqb, imm_eq, optN_eqb. rewrite !N.eqb_refl, !Z.eqb_refl. simpl.
    destruct (m_st m); destruct (m_lease m); simpl; rewrite ?N.eqb_refl; reflexivity.
Qed.

(** cancel voids the lease of a leased message it cancels *)
Theorem cancel_voids_lease now idl s s' r m l :
  Inv s -> step_manage now MCancel idl s = (s', r) -> In m (msgs s) -> m_lease m = Some l ->
  In (m_id m) (norm_ids idl []) -> current now l (msgs s') = None.
Proof.
  intros I H Hm Ll Hin.
  assert (I' : Inv s') by (pose proof (step_manage_inv now MCancel idl s I) as X; rewrite H in X; exact X).
  unfold current. destruct (find_lease l (msgs s')) as [m'|] eqn:F; [|reflexivity].
  apply find_lease_Some in F. destruct F as [Hm' Lm'].
  (* m' descends from a message of s *)
  unfold step_manage in H. inversion H; subst s'. simpl in Hm'. apply apply_pm_In in Hm'. destruct Hm' as [m0 [H0 Ep]].
  unfold pm_manage in Ep. destruct (memN (m_id m0) (norm_ids idl []) && allowed_from MCancel (m_st m0)) eqn:E.
  - apply manage_effect_clears in Ep. congruence.
  - inversion Ep; subst m'. assert (m0 = m) by (apply (inv_linj _ _ I m0 m l); assumption). subst m0.
    apply memN_In in Hin. rewrite Hin in E. simpl in E.
    assert (Il : is_leased m = true).
    { pose proof (inv_coh _ _ I m Hm) as Co. unfold coherent in Co. rewrite Ll in Co. unfold is_leased.
      destruct (m_st m); try discriminate; reflexivity. }
    unfold is_leased in Il. destruct (m_st m); simpl in E, Il; discriminate.
Qed.

(** ** by filter *)
(** the order: received_at, then id - descending = newest first *)
Definition newer (a b : msg) : Prop := lt_key (m_recv b) (m_id b) (m_recv a) (m_id a) = true.

Lemma lt_key_total ka ia kb ib : lt_key ka ia kb ib = true \/ lt_key kb ib ka ia = true \/ (ka = kb /\ ia = ib).
Proof.
  unfold lt_key. destruct (Z.lt_total ka kb) as [H | [H | H]].
  - left. apply orb_true_iff. left. apply Z.ltb_lt. exact H.
  - subst. destruct (N.lt_total ia ib) as [H | [H | H]].
    + left. apply orb_true_iff. right. rewrite Z.eqb_refl. simpl. apply N.ltb_lt. exact H.
    + right. right. auto.
    + right. left. apply orb_true_iff. right. rewrite Z.eqb_refl. simpl. apply N.ltb_lt. exact H.
  - right. left. apply orb_true_iff. left. apply Z.ltb_lt. exact H.
Qed.

Lemma lt_key_trans ka ia kb ib kc ic : lt_key ka ia kb ib = true -> lt_key kb ib kc ic = true -> lt_key ka ia kc ic = true.
Proof.
  unfold lt_key. rewrite !orb_true_iff, !andb_true_iff, !Z.ltb_lt, !Z.eqb_eq, !N.ltb_lt. intros [H1 | [H1 H1']] [H2 | [H2 H2']].
  - left. lia.
  - left. lia.
  - left. lia.
  - right. split; [lia|]. eapply N.lt_trans; eassumption.
Qed.

Definition desc_le (a b : msg) : Prop := newer a b \/ (m_recv a = m_recv b /\ m_id a = m_id b).

Lemma insert_desc_sorted m l :
  Sorted desc_le l -> Sorted desc_le (insert_by m_recv false m l).
Proof.
  induction l as [|x tl IH]; simpl; intros S; [constructor; constructor|].
  destruct (lt_key (m_recv x) (m_id x) (m_recv m) (m_id m)) eqn:E.
  - constructor; [exact S|]. constructor. left. exact E.
  - inversion S as [|? ? Stl Hd]; subst. constructor; [apply IH; exact Stl|].
    assert (Hxm : desc_le x m).
    { destruct (lt_key_total (m_recv x) (m_id x) (m_recv m) (m_id m)) as [H | [H | [H1 H2]]].
      - congruence.
      - left. exact H.
      - right. split; assumption. }
    destruct tl as [|y tl']; simpl.
    + constructor. exact Hxm.
    + destruct (lt_key (m_recv y) (m_id y) (m_recv m) (m_id m)); constructor; [exact Hxm|].
      inversion Hd; subst. assumption.
Qed.

Theorem sort_desc_sorted l : Sorted desc_le (sort_by m_recv false l).
Proof. unfold sort_by. induction l as [|x tl IH]; simpl; [constructor | apply insert_desc_sorted; exact IH]. Qed.

Lemma insert_by_perm key asc m l : Permutation (m :: l) (insert_by key asc m l).
Proof.
  induction l as [|x tl IH]; simpl; [apply Permutation_refl|].
  destruct (if asc then _ else _); [apply Permutation_refl|].
  eapply Permutation_trans; [apply perm_swap|]. apply perm_skip. exact IH.
Qed.

Theorem sort_by_perm key asc l : Permutation l (sort_by key asc l).
Proof.
  unfold sort_by. induction l as [|x tl IH]; simpl; [constructor|].
  eapply Permutation_trans; [apply perm_skip; exact IH | apply insert_by_perm].
Qed.

Lemma eff_limit_range lim : 1 <= eff_limit lim <= mem_list_limit_cap.
Proof.
  unfold eff_limit, mem_list_limit_default, mem_list_limit_cap. destruct (lim <=? 0) eqn:E1.
  - simpl. lia.
  - apply Z.leb_gt in E1. destruct (1000 <? lim) eqn:E2; [lia|]. apply Z.ltb_ge in E2. lia.
Qed.

(** the by-filter selection: a newest-first prefix, at most [limit] long, of exactly the messages that
    match every criterion and are in a state the operation is defined for *)
Theorem filter_select_spec k f l :
  let cand := filter (fun m => filt_match f m && allowed_from k (m_st m)) l in
  let sorted := sort_by m_recv false cand in
  (match f_state f with Some x => allowed_from k x | None => true end = true ->
     filter_select k f l = map m_id (firstn (Z.to_nat (eff_limit (f_limit f))) sorted))
  /\ (match f_state f with Some x => allowed_from k x | None => true end = false -> filter_select k f l = [])
  /\ Sorted desc_le sorted /\ Permutation cand sorted
  /\ (Z.of_nat (length (filter_select k f l)) <= eff_limit (f_limit f))
  /\ (forall i, In i (filter_select k f l) -> exists m, In m l /\ m_id m = i /\ filt_match f m = true /\ allowed_from k (m_st m) = true).
Proof.
  cbv zeta. set (cand := filter (fun m => filt_match f m && allowed_from k (m_st m)) l).
  assert (Hsel : forall i, In i (map m_id (firstn (Z.to_nat (eff_limit (f_limit f))) (sort_by m_recv false cand))) ->
                           exists m, In m l /\ m_id m = i /\ filt_match f m = true /\ allowed_from k (m_st m) = true).
  { intros i Hi. apply in_map_iff in Hi. destruct Hi as [m [Ei Hm]]. apply In_firstn in Hm. apply In_sort_by in Hm.
    unfold cand in Hm. apply filter_In in Hm. destruct Hm as [Hm Hc]. apply andb_true_iff in Hc. exists m. tauto. }
  assert (Hlen : Z.of_nat (length (map m_id (firstn (Z.to_nat (eff_limit (f_limit f))) (sort_by m_recv false cand)))) <= eff_limit (f_limit f)).
  { rewrite map_length. pose proof (firstn_le_length (Z.to_nat (eff_limit (f_limit f))) (sort_by m_recv false cand)).
    pose proof (eff_limit_range (f_limit f)). lia. }
  unfold filter_select. fold cand.
  split; [|split; [|split; [apply sort_desc_sorted | split; [apply sort_by_perm|]]]].
  - destruct (f_state f) as [x|]; [intros H; rewrite H; reflexivity | reflexivity].
  - destruct (f_state f) as [x|]; [intros H; rewrite H; reflexivity | discriminate].
  - split.
    + destruct (f_state f) as [x|]; [destruct (allowed_from k x)|]; try exact Hlen. simpl. pose proof (eff_limit_range (f_limit f)). lia.
    + destruct (f_state f) as [x|]; [destruct (allowed_from k x)|]; try exact Hsel. intros i [].
Qed.

(** by filter: preview changes nothing and reports the count a real run on the same queue matches;
    a real run changes exactly the selected messages *)
Theorem manage_by_filter_exact now k f s s' r :
  Inv s -> step_manage_f now k f s = (s', r) ->
  let idl := filter_select k f (msgs s) in
  let matched := Z.of_nat (length idl) in
  if f_preview f then s' = s /\ r = RCount 0 matched true
  else
    (forall m, In m (msgs s) ->
       find_id (m_id m) (msgs s') = if memN (m_id m) idl && allowed_from k (m_st m) then manage_effect now k m else Some m)
    /\ incl (ids (msgs s')) (ids (msgs s))
    /\ r = RCount (Z.of_nat (length (selected k idl (msgs s)))) matched false.
Proof.
  intros I H. cbv zeta. unfold step_manage_f in H. destruct (f_preview f).
  - inversion H; subst. split; reflexivity.
  - inversion H; subst s' r; clear H. simpl. split; [|split].
    + intros m Hm. rewrite find_id_apply_pm; [|apply pm_manage_id_pres | apply I].
      rewrite (find_id_In_NoDup (msgs s) m (inv_nodup _ _ I) Hm). reflexivity.
    + apply apply_pm_ids_incl. apply pm_manage_id_pres.
    + reflexivity.
Qed.

Lemma filter_as_apply_pm (p : msg -> bool) l : filter p l = apply_pm (fun m => if p m then Some m else None) l.
Proof. induction l as [|a tl IH]; simpl; [reflexivity|]. destruct (p a); simpl; rewrite IH; reflexivity. Qed.

Lemma filter_NoDup_ids (p : msg -> bool) l : NoDup (ids l) -> NoDup (ids (filter p l)).
Proof.
  intros ND. rewrite filter_as_apply_pm. apply apply_pm_NoDup; [|exact ND].
  intros a a' Ha. destruct (p a); inversion Ha; reflexivity.
Qed.

Theorem preview_equals_real now k f s :
  let fp := mkFilt (f_route f) (f_target f) (f_state f) (f_limit f) (f_before f) true in
  let fr := mkFilt (f_route f) (f_target f) (f_state f) (f_limit f) (f_before f) false in
  exists a b n, snd (step_manage_f now k fp s) = RCount a n true /\ snd (step_manage_f now k fr s) = RCount b n false
                /\ fst (step_manage_f now k fp s) = s.
Proof.
  cbv zeta. unfold step_manage_f. simpl. eexists. eexists. eexists. split; [reflexivity|]. split; reflexivity.
Qed.

(** every id the real run selects is in an allowed state, so the reported count equals the number matched *)
Theorem filter_count_is_matched now k f s :
  Inv s -> f_preview f = false ->
  exists n, snd (step_manage_f now k f s) = RCount n n false.
Proof.
  intros I Hp. unfold step_manage_f. rewrite Hp. simpl. eexists.
  f_equal.
  set (idl := filter_select k f (msgs s)).
  destruct (filter_select_spec k f (msgs s)) as [H1 [H2 [_ [_ [_ Hall]]]]]. fold idl in H1, H2, Hall.
  (* selected = the messages whose id is in idl; all of them are allowed; ids are unique *)
  unfold selected.
  assert (Hall' : forall i, In i idl -> exists m, In m (msgs s) /\ m_id m = i /\ allowed_from k (m_st m) = true).
  { intros i Hi. destruct (Hall i Hi) as [m [A [B [_ D]]]]. exists m. auto. }
  assert (NDl : NoDup idl).
  { unfold idl, filter_select.
    assert (G : NoDup (map m_id (firstn (Z.to_nat (eff_limit (f_limit f)))
                  (sort_by m_recv false (filter (fun m => filt_match f m && allowed_from k (m_st m)) (msgs s)))))).
    { set (cand := filter (fun m => filt_match f m && allowed_from k (m_st m)) (msgs s)).
      assert (NDc : NoDup (ids cand)) by (unfold cand; apply filter_NoDup_ids; apply I).
      assert (NDs : NoDup (ids (sort_by m_recv false cand))).
      { unfold ids. eapply Permutation_NoDup; [apply Permutation_map; apply sort_by_perm | exact NDc]. }
      clear -NDs. unfold ids in NDs. revert NDs. generalize (sort_by m_recv false cand) as l0.
      induction (Z.to_nat (eff_limit (f_limit f))) as [|n IH]; intros l0 ND; simpl; [constructor|].
      destruct l0 as [|a tl]; simpl; [constructor|]. simpl in ND. inversion ND as [|? ? Ha Htl]; subst.
      constructor; [|apply IH; exact Htl]. intros Hin. apply Ha. apply in_map_iff in Hin. destruct Hin as [y [Ey Hy]].
      apply in_map_iff. exists y. split; [exact Ey | apply (In_firstn _ n); exact Hy]. }
    destruct (f_state f) as [x|]; [destruct (allowed_from k x)|]; try exact G. constructor. }
  (* counting: |filter (memN id idl && allowed) msgs| = |idl| *)
  clear H1 H2 Hall.
  assert (Cnt : forall l0 (idl0 : list N), NoDup (ids l0) -> NoDup idl0 ->
            (forall i, In i idl0 -> exists m, In m l0 /\ m_id m = i /\ allowed_from k (m_st m) = true) ->
            length (filter (fun m => memN (m_id m) idl0 && allowed_from k (m_st m)) l0) = length idl0).
  { induction l0 as [|a tl IH]; intros idl0 ND NDi Hex; simpl.
    - destruct idl0 as [|i tl0]; [reflexivity|]. destruct (Hex i (or_introl eq_refl)) as [m [[] _]].
    - inversion ND as [|? ? Ha Htl]; subst.
      destruct (memN (m_id a) idl0) eqn:Em.
      + apply memN_In in Em. destruct (Hex _ Em) as [m [[Hm | Hm] [Ei Eal]]].
        * subst m. rewrite Eal. simpl.
          (* remove m_id a from idl0 *)
          destruct (in_split _ _ Em) as [l1 [l2 El]]. subst idl0.
          assert (NDi' : NoDup (l1 ++ l2)) by (apply NoDup_remove_1 in NDi; exact NDi).
          assert (Nin : ~ In (m_id a) (l1 ++ l2)) by (apply NoDup_remove_2 in NDi; exact NDi).
          rewrite app_length. simpl. rewrite <- plus_n_Sm, <- app_length. f_equal.
          rewrite <- (IH (l1 ++ l2) Htl NDi').
          -- f_equal. apply filter_ext_in. intros y Hy. f_equal.
             assert (Ny : m_id y <> m_id a) by (intros E; apply Ha; rewrite <- E; apply in_map; exact Hy).
             destruct (memN (m_id y) (l1 ++ m_id a :: l2)) eqn:E1; destruct (memN (m_id y) (l1 ++ l2)) eqn:E2; try reflexivity.
             ++ apply memN_In in E1. apply memN_false in E2. exfalso. apply E2.
                apply in_app_or in E1. apply in_or_app. destruct E1 as [E1 | [E1 | E1]]; [left; exact E1 | congruence | right; exact E1].
             ++ apply memN_false in E1. apply memN_In in E2. exfalso. apply E1.
                apply in_app_or in E2. apply in_or_app. destruct E2 as [E2 | E2]; [left; exact E2 | right; right; exact E2].
          -- intros i Hi. assert (Hi' : In i (l1 ++ m_id a :: l2)).
             { apply in_app_or in Hi. apply in_or_app. destruct Hi; [left | right; right]; assumption. }
             destruct (Hex i Hi') as [m [[Hm | Hm] [Ei2 Ea2]]].
             ++ subst m. exfalso. apply Nin. rewrite Ei2. exact Hi.
             ++ exists m. auto.
        * exfalso. apply Ha. rewrite <- Ei. apply in_map. exact Hm.
      + simpl. apply IH; [exact Htl | exact NDi|].
        intros i Hi. destruct (Hex i Hi) as [m [[Hm | Hm] [Ei Eal]]].
        * subst m. apply memN_false in Em. rewrite Ei in Em. contradiction.
        * exists m. auto. }
  rewrite (Cnt (msgs s) idl (inv_nodup _ _ I) NDl Hall'). reflexivity.
Qed.
