From Coq Require Import ZArith QArith Qminmax Qround Qpower Lqa Lia Bool.
From HK Require Import Model.Retry.
Open Scope Q_scope.

Lemma Qltb_true x y : Qltb x y = true <-> x < y.
Proof.
  unfold Qltb. rewrite negb_true_iff. split.
  - intros H. apply Qnot_le_lt. intros Hle. apply Qle_bool_iff in Hle. congruence.
  - intros H. destruct (Qle_bool y x) eqn:E; [|reflexivity]. apply Qle_bool_iff in E. apply Qle_not_lt in E. contradiction.
Qed.

Lemma Qltb_false x y : Qltb x y = false <-> y <= x.
Proof.
  unfold Qltb. rewrite negb_false_iff. apply Qle_bool_iff.
Qed.

Lemma pow2Q_pos n : 0 < pow2Q n.
Proof. unfold pow2Q. apply Qpower_0_lt. reflexivity. Qed.

Lemma pow2Q_ge1 n : (0 <= n)%Z -> 1 <= pow2Q n.
Proof. intros H. unfold pow2Q. apply Qpower_1_le; [discriminate | exact H]. Qed.

Lemma inject_Z_pos z : (0 < z)%Z -> 0 < inject_Z z.
Proof. intros H. change 0 with (inject_Z 0). rewrite <- Zlt_Qlt. exact H. Qed.

(** the capped exponential [d1] of the code is the property's min(base*2^(attempt-1), cap) *)
Lemma capped_is_backoff base cap attempt :
  (0 < cap)%Z ->
  (if (0 <? cap)%Z && Qltb (inject_Z cap) (inject_Z base * pow2Q (attempt - 1))
   then inject_Z cap else inject_Z base * pow2Q (attempt - 1)) == backoffQ base cap attempt.
Proof.
  intros Hc. unfold backoffQ. replace (0 <? cap)%Z with true by (symmetry; apply Z.ltb_lt; exact Hc).
  cbn [andb]. destruct (Qltb (inject_Z cap) (inject_Z base * pow2Q (attempt - 1))) eqn:E.
  - apply Qltb_true in E. symmetry. apply Q.min_r. apply Qlt_le_weak. exact E.
  - apply Qltb_false in E. symmetry. apply Q.min_l. exact E.
Qed.

Lemma backoff_pos base cap attempt : (0 < base)%Z -> (0 < cap)%Z -> 0 < backoffQ base cap attempt.
Proof.
  intros Hb Hc. unfold backoffQ. apply Q.min_glb_lt.
  - apply Qmult_lt_0_compat; [apply inject_Z_pos; exact Hb | apply pow2Q_pos].
  - apply inject_Z_pos. exact Hc.
Qed.

Lemma backoff_le_cap base cap attempt : backoffQ base cap attempt <= inject_Z cap.
Proof. unfold backoffQ. apply Q.le_min_r. Qed.

(** from base <= cap and attempt >= 1 the back-off is at least [base] *)
Lemma backoff_ge_base base cap attempt :
  (0 < base <= cap)%Z -> (1 <= attempt)%Z -> inject_Z base <= backoffQ base cap attempt.
Proof.
  intros [Hb Hc] Ha. unfold backoffQ. apply Q.min_glb.
  - pose proof (pow2Q_ge1 (attempt - 1) ltac:(lia)) as Hp. pose proof (inject_Z_pos base Hb). nra.
  - rewrite <- Zle_Qle. exact Hc.
Qed.

(** the back-off never decreases with the attempt number *)
Lemma backoff_monotone base cap a1 a2 :
  (0 < base)%Z -> (a1 <= a2)%Z -> backoffQ base cap a1 <= backoffQ base cap a2.
Proof.
  intros Hb Ha. unfold backoffQ. apply Q.min_le_compat; [|apply Qle_refl].
  assert (pow2Q (a1 - 1) <= pow2Q (a2 - 1)) by (unfold pow2Q; apply Qpower_le_compat_l; [lia | discriminate]).
  pose proof (inject_Z_pos base Hb). nra.
Qed.

(** * delay_bounds *)
Lemma delay_bounds : forall (base cap attempt : Z) (u j : Q),
  0 <= j /\ j <= 1 -> (0 < base <= cap)%Z -> (1 <= attempt)%Z -> 0 <= u /\ u < 1 ->
  let d := backoffQ base cap attempt in
  d * (1 - j) <= delayQ base cap attempt u j /\ delayQ base cap attempt u j <= d * (1 + j).
Proof.
  intros base cap attempt u j [Hj0 Hj1] [Hb Hbc] Ha [Hu0 Hu1] d.
  assert (Hc : (0 < cap)%Z) by lia.
  pose proof (backoff_pos base cap attempt Hb Hc) as Hd. fold d in Hd.
  unfold delayQ. replace (base <=? 0)%Z with false by (symmetry; apply Z.leb_gt; exact Hb).
  cbv zeta. pose proof (capped_is_backoff base cap attempt Hc) as Hd1. fold d in Hd1.
  set (d1 := if (0 <? cap)%Z && Qltb (inject_Z cap) (inject_Z base * pow2Q (attempt - 1))
             then inject_Z cap else inject_Z base * pow2Q (attempt - 1)) in *.
  destruct (Qltb 0 j) eqn:Ej.
  - apply Qltb_true in Ej.
    replace (Qltb 1 j) with false by (symmetry; apply Qltb_false; exact Hj1).
    assert (Hf1 : 1 - j <= 1 + (u * 2 - 1) * j) by nra.
    assert (Hf2 : 1 + (u * 2 - 1) * j <= 1 + j) by nra.
    assert (Hd1p : 0 < d1) by lra.
    set (f := 1 + (u * 2 - 1) * j) in *.
    destruct (Qltb (d1 * f) 0) eqn:En.
    + apply Qltb_true in En. exfalso. nra.
    + split; nra.
  - apply Qltb_false in Ej. assert (j == 0) by lra. split; nra.
Qed.

(** with jitter 0 the delay is exactly the back-off *)
Lemma delay_no_jitter : forall base cap attempt u,
  (0 < base)%Z -> (0 < cap)%Z -> delayQ base cap attempt u 0 == backoffQ base cap attempt.
Proof.
  intros base cap attempt u Hb Hc. unfold delayQ.
  replace (base <=? 0)%Z with false by (symmetry; apply Z.leb_gt; exact Hb).
  cbv zeta. replace (Qltb 0 0) with false by reflexivity. apply capped_is_backoff. exact Hc.
Qed.

(** the delay is never negative, whatever the configuration and the draw *)
Lemma delay_nonneg : forall base cap attempt u j, 0 <= delayQ base cap attempt u j.
Proof.
  intros base cap attempt u j. unfold delayQ. destruct (base <=? 0)%Z eqn:Eb; [apply Qle_refl|].
  apply Z.leb_gt in Eb. cbv zeta.
  assert (H0 : 0 < inject_Z base * pow2Q (attempt - 1))
    by (apply Qmult_lt_0_compat; [apply inject_Z_pos; exact Eb | apply pow2Q_pos]).
  set (d1 := if (0 <? cap)%Z && Qltb (inject_Z cap) (inject_Z base * pow2Q (attempt - 1))
             then inject_Z cap else inject_Z base * pow2Q (attempt - 1)).
  assert (Hd1 : 0 <= d1).
  { subst d1. destruct (0 <? cap)%Z eqn:Ec; cbn [andb]; [|lra].
    apply Z.ltb_lt in Ec. destruct (Qltb _ _); [|lra]. apply Qlt_le_weak, inject_Z_pos, Ec. }
  destruct (Qltb 0 j); [|exact Hd1].
  destruct (Qltb (d1 * _) 0) eqn:En; [apply Qle_refl|]. apply Qltb_false in En. exact En.
Qed.

(** the int64 the function returns (saturating truncation) stays inside the same window *)
Lemma delay_ns_bounds : forall (base cap attempt : Z) (u j : Q),
  0 <= j /\ j <= 1 -> (0 < base <= cap)%Z -> (cap <= max_int64)%Z -> (1 <= attempt)%Z -> 0 <= u /\ u < 1 ->
  let d := backoffQ base cap attempt in
  (Qfloor (d * (1 - j)) <= delay_ns base cap attempt u j)%Z /\
  inject_Z (delay_ns base cap attempt u j) <= d * (1 + j) /\
  (0 <= delay_ns base cap attempt u j <= max_int64)%Z.
Proof.
  intros base cap attempt u j Hj Hb Hcm Ha Hu d.
  pose proof (delay_bounds base cap attempt u j Hj Hb Ha Hu) as [Hlo Hhi]. fold d in Hlo, Hhi.
  pose proof (backoff_le_cap base cap attempt) as Hdc. fold d in Hdc.
  pose proof (backoff_pos base cap attempt ltac:(lia) ltac:(lia)) as Hd. fold d in Hd.
  unfold delay_ns. destruct Hj as [Hj0 Hj1]. repeat split.
  - apply Z.min_glb.
    + apply Qfloor_resp_le. exact Hlo.
    + assert (Hle : d * (1 - j) <= inject_Z max_int64).
      { assert (inject_Z cap <= inject_Z max_int64) by (rewrite <- Zle_Qle; exact Hcm). nra. }
      apply Qfloor_resp_le in Hle. rewrite Qfloor_Z in Hle. exact Hle.
  - eapply Qle_trans; [|exact Hhi]. eapply Qle_trans; [|apply Qfloor_le].
    rewrite <- Zle_Qle. apply Z.le_min_l.
  - apply Z.min_glb; [|unfold max_int64; lia].
    pose proof (delay_nonneg base cap attempt u j) as Hn. apply Qfloor_resp_le in Hn.
    change (Qfloor 0) with 0%Z in Hn. exact Hn.
  - apply Z.le_min_r.
Qed.

(** non-vacuity: base 1 s, cap 30 s, attempt 3, jitter 0.2, draw 0.25: 4 s * (1 - 0.5*0.2) = 3.6 s *)
Example delay_example :
  delayQ 1000000000 30000000000 3 (1 # 4) (1 # 5) == 3600000000 /\
  backoffQ 1000000000 30000000000 3 == 4000000000 /\
  delay_ns 1000000000 30000000000 7 (3 # 4) (1 # 5) = 33000000000%Z.
Proof. vm_compute. repeat split. Qed.
