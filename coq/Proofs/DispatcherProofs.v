From Coq Require Import ZArith QArith List Bool Lia.
From HK Require Import Model.Retry Model.Dispatcher.
Import ListNotations.
Open Scope Z_scope.

(** * classify: the complete decision table *)

Lemma classify_2xx c a m : 200 <= c <= 299 -> classify (RStatus c) a m = AAck.
Proof.
  intros H. unfold classify, is_success.
  replace (200 <=? c) with true by (symmetry; apply Z.leb_le; lia).
  replace (c <? 300) with true by (symmetry; apply Z.ltb_lt; lia). reflexivity.
Qed.

Lemma retryable_code_spec c : should_retry (RStatus c) = true <-> (c = 408 \/ c = 429 \/ 500 <= c).
Proof.
  unfold should_retry. rewrite !orb_true_iff, !Z.eqb_eq, Z.leb_le. tauto.
Qed.

Lemma not_success_code c : ~ (200 <= c <= 299) -> is_success (RStatus c) = false.
Proof.
  intros H. unfold is_success. apply andb_false_iff.
  destruct (Z.leb_spec 200 c); [right; apply Z.ltb_ge; lia | left; reflexivity].
Qed.

Lemma classify_retryable_code c a m :
  c = 408 \/ c = 429 \/ 500 <= c ->
  (a <= m -> classify (RStatus c) a m = ANack) /\
  (m < a -> classify (RStatus c) a m = ADead MaxRetries).
Proof.
  intros H. assert (Hs : is_success (RStatus c) = false) by (apply not_success_code; lia).
  assert (Hr : should_retry (RStatus c) = true) by (apply retryable_code_spec; exact H).
  unfold classify. rewrite Hs, Hr. cbn [is_policy_denied andb]. split; intros Ha.
  - replace (a <=? m) with true by (symmetry; apply Z.leb_le; lia). reflexivity.
  - replace (a <=? m) with false by (symmetry; apply Z.leb_gt; lia). reflexivity.
Qed.

Lemma classify_permanent_code c a m :
  ~ (200 <= c <= 299) -> c <> 408 -> c <> 429 -> c < 500 ->
  classify (RStatus c) a m = ADead NoRetry.
Proof.
  intros H2 H408 H429 H5.
  assert (Hs : is_success (RStatus c) = false) by (apply not_success_code; exact H2).
  assert (Hr : should_retry (RStatus c) = false).
  { destruct (should_retry (RStatus c)) eqn:E; [|reflexivity]. apply retryable_code_spec in E. lia. }
  unfold classify. rewrite Hs, Hr. reflexivity.
Qed.

Lemma classify_err_retryable k a m :
  k = Net \/ k = Timeout \/ k = Other ->
  (a <= m -> classify (RErr k) a m = ANack) /\
  (m < a -> classify (RErr k) a m = ADead MaxRetries).
Proof.
  intros H. split; intros Ha; unfold classify; cbn [is_success];
  destruct H as [-> | [-> | ->]]; cbn [should_retry is_policy_denied negb andb].
  all: try (replace (a <=? m) with true by (symmetry; apply Z.leb_le; lia); reflexivity).
  all: replace (a <=? m) with false by (symmetry; apply Z.leb_gt; lia); reflexivity.
Qed.

Lemma classify_policy k a m :
  k = PolicyDenied \/ k = PolicyDeniedWrapped -> classify (RErr k) a m = ADead PolicyDeniedR.
Proof. intros [-> | ->]; reflexivity. Qed.

(** The table of the property statement, for every status code in 100..599 (as [Z]), every error
    kind, every attempt number and every retry.max. *)
Lemma classify_total : forall (c attempt mx : Z) (k : err_kind),
  100 <= c <= 599 ->
  (* 2xx acks *)
  (200 <= c <= 299 -> classify (RStatus c) attempt mx = AAck) /\
  (* 5xx, 429, 408: retried while attempt <= max, then dead max_retries *)
  ((500 <= c <= 599 \/ c = 429 \/ c = 408) ->
      (attempt <= mx -> classify (RStatus c) attempt mx = ANack) /\
      (mx < attempt -> classify (RStatus c) attempt mx = ADead MaxRetries)) /\
  (* every other 4xx, and 1xx / 3xx: dead no_retry whatever the attempt *)
  ((100 <= c <= 199 \/ 300 <= c <= 399 \/ (400 <= c <= 499 /\ c <> 408 /\ c <> 429)) ->
      classify (RStatus c) attempt mx = ADead NoRetry) /\
  (* network errors, timeouts, other errors: retried while attempt <= max, then dead max_retries *)
  ((k = Net \/ k = Timeout \/ k = Other) ->
      (attempt <= mx -> classify (RErr k) attempt mx = ANack) /\
      (mx < attempt -> classify (RErr k) attempt mx = ADead MaxRetries)) /\
  (* egress-policy denial, also wrapped: dead policy_denied, never retried *)
  ((k = PolicyDenied \/ k = PolicyDeniedWrapped) -> classify (RErr k) attempt mx = ADead PolicyDeniedR).
Proof.
  intros c a m k Hc. repeat split.
  - apply classify_2xx.
  - apply classify_retryable_code; lia.
  - apply classify_retryable_code; lia.
  - intros H. apply classify_permanent_code; lia.
  - apply classify_err_retryable; assumption.
  - apply classify_err_retryable; assumption.
  - apply classify_policy.
Qed.

(** The five classes above cover 100..599 and are disjoint, so the table is total. *)
Lemma code_classes_partition c : 100 <= c <= 599 ->
  (200 <= c <= 299) \/ (500 <= c <= 599 \/ c = 429 \/ c = 408) \/
  (100 <= c <= 199 \/ 300 <= c <= 399 \/ (400 <= c <= 499 /\ c <> 408 /\ c <> 429)).
Proof. lia. Qed.

(** Converse readings: what each action implies (all codes in [Z], no range hypothesis). *)
Lemma ack_iff_2xx r a m : classify r a m = AAck <-> exists c, r = RStatus c /\ 200 <= c <= 299.
Proof.
  split.
  - unfold classify. destruct (is_success r) eqn:Es.
    + intros _. destruct r as [k|c]; [discriminate|]. exists c. split; [reflexivity|].
      unfold is_success in Es. apply andb_true_iff in Es. destruct Es as [H1 H2].
      apply Z.leb_le in H1. apply Z.ltb_lt in H2. lia.
    + destruct (should_retry r && (a <=? m)); discriminate.
  - intros [c [-> H]]. apply classify_2xx. exact H.
Qed.

Lemma never_success_1xx_3xx c a m :
  (100 <= c <= 199 \/ 300 <= c <= 399) -> classify (RStatus c) a m <> AAck.
Proof. intros H E. apply ack_iff_2xx in E. destruct E as [c' [E1 E2]]. inversion E1. subst. lia. Qed.

Lemma nack_implies r a m : classify r a m = ANack -> a <= m /\ should_retry r = true /\ is_policy_denied r = false.
Proof.
  unfold classify. destruct (is_success r); [discriminate|].
  destruct (should_retry r) eqn:Er; cbn [andb].
  - destruct (a <=? m) eqn:Ea; [|discriminate]. intros _. apply Z.leb_le in Ea.
    repeat split; try assumption.
    destruct r as [k|c]; [destruct k; try reflexivity; discriminate | reflexivity].
  - discriminate.
Qed.

Lemma dead_policy_iff r a m : classify r a m = ADead PolicyDeniedR <-> is_policy_denied r = true.
Proof.
  split.
  - unfold classify. destruct (is_success r); [discriminate|].
    destruct (should_retry r && (a <=? m)); [discriminate|].
    destruct (is_policy_denied r); [reflexivity|]. destruct (should_retry r); discriminate.
  - destruct r as [k|c]; [|discriminate]. destruct k; try discriminate; reflexivity.
Qed.

Lemma dead_max_implies r a m : classify r a m = ADead MaxRetries -> m < a /\ should_retry r = true.
Proof.
  unfold classify. destruct (is_success r); [discriminate|].
  destruct (should_retry r) eqn:Er; cbn [andb].
  - destruct (a <=? m) eqn:Ea; [discriminate|]. apply Z.leb_gt in Ea.
    destruct (is_policy_denied r); [discriminate|]. intros _. split; [lia|reflexivity].
  - destruct (is_policy_denied r); discriminate.
Qed.

Lemma dead_no_retry_implies r a m :
  classify r a m = ADead NoRetry -> should_retry r = false /\ is_success r = false /\ is_policy_denied r = false.
Proof.
  unfold classify. destruct (is_success r); [discriminate|].
  destruct (should_retry r) eqn:Er; cbn [andb].
  - destruct (a <=? m); [discriminate|]. destruct (is_policy_denied r); discriminate.
  - destruct (is_policy_denied r); [discriminate|]. intros _. repeat split.
Qed.

(** Finite restatement: the whole 100..599 x {attempt <= max, attempt > max} table by
    computation against a table written from the property text (ranges only). *)
Definition table_action (c : Z) (within : bool) : Z :=
  if (200 <=? c) && (c <=? 299) then 0
  else if (c =? 408) || (c =? 429) || ((500 <=? c) && (c <=? 599)) then (if within then 1 else 4)
  else 2.

Definition codes_100_599 : list Z := map (fun n => 100 + Z.of_nat n) (seq 0 500).

Definition table_check (c : Z) : bool :=
  (enc_action (classify (RStatus c) 3 3) =? table_action c true) &&
  (enc_action (classify (RStatus c) 4 3) =? table_action c false).

Lemma table_all : forallb table_check codes_100_599 = true.
Proof. vm_compute. reflexivity. Qed.

Lemma classify_attempt_indep r a m a' m' :
  (a <=? m) = (a' <=? m') -> classify r a m = classify r a' m'.
Proof. intros H. unfold classify. rewrite H. reflexivity. Qed.

Lemma in_codes c : 100 <= c <= 599 -> In c codes_100_599.
Proof.
  intros H. unfold codes_100_599. apply in_map_iff. exists (Z.to_nat (c - 100)). split; [lia|].
  apply in_seq. lia.
Qed.

Lemma classify_table : forall c a m, 100 <= c <= 599 ->
  enc_action (classify (RStatus c) a m) = table_action c (a <=? m).
Proof.
  intros c a m Hc. pose proof table_all as T. rewrite forallb_forall in T.
  specialize (T c (in_codes c Hc)). unfold table_check in T. apply andb_true_iff in T.
  destruct T as [T1 T2]. apply Z.eqb_eq in T1. apply Z.eqb_eq in T2.
  destruct (a <=? m) eqn:E.
  - rewrite (classify_attempt_indep _ a m 3 3); [exact T1 | rewrite E; reflexivity].
  - rewrite (classify_attempt_indep _ a m 4 3); [exact T2 | rewrite E; reflexivity].
Qed.

(** * attempt records *)
Lemma attempt_recorded : forall rc a r u,
  exists rec, attempt_records rc a r u = [rec] /\
    ar_attempt rec = a /\ ar_result rec = r /\
    (classify r a (rc_max rc) = AAck -> ar_outcome rec = OAcked /\ ar_reason rec = None /\ ar_delay rec = None) /\
    (classify r a (rc_max rc) = ANack -> ar_outcome rec = ORetry /\ ar_reason rec = None /\
        ar_delay rec = Some (delayQ (rc_base rc) (rc_cap rc) a u (rc_jitter rc))) /\
    (forall why, classify r a (rc_max rc) = ADead why -> ar_outcome rec = ODead /\ ar_reason rec = Some why /\ ar_delay rec = None).
Proof.
  intros rc a r u. unfold attempt_records. eexists. split; [reflexivity|].
  cbn [ar_attempt ar_result ar_outcome ar_reason ar_delay].
  destruct (classify r a (rc_max rc)) as [| |w]; cbn [outcome_of reason_of].
  - repeat split; try discriminate.
  - repeat split; try discriminate.
  - repeat split; try discriminate; inversion H; reflexivity.
Qed.

Lemma attempt_records_length rc a r u : length (attempt_records rc a r u) = 1%nat.
Proof. reflexivity. Qed.

(** * the cycle: bounded number of sends, always a terminal state *)

Lemma cycle_sends_le : forall fuel rc a beh draw k,
  sends (cycle fuel rc a beh draw k) <= Z.max 1 (rc_max rc + 2 - a).
Proof.
  induction fuel as [|f IH]; intros rc a beh draw k.
  - unfold sends. cbn. lia.
  - cbn [cycle]. destruct (classify (beh k) a (rc_max rc)) eqn:Ec.
    + unfold sends. cbn. lia.
    + apply nack_implies in Ec. destruct Ec as [Ha _].
      specialize (IH rc (a + 1) beh draw (S k)).
      destruct (cycle f rc (a + 1) beh draw (S k)) as [l t]. unfold sends in *. cbn [fst] in *.
      rewrite app_length, attempt_records_length. lia.
    + unfold sends. cbn. lia.
Qed.

Lemma cycle_terminates : forall fuel rc a beh draw k,
  (Z.to_nat (rc_max rc + 1 - a) < fuel)%nat ->
  exists t, snd (cycle fuel rc a beh draw k) = Some t.
Proof.
  induction fuel as [|f IH]; intros rc a beh draw k Hf; [lia|].
  cbn [cycle]. destruct (classify (beh k) a (rc_max rc)) eqn:Ec.
  - eexists; reflexivity.
  - apply nack_implies in Ec. destruct Ec as [Ha _].
    destruct (IH rc (a + 1) beh draw (S k)) as [t Ht]; [lia|].
    destruct (cycle f rc (a + 1) beh draw (S k)) as [l t']. cbn [snd] in *. exists t. exact Ht.
  - eexists; reflexivity.
Qed.

Lemma cycle_nonempty : forall fuel rc a beh draw k, (0 < fuel)%nat -> 1 <= sends (cycle fuel rc a beh draw k).
Proof.
  intros [|f] rc a beh draw k H; [lia|]. cbn [cycle].
  destruct (classify (beh k) a (rc_max rc)); unfold sends; cbn [fst]; try (cbn; lia).
  destruct (cycle f rc (a + 1) beh draw (S k)) as [l t]. cbn [fst]. rewrite app_length, attempt_records_length. lia.
Qed.

(** more fuel than needed changes nothing: the cycle is a function of the behaviour stream only *)
Lemma cycle_fuel_irrelevant : forall f1 f2 rc a beh draw k,
  (Z.to_nat (rc_max rc + 1 - a) < f1)%nat -> (Z.to_nat (rc_max rc + 1 - a) < f2)%nat ->
  cycle f1 rc a beh draw k = cycle f2 rc a beh draw k.
Proof.
  induction f1 as [|f1 IH]; intros f2 rc a beh draw k H1 H2; [lia|].
  destruct f2 as [|f2]; [lia|]. cbn [cycle].
  destruct (classify (beh k) a (rc_max rc)) eqn:Ec; try reflexivity.
  apply nack_implies in Ec. destruct Ec as [Ha _].
  rewrite (IH f2 rc (a + 1) beh draw (S k)) by lia. reflexivity.
Qed.

Lemma attempts_bounded : forall rc a0 beh draw,
  0 <= rc_max rc -> 1 <= a0 ->
  let tr := dispatch_cycle rc a0 beh draw in
  1 <= sends tr <= rc_max rc + 1 /\
  sends tr <= Z.max 1 (rc_max rc + 2 - a0) /\
  exists t, snd tr = Some t /\
    (t = TDelivered \/ t = TDead NoRetry \/ t = TDead PolicyDeniedR \/ t = TDead MaxRetries).
Proof.
  intros rc a0 beh draw Hm Ha tr. subst tr. unfold dispatch_cycle.
  pose proof (cycle_sends_le (cycle_fuel rc a0) rc a0 beh draw 0) as Hs.
  pose proof (cycle_nonempty (cycle_fuel rc a0) rc a0 beh draw 0) as Hn.
  destruct (cycle_terminates (cycle_fuel rc a0) rc a0 beh draw 0) as [t Ht]; [unfold cycle_fuel; lia|].
  repeat split.
  - apply Hn. unfold cycle_fuel. lia.
  - lia.
  - exact Hs.
  - exists t. split; [exact Ht|]. destruct t as [|[| |]]; tauto.
Qed.

(** * shape of the trace: consecutive attempt numbers, retries then exactly one terminal record *)

Fixpoint consecutive (a : Z) (l : list attempt_rec) : Prop :=
  match l with
  | [] => True
  | r :: tl => ar_attempt r = a /\ consecutive (a + 1) tl
  end.

Definition terminal_matches (t : terminal) (r : attempt_rec) : Prop :=
  match t with
  | TDelivered => ar_outcome r = OAcked /\ ar_reason r = None
  | TDead why => ar_outcome r = ODead /\ ar_reason r = Some why
  end.

(** every record but the last is a retry; the last one carries the terminal outcome *)
Fixpoint retries_then (t : terminal) (l : list attempt_rec) : Prop :=
  match l with
  | [] => False
  | [r] => terminal_matches t r
  | r :: tl => ar_outcome r = ORetry /\ retries_then t tl
  end.

Lemma cycle_shape : forall fuel rc a beh draw k t,
  snd (cycle fuel rc a beh draw k) = Some t ->
  consecutive a (fst (cycle fuel rc a beh draw k)) /\ retries_then t (fst (cycle fuel rc a beh draw k)).
Proof.
  induction fuel as [|f IH]; intros rc a beh draw k t; [cbn; discriminate|].
  cbn [cycle]. unfold attempt_records.
  destruct (classify (beh k) a (rc_max rc)) eqn:Ec.
  - cbn [snd fst]. intros H. inversion H. subst. cbn. repeat split.
  - specialize (IH rc (a + 1) beh draw (S k) t).
    destruct (cycle f rc (a + 1) beh draw (S k)) as [l t'] eqn:El. cbn [snd fst] in *.
    intros H. specialize (IH H). destruct IH as [I1 I2]. split.
    + cbn. split; [reflexivity | exact I1].
    + cbn [app]. destruct l as [|r' l']; [destruct I2|]. cbn [retries_then]. cbn [retries_then] in I2.
      split; [reflexivity | exact I2].
  - cbn [snd fst]. intros H. inversion H. subst. cbn. repeat split.
Qed.

(** the terminal state is the one the last target behaviour calls for *)
Lemma cycle_last : forall fuel rc a beh draw k t,
  snd (cycle fuel rc a beh draw k) = Some t ->
  exists n : nat, sends (cycle fuel rc a beh draw k) = Z.of_nat (S n) /\
    (forall i : nat, (i < n)%nat -> classify (beh (k + i)%nat) (a + Z.of_nat i) (rc_max rc) = ANack) /\
    match t with
    | TDelivered => classify (beh (k + n)%nat) (a + Z.of_nat n) (rc_max rc) = AAck
    | TDead why => classify (beh (k + n)%nat) (a + Z.of_nat n) (rc_max rc) = ADead why
    end.
Proof.
  induction fuel as [|f IH]; intros rc a beh draw k t; [cbn; discriminate|].
  cbn [cycle]. destruct (classify (beh k) a (rc_max rc)) eqn:Ec.
  - cbn [snd]. intros H. inversion H. subst. exists 0%nat. unfold sends. cbn [fst]. rewrite attempt_records_length.
    repeat split; [intros i Hi; lia|]. rewrite Nat.add_0_r, Z.add_0_r. exact Ec.
  - specialize (IH rc (a + 1) beh draw (S k) t).
    destruct (cycle f rc (a + 1) beh draw (S k)) as [l t'] eqn:El. cbn [snd fst] in *.
    intros H. destruct (IH H) as [n [Hn [Hi Ht]]]. exists (S n). unfold sends in *. cbn [fst] in *.
    rewrite app_length, attempt_records_length. repeat split.
    + lia.
    + intros i Hlt. destruct i as [|i].
      * rewrite Nat.add_0_r, Z.add_0_r. exact Ec.
      * replace (k + S i)%nat with (S k + i)%nat by lia.
        replace (a + Z.of_nat (S i)) with (a + 1 + Z.of_nat i) by lia. apply Hi. lia.
    + replace (k + S n)%nat with (S k + n)%nat by lia.
      replace (a + Z.of_nat (S n)) with (a + 1 + Z.of_nat n) by lia. exact Ht.
  - cbn [snd]. intros H. inversion H. subst. exists 0%nat. unfold sends. cbn [fst]. rewrite attempt_records_length.
    repeat split; [intros i Hi; lia|]. rewrite Nat.add_0_r, Z.add_0_r. exact Ec.
Qed.

(** a target that keeps failing retryably exhausts exactly max+1 sends from a fresh enqueue *)
Lemma always_failing_exhausts : forall rc beh draw,
  0 <= rc_max rc -> (forall k, should_retry (beh k) = true /\ is_success (beh k) = false) ->
  let tr := dispatch_cycle rc 1 beh draw in
  sends tr = rc_max rc + 1 /\ snd tr = Some (TDead MaxRetries).
Proof.
  intros rc beh draw Hm Hb tr. subst tr. unfold dispatch_cycle.
  destruct (cycle_terminates (cycle_fuel rc 1) rc 1 beh draw 0) as [t Ht]; [unfold cycle_fuel; lia|].
  destruct (cycle_last _ _ _ _ _ _ _ Ht) as [n [Hn [Hi Hl]]].
  assert (Hcl : forall j a, classify (beh j) a (rc_max rc) = if a <=? rc_max rc then ANack else ADead MaxRetries).
  { intros j a. destruct (Hb j) as [H1 H2]. unfold classify. rewrite H2, H1. cbn [andb].
    destruct (a <=? rc_max rc); [reflexivity|].
    destruct (beh j) as [kk|c]; [destruct kk; cbn in H1; try discriminate; reflexivity | reflexivity]. }
  assert (Hn1 : Z.of_nat n = rc_max rc).
  { destruct t as [|why].
    - rewrite Hcl in Hl. destruct (1 + Z.of_nat n <=? rc_max rc); discriminate.
    - rewrite Hcl in Hl. destruct (Z.leb_spec (1 + Z.of_nat n) (rc_max rc)) as [Hle|Hgt]; [discriminate|].
      destruct (Z.eq_dec (Z.of_nat n) (rc_max rc)) as [E|E]; [exact E|].
      assert (Hlt : (Z.to_nat (rc_max rc) < n)%nat) by lia.
      specialize (Hi (Z.to_nat (rc_max rc)) Hlt). rewrite Hcl in Hi.
      destruct (Z.leb_spec (1 + Z.of_nat (Z.to_nat (rc_max rc))) (rc_max rc)); [lia | discriminate]. }
  split; [lia|]. rewrite Ht. f_equal. destruct t as [|why].
  - rewrite Hcl in Hl. destruct (1 + Z.of_nat n <=? rc_max rc); discriminate.
  - rewrite Hcl in Hl. destruct (Z.leb_spec (1 + Z.of_nat n) (rc_max rc)); [lia|]. inversion Hl. reflexivity.
Qed.

(** * lease TTL covers the sequential micro-batch *)

Lemma max_timeout_ge_acc : forall l m, m <= fold_left timeout_step l m.
Proof.
  induction l as [|x l IH]; intros m; cbn [fold_left]; [lia|].
  specialize (IH (timeout_step m x)). unfold timeout_step in IH at 1. cbv zeta in IH.
  destruct (Z.ltb_spec m (eff_timeout x)); lia.
Qed.

Lemma max_timeout_ge_in : forall l m t, In t l -> eff_timeout t <= fold_left timeout_step l m.
Proof.
  induction l as [|x l IH]; intros m t Hin; [destruct Hin|].
  cbn [fold_left]. destruct Hin as [->|Hin].
  - pose proof (max_timeout_ge_acc l (timeout_step m t)) as H. unfold timeout_step in H at 1. cbv zeta in H.
    destruct (Z.ltb_spec m (eff_timeout t)); lia.
  - apply IH. exact Hin.
Qed.

Lemma eff_timeout_pos t : 0 < eff_timeout t.
Proof. unfold eff_timeout, sec. destruct (Z.leb_spec t 0); lia. Qed.

Lemma eff_timeout_ge t : t <= eff_timeout t.
Proof. unfold eff_timeout, sec. destruct (Z.leb_spec t 0); lia. Qed.

Lemma ttl_covers_microbatch : forall timeouts slack batch t,
  In t timeouts -> 1 <= batch ->
  batch * eff_timeout t + slack <= route_lease_ttl timeouts slack batch /\
  30 * sec <= route_lease_ttl timeouts slack batch.
Proof.
  intros timeouts slack batch t Hin Hb. unfold route_lease_ttl.
  replace (batch <=? 0) with false by (symmetry; apply Z.leb_gt; lia).
  pose proof (max_timeout_ge_in timeouts 0 t Hin) as Hm. fold (max_timeout timeouts) in Hm.
  pose proof (eff_timeout_pos t).
  destruct (Z.ltb_spec (max_timeout timeouts * batch + slack) (30 * sec)); split; nia.
Qed.

Lemma dequeue_batch_range : forall c n,
  let b := route_dequeue_batch (eff_concurrency c) n in
  1 <= b <= 4 /\ b <= eff_concurrency c /\ (1 < n -> b <= 2) /\ route_mutation_batch b = b.
Proof.
  intros c n b. subst b. unfold route_dequeue_batch, eff_concurrency, route_mutation_batch.
  destruct (Z.leb_spec c 0).
  - cbn. lia.
  - destruct (Z.leb_spec c 1); [cbn; lia|].
    destruct (Z.ltb_spec 1 n).
    + destruct (Z.leb_spec 2 c); cbn; lia.
    + destruct (Z.leb_spec 4 c); [cbn; lia|].
      destruct (Z.leb_spec c 1); [lia|]. destruct (Z.ltb_spec 4 c); lia.
Qed.

(** what Start computes for a route: the lease handed out with a micro-batch of b messages lasts
    at least b delivery timeouts plus the slack, so the last message of the batch is still
    leased when its (sequential) delivery times out. *)
Lemma start_ttl_covers : forall timeouts slack conc t,
  In t timeouts ->
  let b := route_dequeue_batch (eff_concurrency conc) (Z.of_nat (length timeouts)) in
  b * eff_timeout t + eff_slack slack <= route_lease_ttl timeouts (eff_slack slack) b.
Proof.
  intros timeouts slack conc t Hin b.
  pose proof (dequeue_batch_range conc (Z.of_nat (length timeouts))) as H. cbv zeta in H. fold b in H.
  apply ttl_covers_microbatch; [exact Hin | lia].
Qed.

(** * non-vacuity: concrete cycles *)
Definition ex_rc : retry_cfg := {| rc_max := 3; rc_base := 1000000000; rc_cap := 30000000000; rc_jitter := 1 # 5 |}.

Example cycle_recovers :
  let tr := dispatch_cycle ex_rc 1 (fun k => if (k <? 2)%nat then RStatus 503 else RStatus 204) (fun _ => 1 # 4) in
  sends tr = 3 /\ snd tr = Some TDelivered /\ map ar_outcome (fst tr) = [ORetry; ORetry; OAcked].
Proof. vm_compute. repeat split. Qed.

Example cycle_exhausts :
  let tr := dispatch_cycle ex_rc 1 (fun _ => RErr Timeout) (fun _ => 0%Q) in
  sends tr = 4 /\ snd tr = Some (TDead MaxRetries) /\ map ar_attempt (fst tr) = [1; 2; 3; 4].
Proof. vm_compute. repeat split. Qed.

Example cycle_policy :
  let tr := dispatch_cycle ex_rc 1 (fun _ => RErr PolicyDeniedWrapped) (fun _ => 0%Q) in
  sends tr = 1 /\ snd tr = Some (TDead PolicyDeniedR).
Proof. vm_compute. repeat split. Qed.

Example cycle_after_dlq_requeue :
  let tr := dispatch_cycle ex_rc 5 (fun _ => RStatus 500) (fun _ => 0%Q) in
  sends tr = 1 /\ snd tr = Some (TDead MaxRetries).
Proof. vm_compute. repeat split. Qed.
