(** C14, request layer: what the admin handlers and the MCP tools hand to the store, and what they
    answer (Model/ManageGlue.v), composed with the store theorems of Proofs/QueueManage.v. *)
From Coq Require Import List ZArith NArith Bool Lia Sorted Permutation.
From HK Require Import Gen.Consts Model.Queue Model.QueueHash Model.QueueMon Model.Headers Model.Publish Model.ManageGlue
  Proofs.QueueBase Proofs.QueueInv Proofs.QueueInvStep Proofs.QueueStep Proofs.QueueManage.
Import ListNotations.
Open Scope Z_scope.

(** * (a) id lists *)

(** the trimmed non-blank ids of a raw list, in order *)
Definition trims (raw : list rid) : list N :=
  flat_map (fun r => match trimmed_id r with Some i => [i] | None => [] end) raw.

(** first-occurrence de-duplication *)
Fixpoint dedup_first (l : list N) (seen : list N) : list N :=
  match l with
  | [] => []
  | i :: tl => if memN i seen then dedup_first tl seen else i :: dedup_first tl (i :: seen)
  end.

Definition no_blank (raw : list rid) : Prop := forall r, In r raw -> trimmed_id r <> None.

(** does the raw list name id [i] (after trimming)? *)
Definition raw_names (raw : list rid) (i : N) : bool :=
  existsb (fun r => match trimmed_id r with Some j => N.eqb j i | None => false end) raw.

Lemma raw_names_iff raw i : raw_names raw i = true <-> exists r, In r raw /\ trimmed_id r = Some i.
Proof.
  unfold raw_names. rewrite existsb_exists. split; intros [r [Hr H]]; exists r; split; try exact Hr.
  - destruct (trimmed_id r) as [j|]; [|discriminate]. apply N.eqb_eq in H. subst. reflexivity.
  - rewrite H. apply N.eqb_refl.
Qed.

Lemma in_trims raw i : In i (trims raw) <-> exists r, In r raw /\ trimmed_id r = Some i.
Proof.
  unfold trims. rewrite in_flat_map. split; intros [r [Hr H]]; exists r; split; try exact Hr.
  - destruct (trimmed_id r) as [j|]; [|destruct H]. destruct H as [H | []]. subst. reflexivity.
  - rewrite H. left. reflexivity.
Qed.

Lemma dedup_trim_some raw : forall seen, no_blank raw -> dedup_trim raw seen = Some (dedup_first (trims raw) seen).
Proof.
  induction raw as [|r tl IH]; intros seen NB; simpl; [reflexivity|].
  assert (NBtl : no_blank tl) by (intros x Hx; apply NB; right; exact Hx).
  destruct (trimmed_id r) as [i|] eqn:E.
  - simpl. destruct (memN i seen); [apply IH; exact NBtl|]. rewrite (IH (i :: seen) NBtl). reflexivity.
  - exfalso. apply (NB r); [left; reflexivity | exact E].
Qed.

Lemma dedup_trim_none raw : forall seen, dedup_trim raw seen = None -> exists r, In r raw /\ trimmed_id r = None.
Proof.
  induction raw as [|r tl IH]; intros seen H; simpl in H; [discriminate|].
  destruct (trimmed_id r) as [i|] eqn:E.
  - destruct (memN i seen).
    + destruct (IH _ H) as [x [Hx Ex]]. exists x. split; [right; exact Hx | exact Ex].
    + destruct (dedup_trim tl (i :: seen)) eqn:E2; [discriminate|].
      destruct (IH _ E2) as [x [Hx Ex]]. exists x. split; [right; exact Hx | exact Ex].
  - exists r. split; [left; reflexivity | exact E].
Qed.

Lemma dedup_trim_no_blank raw : forall seen l, dedup_trim raw seen = Some l -> no_blank raw.
Proof.
  induction raw as [|a tl IH]; intros seen l D r Hr; [destruct Hr|].
  simpl in D. destruct (trimmed_id a) as [i|] eqn:Ea; [|discriminate].
  destruct Hr as [Hr | Hr]; [subst a; rewrite Ea; discriminate|].
  destruct (memN i seen); [apply (IH _ _ D r Hr)|].
  destruct (dedup_trim tl (i :: seen)) as [l0|] eqn:D2; [|discriminate]. apply (IH _ _ D2 r Hr).
Qed.

Lemma dedup_first_In l : forall seen i, In i (dedup_first l seen) <-> In i l /\ ~ In i seen.
Proof.
  induction l as [|a tl IH]; intros seen i; simpl; [tauto|].
  destruct (memN a seen) eqn:E.
  - apply memN_In in E. rewrite IH. split.
    + intros [H1 H2]. split; [right; exact H1 | exact H2].
    + intros [[H1 | H1] H2]; [subst; contradiction | split; assumption].
  - apply memN_false in E. simpl. rewrite IH. simpl. split.
    + intros [H | [H1 H2]]; [subst; split; [left; reflexivity | exact E] | split; [right; exact H1 | tauto]].
    + intros [[H1 | H1] H2]; [left; exact H1|].
      destruct (N.eq_dec a i) as [Ea | Na]; [left; exact Ea | right; split; [exact H1 | intros [H | H]; [contradiction | contradiction]]].
Qed.

Lemma dedup_first_NoDup l : forall seen, NoDup (dedup_first l seen).
Proof.
  induction l as [|a tl IH]; intros seen; simpl; [constructor|].
  destruct (memN a seen); [apply IH|]. constructor; [|apply IH].
  rewrite dedup_first_In. intros [_ H]. apply H. left. reflexivity.
Qed.

Lemma dedup_first_id l : forall seen, NoDup l -> (forall i, In i l -> ~ In i seen) -> dedup_first l seen = l.
Proof.
  induction l as [|a tl IH]; intros seen ND Hd; simpl; [reflexivity|].
  inversion ND as [|? ? Ha Htl]; subst.
  assert (E : memN a seen = false) by (apply memN_false; apply Hd; left; reflexivity). rewrite E. f_equal.
  apply IH; [exact Htl|]. intros i Hi [H | H]; [subst; contradiction | apply (Hd i); [right; exact Hi | exact H]].
Qed.

(** the store's own normalisation is the same function *)
Lemma norm_ids_dedup raw : forall seen, norm_ids raw seen = dedup_first (trims raw) seen.
Proof.
  induction raw as [|r tl IH]; intros seen; simpl; [reflexivity|].
  destruct r as [i | i |]; simpl; try (destruct (memN i seen); [apply IH | rewrite IH; reflexivity]). apply IH.
Qed.

Lemma trims_store_ids idl : trims (store_ids idl) = idl.
Proof. unfold store_ids, trims. induction idl as [|a tl IH]; simpl; [reflexivity | f_equal; exact IH]. Qed.

Lemma norm_store_ids idl : NoDup idl -> norm_ids (store_ids idl) [] = idl.
Proof. intros ND. rewrite norm_ids_dedup, trims_store_ids. apply dedup_first_id; [exact ND | intros i _ []]. Qed.

Lemma parse_ids_with_spec cap raw idl :
  parse_ids_with cap raw = Some idl ->
  1 <= Z.of_nat (length raw) <= cap /\ no_blank raw /\ idl = dedup_first (trims raw) [] /\ idl <> [].
Proof.
  unfold parse_ids_with. intros H.
  destruct ((Z.of_nat (length raw) =? 0) || (cap <? Z.of_nat (length raw))) eqn:E; [discriminate|].
  apply orb_false_iff in E. destruct E as [E1 E2]. apply Z.eqb_neq in E1. apply Z.ltb_ge in E2.
  split; [lia|].
  destruct (dedup_trim raw []) as [l|] eqn:D; [|discriminate].
  assert (NB : no_blank raw) by (apply (dedup_trim_no_blank _ _ _ D)).
  rewrite (dedup_trim_some raw [] NB) in D. inversion D; subst l.
  destruct (dedup_first (trims raw) []) eqn:F; [discriminate|]. inversion H; subst idl.
  split; [exact NB | split; [reflexivity | discriminate]].
Qed.

Lemma parse_ids_with_accepts cap raw :
  1 <= Z.of_nat (length raw) <= cap -> no_blank raw -> exists idl, parse_ids_with cap raw = Some idl.
Proof.
  intros [L1 L2] NB. unfold parse_ids_with.
  assert (E : (Z.of_nat (length raw) =? 0) || (cap <? Z.of_nat (length raw)) = false).
  { apply orb_false_iff. split; [apply Z.eqb_neq; lia | apply Z.ltb_ge; lia]. }
  rewrite E, (dedup_trim_some raw [] NB).
  destruct raw as [|r tl]; [simpl in L1; lia|].
  simpl. assert (Er : trimmed_id r <> None) by (apply NB; left; reflexivity).
  destruct (trimmed_id r) as [i|] eqn:Ei; [|contradiction]. simpl. eexists. reflexivity.
Qed.

(** (a) accepted iff 1 <= |raw| <= 1000 and no raw id is blank after trimming; what reaches the store is
    the trimmed, first-occurrence de-duplicated list: non-empty, pairwise distinct, every element the
    trim of a raw id and every trimmed raw id an element; the store's own normalisation keeps it *)
Theorem ids_accepted_spec raw :
  (forall idl, parse_manage_ids raw = Some idl ->
     1 <= Z.of_nat (length raw) <= 1000 /\ no_blank raw
     /\ idl = dedup_first (trims raw) [] /\ idl <> [] /\ NoDup idl
     /\ (forall i, In i idl <-> exists r, In r raw /\ trimmed_id r = Some i)
     /\ norm_ids (store_ids idl) [] = idl)
  /\ (1 <= Z.of_nat (length raw) <= 1000 -> no_blank raw -> exists idl, parse_manage_ids raw = Some idl)
  /\ (parse_manage_ids raw = None <-> ~ (1 <= Z.of_nat (length raw) <= 1000) \/ exists r, In r raw /\ trimmed_id r = None).
Proof.
  unfold parse_manage_ids, admin_max_list_limit. split; [|split].
  - intros idl H. destruct (parse_ids_with_spec _ _ _ H) as [L [NB [E NE]]].
    assert (ND : NoDup idl) by (rewrite E; apply dedup_first_NoDup).
    repeat split; try assumption; try lia.
    + intros Hi. rewrite E in Hi. apply dedup_first_In in Hi. apply in_trims. tauto.
    + intros Hx. rewrite E. apply dedup_first_In. split; [apply in_trims; exact Hx | intros []].
    + apply norm_store_ids. exact ND.
  - apply parse_ids_with_accepts.
  - split.
    + intros H. destruct (Z_le_dec 1 (Z.of_nat (length raw))) as [L1|]; [|left; lia].
      destruct (Z_le_dec (Z.of_nat (length raw)) 1000) as [L2|]; [|left; lia].
      right. unfold parse_ids_with in H.
      assert (E : (Z.of_nat (length raw) =? 0) || (1000 <? Z.of_nat (length raw)) = false).
      { apply orb_false_iff. split; [apply Z.eqb_neq; lia | apply Z.ltb_ge; lia]. }
      rewrite E in H. destruct (dedup_trim raw []) as [l|] eqn:D; [|apply (dedup_trim_none _ _ D)].
      destruct l; [|discriminate].
      (* an empty result from a non-empty list is impossible *)
      exfalso. destruct raw as [|r tl]; [simpl in L1; lia|]. simpl in D.
      destruct (trimmed_id r) as [i|]; [|discriminate]. simpl in D. destruct (dedup_trim tl [i]); discriminate.
    + intros [H | [r [Hr Er]]].
      * destruct (parse_ids_with 1000 raw) as [idl|] eqn:P; [|reflexivity].
        destruct (parse_ids_with_spec _ _ _ P) as [L _]. contradiction.
      * destruct (parse_ids_with 1000 raw) as [idl|] eqn:P; [|reflexivity].
        destruct (parse_ids_with_spec _ _ _ P) as [_ [NB _]]. exfalso. apply (NB r Hr Er).
Qed.

(** the MCP tools' parseIDs is the same function with the same cap *)
Theorem mcp_parse_ids_same raw : mcp_parse_ids raw = parse_manage_ids raw.
Proof. reflexivity. Qed.

Lemma memN_raw_names raw idl m :
  (forall i, In i idl <-> exists r, In r raw /\ trimmed_id r = Some i) -> memN (m_id m) idl = raw_names raw (m_id m).
Proof.
  intros H. destruct (raw_names raw (m_id m)) eqn:E.
  - apply memN_In. apply H. apply raw_names_iff. exact E.
  - apply memN_false. intros Hi. apply H in Hi. apply raw_names_iff in Hi. congruence.
Qed.

(** (a), composed with the store: the selection through an id endpoint is exactly the messages whose id
    is one of the trimmed raw ids and whose state the operation is defined for *)
Theorem ids_selection_exact now k raw idl s s' r :
  Inv s -> parse_manage_ids raw = Some idl -> step_manage now k (store_ids idl) s = (s', r) ->
  let sel m := raw_names raw (m_id m) && allowed_from k (m_st m) in
  (forall m, In m (msgs s) -> find_id (m_id m) (msgs s') = if sel m then manage_effect now k m else Some m)
  /\ incl (ids (msgs s')) (ids (msgs s))
  /\ exists n matched, r = RCount n matched false /\ n = Z.of_nat (length (filter sel (msgs s))).
Proof.
  intros I P H. cbv zeta.
  destruct (ids_accepted_spec raw) as [A _]. destruct (A idl P) as [_ [_ [_ [_ [_ [Hin Hn]]]]]].
  destruct (manage_by_ids_exact now k (store_ids idl) s s' r I H) as [Hf [Hi [n [mt [Er En]]]]].
  rewrite Hn in Hf, En. split; [|split].
  - intros m Hm. rewrite (Hf m Hm). rewrite (memN_raw_names raw idl m Hin). reflexivity.
  - exact Hi.
  - exists n, mt. split; [exact Er|]. rewrite En. f_equal. f_equal. apply filter_ext. intros m.
    rewrite (memN_raw_names raw idl m Hin). reflexivity.
Qed.

(** * (e) the allowed-state sets wired per endpoint are the documented ones *)
Theorem ids_endpoint_states_spec k s : st_in s (ids_endpoint_states k) = allowed_from k s.
Proof. destruct k; destruct s; reflexivity. Qed.

Theorem filter_endpoint_states_spec k s : st_in s (filter_endpoint_states k) = allowed_from (fk_kind k) s.
Proof. destruct k; destruct s; reflexivity. Qed.

Theorem mcp_ids_tool_states_spec k s : st_in s (mcp_ids_tool_states k) = allowed_from k s.
Proof. destruct k; destruct s; reflexivity. Qed.

Theorem mcp_filter_tool_states_spec k s : st_in s (mcp_filter_tool_states k) = allowed_from (fk_kind k) s.
Proof. destruct k; destruct s; reflexivity. Qed.

Theorem endpoint_states_documented :
  (forall s, In s (ids_endpoint_states MCancel) <-> s = Queued \/ s = Leased \/ s = Dead)
  /\ (forall s, In s (ids_endpoint_states MRequeue) <-> s = Dead \/ s = Canceled)
  /\ (forall s, In s (ids_endpoint_states MResume) <-> s = Canceled)
  /\ (forall s, In s (ids_endpoint_states MRequeueDead) <-> s = Dead)
  /\ (forall s, In s (ids_endpoint_states MDeleteDead) <-> s = Dead)
  /\ (forall s, In s (filter_endpoint_states FCancel) <-> s = Queued \/ s = Leased \/ s = Dead)
  /\ (forall s, In s (filter_endpoint_states FRequeue) <-> s = Dead \/ s = Canceled)
  /\ (forall s, In s (filter_endpoint_states FResume) <-> s = Canceled).
Proof. repeat split; simpl; intros; intuition congruence. Qed.

(** * (b) a refusal makes no store call and leaves the queue unchanged *)
Lemma exec_call_count now c s s1 r : exec_call now c s = (s1, r) -> exists n m p, r = RCount n m p.
Proof.
  destruct c as [k idl | k f]; simpl; intros H.
  - unfold step_manage in H. inversion H. eauto.
  - unfold step_manage_f in H. destruct (f_preview f); inversion H; eauto.
Qed.

Theorem serve_error_no_call now d s s' st c :
  serve now d s = (s', HErr st c) -> d = DReject st c /\ s' = s.
Proof.
  destruct d as [st0 c0 | c0]; simpl; intros H.
  - inversion H. split; reflexivity.
  - destruct (exec_call now c0 s) as [s1 r] eqn:E. destruct (exec_call_count _ _ _ _ _ E) as [n [m [p Er]]].
    subst r. destruct c0; simpl in H; inversion H.
Qed.

(** every refusal (400 / 401 / 404 / 405, MCP tool error) of every admin endpoint and every MCP tool:
    no store call, queue unchanged *)
Theorem rejected_no_effect_admin x now e q b s s' st c :
  admin_request x now e q b s = (s', HErr st c) -> decide x e q b (msgs s) = DReject st c /\ s' = s.
Proof. unfold admin_request. apply serve_error_no_call. Qed.

Theorem rejected_no_effect_mcp e now t s s' st c :
  mcp_request e now t s = (s', HErr st c) -> mcp_decide e t (msgs s) = DReject st c /\ s' = s.
Proof. unfold mcp_request. apply serve_error_no_call. Qed.

(** and conversely a decision to refuse is answered with exactly that status and code *)
Theorem reject_is_answered now st c s : serve now (DReject st c) s = (s, HErr st c).
Proof. reflexivity. Qed.

(** * (c) by-filter requests: limit, state, and the selection end to end *)

(** the limit the admin endpoints promise: absent / 0 -> 100, otherwise min(limit, 1000) *)
Definition norm_limit (raw : Z) : Z := if raw =? 0 then 100 else Z.min raw 1000.

Lemma norm_limit_range raw : 0 <= raw -> 1 <= norm_limit raw <= 1000.
Proof. unfold norm_limit. intros H. destruct (raw =? 0) eqn:E; [lia|]. apply Z.eqb_neq in E. lia. Qed.

Lemma eff_limit_fixed lim : 1 <= lim <= 1000 -> eff_limit lim = lim.
Proof.
  intros [H1 H2]. unfold eff_limit, mem_list_limit_default, mem_list_limit_cap.
  assert (E1 : (lim <=? 0) = false) by (apply Z.leb_gt; lia). rewrite E1.
  assert (E2 : (1000 <? lim) = false) by (apply Z.ltb_ge; lia). rewrite E2. reflexivity.
Qed.

Theorem admin_limit_spec raw :
  (raw < 0 -> admin_limit raw = None) /\ (0 <= raw -> admin_limit raw = Some (norm_limit raw)).
Proof.
  unfold admin_limit, norm_limit, admin_default_list_limit, admin_max_list_limit. split; intros H.
  - assert (E : (raw =? 0) = false) by (apply Z.eqb_neq; lia). rewrite E.
    assert (E2 : (raw <? 0) = true) by (apply Z.ltb_lt; lia). rewrite E2. reflexivity.
  - destruct (raw =? 0) eqn:E; [reflexivity|]. apply Z.eqb_neq in E.
    assert (E2 : (raw <? 0) = false) by (apply Z.ltb_ge; lia). rewrite E2.
    destruct (1000 <? raw) eqn:E3; [apply Z.ltb_lt in E3 | apply Z.ltb_ge in E3]; f_equal; lia.
Qed.

(** composed with the store's own eff_limit: default 100 when absent/0, min(limit, 1000) otherwise *)
Theorem admin_limit_reaches_store raw lim :
  admin_limit raw = Some lim -> 0 <= raw /\ lim = norm_limit raw /\ eff_limit lim = norm_limit raw /\ 1 <= lim <= 1000.
Proof.
  intros H. destruct (admin_limit_spec raw) as [Hn Hp].
  destruct (Z_lt_dec raw 0) as [L | L]; [rewrite (Hn L) in H; discriminate|].
  assert (L' : 0 <= raw) by lia. rewrite (Hp L') in H. inversion H; subst lim.
  pose proof (norm_limit_range raw L') as R. repeat split; try lia. apply eff_limit_fixed. exact R.
Qed.

Definition mcp_norm_limit (l : mlimit) : Z := match l with MLAbsent => 100 | MLInt n => n | MLBad => 0 end.

(** the MCP tools refuse 0, negative and > 1000 instead of defaulting / clamping *)
Theorem mcp_limit_spec l lim :
  mcp_limit l = Some lim <->
  (l = MLAbsent /\ lim = 100) \/ (exists n, l = MLInt n /\ 1 <= n <= 1000 /\ lim = n).
Proof.
  unfold mcp_limit, mcp_default_list_limit, mcp_max_list_limit. destruct l as [| n |].
  - split; [intros H; inversion H; left; split; reflexivity | intros [[_ H] | [n [H _]]]; [subst; reflexivity | discriminate]].
  - destruct ((n <=? 0) || (1000 <? n)) eqn:E.
    + split; [discriminate|]. intros [[H _] | [m [H [R _]]]]; [discriminate|]. inversion H; subst m.
      apply orb_true_iff in E. destruct E as [E | E]; [apply Z.leb_le in E | apply Z.ltb_lt in E]; lia.
    + apply orb_false_iff in E. destruct E as [E1 E2]. apply Z.leb_gt in E1. apply Z.ltb_ge in E2.
      split; [intros H; inversion H; subst; right; exists lim; repeat split; lia|].
      intros [[H _] | [m [H [_ Hl]]]]; [discriminate|]. inversion H; subst. reflexivity.
  - split; [discriminate|]. intros [[H _] | [m [H _]]]; discriminate.
Qed.

Lemma mcp_limit_reaches_store l lim : mcp_limit l = Some lim -> lim = mcp_norm_limit l /\ eff_limit lim = lim /\ 1 <= lim <= 1000.
Proof.
  intros H. apply mcp_limit_spec in H. destruct H as [[El Ev] | [n [El [R Ev]]]]; subst; simpl.
  - repeat split; try lia; try (apply eff_limit_fixed; lia).
  - repeat split; try lia; try (apply eff_limit_fixed; lia).
Qed.

Lemma parse_state_some allowed s o :
  parse_state allowed s = Some o ->
  match o with None => s = RsBlank | Some x => s = RsKnown x /\ st_in x allowed = true end.
Proof.
  destruct s as [| x |]; simpl; intros H.
  - inversion H. reflexivity.
  - destruct (st_in x allowed) eqn:E; [|discriminate]. inversion H. split; [reflexivity | exact E].
  - discriminate.
Qed.

Lemma parse_state_outside allowed x : st_in x allowed = false -> parse_state allowed (RsKnown x) = None.
Proof. intros H. simpl. rewrite H. reflexivity. Qed.

Lemma parse_filter_some allowed b p :
  parse_filter allowed b = Some p ->
  0 <= fb_limit b /\ pf_limit p = norm_limit (fb_limit b)
  /\ parse_state allowed (fb_state b) = Some (pf_state p) /\ time_of (fb_before b) = Some (pf_before p)
  /\ pf_route p = trim_route (fb_route b) /\ pf_target p = trimmed_id (fb_target b)
  /\ pf_preview p = fb_preview b /\ pf_app p = fb_app b /\ pf_ep p = fb_ep b.
Proof.
  unfold parse_filter. intros H.
  destruct (admin_limit (fb_limit b)) as [lim|] eqn:El; [|discriminate].
  destruct (parse_state allowed (fb_state b)) as [stt|] eqn:Es; [|discriminate].
  destruct (time_of (fb_before b)) as [bf|] eqn:Eb; [|discriminate].
  inversion H; subst p; simpl. destruct (admin_limit_reaches_store _ _ El) as [L [E _]].
  repeat split; try assumption; try reflexivity.
Qed.

Theorem parse_filter_refuses allowed b :
  (fb_limit b < 0 -> parse_filter allowed b = None)
  /\ (fb_state b = RsUnknown -> parse_filter allowed b = None)
  /\ (forall x, fb_state b = RsKnown x -> st_in x allowed = false -> parse_filter allowed b = None)
  /\ (fb_before b = TBad -> parse_filter allowed b = None).
Proof.
  unfold parse_filter. repeat split.
  - intros H. destruct (admin_limit_spec (fb_limit b)) as [Hn _]. rewrite (Hn H). reflexivity.
  - intros H. rewrite H. destruct (admin_limit (fb_limit b)); reflexivity.
  - intros x H Hx. rewrite H. simpl. rewrite Hx. destruct (admin_limit (fb_limit b)); reflexivity.
  - intros H. rewrite H. simpl. destruct (admin_limit (fb_limit b)); [|reflexivity].
    destruct (parse_state allowed (fb_state b)); reflexivity.
Qed.

(** what a parsed filter means at the store, for an endpoint whose state set is the operation's *)
Lemma store_filt_select k allowed (route : option N) p l :
  (forall s, st_in s allowed = allowed_from k s) ->
  (exists srcstate, parse_state allowed srcstate = Some (pf_state p)) -> 1 <= pf_limit p <= 1000 ->
  let f := mk_store_filt route p in
  eff_limit (f_limit f) = pf_limit p
  /\ match f_state f with Some x => allowed_from k x = true | None => True end
  /\ filter_select k f l
     = map m_id (firstn (Z.to_nat (pf_limit p))
                        (sort_by m_recv false (filter (fun m => filt_match f m && allowed_from k (m_st m)) l)))
  /\ Z.of_nat (length (filter_select k f l)) <= pf_limit p
  /\ (forall i, In i (filter_select k f l) ->
        exists m, In m l /\ m_id m = i /\ filt_match f m = true /\ allowed_from k (m_st m) = true).
Proof.
  intros Hall [src Hs] R. cbv zeta.
  assert (El : eff_limit (f_limit (mk_store_filt route p)) = pf_limit p) by (simpl; apply eff_limit_fixed; exact R).
  assert (Ha : match f_state (mk_store_filt route p) with Some x => allowed_from k x | None => true end = true).
  { simpl. apply parse_state_some in Hs. destruct (pf_state p) as [x|]; [|reflexivity].
    destruct Hs as [_ Hx]. rewrite <- Hall. exact Hx. }
  destruct (filter_select_spec k (mk_store_filt route p) l) as [H1 [_ [_ [_ [H5 H6]]]]].
  split; [exact El|]. split; [|split; [|split]].
  - simpl in *. destruct (pf_state p); [exact Ha | exact I].
  - rewrite (H1 Ha), El. reflexivity.
  - rewrite <- El. exact H5.
  - exact H6.
Qed.

(** ** which store call an accepted by-filter request makes *)
Ltac split_match H :=
  repeat match type of H with
         | context [match ?x with _ => _ end] => destruct x eqn:?; try discriminate
         end.

Lemma gate_call q d c : gate q d = DCall c -> h_auth q = true /\ h_post q = true /\ d = DCall c.
Proof.
  unfold gate. destruct (h_auth q); simpl; [|discriminate]. destruct (h_post q); simpl; [|discriminate]. auto.
Qed.

Lemma decide_filter_call x k q body c :
  decide_filter x k q body = DCall c ->
  h_auth q = true /\ h_post q = true /\ parse_audit x (h_audit q) <> None
  /\ exists b p route, body = FBOk b /\ parse_filter (filter_endpoint_states k) b = Some p
                       /\ c = SCFilter k (mk_store_filt route p).
Proof.
  unfold decide_filter. intros H. apply gate_call in H. destruct H as [Ha [Hp H]].
  split; [exact Ha|]. split; [exact Hp|].
  destruct body as [|b]; [discriminate|].
  destruct (parse_filter (filter_endpoint_states k) b) as [p|] eqn:P; [|discriminate].
  split_match H; (split; [congruence|]); inversion H; subst; eauto 10.
Qed.

Lemma decide_scoped_filter_call x k app ep q body c :
  decide_scoped_filter x k app ep q body = DCall c ->
  h_auth q = true /\ h_post q = true /\ parse_audit x (h_audit q) <> None
  /\ exists a e rt b p, app = LValid a /\ ep = LValid e /\ find_endpoint x a e = Some rt
                        /\ body = FBOk b /\ parse_filter (filter_endpoint_states k) b = Some p
                        /\ blank_r (pf_route p) = true
                        /\ c = SCFilter k (mk_store_filt (Some (r_path rt)) p).
Proof.
  unfold decide_scoped_filter. intros H.
  destruct (h_auth q); simpl in H; [|discriminate].
  destruct app as [| |a]; try (destruct ep; discriminate). destruct ep as [| |e]; try discriminate.
  destruct (h_post q); simpl in H; [|discriminate].
  destruct (find_endpoint x a e) as [rt|] eqn:F; [|discriminate].
  destruct body as [|b]; [discriminate|].
  destruct (parse_filter (filter_endpoint_states k) b) as [p|] eqn:P; [|discriminate].
  destruct (negb (blank_r (pf_route p)) || negb (blank_l (pf_app p)) || negb (blank_l (pf_ep p))) eqn:Hh; [discriminate|].
  apply orb_false_iff in Hh. destruct Hh as [Hh _]. apply orb_false_iff in Hh. destruct Hh as [Hh _]. apply negb_false_iff in Hh.
  split_match H. inversion H; subst.
  repeat split; try congruence. exists a, e, rt, b, p. repeat split; assumption || reflexivity.
Qed.

Lemma decide_ids_call x k q body ms c :
  decide_ids x k q body ms = DCall c ->
  h_auth q = true /\ h_post q = true /\ parse_audit x (h_audit q) <> None
  /\ exists raw idl, body = IBIds raw /\ parse_manage_ids raw = Some idl /\ c = SCIds k (store_ids idl).
Proof.
  unfold decide_ids. intros H. apply gate_call in H. destruct H as [Ha [Hp H]].
  split; [exact Ha|]. split; [exact Hp|].
  destruct (parse_audit x (h_audit q)) as [[[rs ac] rq]|] eqn:A; [|discriminate].
  split; [discriminate|].
  destruct body as [|raw]; [discriminate|].
  destruct (parse_manage_ids raw) as [idl|] eqn:P; [|discriminate].
  exists raw, idl. split; [reflexivity|]. split; [exact P|].
  split_match H; inversion H; reflexivity.
Qed.

Lemma mcp_parse_filter_some allowed a p :
  mcp_parse_filter allowed a = Some p ->
  mf_unknown a = false /\ mf_wf a = true
  /\ mcp_limit (mf_limit a) = Some (pf_limit p)
  /\ parse_state allowed (mf_state a) = Some (pf_state p) /\ time_of (mf_before a) = Some (pf_before p)
  /\ pf_route p = trim_route (mf_route a) /\ pf_route p <> RSNoSlash /\ pf_target p = trimmed_id (mf_target a)
  /\ pf_preview p = mf_preview a /\ pf_app p = mf_app a /\ pf_ep p = mf_ep a.
Proof.
  unfold mcp_parse_filter. intros H.
  destruct (mf_unknown a); [discriminate|]. destruct (mf_wf a); simpl in H; [|discriminate].
  destruct (time_of (mf_before a)) as [bf|] eqn:Eb; [|discriminate].
  destruct (parse_state allowed (mf_state a)) as [stt|] eqn:Es; [|discriminate].
  destruct (mcp_limit (mf_limit a)) as [lim|] eqn:El; [|discriminate].
  destruct (trim_route (mf_route a)) eqn:Er; try discriminate;
    split_match H; inversion H; subst p; simpl; repeat split; try assumption; try reflexivity; try discriminate.
Qed.

Lemma mcp_decide_filter_call e k a c :
  mcp_decide_filter e k a = DCall c ->
  me_gate e = true /\ parse_maudit (mf_audit a) <> None
  /\ exists p route, mcp_parse_filter (mcp_filter_tool_states k) a = Some p /\ c = SCFilter k (mk_store_filt route p).
Proof.
  unfold mcp_decide_filter. intros H.
  destruct (me_gate e); simpl in H; [|discriminate]. split; [reflexivity|].
  destruct (parse_maudit (mf_audit a)) as [rq|]; [|discriminate]. split; [discriminate|].
  destruct (mcp_parse_filter (mcp_filter_tool_states k) a) as [p|] eqn:P; [|discriminate].
  split_match H; inversion H; subst; eauto.
Qed.

Lemma mcp_decide_ids_call e k a ms c :
  mcp_decide_ids e k a ms = DCall c ->
  me_gate e = true /\ mi_unknown a = false /\ parse_maudit (mi_audit a) <> None
  /\ exists raw idl, mi_ids a = IBIds raw /\ parse_manage_ids raw = Some idl /\ c = SCIds k (store_ids idl).
Proof.
  unfold mcp_decide_ids. intros H.
  destruct (me_gate e); simpl in H; [|discriminate]. split; [reflexivity|].
  destruct (mi_unknown a); [discriminate|]. split; [reflexivity|].
  destruct (parse_maudit (mi_audit a)) as [rq|]; [|discriminate]. split; [discriminate|].
  destruct (mi_ids a) as [|raw]; [discriminate|].
  destruct (mcp_parse_ids raw) as [idl|] eqn:P; [|discriminate].
  exists raw, idl. split; [reflexivity|]. split; [exact P|].
  split_match H; inversion H; reflexivity.
Qed.

(** (c) end to end, the two admin by-filter endpoints: the store is called with the operation of the
    endpoint, limit = default 100 when absent/0 else min(limit, 1000) (and the store's eff_limit keeps
    it), a state criterion that is blank or inside the endpoint's set, the trimmed target; and the
    selection is the newest-first prefix of at most that limit of the messages matching every criterion
    from an allowed state *)
Definition filter_call_ok (k : fkind) (b : fbody) (f : filt) : Prop :=
  0 <= fb_limit b
  /\ f_limit f = norm_limit (fb_limit b) /\ eff_limit (f_limit f) = norm_limit (fb_limit b)
  /\ 1 <= norm_limit (fb_limit b) <= 1000
  /\ match fb_state b with
     | RsBlank => f_state f = None
     | RsKnown x => f_state f = Some x /\ allowed_from (fk_kind k) x = true
     | RsUnknown => False
     end
  /\ f_target f = trimmed_id (fb_target b) /\ f_preview f = fb_preview b /\ time_of (fb_before b) = Some (f_before f)
  /\ forall l,
       filter_select (fk_kind k) f l
       = map m_id (firstn (Z.to_nat (norm_limit (fb_limit b)))
                          (sort_by m_recv false (filter (fun m => filt_match f m && allowed_from (fk_kind k) (m_st m)) l)))
       /\ Z.of_nat (length (filter_select (fk_kind k) f l)) <= norm_limit (fb_limit b)
       /\ (forall i, In i (filter_select (fk_kind k) f l) ->
             exists m, In m l /\ m_id m = i /\ filt_match f m = true /\ allowed_from (fk_kind k) (m_st m) = true).

Lemma parsed_filter_call_ok k b p route :
  parse_filter (filter_endpoint_states k) b = Some p -> filter_call_ok k b (mk_store_filt route p).
Proof.
  intros P. destruct (parse_filter_some _ _ _ P) as [L [El [Es [Eb [_ [Et [Ep _]]]]]]].
  pose proof (norm_limit_range _ L) as R.
  assert (R' : 1 <= pf_limit p <= 1000) by (rewrite El; exact R).
  unfold filter_call_ok. split; [exact L|]. split; [simpl; exact El|].
  split; [simpl; rewrite <- El; apply eff_limit_fixed; exact R'|]. split; [exact R|].
  split; [|split; [exact Et | split; [exact Ep | split; [exact Eb|]]]].
  - pose proof (parse_state_some _ _ _ Es) as S. simpl. destruct (pf_state p) as [x|].
    + destruct S as [S1 S2]. rewrite S1. split; [reflexivity|]. rewrite <- filter_endpoint_states_spec. exact S2.
    + rewrite S. reflexivity.
  - intros l.
    destruct (store_filt_select (fk_kind k) (filter_endpoint_states k) route p l (filter_endpoint_states_spec k)
                (ex_intro _ _ Es) R') as [_ [_ [H3 [H4 H5]]]].
    rewrite <- El. split; [exact H3 | split; [exact H4 | exact H5]].
Qed.

Theorem filter_glue_spec x k q body c :
  decide_filter x k q body = DCall c ->
  exists b f, body = FBOk b /\ c = SCFilter k f /\ filter_call_ok k b f.
Proof.
  intros H. destruct (decide_filter_call _ _ _ _ _ H) as [_ [_ [_ [b [p [route [Eb [P Ec]]]]]]]].
  exists b, (mk_store_filt route p). split; [exact Eb|]. split; [exact Ec|]. apply parsed_filter_call_ok. exact P.
Qed.

Theorem scoped_filter_glue_spec x k app ep q body c :
  decide_scoped_filter x k app ep q body = DCall c ->
  exists b f a e rt, body = FBOk b /\ c = SCFilter k f /\ filter_call_ok k b f
                     /\ app = LValid a /\ ep = LValid e /\ find_endpoint x a e = Some rt /\ f_route f = Some (r_path rt).
Proof.
  intros H. destruct (decide_scoped_filter_call _ _ _ _ _ _ _ H) as [_ [_ [_ [a [e [rt [b [p [Ea [Ee [F [Eb [P [_ Ec]]]]]]]]]]]]]].
  exists b, (mk_store_filt (Some (r_path rt)) p), a, e, rt.
  split; [exact Eb|]. split; [exact Ec|]. split; [apply parsed_filter_call_ok; exact P|].
  split; [exact Ea|]. split; [exact Ee|]. split; [exact F | reflexivity].
Qed.

(** the MCP twins: same shape, but the limit must already be within 1..1000 (or absent = 100) *)
Theorem mcp_filter_glue_spec e k a c :
  mcp_decide_filter e k a = DCall c ->
  exists f, c = SCFilter k f
    /\ mcp_limit (mf_limit a) = Some (f_limit f) /\ f_limit f = mcp_norm_limit (mf_limit a)
    /\ eff_limit (f_limit f) = f_limit f /\ 1 <= f_limit f <= 1000
    /\ match mf_state a with
       | RsBlank => f_state f = None
       | RsKnown x => f_state f = Some x /\ allowed_from (fk_kind k) x = true
       | RsUnknown => False
       end
    /\ f_target f = trimmed_id (mf_target a) /\ f_preview f = mf_preview a
    /\ forall l,
         filter_select (fk_kind k) f l
         = map m_id (firstn (Z.to_nat (f_limit f))
                            (sort_by m_recv false (filter (fun m => filt_match f m && allowed_from (fk_kind k) (m_st m)) l)))
         /\ Z.of_nat (length (filter_select (fk_kind k) f l)) <= f_limit f.
Proof.
  intros H. destruct (mcp_decide_filter_call _ _ _ _ H) as [_ [_ [p [route [P Ec]]]]].
  destruct (mcp_parse_filter_some _ _ _ P) as [_ [_ [El [Es [_ [_ [_ [Et [Ep _]]]]]]]]].
  destruct (mcp_limit_reaches_store _ _ El) as [En [Ef R]].
  exists (mk_store_filt route p). split; [exact Ec|]. simpl.
  split; [exact El|]. split; [exact En|]. split; [exact Ef|]. split; [exact R|].
  split; [|split; [exact Et | split; [exact Ep|]]].
  - pose proof (parse_state_some _ _ _ Es) as S. destruct (pf_state p) as [x|].
    + destruct S as [S1 S2]. rewrite S1. split; [reflexivity|]. rewrite <- mcp_filter_tool_states_spec. exact S2.
    + rewrite S. reflexivity.
  - intros l.
    destruct (store_filt_select (fk_kind k) (mcp_filter_tool_states k) route p l (mcp_filter_tool_states_spec k)
                (ex_intro _ _ Es) R) as [_ [_ [H3 [H4 _]]]].
    split; [exact H3 | exact H4].
Qed.

(** a state outside the endpoint's set, an unknown state, a negative limit or an unparsable cursor is
    refused with 400 invalid_body - never a silently empty (or wider) selection *)
Theorem filter_bad_request_400 x k q b :
  h_auth q = true -> h_post q = true ->
  parse_filter (filter_endpoint_states k) b = None ->
  decide_filter x k q (FBOk b) = DReject 400 (GPub CInvalidBody).
Proof. intros Ha Hp P. unfold decide_filter, gate. rewrite Ha, Hp, P. reflexivity. Qed.

Theorem filter_state_outside_400 x k q b s :
  h_auth q = true -> h_post q = true -> fb_state b = RsKnown s -> allowed_from (fk_kind k) s = false ->
  decide_filter x k q (FBOk b) = DReject 400 (GPub CInvalidBody).
Proof.
  intros Ha Hp Es Hs. apply filter_bad_request_400; try assumption.
  destruct (parse_filter_refuses (filter_endpoint_states k) b) as [_ [_ [H _]]]. apply (H s Es).
  rewrite filter_endpoint_states_spec. exact Hs.
Qed.

Theorem scoped_filter_bad_request_refused x k app ep q b :
  parse_filter (filter_endpoint_states k) b = None ->
  exists st c, decide_scoped_filter x k app ep q (FBOk b) = DReject st c.
Proof.
  intros P. unfold decide_scoped_filter. rewrite P.
  destruct (h_auth q); simpl; [|eauto]. destruct app as [| |a]; destruct ep as [| |e]; eauto.
  destruct (h_post q); simpl; [|eauto]. destruct (find_endpoint x a e); eauto.
Qed.

Theorem mcp_filter_bad_request_refused e k a :
  mcp_parse_filter (mcp_filter_tool_states k) a = None -> mcp_decide_filter e k a = mreject.
Proof.
  intros P. unfold mcp_decide_filter. rewrite P. destruct (me_gate e); simpl; [|reflexivity].
  destruct (parse_maudit (mf_audit a)); reflexivity.
Qed.

Theorem mcp_filter_limit_refused allowed a :
  (forall n, mf_limit a = MLInt n -> n <= 0 \/ 1000 < n -> mcp_parse_filter allowed a = None)
  /\ (forall x, mf_state a = RsKnown x -> st_in x allowed = false -> mcp_parse_filter allowed a = None).
Proof.
  split.
  - intros n El Hn. destruct (mcp_parse_filter allowed a) as [p|] eqn:P; [|reflexivity].
    destruct (mcp_parse_filter_some _ _ _ P) as [_ [_ [L _]]]. rewrite El in L. apply mcp_limit_spec in L.
    destruct L as [[L _] | [m [L [R _]]]]; [discriminate|]. inversion L; subst m. lia.
  - intros x Es Hx. destruct (mcp_parse_filter allowed a) as [p|] eqn:P; [|reflexivity].
    destruct (mcp_parse_filter_some _ _ _ P) as [_ [_ [_ [S _]]]]. rewrite Es in S. simpl in S. rewrite Hx in S. discriminate.
Qed.

(** the id endpoints: a bad id list is a 400 invalid_body; a missing audit reason a 400 before the body is read *)
Theorem ids_bad_request_400 x k q raw ms :
  h_auth q = true -> h_post q = true -> parse_audit x (h_audit q) <> None -> parse_manage_ids raw = None ->
  decide_ids x k q (IBIds raw) ms = DReject 400 (GPub CInvalidBody).
Proof.
  intros Ha Hp A P. unfold decide_ids, gate. rewrite Ha, Hp. simpl.
  destruct (parse_audit x (h_audit q)) as [[[rs ac] rq]|]; [|contradiction]. rewrite P. reflexivity.
Qed.

Theorem ids_missing_reason_400 x k q body ms :
  h_auth q = true -> h_post q = true -> parse_audit x (h_audit q) = None ->
  decide_ids x k q body ms = DReject 400 (GPub CAuditReason).
Proof. intros Ha Hp A. unfold decide_ids, gate. rewrite Ha, Hp, A. reflexivity. Qed.

Theorem unauthorized_401 x e q b ms : h_auth q = false -> decide x e q b ms = DReject 401 GUnauthorized.
Proof.
  intros Ha. destruct e as [k | k | k app ep]; destruct b; simpl;
    unfold decide_ids, decide_filter, decide_scoped_filter, gate; rewrite Ha; reflexivity.
Qed.

Theorem wrong_method_405 x e q b ms :
  h_auth q = true -> h_post q = false ->
  match e with EpScopedFilter _ (LValid _) (LValid _) => True | EpScopedFilter _ _ _ => False | _ => True end ->
  decide x e q b ms = DReject 405 GMethodNotAllowed.
Proof.
  intros Ha Hp He. destruct e as [k | k | k app ep]; destruct b; simpl;
    unfold decide_ids, decide_filter, decide_scoped_filter, gate; rewrite Ha, Hp; try reflexivity;
    destruct app; try contradiction; destruct ep; try contradiction; reflexivity.
Qed.

(** * (d) the numbers in the response are the store's, and they count the messages changed *)
Definition changed_count (before after : list msg) : Z :=
  Z.of_nat (length (filter (fun m => negb (opt_msg_eqb (find_id (m_id m) after) (Some m))) before)).

Lemma apply_manage_count_changed now k idl s :
  Inv s ->
  Z.of_nat (length (selected k idl (msgs s))) = changed_count (msgs s) (apply_pm (pm_manage now k idl) (msgs s)).
Proof.
  intros I. unfold changed_count, selected. f_equal. f_equal. apply filter_ext_in. intros m Hm.
  rewrite find_id_apply_pm; [|apply pm_manage_id_pres | apply I].
  rewrite (find_id_In_NoDup (msgs s) m (inv_nodup _ _ I) Hm). unfold pm_manage.
  destruct (memN (m_id m) idl && allowed_from k (m_st m)) eqn:E.
  - apply andb_true_iff in E. destruct E as [_ Ea].
    destruct (manage_effect now k m) as [y|] eqn:Ef; [|reflexivity].
    simpl. symmetry. apply negb_true_iff.
    destruct (msg_eqb y m) eqn:Eq; [|reflexivity]. exfalso.
    unfold msg_eqb in Eq. rewrite !andb_true_iff in Eq. destruct Eq as [[[[[[_ Es] _] _] _] _] _].
    unfold manage_effect in Ef. destruct k; inversion Ef; subst y; simpl in Es;
      destruct (m_st m); simpl in Ea, Es; discriminate.
  - simpl. symmetry. apply negb_false_iff.
    unfold msg_eqb, imm_eq, optN_eqb. rewrite !N.eqb_refl, !Z.eqb_refl. simpl.
    destruct (m_st m); destruct (m_lease m); simpl; rewrite ?N.eqb_refl; reflexivity.
Qed.

Theorem response_counts_ids now k idl s s' n :
  Inv s -> serve now (DCall (SCIds k idl)) s = (s', HIdsOk n) ->
  (exists matched, step_manage now k idl s = (s', RCount n matched false))
  /\ n = changed_count (msgs s) (msgs s').
Proof.
  intros I H. simpl in H. destruct (step_manage now k idl s) as [s1 r] eqn:E.
  pose proof E as E0. unfold step_manage in E. inversion E; subst s1 r; clear E. simpl in H. inversion H; subst s' n; clear H.
  split; [eexists; exact E0|]. simpl. apply apply_manage_count_changed. exact I.
Qed.

Theorem response_counts_filter now k f s s' m n p :
  Inv s -> serve now (DCall (SCFilter k f)) s = (s', HFilterOk m n p) ->
  step_manage_f now (fk_kind k) f s = (s', RCount n m p)
  /\ p = f_preview f
  /\ m = Z.of_nat (length (filter_select (fk_kind k) f (msgs s)))
  /\ (if p then s' = s /\ n = 0 else n = m /\ n = changed_count (msgs s) (msgs s')).
Proof.
  intros I H. simpl in H. destruct (step_manage_f now (fk_kind k) f s) as [s1 r] eqn:E.
  destruct (exec_call_count now (SCFilter k f) s s1 r E) as [n0 [m0 [p0 Er]]]. subst r. simpl in H.
  inversion H; subst s1 m0 n0 p0; clear H. split; [reflexivity|].
  pose proof (manage_by_filter_exact now (fk_kind k) f s s' _ I E) as X. cbv zeta in X.
  destruct (f_preview f) eqn:Ep.
  - destruct X as [Es Er]. inversion Er; subst. repeat split; reflexivity.
  - destruct X as [_ [_ Er]].
    destruct (filter_count_is_matched now (fk_kind k) f s I Ep) as [c Hc]. rewrite E in Hc. simpl in Hc.
    assert (Ech : Z.of_nat (length (selected (fk_kind k) (filter_select (fk_kind k) f (msgs s)) (msgs s))) = changed_count (msgs s) (msgs s')).
    { unfold step_manage_f in E. rewrite Ep in E. inversion E; subst s'. simpl. apply apply_manage_count_changed. exact I. }
    inversion Er. inversion Hc. subst. repeat split; try reflexivity; try congruence.
Qed.

(** preview_only through the endpoint: nothing changes, and the matched count is the one the real run reports *)
Theorem preview_reports_real now k f s :
  let fp := mkFilt (f_route f) (f_target f) (f_state f) (f_limit f) (f_before f) true in
  let fr := mkFilt (f_route f) (f_target f) (f_state f) (f_limit f) (f_before f) false in
  exists m n, serve now (DCall (SCFilter k fp)) s = (s, HFilterOk m 0 true)
              /\ snd (serve now (DCall (SCFilter k fr)) s) = HFilterOk m n false
              /\ (Inv s -> n = m).
Proof.
  cbv zeta. simpl. unfold step_manage_f. simpl.
  eexists. eexists. split; [reflexivity|]. split; [reflexivity|].
  intros I.
  destruct (filter_count_is_matched now (fk_kind k)
              (mkFilt (f_route f) (f_target f) (f_state f) (f_limit f) (f_before f) false) s I eq_refl) as [c Hc].
  unfold step_manage_f in Hc. simpl in Hc. inversion Hc as [[H1 H2]].
  reflexivity.
Qed.

(** the whole path for an id endpoint: accepted request -> exactly the named messages from allowed states
    change, the answer is 200 with the number of messages changed *)
Theorem admin_ids_end_to_end x now k q raw s s' r :
  Inv s -> admin_request x now (EpIds k) q (BIds (IBIds raw)) s = (s', r) -> status_of r = 200 ->
  exists idl n, parse_manage_ids raw = Some idl /\ r = HIdsOk n
    /\ n = changed_count (msgs s) (msgs s')
    /\ n = Z.of_nat (length (filter (fun m => raw_names raw (m_id m) && allowed_from k (m_st m)) (msgs s)))
    /\ (forall m, In m (msgs s) ->
          find_id (m_id m) (msgs s') = if raw_names raw (m_id m) && allowed_from k (m_st m) then manage_effect now k m else Some m)
    /\ incl (ids (msgs s')) (ids (msgs s)).
Proof.
  intros I H Hs. unfold admin_request in H.
  change (decide x (EpIds k) q (BIds (IBIds raw)) (msgs s)) with (decide_ids x k q (IBIds raw) (msgs s)) in H.
  destruct (decide_ids x k q (IBIds raw) (msgs s)) as [st c | c] eqn:D.
  - unfold serve in H. inversion H; subst. simpl in Hs.
    (* the model never refuses with status 200 *)
    exfalso. unfold decide_ids, gate in D. split_match D; inversion D; subst; discriminate.
  - destruct (decide_ids_call _ _ _ _ _ _ D) as [_ [_ [_ [raw0 [idl [Eb [P Ec]]]]]]]. inversion Eb; subst raw0. subst c.
    assert (Hserve := H). unfold serve, exec_call in H.
    destruct (step_manage now k (store_ids idl) s) as [s1 r1] eqn:E.
    destruct (ids_selection_exact now k raw idl s s1 r1 I P E) as [Hf [Hi [n [mt [Er En]]]]]. subst r1.
    unfold respond in H. injection H as Hs1 Hr. subst s1. subst r. exists idl, n. split; [exact P|]. split; [reflexivity|].
    destruct (response_counts_ids now k (store_ids idl) s s' n I Hserve) as [_ Hc].
    split; [exact Hc|]. split; [exact En|]. split; [exact Hf | exact Hi].
Qed.

(** * non-vacuity *)
Definition ex_ctx : ctx :=
  mkCtx true true true true true false false [] [] 0 0
        [mkRoute 1%N [1000%N] true true true true 0 0 None;
         mkRoute 5%N [1000%N] true true true true 0 0 (Some (1%N, 2%N))].

Definition ex_msg (i r : N) (s : st) (recv : Z) : msg := mkMsg i r 1000%N s recv 0 recv i 0%N 0%N 0%N None 0.
Definition ex_pop : list msg :=
  [ex_msg 1 1 Queued 50; ex_msg 2 1 Dead 50; ex_msg 3 1 Canceled 60; ex_msg 4 1 Delivered 60; ex_msg 5 1 Queued 60].

Definition ex_q : hreq := mkHReq true true (mkAudit [119%N; 104%N; 121%N] [] []).

Example ex_ids_accept :
  parse_manage_ids [RPadded 3; RPlain 1; RPlain 3; RPadded 1; RPlain 9] = Some [3%N; 1%N; 9%N].
Proof. vm_compute. reflexivity. Qed.

Example ex_ids_blank_rejected : parse_manage_ids [RPlain 1; RBlank] = None /\ parse_manage_ids [] = None.
Proof. vm_compute. split; reflexivity. Qed.

Example ex_ids_cap :
  parse_manage_ids (map (fun n => RPlain (N.of_nat n)) (seq 1 1000)) <> None
  /\ parse_manage_ids (map (fun n => RPlain (N.of_nat n)) (seq 1 1001)) = None
  /\ parse_manage_ids (map (fun n => RPlain 7) (seq 1 1001)) = None.     (* the cap is on the raw list, before de-duplication *)
Proof. vm_compute. split; [discriminate | split; reflexivity]. Qed.

Example ex_cancel_by_ids :
  let '(s', r) := admin_request ex_ctx 100 (EpIds MCancel) ex_q (BIds (IBIds [RPadded 2; RPlain 4; RPlain 1; RPlain 2; RPlain 77])) (state_of ex_pop) in
  (r, map (fun m => (m_id m, m_st m)) (msgs s'))
  = (HIdsOk 2, [(1%N, Canceled); (2%N, Canceled); (3%N, Canceled); (4%N, Delivered); (5%N, Queued)]).
Proof. vm_compute. reflexivity. Qed.

Example ex_filter_limit_and_state :
  let body lim stt := BFilter (FBOk (mkFBody RtBlank LBlank LBlank RBlank stt TAbsent lim false)) in
  snd (admin_request ex_ctx 100 (EpFilter FCancel) ex_q (body 1 (RsKnown Queued)) (state_of ex_pop)) = HErr 400 (GPub CManagedSelectorRequired)
  /\ snd (admin_request ex_ctx 100 (EpFilter FCancel) ex_q (BFilter (FBOk (mkFBody (RtPadded 1) LBlank LBlank RBlank (RsKnown Queued) TAbsent 1 false))) (state_of ex_pop))
     = HFilterOk 1 1 false
  /\ snd (admin_request ex_ctx 100 (EpFilter FCancel) ex_q (BFilter (FBOk (mkFBody (RtPlain 1) LBlank LBlank RBlank (RsKnown Canceled) TAbsent 1 false))) (state_of ex_pop))
     = HErr 400 (GPub CInvalidBody)
  /\ snd (admin_request ex_ctx 100 (EpFilter FCancel) ex_q (BFilter (FBOk (mkFBody (RtPlain 1) LBlank LBlank RBlank RsBlank TAbsent (-1) false))) (state_of ex_pop))
     = HErr 400 (GPub CInvalidBody)
  /\ admin_request ex_ctx 100 (EpFilter FCancel) ex_q (BFilter (FBOk (mkFBody (RtPlain 1) LBlank LBlank RBlank RsBlank TAbsent 0 true))) (state_of ex_pop)
     = (state_of ex_pop, HFilterOk 3 0 true).
Proof. vm_compute. repeat split; reflexivity. Qed.

Example ex_missing_reason :
  snd (admin_request ex_ctx 100 (EpIds MDeleteDead) (mkHReq true true (mkAudit [] [] [])) (BIds (IBIds [RPlain 2])) (state_of ex_pop))
  = HErr 400 (GPub CAuditReason).
Proof. vm_compute. reflexivity. Qed.

Example ex_mcp_limit :
  let e := mkMEnv true [111%N; 112%N; 115%N] None in
  let a lim := mkMF false true (mkMA true true true []) RtBlank LBlank LBlank RBlank RsBlank TAbsent lim false in
  snd (mcp_request e 0 (MtFilter FCancel (a (MLInt 0))) (state_of ex_pop)) = HErr 0 GToolError
  /\ snd (mcp_request e 0 (MtFilter FCancel (a (MLInt 1001))) (state_of ex_pop)) = HErr 0 GToolError
  /\ snd (mcp_request e 0 (MtFilter FCancel (a MLAbsent)) (state_of ex_pop)) = HFilterOk 3 3 false
  /\ snd (mcp_request e 0 (MtFilter FCancel (a (MLInt 2))) (state_of ex_pop)) = HFilterOk 2 2 false.
Proof. vm_compute. repeat split; reflexivity. Qed.
