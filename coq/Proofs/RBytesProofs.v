(** Lemmas about the byte-string helpers of Model/RBytes.v. *)
From Coq Require Import List NArith Bool Lia Arith.
From HK Require Import Model.RBytes.
Import ListNotations.
Open Scope N_scope.

Lemma beq_eq : forall a b, beq a b = true <-> a = b.
Proof.
  induction a as [|x a IH]; destruct b as [|y b]; simpl; split; intro H; try congruence; try discriminate.
  - apply andb_true_iff in H. destruct H as [H1 H2]. apply N.eqb_eq in H1. apply IH in H2. congruence.
  - inversion H; subst. rewrite N.eqb_refl. simpl. apply IH. reflexivity.
Qed.

Lemma beq_refl : forall a, beq a a = true.
Proof. intro a. apply beq_eq. reflexivity. Qed.

Lemma beq_neq : forall a b, beq a b = false <-> a <> b.
Proof.
  intros a b. split; intro H.
  - intro E. apply beq_eq in E. congruence.
  - destruct (beq a b) eqn:E; [apply beq_eq in E; contradiction | reflexivity].
Qed.

Lemma is_empty_nil : forall a, is_empty a = true <-> a = [].
Proof. destruct a; simpl; split; intro; congruence. Qed.

Lemma is_empty_false : forall a, is_empty a = false <-> a <> [].
Proof. destruct a; simpl; split; intro H; congruence. Qed.

Lemma prefixb_spec : forall p s, prefixb p s = true <-> exists t, s = p ++ t.
Proof.
  induction p as [|x p IH]; intros s; simpl.
  - split; [intros _; exists s; reflexivity | reflexivity].
  - destruct s as [|y s].
    + split; [discriminate | intros [t H]; discriminate].
    + rewrite andb_true_iff, N.eqb_eq, IH. split.
      * intros [E [t H]]. exists t. subst. reflexivity.
      * intros [t H]. inversion H; subst. split; [reflexivity | exists t; reflexivity].
Qed.

Lemma prefixb_app : forall p t, prefixb p (p ++ t) = true.
Proof. intros. apply prefixb_spec. exists t. reflexivity. Qed.

Lemma suffixb_spec : forall p s, suffixb p s = true <-> exists t, s = t ++ p.
Proof.
  intros p s. unfold suffixb. rewrite prefixb_spec. split.
  - intros [t H]. exists (rev t). apply (f_equal (@rev N)) in H.
    rewrite rev_involutive, rev_app_distr, rev_involutive in H. exact H.
  - intros [t H]. exists (rev t). subst. apply rev_app_distr.
Qed.

Lemma trim_prefix_app : forall p t, trim_prefix p (p ++ t) = t.
Proof.
  intros. unfold trim_prefix. rewrite prefixb_app.
  rewrite skipn_app, skipn_all, Nat.sub_diag. reflexivity.
Qed.

Lemma mem_In : forall x l, mem x l = true <-> In x l.
Proof.
  intros x l. unfold mem. rewrite existsb_exists. split.
  - intros [y [Hy E]]. apply beq_eq in E. subst. exact Hy.
  - intro H. exists x. split; [exact H | apply beq_refl].
Qed.

Lemma contains_byte_In : forall c s, contains_byte c s = true <-> In c s.
Proof.
  intros c s. unfold contains_byte. rewrite existsb_exists. split.
  - intros [y [Hy E]]. apply N.eqb_eq in E. subst. exact Hy.
  - intro H. exists c. split; [exact H | apply N.eqb_refl].
Qed.

(** split_on / join *)
Lemma split_on_nonempty : forall c s, split_on c s <> [].
Proof.
  intros c s. induction s as [|x t IH]; simpl; [discriminate|].
  destruct (x =? c); [discriminate|]. destruct (split_on c t); [contradiction | discriminate].
Qed.

Lemma split_on_no_sep : forall c s seg, In seg (split_on c s) -> ~ In c seg.
Proof.
  intros c s. induction s as [|x t IH]; simpl; intros seg H.
  - destruct H as [H|[]]. subst. intros [].
  - destruct (x =? c) eqn:E.
    + destruct H as [H|H]; [subst; intros [] | apply IH; exact H].
    + destruct (split_on c t) as [|h r] eqn:S.
      * destruct H as [H|[]]. subst. intros [H|[]]. subst. rewrite N.eqb_refl in E. discriminate.
      * destruct H as [H|H].
        -- subst. intros [H|H]; [subst; rewrite N.eqb_refl in E; discriminate|].
           apply (IH h); [left; reflexivity | exact H].
        -- apply IH. right. exact H.
Qed.

Lemma join_split : forall c s, join [c] (split_on c s) = s.
Proof.
  intros c s. induction s as [|x t IH]; simpl; [reflexivity|].
  destruct (x =? c) eqn:E.
  - apply N.eqb_eq in E. subst x.
    destruct (split_on c t) as [|h r] eqn:S; [exfalso; exact (split_on_nonempty c t S)|].
    simpl in *. rewrite IH. reflexivity.
  - destruct (split_on c t) as [|h r] eqn:S; [exfalso; exact (split_on_nonempty c t S)|].
    destruct r; simpl in *; rewrite <- IH; reflexivity.
Qed.

(** splitting a joined list of separator-free elements gives the list back *)
Lemma split_join : forall c l, l <> [] -> (forall s, In s l -> ~ In c s) -> split_on c (join [c] l) = l.
Proof.
  intros c l. induction l as [|a l IH]; intros Hne Hno; [contradiction|].
  assert (Ha : ~ In c a) by (apply Hno; left; reflexivity).
  destruct l as [|b l].
  - simpl. clear IH Hne Hno. induction a as [|x a IHa]; simpl; [reflexivity|].
    destruct (x =? c) eqn:E; [apply N.eqb_eq in E; subst; exfalso; apply Ha; left; reflexivity|].
    rewrite IHa; [reflexivity | intro H; apply Ha; right; exact H].
  - assert (IH' : split_on c (join [c] (b :: l)) = b :: l).
    { apply IH; [discriminate | intros s Hs; apply Hno; right; exact Hs]. }
    change (join [c] (a :: b :: l)) with (a ++ [c] ++ join [c] (b :: l)).
    clear IH Hne Hno. induction a as [|x a IHa].
    + simpl. rewrite N.eqb_refl. simpl in IH'. rewrite IH'. reflexivity.
    + simpl. destruct (x =? c) eqn:E; [apply N.eqb_eq in E; subst; exfalso; apply Ha; left; reflexivity|].
      simpl in IHa. rewrite IHa; [reflexivity | intro H; apply Ha; right; exact H].
Qed.
