(** Structural invariants of the nonce cache model (Model/NonceCache.v).

    The Go map `nonce -> expiry` is modelled as an association list.  That is faithful only while the
    list holds each key at most once ([wf]); this file proves that every operation of the model keeps
    [wf] (so [lookup] reads THE entry of a key, as the Go map does), and that the "opportunistic
    cleanup" of seenOnceLocked really bounds the cache: after any call that reaches it, no entry that
    was already expired at that call's clock reading is left, and the entry written is live. *)
From Coq Require Import ZArith List Bool NArith Lia.
From HK Require Import Model.NonceCache Proofs.NonceCacheProofs.
Import ListNotations.
Open Scope Z_scope.

Definition wf (c : cache) : Prop := NoDup (map fst c).
Definition live_at (now : Z) (c : cache) : Prop := Forall (fun kv => now <= snd kv) c.

Lemma in_map_fst_filter (p : bytes * Z -> bool) k c :
  In k (map fst (filter p c)) -> In k (map fst c).
Proof.
  intros H. apply in_map_iff in H. destruct H as [kv [Hk Hin]].
  apply filter_In in Hin. destruct Hin as [Hin _].
  apply in_map_iff. exists kv. split; assumption.
Qed.

Lemma wf_filter (p : bytes * Z -> bool) c : wf c -> wf (filter p c).
Proof.
  unfold wf. induction c as [|[k e] tl IH]; cbn [filter map fst]; intros H.
  - constructor.
  - inversion H as [|x l Hnin Hnd]; subst.
    destruct (p (k, e)); cbn [map fst].
    + constructor; [|apply IH; exact Hnd].
      intros Hin. apply Hnin. eapply in_map_fst_filter. exact Hin.
    + apply IH. exact Hnd.
Qed.

Lemma wf_nil : wf [].
Proof. constructor. Qed.

Lemma wf_cleanup now c : wf c -> wf (cleanup now c).
Proof. apply wf_filter. Qed.

Lemma remove_key_not_in k c : ~ In k (map fst (remove_key k c)).
Proof.
  unfold remove_key. intros H. apply in_map_iff in H. destruct H as [kv [Hk Hin]].
  apply filter_In in Hin. destruct Hin as [_ Hp]. subst k.
  rewrite beqb_refl in Hp. discriminate Hp.
Qed.

Lemma wf_set_key k e c : wf c -> wf (set_key k e c).
Proof.
  intros H. unfold set_key, wf. cbn [map fst]. constructor.
  - apply remove_key_not_in.
  - apply wf_filter. exact H.
Qed.

Lemma wf_seen n x now c : wf c -> wf (snd (seen_once_locked n x now c)).
Proof.
  intros H. unfold seen_once_locked. destruct n as [|b n']; [exact H|].
  destruct (lookup (b :: n') (cleanup now c)) as [e|].
  - destruct (negb (now >? e)); cbn [snd].
    + apply wf_cleanup. exact H.
    + apply wf_set_key. apply wf_cleanup. exact H.
  - cbn [snd]. apply wf_set_key. apply wf_cleanup. exact H.
Qed.

Lemma wf_admit n t tol now c : wf c -> wf (snd (cache_admit n t tol now c)).
Proof.
  intros H. unfold cache_admit.
  destruct ((0 <? tol) && ((now - t <? - tol) || (tol <? now - t))); [exact H|].
  apply wf_seen. exact H.
Qed.

Lemma map_fst_extend by_ c : map fst (extend by_ c) = map fst c.
Proof. unfold extend. rewrite map_map. apply map_ext. intros [k e]. reflexivity. Qed.

Lemma wf_extend by_ c : wf c -> wf (extend by_ c).
Proof. unfold wf. rewrite map_fst_extend. exact (fun H => H). Qed.

Lemma wf_inherit new_tol prev :
  (forall ptol c, prev = Some (ptol, c) -> wf c) -> wf (inherit_nonces new_tol prev).
Proof.
  intros H. unfold inherit_nonces. destruct prev as [[ptol c]|]; [|apply wf_nil].
  specialize (H ptol c eq_refl).
  destruct (new_tol - ptol >? 0); [apply wf_extend|]; exact H.
Qed.

(** [wf] is what makes the association list a map: an entry that is in the list is the one
    [lookup] finds. *)
Lemma wf_lookup_in k e c : wf c -> In (k, e) c -> lookup k c = Some e.
Proof.
  unfold wf. induction c as [|[k' e'] tl IH]; cbn [map fst lookup In]; intros Hnd Hin; [contradiction|].
  inversion Hnd as [|x l Hnin Hnd']; subst.
  destruct Hin as [Heq|Hin].
  - inversion Heq; subst. rewrite beqb_refl. reflexivity.
  - destruct (beqb k k') eqn:Hb.
    + apply beqb_eq in Hb. subst k'. exfalso. apply Hnin.
      apply in_map_iff. exists (k, e). split; [reflexivity|exact Hin].
    + apply IH; assumption.
Qed.

(** the cleanup leaves only entries that are not expired at [now] *)
Lemma live_cleanup now c : live_at now (cleanup now c).
Proof.
  unfold live_at, cleanup. apply Forall_forall. intros kv Hin.
  apply filter_In in Hin. destruct Hin as [_ Hp].
  destruct (now >? snd kv) eqn:Hg; [discriminate Hp|].
  rewrite Z.gtb_ltb in Hg. apply Z.ltb_ge in Hg. exact Hg.
Qed.

Lemma live_filter now (p : bytes * Z -> bool) c : live_at now c -> live_at now (filter p c).
Proof.
  unfold live_at. intros H. apply Forall_forall. intros kv Hin.
  apply filter_In in Hin. destruct Hin as [Hin _].
  rewrite Forall_forall in H. apply H. exact Hin.
Qed.

Lemma live_set_key now k e c : now <= e -> live_at now c -> live_at now (set_key k e c).
Proof.
  intros He H. unfold set_key, live_at. constructor; [exact He|].
  apply live_filter. exact H.
Qed.

(** seenOnceLocked with a non-empty nonce and an expiry not before the clock reading: whatever it
    answers, the cache it leaves holds no expired entry. *)
Lemma live_seen n x now c :
  n <> [] -> now <= x -> live_at now (snd (seen_once_locked n x now c)).
Proof.
  intros Hn Hx. unfold seen_once_locked. destruct n as [|b n']; [contradiction Hn; reflexivity|].
  destruct (lookup (b :: n') (cleanup now c)) as [e|].
  - destruct (negb (now >? e)); cbn [snd].
    + apply live_cleanup.
    + apply live_set_key; [exact Hx|apply live_cleanup].
  - cbn [snd]. apply live_set_key; [exact Hx|apply live_cleanup].
Qed.

(** cache_admit under a positive tolerance: a request that passes the tolerance test (whether its
    nonce then turns out new or seen) leaves a cache without expired entries; a request that fails the
    tolerance test leaves the cache untouched. *)
Lemma admit_in_window_live n t tol now c :
  n <> [] -> 0 < tol -> - tol <= now - t <= tol ->
  live_at now (snd (cache_admit n t tol now c)).
Proof.
  intros Hn Htol Hw. unfold cache_admit.
  assert (Hc : (0 <? tol) && ((now - t <? - tol) || (tol <? now - t)) = false).
  { apply andb_false_iff. right. apply orb_false_iff. split; apply Z.ltb_ge; lia. }
  rewrite Hc. apply live_seen; [exact Hn|lia].
Qed.

Lemma admit_out_of_window_untouched n t tol now c :
  0 < tol -> (now - t < - tol \/ tol < now - t) -> cache_admit n t tol now c = (false, c).
Proof.
  intros Htol Hw. unfold cache_admit.
  assert (Hc : (0 <? tol) && ((now - t <? - tol) || (tol <? now - t)) = true).
  { apply andb_true_iff. split; [apply Z.ltb_lt; exact Htol|].
    apply orb_true_iff. destruct Hw as [Hw|Hw]; [left|right]; apply Z.ltb_lt; exact Hw. }
  rewrite Hc. reflexivity.
Qed.

(** An accepted admission: the nonce's entry is THE entry for that nonce (wf) and covers the window. *)
Lemma admit_true_entry n t tol now c c' :
  wf c -> cache_admit n t tol now c = (true, c') ->
  wf c' /\ lookup n c' = Some (t + tol) /\
  (forall e, In (n, e) c' -> e = t + tol).
Proof.
  intros Hwf H.
  assert (Hwf' : wf c').
  { replace c' with (snd (cache_admit n t tol now c)) by (rewrite H; reflexivity).
    apply wf_admit. exact Hwf. }
  assert (Hl : lookup n c' = Some (t + tol)).
  { unfold cache_admit in H.
    destruct ((0 <? tol) && ((now - t <? - tol) || (tol <? now - t))); [discriminate H|].
    unfold seen_once_locked in H. destruct n as [|b n']; [discriminate H|].
    destruct (lookup (b :: n') (cleanup now c)) as [e|].
    - destruct (negb (now >? e)); [discriminate H|].
      inversion H; subst. apply lookup_set_same.
    - inversion H; subst. apply lookup_set_same. }
  split; [exact Hwf'|]. split; [exact Hl|].
  intros e Hin. pose proof (wf_lookup_in n e c' Hwf' Hin) as Hl2.
  rewrite Hl in Hl2. inversion Hl2. reflexivity.
Qed.

(** Every cache reachable from the empty one by admissions and tolerance-growing reloads is a map. *)
Inductive cache_op :=
| OAdmit (n : bytes) (t tol now : Z)
| OExtend (by_ : Z).

Definition cache_step (c : cache) (o : cache_op) : cache :=
  match o with
  | OAdmit n t tol now => snd (cache_admit n t tol now c)
  | OExtend by_ => extend by_ c
  end.

Lemma wf_reachable ops : wf (fold_left cache_step ops []).
Proof.
  assert (G : forall c, wf c -> wf (fold_left cache_step ops c)).
  { induction ops as [|o ops IH]; cbn [fold_left]; intros c H; [exact H|].
    apply IH. destruct o as [n t tol now|by_]; cbn [cache_step].
    - apply wf_admit. exact H.
    - apply wf_extend. exact H. }
  apply G. apply wf_nil.
Qed.

(** non-vacuity: a concrete cache with two entries, one expired; an in-window admission of a third
    nonce at now = 100 drops the expired entry and leaves a live map of two. *)
Example inv_example :
  let c := [([1%N], 50); ([2%N], 500)] in
  wf c /\
  cache_admit [3%N] 90 20 100 c = (true, [([3%N], 110); ([2%N], 500)]) /\
  live_at 100 (snd (cache_admit [3%N] 90 20 100 c)).
Proof.
  split; [|split].
  - unfold wf. cbn [map fst]. constructor.
    + intros [H|[]]. discriminate H.
    + constructor; [intros []|constructor].
  - vm_compute. reflexivity.
  - apply admit_in_window_live; [discriminate|lia|lia].
Qed.
