From Coq Require Import ZArith List Bool NArith Lia.
From HK Require Import Model.NonceCache Model.Hmac Model.HmacHistory Proofs.NonceCacheProofs.
Import ListNotations.
Open Scope Z_scope.

(** the secrets tried at instant [t] *)
Lemma secrets_at_spec cfg t k :
  In k (secrets_at cfg t) <->
  In k (h_static cfg) \/
  exists v, In v (h_versions cfg) /\ v_value v = k /\ v_from v <= t /\
            match v_until v with None => True | Some u => t < u end.
Proof.
  assert (V : forall vs, In k (map v_value (filter (is_valid_at t) vs)) <->
              exists v, In v vs /\ v_value v = k /\ v_from v <= t /\
                        match v_until v with None => True | Some u => t < u end).
  { intros vs. rewrite in_map_iff. split.
    - intros (v & E & Hin). apply filter_In in Hin. destruct Hin as [Hin Hv].
      exists v. unfold is_valid_at in Hv. apply andb_true_iff in Hv. destruct Hv as [H1 H2].
      apply Z.leb_le in H1. repeat split; auto. destruct (v_until v); [apply Z.ltb_lt; exact H2 | exact I].
    - intros (v & Hin & E & H1 & H2). exists v. split; [exact E|]. apply filter_In. split; [exact Hin|].
      unfold is_valid_at. apply andb_true_iff. split; [apply Z.leb_le; exact H1|].
      destruct (v_until v); [apply Z.ltb_lt; exact H2 | reflexivity]. }
  unfold secrets_at, select_secrets. destruct (h_versions cfg) as [|v0 vs] eqn:HV.
  - split; [auto|]. intros [H|(v & [] & _)]. exact H.
  - rewrite in_app_iff, V. tauto.
Qed.

Section Crypto.
Variable sha256 : bytes -> bytes.
Variable hmac : bytes -> bytes -> bytes.

Notation verify := (verify sha256 hmac).
Notation string_to_sign := (string_to_sign sha256).
Notation sig_matches := (sig_matches hmac).

(** Verify, restated around the two stages the proofs talk about. *)
Lemma verify_eq cfg c now r :
  verify cfg c now r =
  if no_secrets_configured cfg then (true, c) else
  match verify_pre cfg r with
  | None => (false, c)
  | Some (sig_hex, ts_text, nonce, ts) =>
      let ac := cache_admit nonce (ts * sec) (h_tol cfg) now c in
      if negb (fst ac) then (false, snd ac) else
      match hex_decode sig_hex with
      | None | Some [] => (false, snd ac)
      | Some got => (sig_matches (secrets_at cfg (ts * sec))
                       (string_to_sign ts_text (q_method r) (q_path r) (q_body r)) got, snd ac)
      end
  end.
Proof.
  unfold Hmac.verify, verify_pre.
  destruct (no_secrets_configured cfg); [reflexivity|].
  destruct (trim_space (header_get (h_sig cfg) (q_headers r))) as [|s1 s];
  destruct (trim_space (header_get (h_ts cfg) (q_headers r))) as [|t1 t];
  destruct (trim_space (header_get (h_nonce cfg) (q_headers r))) as [|n1 n]; try reflexivity.
  destruct (parse_int (t1 :: t)) as [ts|]; [|reflexivity].
  destruct (cache_admit (n1 :: n) (ts * sec) (h_tol cfg) now c) as [fresh c1]. cbn [fst snd].
  destruct fresh; reflexivity.
Qed.

Lemma verify_pre_some cfg r sg tt nn ts :
  verify_pre cfg r = Some (sg, tt, nn, ts) ->
  sg = trim_space (header_get (h_sig cfg) (q_headers r)) /\
  tt = trim_space (header_get (h_ts cfg) (q_headers r)) /\
  nn = trim_space (header_get (h_nonce cfg) (q_headers r)) /\
  sg <> [] /\ tt <> [] /\ nn <> [] /\ parse_int tt = Some ts.
Proof.
  unfold verify_pre.
  destruct (trim_space (header_get (h_sig cfg) (q_headers r))) as [|s1 s];
  destruct (trim_space (header_get (h_ts cfg) (q_headers r))) as [|t1 t];
  destruct (trim_space (header_get (h_nonce cfg) (q_headers r))) as [|n1 n]; try discriminate.
  destruct (parse_int (t1 :: t)) as [ts'|] eqn:P; [|discriminate].
  intros H. inversion H; subst. repeat split; try discriminate. exact P.
Qed.

Lemma verify_pre_none cfg r :
  verify_pre cfg r = None <->
  (trim_space (header_get (h_sig cfg) (q_headers r)) = [] \/
   trim_space (header_get (h_ts cfg) (q_headers r)) = [] \/
   trim_space (header_get (h_nonce cfg) (q_headers r)) = [] \/
   parse_int (trim_space (header_get (h_ts cfg) (q_headers r))) = None).
Proof.
  unfold verify_pre.
  destruct (trim_space (header_get (h_sig cfg) (q_headers r))) as [|s1 s];
  destruct (trim_space (header_get (h_ts cfg) (q_headers r))) as [|t1 t];
  destruct (trim_space (header_get (h_nonce cfg) (q_headers r))) as [|n1 n];
  try (split; [intros _; tauto | reflexivity]).
  destruct (parse_int (t1 :: t)) as [ts'|] eqn:P.
  - split; [discriminate|]. intros [H|[H|[H|H]]]; discriminate.
  - split; [intros _; tauto | reflexivity].
Qed.

Lemma sig_matches_spec secrets msg got :
  sig_matches secrets msg got = true <->
  exists k, In k secrets /\ k <> [] /\ got = hmac k msg.
Proof.
  unfold Hmac.sig_matches. rewrite existsb_exists. split.
  - intros [k [Hin Hk]]. exists k. destruct k; [discriminate|]. apply beqb_eq in Hk. repeat split; auto. discriminate.
  - intros [k [Hin [Hne He]]]. exists k. split; [exact Hin|]. destruct k; [congruence|]. apply beqb_eq. exact He.
Qed.

(** What a configuration must satisfy (guaranteed by Compile + loadAuth, see Properties/C08.v). *)
Definition hmac_configured (cfg : hmac_cfg) : Prop := no_secrets_configured cfg = false.

(** The accepted request, spelled out: everything the property statement lists. *)
Definition hmac_valid (cfg : hmac_cfg) (now : Z) (r : hreq) : Prop :=
  let sg := trim_space (header_get (h_sig cfg) (q_headers r)) in
  let tt := trim_space (header_get (h_ts cfg) (q_headers r)) in
  let nn := trim_space (header_get (h_nonce cfg) (q_headers r)) in
  sg <> [] /\ tt <> [] /\ nn <> [] /\
  exists ts, parse_int tt = Some ts /\
    (0 < h_tol cfg -> - h_tol cfg <= now - ts * sec <= h_tol cfg) /\
    exists got k, hex_decode sg = Some got /\ got <> [] /\
      In k (secrets_at cfg (ts * sec)) /\ k <> [] /\
      got = hmac k (string_to_sign tt (q_method r) (q_path r) (q_body r)).

(** Verify accepts exactly the valid requests whose nonce the cache admits. *)
Theorem verify_spec cfg c now r :
  hmac_configured cfg ->
  (fst (verify cfg c now r) = true <->
   hmac_valid cfg now r /\
   fst (cache_admit (trim_space (header_get (h_nonce cfg) (q_headers r)))
              (match parse_int (trim_space (header_get (h_ts cfg) (q_headers r))) with Some ts => ts * sec | None => 0 end)
              (h_tol cfg) now c) = true).
Proof.
  intros Hc. rewrite verify_eq. unfold hmac_configured in Hc. rewrite Hc.
  unfold hmac_valid. cbn zeta.
  destruct (verify_pre cfg r) as [[[[sg tt] nn] ts]|] eqn:P.
  - destruct (verify_pre_some _ _ _ _ _ _ P) as (E1 & E2 & E3 & N1 & N2 & N3 & PI).
    rewrite <- E1, <- E2, <- E3, PI. cbn zeta.
    destruct (fst (cache_admit nn (ts * sec) (h_tol cfg) now c)) eqn:A; cbn [negb].
    + pose proof (admit_true _ _ _ _ _ A) as (_ & Hw & _).
      destruct (hex_decode sg) as [[|g0 g]|] eqn:HD; cbn [fst].
      * split; [discriminate|]. intros [(_ & _ & _ & ts' & _ & _ & got & k & HD' & Hne & _) _].
        inversion HD'; subst. congruence.
      * rewrite sig_matches_spec. split.
        -- intros [k (Hin & Hk & He)]. split; [|reflexivity].
           repeat split; auto.
           exists ts. repeat split; auto; try (apply Hw; assumption).
           exists (g0 :: g), k. repeat split; auto. discriminate.
        -- intros [(_ & _ & _ & ts' & PI' & _ & got & k & HD' & Hne & Hin & Hk & He) _].
           inversion PI'; subst ts'. inversion HD'; subst got.
           exists k. auto.
      * split; [discriminate|]. intros [(_ & _ & _ & ts' & _ & _ & got & k & HD' & _) _].
        discriminate.
    + cbn [fst]. split; [discriminate|]. intros [_ H]. discriminate.
  - cbn [fst]. split; [discriminate|]. intros [(N1 & N2 & N3 & ts & PI & _) _].
    apply verify_pre_none in P. destruct P as [P|[P|[P|P]]]; congruence.
Qed.

Corollary verify_sound cfg c now r :
  hmac_configured cfg -> fst (verify cfg c now r) = true -> hmac_valid cfg now r.
Proof. intros Hc H. apply (verify_spec cfg c now r Hc) in H. tauto. Qed.

(** an accepted request was admitted by the nonce step *)
Lemma verify_true_admitted cfg c now r :
  hmac_configured cfg -> fst (verify cfg c now r) = true ->
  exists n t, admitted cfg c now r = Some (n, t).
Proof.
  intros Hc. rewrite verify_eq. unfold admitted. unfold hmac_configured in Hc. rewrite Hc.
  destruct (verify_pre cfg r) as [[[[sg tt] nn] ts]|]; [|discriminate].
  cbn zeta. destruct (fst (cache_admit nn (ts * sec) (h_tol cfg) now c)); [|discriminate].
  intros _. eauto.
Qed.

(** the cache after Verify *)
Lemma verify_cache cfg c now r :
  snd (verify cfg c now r) =
  if no_secrets_configured cfg then c else
  match verify_pre cfg r with
  | None => c
  | Some (_, _, nonce, ts) => snd (cache_admit nonce (ts * sec) (h_tol cfg) now c)
  end.
Proof.
  rewrite verify_eq. destruct (no_secrets_configured cfg); [reflexivity|].
  destruct (verify_pre cfg r) as [[[[sg tt] nn] ts]|]; [|reflexivity].
  cbn zeta. destruct (negb (fst (cache_admit nn (ts * sec) (h_tol cfg) now c))); [reflexivity|].
  destruct (hex_decode sg) as [[|? ?]|]; reflexivity.
Qed.

(** ** hex *)
Lemma hex_digit_inj a b : (a < 16)%N -> (b < 16)%N -> hex_digit a = hex_digit b -> a = b.
Proof.
  unfold hex_digit. intros Ha Hb.
  destruct (N.ltb_spec a 10), (N.ltb_spec b 10); lia.
Qed.

Lemma hex_encode_inj a b :
  Forall (fun x => (x < 256)%N) a -> Forall (fun x => (x < 256)%N) b ->
  hex_encode a = hex_encode b -> a = b.
Proof.
  revert b. induction a as [|x a IH]; intros [|y b] Ha Hb H; simpl in H; try discriminate; [reflexivity|].
  inversion H as [[H1 H2 H3]]. inversion Ha; inversion Hb; subst.
  apply hex_digit_inj in H1; [|apply N.mod_lt; lia|apply N.mod_lt; lia].
  apply hex_digit_inj in H2; [|apply N.mod_lt; lia|apply N.mod_lt; lia].
  f_equal; [|apply IH; assumption].
  assert (Hx : (x / 16 < 16)%N) by (apply N.div_lt_upper_bound; lia).
  assert (Hy : (y / 16 < 16)%N) by (apply N.div_lt_upper_bound; lia).
  rewrite N.mod_small in H1 by exact Hx. rewrite (N.mod_small (y / 16)) in H1 by exact Hy.
  rewrite (N.div_mod x 16), (N.div_mod y 16) by lia. rewrite H1, H2. reflexivity.
Qed.

Lemma hex_digit_not_nl n : (n < 16)%N -> hex_digit n <> 10%N.
Proof. unfold hex_digit. intros H. destruct (N.ltb_spec n 10); lia. Qed.

Lemma hex_encode_no_nl l : ~ In 10%N (hex_encode l).
Proof.
  induction l as [|x l IH]; simpl; [tauto|].
  intros [H|[H|H]]; [| |exact (IH H)].
  - revert H. apply hex_digit_not_nl. apply N.mod_lt. lia.
  - revert H. apply hex_digit_not_nl. apply N.mod_lt. lia.
Qed.

(** ** the string to sign determines its four fields *)
Lemma split_at_nl a a' rest rest' :
  ~ In 10%N a -> ~ In 10%N a' -> a ++ 10%N :: rest = a' ++ 10%N :: rest' -> a = a' /\ rest = rest'.
Proof.
  revert a'. induction a as [|x a IH]; intros [|y a'] Ha Ha' H; simpl in *.
  - inversion H. auto.
  - inversion H; subst. exfalso. apply Ha'. left. reflexivity.
  - inversion H; subst. exfalso. apply Ha. left. reflexivity.
  - inversion H; subst. destruct (IH a') as [E1 E2]; auto. subst. auto.
Qed.

Lemma split_at_last_nl a a' b b' :
  ~ In 10%N b -> ~ In 10%N b' -> a ++ 10%N :: b = a' ++ 10%N :: b' -> a = a' /\ b = b'.
Proof.
  intros Hb Hb' H.
  assert (R : rev b ++ 10%N :: rev a = rev b' ++ 10%N :: rev a').
  { apply (f_equal (@rev N)) in H. rewrite !rev_app_distr in H. simpl in H.
    rewrite <- !app_assoc in H. simpl in H. exact H. }
  apply split_at_nl in R; try (rewrite <- in_rev; assumption).
  destruct R as [R1 R2]. split.
  - rewrite <- (rev_involutive a), <- (rev_involutive a'). congruence.
  - rewrite <- (rev_involutive b), <- (rev_involutive b'). congruence.
Qed.

Theorem string_to_sign_inj ts m p b ts' m' p' b' :
  ~ In 10%N ts -> ~ In 10%N ts' -> ~ In 10%N m -> ~ In 10%N m' ->
  (forall x, Forall (fun y => (y < 256)%N) (sha256 x)) ->
  string_to_sign ts m p b = string_to_sign ts' m' p' b' ->
  ts = ts' /\ m = m' /\ p = p' /\ sha256 b = sha256 b'.
Proof.
  intros Hts Hts' Hm Hm' Hsha H. unfold Hmac.string_to_sign in H. simpl in H.
  apply split_at_nl in H; auto. destruct H as [E1 H].
  apply split_at_nl in H; auto. destruct H as [E2 H].
  apply split_at_last_nl in H; try apply hex_encode_no_nl. destruct H as [E3 H].
  apply hex_encode_inj in H; auto.
Qed.

(** parse_int accepts only sign + digits: no newline in an accepted timestamp text *)
Lemma digits_acc_no_nl s acc v : digits_acc acc s = Some v -> ~ In 10%N s.
Proof.
  revert acc. induction s as [|b tl IH]; intros acc H; simpl in *; [tauto|].
  unfold digit_val in H. destruct ((48 <=? b)%N && (b <=? 57)%N) eqn:D; [|discriminate].
  apply andb_true_iff in D. destruct D as [D1 D2]. apply N.leb_le in D1.
  intros [E|E]; [subst; lia | exact (IH _ H E)].
Qed.

Lemma parse_int_no_nl s v : parse_int s = Some v -> ~ In 10%N s.
Proof.
  unfold parse_int. destruct s as [|c tl]; [discriminate|].
  destruct ((c =? 43)%N || (c =? 45)%N) eqn:S.
  - destruct tl as [|d tl']; [discriminate|].
    destruct (digits_acc 0 (d :: tl')) eqn:D; [|discriminate]. intros _.
    apply digits_acc_no_nl in D. intros [E|E]; [|exact (D E)].
    subst c. simpl in S. discriminate.
  - destruct (digits_acc 0 (c :: tl)) eqn:D; [|discriminate]. intros _.
    apply digits_acc_no_nl in D. exact D.
Qed.

(** ** Tampering.  Two accepted requests presenting the same signature bytes: either their
    (timestamp text, method, path, SHA-256 of body) agree, or HMAC produced one tag for two
    different messages (possibly under two secrets).  Nothing the code skips. *)
Theorem tamper_needs_collision cfg c c' now now' r r' :
  hmac_configured cfg ->
  (forall x, Forall (fun y => (y < 256)%N) (sha256 x)) ->
  ~ In 10%N (q_method r) -> ~ In 10%N (q_method r') ->
  fst (verify cfg c now r) = true -> fst (verify cfg c' now' r') = true ->
  hex_decode (trim_space (header_get (h_sig cfg) (q_headers r))) =
  hex_decode (trim_space (header_get (h_sig cfg) (q_headers r'))) ->
  (trim_space (header_get (h_ts cfg) (q_headers r)) = trim_space (header_get (h_ts cfg) (q_headers r')) /\
   q_method r = q_method r' /\ q_path r = q_path r' /\ sha256 (q_body r) = sha256 (q_body r'))
  \/ exists k k' s s', k <> [] /\ k' <> [] /\ s <> s' /\ hmac k s = hmac k' s'.
Proof.
  intros Hc Hsha Hm Hm' V V' HS.
  apply verify_sound in V; auto. apply verify_sound in V'; auto.
  unfold hmac_valid in V, V'. cbn zeta in V, V'.
  destruct V as (_ & _ & _ & ts & PI & _ & got & k & HD & _ & _ & Hk & He).
  destruct V' as (_ & _ & _ & ts' & PI' & _ & got' & k' & HD' & _ & _ & Hk' & He').
  rewrite HD, HD' in HS. injection HS as HS.
  set (s := string_to_sign _ (q_method r) _ _) in He.
  set (s' := string_to_sign _ (q_method r') _ _) in He'.
  destruct (bytes_eq_dec s s') as [E|NE].
  - left. unfold s, s' in E. apply string_to_sign_inj in E; auto; eapply parse_int_no_nl; eauto.
  - right. exists k, k', s, s'. repeat split; auto. congruence.
Qed.

End Crypto.
