(** Lemmas about Model/HeaderValidate.v (C15): ValidateMap accepts exactly the maps whose
    names are non-empty token strings and whose values carry no control bytes. *)
From Coq Require Import List NArith Bool Lia.
From HK Require Import Model.Headers Model.HeaderValidate Proofs.HeadersProofs.
Import ListNotations.
Open Scope N_scope.

Definition head_not_token (p : bytes) : bool :=
  match p with d :: _ => negb (is_token d) | [] => false end.

Lemma space_seqs_heads : forallb head_not_token space_seqs = true.
Proof. vm_compute. reflexivity. Qed.

Lemma space_seqs_rev_heads : forallb head_not_token (map (@rev N) space_seqs) = true.
Proof. vm_compute. reflexivity. Qed.

Lemma strip_any_token_head : forall ps c tl,
  forallb head_not_token ps = true -> is_token c = true -> strip_any ps (c :: tl) = None.
Proof.
  induction ps as [|p ps IH]; intros c tl H Hc; simpl in *; auto.
  apply andb_true_iff in H. destruct H as [H1 H2].
  destruct p as [|d r]; simpl in H1; try discriminate.
  simpl. destruct (N.eqb_spec d c).
  - subst. rewrite Hc in H1. discriminate.
  - apply IH; auto.
Qed.

Lemma ltrim_with_token_head : forall ps fuel c tl,
  forallb head_not_token ps = true -> is_token c = true -> ltrim_with ps fuel (c :: tl) = c :: tl.
Proof.
  intros ps [|f] c tl H Hc; simpl; auto.
  rewrite strip_any_token_head; auto.
Qed.

Lemma ltrim_with_nil : forall ps fuel, forallb head_not_token ps = true -> ltrim_with ps fuel [] = [].
Proof.
  intros ps [|f] H; simpl; auto.
  assert (strip_any ps [] = None) as ->; auto.
  induction ps as [|p ps IH]; simpl in *; auto.
  apply andb_true_iff in H. destruct H as [H1 H2]. destruct p; simpl in *; try discriminate. auto.
Qed.

Lemma trim_space_tokens : forall s, forallb is_token s = true -> trim_space s = s.
Proof.
  intros s H. unfold trim_space, ltrim, rtrim.
  destruct s as [|c tl].
  - reflexivity.
  - simpl in H. apply andb_true_iff in H. destruct H as [Hc Ht].
    rewrite ltrim_with_token_head by (auto using space_seqs_heads).
    remember (rev (c :: tl)) as r eqn:Er.
    assert (Hall : forallb is_token r = true).
    { subst r. apply forallb_forall. intros x Hx. apply in_rev in Hx.
      assert (forallb is_token (c :: tl) = true) by (simpl; rewrite Hc, Ht; reflexivity).
      rewrite forallb_forall in H. auto. }
    destruct r as [|d r'].
    + rewrite ltrim_with_nil by apply space_seqs_rev_heads. simpl.
      apply (f_equal (@rev N)) in Er. rewrite rev_involutive in Er. simpl in Er. auto.
    + simpl in Hall. apply andb_true_iff in Hall. destruct Hall as [Hd _].
      rewrite ltrim_with_token_head by (auto using space_seqs_rev_heads).
      rewrite Er. apply rev_involutive.
Qed.

Theorem validate_entry_spec : forall e, validate_entry e = entry_ok e.
Proof.
  intros [raw v]. unfold validate_entry, entry_ok. simpl.
  destruct (valid_field_name raw) eqn:Hv.
  - unfold valid_field_name in Hv. apply andb_true_iff in Hv. destruct Hv as [Hn Ht].
    unfold is_token_byte in Ht.
    rewrite (trim_space_tokens raw Ht). apply negb_true_iff in Hn. rewrite Hn. rewrite beq_refl. simpl.
    unfold valid_field_name. rewrite Hn. simpl. unfold is_token_byte. rewrite Ht. reflexivity.
  - simpl. destruct (is_nil (trim_space raw)); auto.
    destruct (beq raw (trim_space raw)) eqn:E; auto. simpl.
    apply beq_eq in E. rewrite <- E. rewrite Hv. reflexivity.
Qed.

Theorem validate_map_spec : forall m, validate_map m = forallb entry_ok m.
Proof.
  induction m; simpl; auto. rewrite validate_entry_spec. f_equal. auto.
Qed.

Example validate_ok : validate_map [([88; 45; 65], [118; 9; 32; 200])] = true.
Proof. vm_compute. reflexivity. Qed.
Example validate_bad_name : validate_map [([88; 32; 65], [118])] = false.
Proof. vm_compute. reflexivity. Qed.
Example validate_bad_value : validate_map [([88], [118; 10])] = false.
Proof. vm_compute. reflexivity. Qed.
Example validate_padded_name : validate_map [([32; 88], [118])] = false.
Proof. vm_compute. reflexivity. Qed.
