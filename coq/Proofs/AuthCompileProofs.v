From Coq Require Import ZArith List Bool NArith Lia.
From HK Require Import Model.NonceCache Model.AuthCompile Proofs.NonceCacheProofs.
Import ListNotations.
Open Scope Z_scope.

Lemma secrets_ok_nonempty known seen l :
  secrets_ok known seen l = true -> forall s k, In (s, k) l -> s <> [].
Proof.
  revert seen. induction l as [|[s0 k0] tl IH]; intros seen H s k Hin; [destruct Hin|].
  simpl in H. destruct s0 as [|b0 s0']; [discriminate|].
  destruct Hin as [E|Hin].
  - inversion E; subst. discriminate.
  - destruct k0.
    + apply andb_true_iff in H. destruct H as [_ H]. eapply IH; eauto.
    + apply andb_true_iff in H. destruct H as [_ H]. eapply IH; eauto.
Qed.

Lemma existsb_beqb_In u l : existsb (beqb u) l = true <-> In u l.
Proof.
  induction l as [|x tl IH]; simpl; [split; [discriminate | tauto]|].
  rewrite orb_true_iff, IH, beqb_eq. split; intros [H|H]; auto.
Qed.

Lemma basic_ok_spec seen l :
  basic_ok seen l = true ->
  (forall u p, In (u, p) l -> u <> [] /\ p <> []) /\ NoDup (map fst l) /\
  (forall u, In u (map fst l) -> ~ In u seen).
Proof.
  revert seen. induction l as [|[u0 p0] tl IH]; intros seen H.
  - split; [intros ? ? []|]. split; [constructor | intros ? []].
  - simpl in H. destruct u0 as [|a u0']; [discriminate|]. destruct p0 as [|b p0']; [discriminate|].
    apply andb_true_iff in H. destruct H as [H1 H2]. apply negb_true_iff in H1.
    destruct (IH _ H2) as (I1 & I2 & I3). split; [|split].
    + intros u p [E|Hin]; [inversion E; subst; split; discriminate | eapply I1; eauto].
    + simpl. constructor; [|exact I2]. intros Hin. apply (I3 _ Hin). left. reflexivity.
    + intros u [E|Hin] Hs.
      * simpl in E. subst u. apply existsb_beqb_In in Hs. congruence.
      * apply (I3 _ Hin). right. exact Hs.
Qed.

Lemma is_nil_true {A} (l : list A) : is_nil l = true <-> l = [].
Proof. destruct l; simpl; split; congruence. Qed.

Lemma defaults_distinct :
  fold_eq default_sig default_ts = false /\ fold_eq default_sig default_nonce = false /\
  fold_eq default_ts default_nonce = false.
Proof. repeat split; reflexivity. Qed.

Theorem compile_auth_rules known ra :
  compile_auth known ra = true ->
  (forall s k, In (s, k) (ra_secrets ra) -> s <> []) /\
  (let sg := effective (ra_sig ra) default_sig in
   let ts := effective (ra_ts ra) default_ts in
   let nn := effective (ra_nonce ra) default_nonce in
   fold_eq sg ts = false /\ fold_eq sg nn = false /\ fold_eq ts nn = false) /\
  (forall d, ra_tol ra = Some d -> exists v, d = Some v /\ 0 < v) /\
  (ra_basic ra <> [] -> ra_secrets ra = [] /\ has_hmac_options ra = false) /\
  (ra_forward ra = true -> ra_basic ra = [] /\ ra_secrets ra = [] /\ has_hmac_options ra = false) /\
  (forall u p, In (u, p) (ra_basic ra) -> u <> [] /\ p <> []) /\
  NoDup (map fst (ra_basic ra)).
Proof.
  unfold compile_auth. intros H.
  apply andb_true_iff in H. destruct H as [H Cfwd].
  apply andb_true_iff in H. destruct H as [H Cmix].
  apply andb_true_iff in H. destruct H as [H Cbasic].
  apply andb_true_iff in H. destruct H as [H Cdist].
  apply andb_true_iff in H. destruct H as [H Copts].
  apply andb_true_iff in H. destruct H as [H Ctol].
  apply andb_true_iff in H. destruct H as [H Cn].
  apply andb_true_iff in H. destruct H as [H Ct].
  apply andb_true_iff in H. destruct H as [Csec Cs].
  pose proof (secrets_ok_nonempty _ _ _ Csec) as S.
  destruct (basic_ok_spec _ _ Cbasic) as (B1 & B2 & _).
  split; [exact S|]. split.
  { cbn zeta. apply orb_true_iff in Cdist. destruct Cdist as [N|D].
    - apply is_nil_true in N. rewrite N in Copts. simpl in Copts. rewrite andb_true_r in Copts.
      apply negb_true_iff in Copts. unfold has_hmac_options in Copts.
      destruct (ra_sig ra), (ra_ts ra), (ra_nonce ra), (ra_tol ra); try discriminate.
      exact defaults_distinct.
    - cbn zeta in D. apply andb_true_iff in D. destruct D as [D D3].
      apply andb_true_iff in D. destruct D as [D1 D2].
      repeat split; apply negb_true_iff; assumption. }
  split.
  { intros d E. rewrite E in Ctol. simpl in Ctol. destruct d as [v|]; [|discriminate].
    exists v. split; [reflexivity | apply Z.ltb_lt; exact Ctol]. }
  split.
  { intros NB. apply negb_true_iff in Cmix. apply andb_false_iff in Cmix. destruct Cmix as [X|X].
    - apply negb_false_iff in X. apply is_nil_true in X. congruence.
    - apply orb_false_iff in X. destruct X as [X1 X2]. apply negb_false_iff in X1. apply is_nil_true in X1. auto. }
  split.
  { intros F. rewrite F in Cfwd. simpl in Cfwd. apply negb_true_iff in Cfwd.
    apply orb_false_iff in Cfwd. destruct Cfwd as [X X3]. apply orb_false_iff in X. destruct X as [X1 X2].
    apply negb_false_iff in X1, X2. apply is_nil_true in X1, X2. auto. }
  split; [exact B1 | exact B2].
Qed.

(** non-vacuity: a route with a secret_ref, custom header names and a tolerance compiles *)
Example compile_auth_example :
  compile_auth [[83;49]%N]
    {| ra_secrets := [([83;49]%N, KRef); ([114;97;119;58;107]%N, KInline true)];
       ra_sig := Some [88;45;83;105;103]%N; ra_ts := None; ra_nonce := Some [88;45;78]%N;
       ra_tol := Some (Some 1000); ra_basic := []; ra_forward := false |} = true.
Proof. reflexivity. Qed.
