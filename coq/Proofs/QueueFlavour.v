(** C13 - where the two backend flavours of the model can differ at all. *)
From Coq Require Import List ZArith NArith Bool Lia.
From HK Require Import Gen.Consts Model.Queue Model.QueueHash Model.QueueMon
  Proofs.QueueBase Proofs.QueueInv Proofs.QueueInvStep Proofs.QueueStep.
Import ListNotations.
Open Scope Z_scope.

(** what a Store call can observe of a state *)
Definition same_obs (a b : state) : Prop :=
  msgs a = msgs b /\ issued a = issued b /\ last_prune a = last_prune b.

Lemma same_obs_refl s : same_obs s s.
Proof. repeat split. Qed.

Lemma prune_same_obs c now hint a b : same_obs a b -> same_obs (prune c now hint a) (prune c now hint b).
Proof.
  intros [A [B Cc]]. unfold prune. rewrite A, Cc. destruct (prune_due c now (last_prune b)); simpl; repeat split; auto.
Qed.

(** operations that are written once for both backends: the model has no flavour split there *)
Definition flavour_free (x : op) : bool :=
  match x with
  | LeaseOp _ _ _ | LeaseBatch _ _ _ | Manage _ _ _ | ManageF _ _ _ | ListMessages _ _ _ | ListDead _ _ _ _
  | Lookup _ _ | Stats _ => true
  | _ => false
  end.

Theorem flavour_free_agree c x o sm ss :
  flavour_free x = true -> same_obs sm ss ->
  snd (step Mem c sm x o) = snd (step Sql c ss x o)
  /\ same_obs (fst (step Mem c sm x o)) (fst (step Sql c ss x o)).
Proof.
  intros Hf [A [B Cc]]. destruct x; simpl in Hf; try discriminate; cbn [step].
  - unfold step_lease. destruct (is_noop_extend k); [split; [reflexivity | repeat split; auto]|].
    destruct l; try (split; [reflexivity | repeat split; auto]). rewrite A.
    destruct (lease_one c now k l (msgs ss)) as [l' [|[|]]]; (split; [reflexivity | repeat split; auto]).
  - destruct (batch_kind_ok k); [|split; [reflexivity | repeat split; auto]]. unfold step_lease_batch. rewrite A.
    destruct (lease_batch c now _ ls (msgs ss)) as [[ms' n] cs]. split; [reflexivity | repeat split; auto].
  - unfold step_manage. rewrite A. split; [reflexivity | repeat split; auto].
  - destruct k; try (split; [reflexivity | repeat split; auto]); unfold step_manage_f; rewrite A;
      destruct (f_preview f); (split; [reflexivity | repeat split; auto]).
  - unfold step_list. pose proof (prune_same_obs c now (o_gone o) sm ss (conj A (conj B Cc))) as [P1 [P2 P3]].
    destruct ord; simpl; rewrite ?P1; (split; [reflexivity | repeat split; auto]).
  - unfold step_list_dead. pose proof (prune_same_obs c now (o_gone o) sm ss (conj A (conj B Cc))) as [P1 [P2 P3]].
    simpl. rewrite P1. split; [reflexivity | repeat split; auto].
  - unfold step_lookup. rewrite A. split; [reflexivity | repeat split; auto].
  - unfold step_stats. pose proof (prune_same_obs c now (o_gone o) sm ss (conj A (conj B Cc))) as [P1 [P2 P3]].
    simpl. rewrite P1. split; [reflexivity | repeat split; auto].
Qed.

(** dequeue: the flavours agree whenever the SQLite call sweeps (always on the memory backend);
    otherwise SQLite may defer the release of leases that expired within the last sweep interval (C05) *)
Theorem dequeue_agree c now route target batch ttl o sm ss :
  same_obs sm ss -> sql_sweep_due now (last_sweep ss) = true ->
  snd (step_dequeue Mem c now route target batch ttl o sm) = snd (step_dequeue Sql c now route target batch ttl o ss)
  /\ same_obs (fst (step_dequeue Mem c now route target batch ttl o sm)) (fst (step_dequeue Sql c now route target batch ttl o ss)).
Proof.
  intros S Due. rewrite !step_dequeue_eq. cbv zeta.
  assert (P : same_obs (deq_pre Mem c now o sm) (deq_pre Sql c now o ss)).
  { unfold deq_pre. pose proof (prune_same_obs c now (o_gone o) sm ss S) as [P1 [P2 P3]].
    rewrite prune_last_sweep, Due. simpl. rewrite P1. repeat split; auto. }
  destruct P as [P1 [P2 P3]]. rewrite P1, P2.
  destruct (valid_pick now route target (clamp_batch batch) (msgs (deq_pre Sql c now o ss)) (issued (deq_pre Sql c now o ss)) (o_picked o));
    cbn [fst snd].
  - split; [reflexivity|]. unfold same_obs. cbn [msgs issued last_prune]. repeat split; auto.
  - split; [reflexivity|]. repeat split; auto.
Qed.

(** enqueue: with no depth limit the two flavours agree (explicit memory-pressure limit off);
    with a limit under the reject policy they agree as long as the memory-only rules
    (memory pressure, delivered-retention depth term) do not fire *)
Definition mem_rules_off (c : cfg) (l : list msg) : Prop :=
  pressure c l = false /\ (c_deliv_age c <= 0 \/ c_max_depth c <= 0).

Theorem enqueue_agree_reject c now single es o sm ss :
  (single = true -> length es = 1%nat) ->
  same_obs sm ss -> c_drop_oldest c = false \/ c_max_depth c <= 0 ->
  mem_rules_off c (msgs (prune c now (o_gone o) ss)) ->
  snd (step_enqueue Mem c now single es o sm) = snd (step_enqueue Sql c now single es o ss)
  /\ msgs (fst (step_enqueue Mem c now single es o sm)) = msgs (fst (step_enqueue Sql c now single es o ss))
  /\ issued (fst (step_enqueue Mem c now single es o sm)) = issued (fst (step_enqueue Sql c now single es o ss))
  /\ last_prune (fst (step_enqueue Mem c now single es o sm)) = last_prune (fst (step_enqueue Sql c now single es o ss)).
Proof.
  intros Hs S Hpol [Hpress Hdel]. unfold step_enqueue.
  destruct es as [|e0 es0]; [destruct S as [A [B Cc]]; repeat split; auto|]. set (es := e0 :: es0) in *.
  destruct (assign_ids es (o_genids o)) as [ies|] eqn:EA; [|destruct S as [A [B Cc]]; repeat split; auto].
  pose proof (prune_same_obs c now (o_gone o) sm ss S) as [P1 [P2 P3]].
  set (s1m := prune c now (o_gone o) sm) in *. set (s1s := prune c now (o_gone o) ss) in *.
  rewrite P1. set (l1 := msgs s1s) in *.
  assert (Hlen : length ies = length es) by (apply (assign_ids_length _ _ _ EA)).
  (* the memory plan: no victims, or full *)
  assert (Plan : mem_plan c (Z.of_nat (length ies)) s1m l1 =
                 if (0 <? c_max_depth c) && (c_max_depth c <? active l1 + Z.of_nat (length ies)) then None else Some []).
  { unfold mem_plan. destruct (c_max_depth c <=? 0) eqn:Ed.
    - apply Z.leb_le in Ed. assert (E0 : (0 <? c_max_depth c) = false) by (apply Z.ltb_ge; lia). rewrite E0. reflexivity.
    - apply Z.leb_gt in Ed. assert (E0 : (0 <? c_max_depth c) = true) by (apply Z.ltb_lt; lia). rewrite E0. simpl.
      unfold mem_full. assert (Ed0 : (0 <? c_deliv_age c) = false) by (destruct Hdel; [apply Z.ltb_ge; lia | lia]).
      rewrite Ed0. simpl. rewrite orb_false_r.
      destruct (c_max_depth c <? active l1 + Z.of_nat (length ies)); simpl; [|reflexivity].
      destruct Hpol as [Hp | Hp]; [rewrite Hp; reflexivity | lia]. }
  rewrite Plan. fold l1 in Hpress.
  (* the SQLite room computation under the same conditions *)
  match goal with |- context [match ?rm with Some l2 => _ | None => (s1s, RErr EFull) end] => set (room := rm) end.
  assert (Room : room = if (0 <? c_max_depth c) && (c_max_depth c <? active l1 + Z.of_nat (length ies)) then None else Some l1).
  { unfold room. destruct (0 <? c_max_depth c) eqn:E0; simpl; [|reflexivity]. apply Z.ltb_lt in E0.
    assert (Hp : c_drop_oldest c = false) by (destruct Hpol; [assumption | lia]). rewrite Hp.
    destruct (c_max_depth c <? active l1 + Z.of_nat (length ies)); reflexivity. }
  rewrite Room.
  destruct ((0 <? c_max_depth c) && (c_max_depth c <? active l1 + Z.of_nat (length ies))).
  - simpl. repeat split; auto.
  - rewrite Hpress, remove_nil.
    assert (Fresh : forallb (fun i => negb (has_id i l1) || memN i []) (map fst ies) = forallb (fun i => negb (has_id i l1)) (map fst ies)).
    { induction (map fst ies) as [|i tl IHl]; [reflexivity|]. cbn [forallb]. rewrite IHl. unfold memN. cbn [existsb]. rewrite orb_false_r. reflexivity. } rewrite Fresh.
    destruct single.
    + specialize (Hs eq_refl). rewrite Hs in Hlen.
      assert (NDs : nodupN (map fst ies) = true).
      { destruct ies as [|p1 [|p2 r]]; simpl in Hlen; try discriminate. reflexivity. }
      rewrite NDs. simpl andb.
      destruct (forallb (fun i => negb (has_id i l1)) (map fst ies)); simpl; repeat split; auto.
    + destruct (nodupN (map fst ies) && forallb (fun i => negb (has_id i l1)) (map fst ies)); simpl; repeat split; auto.
Qed.
