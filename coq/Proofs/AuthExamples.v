(** Non-vacuity: concrete requests meeting the hypotheses of the C08/C09 theorems, evaluated with the
    Gallina SHA-256/HMAC instance (signature computed by Python's hmac over
    "1700000000\nPOST\n/hooks\n" ++ hex(sha256 body) with key "k1"). *)
From Coq Require Import ZArith List Bool NArith.
From HK Require Import Model.NonceCache Model.Hmac Model.Sha256 Model.BasicAuth Model.Ingress Model.AuthEval
  Proofs.HmacProofs Proofs.IngressProofs.
Import ListNotations.
Open Scope Z_scope.

Definition b0 : list N := [88;45;83;105;103;110;97;116;117;114;101]%N.
Definition b1 : list N := [88;45;84;105;109;101;115;116;97;109;112]%N.
Definition b2 : list N := [88;45;78;111;110;99;101]%N.
Definition b3 : list N := [111;108;100]%N.
Definition b4 : list N := [80;79;83;84]%N.
Definition b5 : list N := [47;104;111;111;107;115]%N.
Definition b6 : list N := [32;49;66;56;48;69;49;68;70;67;48;51;48;48;69;52;57;65;51;49;66;54;55;48;50;52;56;69;70;65;56;49;53;54;65;55;49;48;52;51;51;50;51;50;69;57;48;69;65;48;48;67;66;66;68;51;66;68;66;50;70;51;67;69;56;32]%N.
Definition b7 : list N := [49;55;48;48;48;48;48;48;48;48]%N.
Definition b8 : list N := [110;45;49]%N.
Definition b9 : list N := [123;34;97;34;58;49;125]%N.
Definition b10 : list N := [49;98;56;48;101;49;100;102;99;48;51;48;48;101;52;57;97;51;49;98;54;55;48;50;52;56;101;102;97;56;49;53;54;97;55;49;48;52;51;51;50;51;50;101;57;48;101;97;48;48;99;98;98;100;51;98;100;98;50;102;51;99;101;56]%N.
Definition b11 : list N := [110;45;50]%N.
Definition b12 : list N := [123;34;97;34;58;49;125;120]%N.
Definition b13 : list N := [65;117;116;104;111;114;105;122;97;116;105;111;110]%N.
Definition b14 : list N := [66;97;115;105;99;32;89;109;57;105;79;110;66;104;79;110;78;122]%N.

Definition ex_cfg : hmac_cfg := {| h_sig := b0; h_ts := b1; h_nonce := b2; h_tol := (300000000000)%Z; h_static := [[107;49]%N]; h_versions := [{| v_value := b3; v_from := (0)%Z; v_until := (Some (5)%Z) |}] |}.
Definition ex_req : hreq := {| q_method := b4; q_path := b5; q_headers := [(b0, [b6]); (b1, [b7]); (b2, [b8])]; q_body := b9 |}.        (* signature upper-case and padded: still valid *)
Definition ex_tampered : hreq := {| q_method := b4; q_path := b5; q_headers := [(b0, [b10]); (b1, [b7]); (b2, [b11])]; q_body := b12 |}.   (* one byte appended to the body after signing *)
Definition ex_basic : hreq := {| q_method := b4; q_path := [47;98]%N; q_headers := [(b13, [b14])]; q_body := (@nil N) |}.
Definition ex_rc : route_cfg :=
  {| rc_basic := []; rc_forward := false; rc_hmac := Some ex_cfg; rc_targets := [[97]%N; [98]%N]; rc_max_body := 1000 |}.
Definition ex_or (enq : list bool) : oracle :=
  {| o_rate_ok := true; o_backpressure := None; o_body_err := false; o_fwd := FOther; o_hdr_fit := true; o_enq := enq |}.

Example ex_configured : hmac_configured ex_cfg.
Proof. reflexivity. Qed.

(** accepted at both window edges, refused one nanosecond outside, refused when replayed *)
Example ex_verify_accepts :
  fst (verify_c ex_cfg [] (1700000000 * sec) ex_req) = true /\
  fst (verify_c ex_cfg [] (1700000000 * sec + 300 * sec) ex_req) = true /\
  fst (verify_c ex_cfg [] (1700000000 * sec - 300 * sec) ex_req) = true /\
  fst (verify_c ex_cfg [] (1700000000 * sec + 300 * sec + 1) ex_req) = false /\
  fst (verify_c ex_cfg [] (1700000000 * sec - 300 * sec - 1) ex_req) = false /\
  fst (verify_c ex_cfg (snd (verify_c ex_cfg [] (1700000000 * sec) ex_req)) (1700000000 * sec + 300 * sec) ex_req) = false /\
  fst (verify_c ex_cfg [] (1700000000 * sec) ex_tampered) = false.
Proof. vm_compute. repeat split. Qed.

(** the handler: 202 + both targets; store refuses the second target: 503 + the documented prefix;
    tampered body: 401 and nothing enqueued *)
Example ex_serve :
  fst (serve_c (RRoute ex_rc) [] (1700000000 * sec) ex_req (ex_or [])) = (202, [[97]%N; [98]%N]) /\
  fst (serve_c (RRoute ex_rc) [] (1700000000 * sec) ex_req (ex_or [true; false])) = (503, [[97]%N]) /\
  fst (serve_c (RRoute ex_rc) [] (1700000000 * sec) ex_tampered (ex_or [])) = (401, []).
Proof. vm_compute. repeat split. Qed.

Example ex_basic_valid :
  basic_valid [([97;108;105;99;101]%N, [115;51;99;114;101;116]%N); ([98;111;98]%N, [112;97;58;115;115]%N)] (q_headers ex_basic).
Proof. exists [98;111;98]%N, [112;97;58;115;115]%N. vm_compute. split; reflexivity. Qed.
