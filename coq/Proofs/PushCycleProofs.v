(** One enqueue/requeue cycle of one message, on the queue model.
    Model/Dispatcher.v's [cycle] ASSUMES "every dequeue increments the attempt by one" and "a nack
    re-queues the message for the next dequeue, an ack / mark-dead ends the cycle".  Here those
    assumptions are discharged from Model/Queue.v: a cycle is a chain of rounds, each round a
    Dequeue that returns the message followed by the settlement the dispatcher chooses for the
    answer it got, applied before the lease runs out; nothing else touches the store in between
    (the property's "lease mutations on the store succeed"). *)
From Coq Require Import List ZArith NArith Bool Lia QArith.
From HK Require Import Gen.Consts Model.Queue Model.QueueHash Model.QueueMon Model.Retry Model.Dispatcher Model.PushLoop
  Proofs.QueueBase Proofs.QueueInv Proofs.QueueInvStep Proofs.QueueStep Proofs.QueueLease Proofs.PushLoopProofs Proofs.DispatcherProofs.
Import ListNotations.
Open Scope Z_scope.

(** what the target answers in one round, and the jitter draw of that round *)
Record answer := mkAnswer { an_result : result; an_draw : Q }.

Definition round_item (rc : retry_cfg) (l : N) (att : Z) (a : answer) : item :=
  mkItem l att (Some rc) (an_result a) (an_draw a).

(** one round on message [i]: a dequeue that hands [i] out (whatever else it returns), then the
    settlement of [i] inside the lease *)
Inductive round (fl : flavour) (c : cfg) (rc : retry_cfg) (i : N) (a : answer)
  : state -> Z -> action -> state -> Prop :=
| round_intro s now route target batch ttl o s1 items l att un ts o2 s2 r :
    step fl c s (Dequeue now route target batch ttl) o = (s1, RItems items) ->
    In (i, l, att, un) items ->
    ts < un ->
    step fl c s1 (LeaseOp ts (settle_kind rc (round_item rc l att a)) (LKnown l false)) o2 = (s2, r) ->
    round fl c rc i a s att (classify (an_result a) att (rc_max rc)) s2.

(** a cycle: rounds chained while the answer is a retry *)
Inductive cycle_on_queue (fl : flavour) (c : cfg) (rc : retry_cfg) (i : N)
  : state -> list answer -> list Z -> state -> terminal -> Prop :=
| cq_ack s a att s2 : round fl c rc i a s att AAck s2 -> cycle_on_queue fl c rc i s [a] [att] s2 TDelivered
| cq_dead s a att why s2 : round fl c rc i a s att (ADead why) s2 -> cycle_on_queue fl c rc i s [a] [att] s2 (TDead why)
| cq_retry s a att s2 more atts s3 t :
    round fl c rc i a s att ANack s2 -> cycle_on_queue fl c rc i s2 more atts s3 t ->
    cycle_on_queue fl c rc i s (a :: more) (att :: atts) s3 t.

Definition state_of (i : N) (s : state) : option msg := find_id i (msgs s).

(** ** one round *)
Lemma round_effect fl c rc i a s att act s2 m :
  Inv s -> round fl c rc i a s att act s2 -> state_of i s = Some m ->
  Inv s2 /\ is_active (m_st m) = true /\ att = m_attempt m + 1 /\
  match act with
  | AAck => (c_deliv_age c <= 0 -> state_of i s2 = None)
            /\ (forall m2, state_of i s2 = Some m2 -> m_st m2 = Delivered /\ m_attempt m2 = att /\ m_lease m2 = None)
  | ANack => exists m2, state_of i s2 = Some m2 /\ m_st m2 = Queued /\ m_attempt m2 = att /\ m_lease m2 = None
  | ADead why => exists m2, state_of i s2 = Some m2 /\ m_st m2 = Dead /\ m_reason m2 = reason_code why /\ m_attempt m2 = att
  end.
Proof.
  intros I R Hm. destruct R as [s now route target batch ttl o s1 items l att un ts o2 s2 r Hd Hin Hts Hl].
  cbn [step] in Hd.
  destruct (dequeue_sound fl c now route target batch ttl o s s1 items I Hd) as [_ [_ [_ Hitem]]].
  destruct (Hitem i l att un Hin) as [m0 [F0 [R0 [F1 [Eatt [Eun [Hnow _]]]]]]].
  assert (I1 : Inv s1).
  { pose proof (step_inv fl c s (Dequeue now route target batch ttl) o I) as H. cbn [step] in H. rewrite Hd in H. exact H. }
  set (lv := leased_version now (eff_ttl ttl) l m0) in *.
  apply find_id_Some in F1. destruct F1 as [Hlv Hid].
  assert (Llv : m_lease lv = Some l) by reflexivity.
  assert (Ilv : is_leased lv = true) by reflexivity.
  assert (Ulv : ts < m_until lv) by (unfold lv, leased_version, upd; simpl; lia).
  set (k := settle_kind rc (round_item rc l att a)) in *.
  assert (Hk : kclass k <> 3%nat) by apply settle_kind_class.
  cbn [step] in Hl. unfold step_lease in Hl.
  assert (Hn : is_noop_extend k = false) by (destruct k; try reflexivity; exfalso; apply Hk; reflexivity).
  rewrite Hn in Hl.
  rewrite (lease_one_live c ts k l (msgs s1) (issued s1) lv I1 Hlv Llv Ilv Ulv) in Hl.
  inversion Hl; subst s2 r. clear Hl.
  assert (I2 : Inv (set_msgs s1 (apply_pm (pm_on_id (m_id lv) (lease_effect c ts k)) (msgs s1)))).
  { pose proof (step_inv fl c s1 (LeaseOp ts k (LKnown l false)) o2 I1) as H. cbn [step] in H. unfold step_lease in H.
    rewrite Hn in H. rewrite (lease_one_live c ts k l (msgs s1) (issued s1) lv I1 Hlv Llv Ilv Ulv) in H. exact H. }
  split; [exact I2|].
  (* the message before the round is the one the dequeue selected from, possibly after a release of its expired lease *)
  assert (Hm0 : m_id m0 = i /\ m_attempt m0 = m_attempt m /\ is_active (m_st m) = true).
  { unfold state_of in Hm.
    pose proof (deq_pre_msgs fl c now o s) as Epre.
    assert (Pid : id_pres (deq_pre_pm fl c now o s)).
    { unfold deq_pre_pm. apply imm_pres_id_pres. apply pm_comp_imm; [apply prune_pm_imm|].
      destruct (match fl with Mem => true | Sql => sql_sweep_due now (last_sweep s) end); [apply pm_sweep_imm | apply pm_some_imm]. }
    rewrite Epre in F0. rewrite (find_id_apply_pm _ _ _ Pid (inv_nodup _ _ I)) in F0.
    rewrite Hm in F0. pose proof Hm as Hm'. apply find_id_Some in Hm'. destruct Hm' as [Hmin Hmid].
    destruct (deq_pre_cases fl c now o s m (inv_nodup _ _ I) Hmin) as [[H _] | [H | [H2 H1]]].
    + rewrite H in F0. discriminate.
    + rewrite H in F0. inversion F0; subst m0.
      split; [exact Hmid|]. split; [reflexivity|].
      unfold ready in R0. apply andb_true_iff in R0. destruct R0 as [R0 _]. apply andb_true_iff in R0. destruct R0 as [R0 _].
      apply andb_true_iff in R0. destruct R0 as [R0 _]. unfold queuedb in R0. destruct (m_st m); try discriminate; reflexivity.
    + rewrite H2 in F0. inversion F0; subst m0.
      split; [exact Hmid|]. split; [reflexivity|].
      unfold expired, is_leased in H1. apply andb_true_iff in H1. destruct H1 as [H1 _]. destruct (m_st m); try discriminate; reflexivity. }
  destruct Hm0 as [Hi0 [Ea0 Hact]]. split; [exact Hact|]. split; [lia|].
  assert (Hfind : state_of i (set_msgs s1 (apply_pm (pm_on_id (m_id lv) (lease_effect c ts k)) (msgs s1))) = lease_effect c ts k lv).
  { unfold state_of. rewrite set_msgs_msgs. rewrite find_id_apply_pm.
    - rewrite <- Hid. rewrite (find_id_In_NoDup _ _ (inv_nodup _ _ I1) Hlv). unfold pm_on_id. rewrite N.eqb_refl. reflexivity.
    - apply imm_pres_id_pres. apply pm_on_id_imm, lease_effect_imm.
    - apply (inv_nodup _ _ I1). }
  assert (Alv : m_attempt lv = att) by (unfold lv, leased_version, upd; simpl; lia).
  change (m_id lv) with (m_id m0) in Hfind.
  revert Hfind. generalize (set_msgs s1 (apply_pm (pm_on_id (m_id m0) (lease_effect c ts k)) (msgs s1))). intros sf Hfind.
  unfold k, settle_kind, round_item in Hfind. cbn [it_result it_attempt it_draw it_lease] in Hfind.
  destruct (classify (an_result a) att (rc_max rc)) as [| |why]; rewrite Hfind; cbn [lease_effect].
  - split.
    + intros Hd0. destruct (0 <? c_deliv_age c) eqn:E; [apply Z.ltb_lt in E; lia | reflexivity].
    + intros m2 E. destruct (0 <? c_deliv_age c); [|discriminate]. inversion E; subst m2. cbn. repeat split; try reflexivity. exact Alv.
  - eexists. split; [reflexivity|]. cbn. repeat split; try reflexivity. exact Alv.
  - eexists. split; [reflexivity|]. cbn. repeat split; try reflexivity. exact Alv.
Qed.

(** ** the chain of rounds is Model/Dispatcher.v's [cycle] *)
Definition dflt_answer : answer := mkAnswer (RStatus 200) 0.
Definition beh_of (l : list answer) (k : nat) : result := an_result (nth k l dflt_answer).
Definition draw_of (l : list answer) (k : nat) : Q := an_draw (nth k l dflt_answer).

Lemma cycle_ext fuel rc att beh beh' draw draw' k :
  (forall j, beh j = beh' j) -> (forall j, draw j = draw' j) ->
  cycle fuel rc att beh draw k = cycle fuel rc att beh' draw' k.
Proof.
  intros Hb Hd. revert att k. induction fuel as [|f IH]; intros att k; [reflexivity|].
  cbn [cycle]. rewrite <- Hb, <- Hd. destruct (classify (beh k) att (rc_max rc)); try reflexivity. rewrite IH. reflexivity.
Qed.

Lemma cycle_shift fuel rc att beh draw k :
  cycle fuel rc att beh draw (S k) = cycle fuel rc att (fun j => beh (S j)) (fun j => draw (S j)) k.
Proof.
  revert att k. induction fuel as [|f IH]; intros att k; [reflexivity|].
  cbn [cycle]. destruct (classify (beh (S k)) att (rc_max rc)); try reflexivity. rewrite IH. reflexivity.
Qed.

Lemma cycle_cons_retry n rc att a more :
  classify (an_result a) att (rc_max rc) = ANack ->
  cycle (S n) rc att (beh_of (a :: more)) (draw_of (a :: more)) 0 =
  let '(l, t) := cycle n rc (att + 1) (beh_of more) (draw_of more) 0 in
  (attempt_records rc att (an_result a) (an_draw a) ++ l, t).
Proof.
  intros Hc. cbn [cycle]. unfold beh_of at 1 2, draw_of at 1. cbn [nth]. rewrite Hc.
  rewrite cycle_shift.
  rewrite (cycle_ext n rc (att + 1) (fun j => beh_of (a :: more) (S j)) (beh_of more) (fun j => draw_of (a :: more) (S j)) (draw_of more) 0);
    [reflexivity | intros j; reflexivity | intros j; reflexivity].
Qed.

Definition final_ok (c : cfg) (i : N) (s' : state) (t : terminal) (att : Z) : Prop :=
  match t with
  | TDelivered => (c_deliv_age c <= 0 -> state_of i s' = None)
                  /\ (forall m2, state_of i s' = Some m2 -> m_st m2 = Delivered /\ m_attempt m2 = att /\ m_lease m2 = None)
  | TDead why => exists m2, state_of i s' = Some m2 /\ m_st m2 = Dead /\ m_reason m2 = reason_code why /\ m_attempt m2 = att
  end.

Theorem cycle_on_queue_is_cycle fl c rc i s answers atts s' t :
  cycle_on_queue fl c rc i s answers atts s' t -> forall m,
  Inv s -> state_of i s = Some m ->
  let n := length answers in
  let tr := cycle n rc (m_attempt m + 1) (beh_of answers) (draw_of answers) 0 in
  Inv s'
  /\ atts = map (fun k => m_attempt m + 1 + Z.of_nat k) (seq 0 n)
  /\ snd tr = Some t /\ sends tr = Z.of_nat n
  /\ final_ok c i s' t (m_attempt m + Z.of_nat n).
Proof.
  intros H. induction H as [s a att s2 R | s a att why s2 R | s a att s2 more atts s3 t R C IH]; intros m I Hm; cbv zeta.
  - destruct (round_effect fl c rc i a s att AAck s2 m I R Hm) as [I2 [_ [Ea F]]].
    assert (Hc : classify (an_result a) att (rc_max rc) = AAck) by (inversion R; subst; congruence).
    subst att. cbn [length cycle seq map]. unfold beh_of, draw_of. cbn [nth]. rewrite Hc. cbn [snd fst].
    split; [exact I2|]. split; [f_equal; lia|]. split; [reflexivity|]. split; [reflexivity|].
    replace (m_attempt m + Z.of_nat 1) with (m_attempt m + 1) by lia. exact F.
  - destruct (round_effect fl c rc i a s att (ADead why) s2 m I R Hm) as [I2 [_ [Ea F]]].
    assert (Hc : classify (an_result a) att (rc_max rc) = ADead why) by (inversion R; subst; congruence).
    subst att. cbn [length cycle seq map]. unfold beh_of, draw_of. cbn [nth]. rewrite Hc. cbn [snd fst].
    split; [exact I2|]. split; [f_equal; lia|]. split; [reflexivity|]. split; [reflexivity|].
    replace (m_attempt m + Z.of_nat 1) with (m_attempt m + 1) by lia. exact F.
  - destruct (round_effect fl c rc i a s att ANack s2 m I R Hm) as [I2 [_ [Ea [m2 [F2 [_ [A2 _]]]]]]].
    assert (Hc : classify (an_result a) att (rc_max rc) = ANack) by (inversion R; subst; congruence).
    destruct (IH m2 I2 F2) as [I3 [Eatts [Et [Es Ff]]]]. clear IH.
    cbn [length]. rewrite (cycle_cons_retry (length more) rc (m_attempt m + 1) a more); [|rewrite <- Ea; exact Hc].
    rewrite A2, Ea in *.
    destruct (cycle (length more) rc (m_attempt m + 1 + 1) (beh_of more) (draw_of more) 0) as [l t0] eqn:Ecy.
    cbn [snd fst] in *. split; [exact I3|]. split.
    + cbn [seq map]. f_equal; [lia|]. rewrite Eatts. rewrite <- seq_shift, map_map. apply map_ext. intros k. lia.
    + split; [exact Et|]. split.
      * unfold sends in *. cbn [fst] in *. rewrite app_length. unfold attempt_records. cbn [length]. lia.
      * replace (m_attempt m + Z.of_nat (S (length more))) with (m_attempt m + 1 + Z.of_nat (length more)) by lia. exact Ff.
Qed.

(** the number of sends of a cycle that runs on the queue: at most retry.max + 1 - (attempts made before) *)
Corollary cycle_on_queue_sends_bounded fl c rc i s answers atts s' t m :
  cycle_on_queue fl c rc i s answers atts s' t -> Inv s -> state_of i s = Some m ->
  Z.of_nat (length answers) <= Z.max 1 (rc_max rc + 1 - m_attempt m).
Proof.
  intros H I Hm. destruct (cycle_on_queue_is_cycle fl c rc i s answers atts s' t H m I Hm) as [_ [_ [_ [Es _]]]].
  rewrite <- Es. eapply Z.le_trans; [apply cycle_sends_le|]. lia.
Qed.
