From Coq Require Import ZArith NArith List Bool Sorting.Mergesort Sorting.Permutation Sorting.Sorted Lia.
From HK Require Import Model.Attempts.
Import ListNotations.
Open Scope Z_scope.

Lemma in_firstn : forall (n : nat) (l : list att) x, In x (firstn n l) -> In x l.
Proof.
  induction n as [|n IH]; intros l x H; [cbn in H; contradiction|].
  destruct l as [|y l]; [cbn in H; contradiction|]. cbn [firstn] in H.
  destruct H as [H|H]; [left; exact H|right; apply IH; exact H].
Qed.

Lemma in_skipn : forall (n : nat) (l : list att) x, In x (skipn n l) -> In x l.
Proof.
  induction n as [|n IH]; intros l x H; [exact H|].
  destruct l as [|y l]; [cbn in H; contradiction|]. cbn [skipn] in H. right. apply IH; exact H.
Qed.

Lemma record_fresh : forall log a, dup_id log a = false -> record log a = (log ++ [norm a], true).
Proof. intros log a H. unfold record. now rewrite H. Qed.

Lemma record_dup : forall log a, dup_id log a = true -> record log a = (log, false).
Proof. intros log a H. unfold record. now rewrite H. Qed.

Lemma rec1_ext : forall log a, exists ext, rec1 log a = log ++ ext.
Proof.
  intros log a. unfold rec1, record. destruct (dup_id log a); cbn [fst].
  - exists []. now rewrite app_nil_r.
  - exists [norm a]. reflexivity.
Qed.

Lemma fold_rec1_ext : forall xs log, exists ext, fold_left rec1 xs log = log ++ ext.
Proof.
  induction xs as [|x xs IH]; intros log; cbn [fold_left].
  - exists []. now rewrite app_nil_r.
  - destruct (rec1_ext log x) as [e1 E1]. destruct (IH (rec1 log x)) as [e2 E2].
    exists (e1 ++ e2). rewrite E2, E1. now rewrite app_assoc.
Qed.

Lemma astep_ext : forall log o, exists ext, fst (astep log o) = log ++ ext.
Proof.
  intros log [a|s n|q]; cbn [astep fst].
  - apply rec1_ext.
  - apply fold_rec1_ext.
  - exists []. now rewrite app_nil_r.
Qed.

(** the log only grows: whatever the operations, what was in it stays in it, in place *)
Lemma log_after_ext : forall ops log, exists ext, log_after log ops = log ++ ext.
Proof.
  unfold log_after.
  induction ops as [|o ops IH]; intros log; cbn [fold_left].
  - exists []. now rewrite app_nil_r.
  - destruct (astep_ext log o) as [e1 E1]. destruct (IH (fst (astep log o))) as [e2 E2].
    exists (e1 ++ e2). rewrite E2, E1. now rewrite app_assoc.
Qed.

Lemma log_after_app : forall ops1 ops2 log, log_after log (ops1 ++ ops2) = log_after (log_after log ops1) ops2.
Proof. intros. unfold log_after. now rewrite fold_left_app. Qed.

(** non-blank ids stay unique *)
Definition ids_unique (log : list att) : Prop :=
  NoDup (filter (fun i => negb (N.eqb i 0)) (map a_id log)).

Lemma has_id_in : forall log i, has_id log i = false -> ~ In i (map a_id log).
Proof.
  intros log i H Hin. apply in_map_iff in Hin as [a [E Ha]].
  unfold has_id in H. assert (X : existsb (fun a0 => N.eqb (a_id a0) i) log = true).
  { apply existsb_exists. exists a. split; [exact Ha|]. apply N.eqb_eq. exact E. }
  rewrite X in H. discriminate.
Qed.

Lemma NoDup_app_one : forall (l : list N) x, NoDup l -> ~ In x l -> NoDup (l ++ [x]).
Proof.
  induction l as [|y l IH]; intros x ND NI; cbn [app].
  - constructor; [intros []|constructor].
  - inversion ND as [|y' l' Hy ND']; subst. constructor.
    + intros Hin. apply in_app_or in Hin as [Hin|[Hin|[]]]; [exact (Hy Hin)|]. subst. apply NI. left. reflexivity.
    + apply IH; [exact ND'|]. intros Hin. apply NI. right. exact Hin.
Qed.

Lemma rec1_unique : forall log a, ids_unique log -> ids_unique (rec1 log a).
Proof.
  intros log a U. unfold rec1, record. destruct (dup_id log a) eqn:D; cbn [fst]; [exact U|].
  unfold ids_unique in *. rewrite map_app, filter_app. cbn [map filter]. change (a_id (norm a)) with (a_id a).
  unfold dup_id in D. destruct (N.eqb (a_id a) 0) eqn:Z0; cbn [negb andb] in *.
  - now rewrite app_nil_r.
  - apply NoDup_app_one; [exact U|].
    intros Hin. apply filter_In in Hin as [Hin _]. exact (has_id_in _ _ D Hin).
Qed.
Lemma newer_eq_trans : forall a b c, newer_eq a b = true -> newer_eq b c = true -> newer_eq a c = true.
Proof.
  unfold newer_eq; intros a b c H1 H2.
  apply orb_true_iff in H1. apply orb_true_iff in H2. apply orb_true_iff.
  destruct H1 as [H1|H1], H2 as [H2|H2].
  - left. apply Z.ltb_lt in H1, H2. apply Z.ltb_lt. lia.
  - apply andb_true_iff in H2 as [E2 _]. apply Z.eqb_eq in E2. apply Z.ltb_lt in H1. left. apply Z.ltb_lt. lia.
  - apply andb_true_iff in H1 as [E1 _]. apply Z.eqb_eq in E1. apply Z.ltb_lt in H2. left. apply Z.ltb_lt. lia.
  - apply andb_true_iff in H1 as [E1 L1]. apply andb_true_iff in H2 as [E2 L2].
    apply Z.eqb_eq in E1, E2. apply N.leb_le in L1, L2. right. apply andb_true_iff. split.
    + apply Z.eqb_eq. lia.
    + apply N.leb_le. lia.
Qed.

Lemma sorted_strong : forall l, StronglySorted (fun a b => is_true (newer_eq a b)) (AttSort.sort l).
Proof.
  intros l. apply Sorted_StronglySorted.
  - intros a b c H1 H2. unfold is_true in *. eapply newer_eq_trans; eassumption.
  - apply AttSort.Sorted_sort.
Qed.

Lemma strong_split : forall n (l : list att), StronglySorted (fun a b => is_true (newer_eq a b)) l ->
  forall a b, In a (firstn n l) -> In b (skipn n l) -> newer_eq a b = true.
Proof.
  induction n as [|n IH]; intros l HS a b Ha Hb.
  - cbn in Ha. contradiction.
  - destruct l as [|x l]; [cbn in Ha; contradiction|].
    cbn [firstn skipn] in Ha, Hb. inversion HS as [|x' l' HS' HF]; subst.
    destruct Ha as [Ha|Ha].
    + subst x. rewrite Forall_forall in HF. apply HF. eapply in_skipn. exact Hb.
    + eapply IH; eassumption.
Qed.

Lemma strong_firstn : forall (n : nat) (s : list att), StronglySorted (fun a b => is_true (newer_eq a b)) s ->
  StronglySorted (fun a b => is_true (newer_eq a b)) (firstn n s).
Proof.
  induction n as [|n IH]; intros s S; [constructor|].
  destruct s as [|x s]; [constructor|]. cbn [firstn]. inversion S as [|x' s' S' F]; subst.
  constructor; [apply IH; exact S'|].
  rewrite Forall_forall in *. intros y Hy. apply F. eapply in_firstn. exact Hy.
Qed.

Theorem list_attempts_spec : forall log q,
  let r := list_attempts log q in
  let rest := skipn (eff_limit q) (AttSort.sort (filter (matches q) log)) in
  Permutation (r ++ rest) (filter (matches q) log)
  /\ (forall a b, In a r -> In b rest -> newer_eq a b = true)
  /\ StronglySorted (fun a b => is_true (newer_eq a b)) r
  /\ length r = Nat.min (eff_limit q) (length (filter (matches q) log))
  /\ (forall a, In a r -> In a log /\ matches q a = true).
Proof.
  intros log q r rest. subst r rest. unfold list_attempts.
  set (s := AttSort.sort (filter (matches q) log)).
  assert (P : Permutation s (filter (matches q) log)) by (symmetry; apply AttSort.Permuted_sort).
  assert (S : StronglySorted (fun a b => is_true (newer_eq a b)) s) by apply sorted_strong.
  repeat split.
  - rewrite firstn_skipn. exact P.
  - intros a b. apply strong_split. exact S.
  - apply strong_firstn. exact S.
  - rewrite firstn_length. rewrite (Permutation_length P). reflexivity.
  - apply filter_In with (f := matches q). eapply Permutation_in; [exact P|]. eapply in_firstn. eassumption.
  - eapply proj2. apply filter_In with (f := matches q) (l := log). eapply Permutation_in; [exact P|]. eapply in_firstn. eassumption.
Qed.

(** when fewer attempts match than the limit allows, every one of them is listed *)
Corollary list_attempts_complete_under_limit : forall log q a,
  (length (filter (matches q) log) <= eff_limit q)%nat ->
  In a log -> matches q a = true -> In a (list_attempts log q).
Proof.
  intros log q a Hl Hin Hm. unfold list_attempts.
  rewrite firstn_all2 by (rewrite <- (Permutation_length (AttSort.Permuted_sort _)); exact Hl).
  eapply Permutation_in; [apply AttSort.Permuted_sort|]. apply filter_In. split; assumption.
Qed.

(** an attempt that was accepted is listed by every later query it matches whose limit is not exhausted
    by matching attempts - however many other attempts are recorded in between *)
Theorem recorded_attempt_stays_listed : forall log0 ops1 a ops2 q,
  let log := log_after log0 (ops1 ++ ARec a :: ops2) in
  snd (record (log_after log0 ops1) a) = true ->
  matches q (norm a) = true ->
  (length (filter (matches q) log) <= eff_limit q)%nat ->
  In (norm a) (list_attempts log q).
Proof.
  intros log0 ops1 a ops2 q log Hacc Hm Hl. apply list_attempts_complete_under_limit; [exact Hl| |exact Hm].
  subst log. rewrite log_after_app. set (L1 := log_after log0 ops1) in *.
  change (log_after L1 (ARec a :: ops2)) with (log_after (rec1 L1 a) ops2).
  destruct (log_after_ext ops2 (rec1 L1 a)) as [ext E]. rewrite E.
  apply in_or_app. left. unfold rec1, record in *. destruct (dup_id L1 a); cbn [fst snd] in *; [discriminate|].
  apply in_or_app. right. left. reflexivity.
Qed.

Theorem log_after_unique : forall ops log, ids_unique log -> ids_unique (log_after log ops).
Proof.
  unfold log_after. induction ops as [|o ops IH]; intros log U; cbn [fold_left]; [exact U|].
  apply IH. destruct o as [a|s n|q]; cbn [astep fst].
  - apply rec1_unique. exact U.
  - generalize (gen_from s (Z.to_nat n)). intros xs. revert log U.
    induction xs as [|x xs IHx]; intros log U; cbn [fold_left]; [exact U|]. apply IHx. apply rec1_unique. exact U.
  - exact U.
Qed.

(** attempts with blank ids (the dispatcher never sets one: the store generates it) are all accepted, in order *)
Lemma fold_rec1_blank_ids : forall xs log,
  Forall (fun a => a_id a = 0%N) xs -> fold_left rec1 xs log = log ++ map norm xs.
Proof.
  induction xs as [|x xs IH]; intros log H; cbn [fold_left map].
  - now rewrite app_nil_r.
  - inversion H as [|y ys Hx Hxs]; subst.
    rewrite IH by exact Hxs. unfold rec1, record, dup_id. rewrite Hx. cbn [N.eqb negb andb fst].
    now rewrite <- app_assoc.
Qed.
