(** The executable monitors used on implementation traces never raise an alarm on a trace of the
    model: here for P_C14 (operator mutations) - the monitor is implied by the theorems. *)
From Coq Require Import List ZArith NArith Bool Lia.
From HK Require Import Gen.Consts Model.Queue Model.QueueHash Model.QueueMon
  Proofs.QueueBase Proofs.QueueInv Proofs.QueueInvStep Proofs.QueueStep Proofs.QueueTrace Proofs.QueueLease
  Proofs.QueueFence Proofs.QueueManage Proofs.QueueEpochs.
Import ListNotations.
Open Scope Z_scope.

Lemma optN_eqb_refl a : optN_eqb a a = true.
Proof. destruct a; simpl; [apply N.eqb_refl | reflexivity]. Qed.

Lemma st_eqb_refl s : st_eqb s s = true.
Proof. destruct s; reflexivity. Qed.

Lemma imm_eq_refl m : imm_eq m m = true.
Proof. unfold imm_eq. rewrite !N.eqb_refl, Z.eqb_refl. reflexivity. Qed.

Lemma msg_eqb_refl m : msg_eqb m m = true.
Proof. unfold msg_eqb. rewrite imm_eq_refl, st_eqb_refl, !Z.eqb_refl, N.eqb_refl, optN_eqb_refl. reflexivity. Qed.

Lemma opt_msg_eqb_refl a : opt_msg_eqb a a = true.
Proof. destruct a; simpl; [apply msg_eqb_refl | reflexivity]. Qed.

Lemma same_imm_imm_eq a b : same_imm a b -> imm_eq a b = true.
Proof.
  intros [A [B [Cc [D [E [F G]]]]]]. unfold imm_eq. rewrite A, B, Cc, D, E, F, G.
  rewrite !N.eqb_refl, Z.eqb_refl. reflexivity.
Qed.

Lemma filter_all_false (A : Type) (f : A -> bool) l : (forall x, In x l -> f x = false) -> filter f l = [].
Proof.
  induction l as [|a tl IH]; intros H; [reflexivity|]. simpl. rewrite (H a (or_introl eq_refl)).
  apply IH. intros x Hx. apply H. right. exact Hx.
Qed.

(** nothing is inserted by a per-message map that keeps the immutable fields *)
Lemma inserted_nil_apply_pm (e : event) pm :
  NoDup (ids (ev_before e)) -> imm_pres pm -> ev_after e = apply_pm pm (ev_before e) -> inserted e = [].
Proof.
  intros ND P E. unfold inserted. rewrite E.
  assert (H : forall m', In m' (apply_pm pm (ev_before e)) ->
            (match find_id (m_id m') (ev_before e) with Some m => negb (imm_eq m m') | None => true end) = false).
  { intros m' Hm'. apply apply_pm_In in Hm'. destruct Hm' as [m [Hm Ep]].
    pose proof (P m m' Ep) as S. destruct S as [Eid Rest].
    rewrite <- Eid. rewrite (find_id_In_NoDup _ m ND Hm). apply negb_false_iff. apply same_imm_imm_eq. split; assumption. }
  apply filter_all_false. exact H.
Qed.

Lemma c14_filter_event now k f o s s' r :
  (k = MCancel \/ k = MRequeue \/ k = MResume) -> Inv s -> step_manage_f now k f s = (s', r) ->
  c14_event (mkEvent (ManageF now k f) o r (msgs s) (msgs s')) = true.
Proof.
  intros Hk I H. unfold c14_event. cbn [ev_op ev_res ev_before ev_after].
  set (idl := filter_select k f (msgs s)).
  unfold step_manage_f in H. fold idl in H. destruct (f_preview f) eqn:Ep.
  - (* preview: nothing changes, the count is the number matched *)
    inversion H; subst s' r; clear H. cbn [ev_res]. simpl Bool.eqb. rewrite Z.eqb_refl. simpl andb.
    rewrite (inserted_nil_apply_pm (mkEvent (ManageF now k f) o (RCount 0 (Z.of_nat (length idl)) true) (msgs s) (msgs s)) (fun m => Some m));
      [| apply I | apply pm_some_imm | simpl; symmetry; apply apply_pm_id].
    simpl. apply forallb_forall. intros m Hm. rewrite (find_id_In_NoDup _ m (inv_nodup _ _ I) Hm). apply opt_msg_eqb_refl.
  - (* real run *)
    inversion H; subst s' r; clear H. cbn [ev_res]. simpl Bool.eqb. rewrite Z.eqb_refl. simpl andb.
    rewrite (inserted_nil_apply_pm (mkEvent (ManageF now k f) o _ (msgs s) (msgs (set_msgs s (apply_pm (pm_manage now k idl) (msgs s)))))
                                   (pm_manage now k idl)); [| apply I | apply pm_manage_imm | reflexivity].
    simpl Nat.eqb. simpl andb.
    assert (Ecount : Z.of_nat (length (selected k idl (msgs s))) = Z.of_nat (length idl)).
    { destruct (filter_count_is_matched now k f s I Ep) as [n En]. unfold step_manage_f in En. fold idl in En. rewrite Ep in En.
      simpl in En. inversion En as [[E1 E2]]. congruence. }
    rewrite Ecount, Z.eqb_refl. simpl andb.
    apply forallb_forall. intros m Hm. simpl msgs.
    rewrite find_id_apply_pm; [| apply pm_manage_id_pres | apply I].
    rewrite (find_id_In_NoDup _ m (inv_nodup _ _ I) Hm). unfold pm_manage.
    destruct (memN (m_id m) idl) eqn:Em; simpl; [|apply msg_eqb_refl].
    (* selected ids are always in an allowed state, so the guard of the model and of the monitor coincide *)
    destruct (filter_select_spec k f (msgs s)) as [_ [_ [_ [_ [_ Hall]]]]]. fold idl in Hall.
    apply memN_In in Em. destruct (Hall _ Em) as [m1 [H1 [Ei [_ Ea]]]].
    assert (m1 = m) by (apply (nodup_ids_inj (msgs s)); [apply I | | |]; assumption). subst m1. rewrite Ea.
    apply opt_msg_eqb_refl.
Qed.

(** operations the Store interface actually has: there is no by-filter form of the DLQ operations *)
Definition store_op (x : op) : Prop :=
  match x with ManageF _ (MRequeueDead | MDeleteDead) _ => False | _ => True end.

Theorem c14_event_holds fl c s x o s' r :
  store_op x -> Inv s -> step fl c s x o = (s', r) -> c14_event (mkEvent x o r (msgs s) (msgs s')) = true.
Proof.
  intros Hso I H.
  destruct x as [now e|now es|now route target batch ttl|now k l|now k ls|now k idl|now k f|now f ord|now route limit before|now idl|now|now];
    try reflexivity; cbn [step] in H.
  - (* by ids *)
    unfold c14_event; cbn [ev_op ev_res ev_before ev_after].
    destruct (manage_by_ids_exact now k idl s s' r I H) as [Hf [_ [n [mt [Er En]]]]].
    assert (Eafter : msgs s' = apply_pm (pm_manage now k (norm_ids idl [])) (msgs s)) by (unfold step_manage in H; inversion H; reflexivity).
    rewrite andb_true_iff. split; [rewrite andb_true_iff; split|].
    + apply forallb_forall. intros m Hm. rewrite (Hf m Hm). apply opt_msg_eqb_refl.
    + rewrite (inserted_nil_apply_pm (mkEvent (Manage now k idl) o r (msgs s) (msgs s')) (pm_manage now k (norm_ids idl []))); try reflexivity.
      * apply I.
      * apply pm_manage_imm.
      * exact Eafter.
    + rewrite Er. apply Z.eqb_eq. exact En.
  - destruct k; try (simpl in Hso; contradiction); apply c14_filter_event; auto.
Qed.

(** hence P_C14 holds on every trace of the model (over real store operations) *)
Lemma mon_all_c14 fl c iss ins evs :
  map (fun t : bool * bool * bool * bool * bool * bool => snd t) (mon_all fl c iss ins evs) = map c14_event evs.
Proof.
  revert iss ins. induction evs as [|e tl IH]; intros iss ins; [reflexivity|]. simpl. rewrite IH. reflexivity.
Qed.

Theorem P_C14_holds_on_model fl c xs :
  Forall (fun xo : op * oracle => store_op (fst xo)) xs -> P_C14 fl c (model_trace fl c xs) = true.
Proof.
  intros Hs. unfold P_C14. rewrite <- (map_id (mon_all fl c [] [] (model_trace fl c xs))).
  rewrite forallb_forall. intros t Ht. rewrite map_id in Ht.
  assert (Hin : In (snd t) (map c14_event (model_trace fl c xs))).
  { rewrite <- (mon_all_c14 fl c [] []). apply in_map_iff. exists t. auto. }
  apply in_map_iff in Hin. destruct Hin as [e [Ee He]]. rewrite <- Ee.
  apply In_nth_error in He. destruct He as [k Hk].
  destruct (run_event_step fl c init xs k e inv_init Hk) as [x [o [Hx [Ex [Eo [Ik [Sk [Bk Ak]]]]]]]].
  assert (Hso : store_op x).
  { rewrite Forall_forall in Hs. apply (Hs (x, o)). apply (nth_error_In _ _ Hx). }
  pose proof (c14_event_holds fl c _ x o _ _ Hso Ik Sk) as C14.
  destruct e as [eo eorc er eb ea]. simpl in *. subst. exact C14.
Qed.
