(** The executable monitors used on implementation traces never raise an alarm on a trace of the
    model: here for P_C14 (operator mutations) - the monitor is implied by the theorems. *)
From Coq Require Import List ZArith NArith Bool Lia.
From HK Require Import Gen.Consts Model.Queue Model.QueueHash Model.QueueMon
  Proofs.QueueBase Proofs.QueueInv Proofs.QueueInvStep Proofs.QueueStep Proofs.QueueTrace Proofs.QueueLease
  Proofs.QueueFence Proofs.QueueManage Proofs.QueueEpochs Proofs.QueueRedeliver.
Import ListNotations.
Open Scope Z_scope.

Lemma optN_eqb_refl a : optN_eqb a a = true.
Proof. destruct a; simpl; [apply N.eqb_refl | reflexivity]. Qed.

Lemma st_eqb_refl s : st_eqb s s = true.
Proof. destruct s; reflexivity. Qed.

Lemma imm_eq_refl m : imm_eq m m = true.
Proof. unfold imm_eq. rewrite !N.eqb_refl, Z.eqb_refl. reflexivity. Qed.

Lemma msg_eqb_refl m : msg_eqb m m = true.
Proof. unfold msg_eqb. rewrite imm_eq_refl, st_eqb_refl, !Z.eqb_refl, N.eqb_refl, optN_eqb_refl. reflexivity. Qed.

Lemma opt_msg_eqb_refl a : opt_msg_eqb a a = true.
Proof. destruct a; simpl; [apply msg_eqb_refl | reflexivity]. Qed.

Lemma same_imm_imm_eq a b : same_imm a b -> imm_eq a b = true.
Proof.
  intros [A [B [Cc [D [E [F G]]]]]]. unfold imm_eq. rewrite A, B, Cc, D, E, F, G.
  rewrite !N.eqb_refl, Z.eqb_refl. reflexivity.
Qed.

Lemma filter_all_false (A : Type) (f : A -> bool) l : (forall x, In x l -> f x = false) -> filter f l = [].
Proof.
  induction l as [|a tl IH]; intros H; [reflexivity|]. simpl. rewrite (H a (or_introl eq_refl)).
  apply IH. intros x Hx. apply H. right. exact Hx.
Qed.

(** nothing is inserted by a per-message map that keeps the immutable fields *)
Lemma inserted_nil_apply_pm (e : event) pm :
  NoDup (ids (ev_before e)) -> imm_pres pm -> ev_after e = apply_pm pm (ev_before e) -> inserted e = [].
Proof.
  intros ND P E. unfold inserted. rewrite E.
  assert (H : forall m', In m' (apply_pm pm (ev_before e)) ->
            (match find_id (m_id m') (ev_before e) with Some m => negb (imm_eq m m') | None => true end) = false).
  { intros m' Hm'. apply apply_pm_In in Hm'. destruct Hm' as [m [Hm Ep]].
    pose proof (P m m' Ep) as S. destruct S as [Eid Rest].
    rewrite <- Eid. rewrite (find_id_In_NoDup _ m ND Hm). apply negb_false_iff. apply same_imm_imm_eq. split; assumption. }
  apply filter_all_false. exact H.
Qed.

Lemma c14_filter_event now k f o s s' r :
  (k = MCancel \/ k = MRequeue \/ k = MResume) -> Inv s -> step_manage_f now k f s = (s', r) ->
  c14_event (mkEvent (ManageF now k f) o r (msgs s) (msgs s')) = true.
Proof.
  intros Hk I H. unfold c14_event. cbn [ev_op ev_res ev_before ev_after].
  set (idl := filter_select k f (msgs s)).
  unfold step_manage_f in H. fold idl in H. destruct (f_preview f) eqn:Ep.
  - (* preview: nothing changes, the count is the number matched *)
    inversion H; subst s' r; clear H. cbn [ev_res]. simpl Bool.eqb. rewrite Z.eqb_refl. simpl andb.
    rewrite (inserted_nil_apply_pm (mkEvent (ManageF now k f) o (RCount 0 (Z.of_nat (length idl)) true) (msgs s) (msgs s)) (fun m => Some m));
      [| apply I | apply pm_some_imm | simpl; symmetry; apply apply_pm_id].
    simpl. apply forallb_forall. intros m Hm. rewrite (find_id_In_NoDup _ m (inv_nodup _ _ I) Hm). apply opt_msg_eqb_refl.
  - (* real run *)
    inversion H; subst s' r; clear H. cbn [ev_res]. simpl Bool.eqb. rewrite Z.eqb_refl. simpl andb.
    rewrite (inserted_nil_apply_pm (mkEvent (ManageF now k f) o _ (msgs s) (msgs (set_msgs s (apply_pm (pm_manage now k idl) (msgs s)))))
                                   (pm_manage now k idl)); [| apply I | apply pm_manage_imm | reflexivity].
    simpl Nat.eqb. simpl andb.
    assert (Ecount : Z.of_nat (length (selected k idl (msgs s))) = Z.of_nat (length idl)).
    { destruct (filter_count_is_matched now k f s I Ep) as [n En]. unfold step_manage_f in En. fold idl in En. rewrite Ep in En.
      simpl in En. inversion En as [[E1 E2]]. congruence. }
    rewrite Ecount, Z.eqb_refl. simpl andb.
    apply forallb_forall. intros m Hm. simpl msgs.
    rewrite find_id_apply_pm; [| apply pm_manage_id_pres | apply I].
    rewrite (find_id_In_NoDup _ m (inv_nodup _ _ I) Hm). unfold pm_manage.
    destruct (memN (m_id m) idl) eqn:Em; simpl; [|apply msg_eqb_refl].
    (* selected ids are always in an allowed state, so the guard of the model and of the monitor coincide *)
    destruct (filter_select_spec k f (msgs s)) as [_ [_ [_ [_ [_ Hall]]]]]. fold idl in Hall.
    apply memN_In in Em. destruct (Hall _ Em) as [m1 [H1 [Ei [_ Ea]]]].
    assert (m1 = m) by (apply (nodup_ids_inj (msgs s)); [apply I | | |]; assumption). subst m1. rewrite Ea.
    apply opt_msg_eqb_refl.
Qed.

(** operations the Store interface actually has: there is no by-filter form of the DLQ operations *)
Definition store_op (x : op) : Prop :=
  match x with ManageF _ (MRequeueDead | MDeleteDead) _ => False | _ => True end.

Theorem c14_event_holds fl c s x o s' r :
  store_op x -> Inv s -> step fl c s x o = (s', r) -> c14_event (mkEvent x o r (msgs s) (msgs s')) = true.
Proof.
  intros Hso I H.
  destruct x as [now e|now es|now route target batch ttl|now k l|now k ls|now k idl|now k f|now f ord|now route limit before|now idl|now|now];
    try reflexivity; cbn [step] in H.
  - (* by ids *)
    unfold c14_event; cbn [ev_op ev_res ev_before ev_after].
    destruct (manage_by_ids_exact now k idl s s' r I H) as [Hf [_ [n [mt [Er En]]]]].
    assert (Eafter : msgs s' = apply_pm (pm_manage now k (norm_ids idl [])) (msgs s)) by (unfold step_manage in H; inversion H; reflexivity).
    rewrite andb_true_iff. split; [rewrite andb_true_iff; split|].
    + apply forallb_forall. intros m Hm. rewrite (Hf m Hm). apply opt_msg_eqb_refl.
    + rewrite (inserted_nil_apply_pm (mkEvent (Manage now k idl) o r (msgs s) (msgs s')) (pm_manage now k (norm_ids idl []))); try reflexivity.
      * apply I.
      * apply pm_manage_imm.
      * exact Eafter.
    + rewrite Er. apply Z.eqb_eq. exact En.
  - destruct k; try (simpl in Hso; contradiction); apply c14_filter_event; auto.
Qed.

(** hence P_C14 holds on every trace of the model (over real store operations) *)
Lemma mon_all_c14 fl c iss ins evs :
  map (fun t : bool * bool * bool * bool * bool * bool => snd t) (mon_all fl c iss ins evs) = map c14_event evs.
Proof.
  revert iss ins. induction evs as [|e tl IH]; intros iss ins; [reflexivity|]. simpl. rewrite IH. reflexivity.
Qed.

Theorem P_C14_holds_on_model fl c xs :
  Forall (fun xo : op * oracle => store_op (fst xo)) xs -> P_C14 fl c (model_trace fl c xs) = true.
Proof.
  intros Hs. unfold P_C14. rewrite <- (map_id (mon_all fl c [] [] (model_trace fl c xs))).
  rewrite forallb_forall. intros t Ht. rewrite map_id in Ht.
  assert (Hin : In (snd t) (map c14_event (model_trace fl c xs))).
  { rewrite <- (mon_all_c14 fl c [] []). apply in_map_iff. exists t. auto. }
  apply in_map_iff in Hin. destruct Hin as [e [Ee He]]. rewrite <- Ee.
  apply In_nth_error in He. destruct He as [k Hk].
  destruct (run_event_step fl c init xs k e inv_init Hk) as [x [o [Hx [Ex [Eo [Ik [Sk [Bk Ak]]]]]]]].
  assert (Hso : store_op x).
  { rewrite Forall_forall in Hs. apply (Hs (x, o)). apply (nth_error_In _ _ Hx). }
  pose proof (c14_event_holds fl c _ x o _ _ Hso Ik Sk) as C14.
  destruct e as [eo eorc er eb ea]. simpl in *. subst. exact C14.
Qed.

(** ** P_C03 on the model *)
Lemma lease_ids_In l x : In x (lease_ids l) <-> exists m, In m l /\ m_lease m = Some x.
Proof.
  unfold lease_ids. rewrite in_flat_map. split.
  - intros [m [Hm Hx]]. exists m. split; [exact Hm|]. destruct (m_lease m) as [y|]; [|destruct Hx].
    destruct Hx as [Hx | []]. subst. reflexivity.
  - intros [m [Hm L]]. exists m. split; [exact Hm|]. rewrite L. left. reflexivity.
Qed.

Lemma lease_ids_NoDup l : NoDup (ids l) -> lease_inj l -> NoDup (lease_ids l).
Proof.
  induction l as [|a tl IH]; intros ND LI; [constructor|].
  inversion ND as [|? ? Ha Htl]; subst.
  assert (LItl : lease_inj tl) by (intros m1 m2 x H1 H2; apply LI; right; assumption).
  specialize (IH Htl LItl). unfold lease_ids in *. simpl. destruct (m_lease a) as [x|] eqn:E; simpl; [|exact IH].
  constructor; [|exact IH]. intros Hin. fold (lease_ids tl) in Hin. apply lease_ids_In in Hin. destruct Hin as [m [Hm L]].
  assert (a = m) by (apply (LI a m x); [left; reflexivity | right; exact Hm | exact E | exact L]). subst m.
  apply Ha. apply in_map. exact Hm.
Qed.

Lemma nodupN_of_NoDup l : NoDup l -> nodupN l = true.
Proof. apply nodupN_NoDup. Qed.

Lemma non_dequeue_leases fl c s x o s' r m' l0 :
  Inv s -> step fl c s x o = (s', r) -> is_dequeue x = false ->
  In m' (msgs s') -> m_lease m' = Some l0 ->
  exists m, find_id (m_id m') (msgs s) = Some m /\ m_lease m = Some l0.
Proof.
  intros I H Dq Hm' L.
  destruct (step_sound fl c s x o s' r I H) as [pm [news [E [P N]]]].
  rewrite E in Hm'. apply in_app_or in Hm'. destruct Hm' as [Hm' | Hm'].
  - apply apply_pm_In in Hm'. destruct Hm' as [m [Hm Ep]]. specialize (P m Hm). rewrite Ep in P.
    destruct (change_same_imm _ _ _ _ _ P) as [Eid _]. exists m. split; [rewrite <- Eid; apply find_id_In_NoDup; [apply I | exact Hm]|].
    destruct (change_lease_source _ _ _ _ _ l0 P L) as [Lm | Hin]; [exact Lm|].
    exfalso. pose proof (step_issued fl c s x o) as SI. rewrite H in SI. simpl in SI.
    destruct SI as [[_ Hn] | [n0 [r0 [t0 [b0 [tt0 [Ex _]]]]]]]; [rewrite Hn in Hin; destruct Hin | subst x; discriminate].
  - destruct N as [N | [_ [ies [_ En]]]]; [subst news; destruct Hm'|].
    subst news. apply in_map_iff in Hm'. destruct Hm' as [q [Eq _]]. subst m'. discriminate.
Qed.

Theorem c03_event_holds fl c s x o s' r iss :
  Inv s -> (forall l, In l iss -> In l (issued s)) -> step fl c s x o = (s', r) ->
  (forall now route target batch ttl, x = Dequeue now route target batch ttl -> r <> RBadOracle) ->
  c03_event iss (mkEvent x o r (msgs s) (msgs s')) = true.
Proof.
  intros I Hiss H Hbad.
  assert (I' : Inv s') by (pose proof (step_inv fl c s x o I) as X; rewrite H in X; exact X).
  unfold c03_event. cbn [ev_op ev_res ev_before ev_after].
  assert (ND' : nodupN (lease_ids (msgs s')) = true).
  { apply nodupN_of_NoDup. apply lease_ids_NoDup; [apply I' | apply I']. }
  rewrite ND'. simpl andb.
  destruct (is_dequeue x) eqn:Dq.
  - destruct x as [now e|now es|now route target batch ttl|now k l|now k ls|now k idl|now k f|now f ord|now route limit before|now idl|now|now];
      simpl in Dq; try discriminate.
    cbn [step] in H. specialize (Hbad now route target batch ttl eq_refl).
      destruct r as [| | |items| | | | |]; try reflexivity;
        try (exfalso; rewrite step_dequeue_eq in H; cbv zeta in H; destruct (valid_pick _ _ _ _ _ _ _); inversion H; fail).
      2:{ contradiction. }
      destruct (dequeue_sound fl c now route target batch ttl o s s' items I H) as [A [B [_ Hall]]].
      unfold item_ids, item_leases, deq_items.
      rewrite (nodupN_of_NoDup _ A), (nodupN_of_NoDup _ B). simpl andb.
      rewrite andb_true_iff. split.
      + apply forallb_forall. intros l Hl. apply negb_true_iff. apply memN_false. intros Hin.
        apply in_map_iff in Hl. destruct Hl as [[[[i0 l0] a0] u0] [El Hit]]. simpl in El. subst l0.
        destruct (Hall _ _ _ _ Hit) as [m0 [_ [_ [_ [_ [_ [_ [Nin _]]]]]]]]. apply Nin. apply Hiss. exact Hin.
      + apply forallb_forall. intros [[[i0 l0] a0] u0] Hit. unfold c03_item. cbn [op_now ev_op ev_before ev_after].
        destruct (Hall _ _ _ _ Hit) as [m0 [F2 [R [F3 [Ea [Eu [Hlt [Nin _]]]]]]]].
        (* relate m0 to the message stored before the call *)
        rewrite deq_pre_msgs in F2. rewrite find_id_apply_pm in F2; [| apply deq_pre_pm_id_pres | apply I].
        destruct (find_id i0 (msgs s)) as [m|] eqn:Fb; [|discriminate].
        pose proof (find_id_Some _ _ _ Fb) as [Hm Eid].
        rewrite F3.
        destruct (deq_pre_cases fl c now o s m (inv_nodup _ _ I) Hm) as [[E _] | [E | [E Ee]]]; rewrite E in F2; try discriminate;
          inversion F2; subst m0; clear F2.
        * unfold ready in R. rewrite !andb_true_iff in R. destruct R as [[[Rq Rr] Rt] Rn].
          rewrite Rr, Rt, Rq, Rn. simpl. rewrite N.eqb_refl, !Z.eqb_refl. simpl.
          subst a0 u0. rewrite !Z.eqb_refl. simpl.
          assert (Hl : (now <? now + eff_ttl ttl) = true) by (apply Z.ltb_lt; lia). rewrite Hl. simpl.
          apply negb_true_iff. apply memN_false. intros Hin. apply lease_ids_In in Hin. destruct Hin as [mm [Hmm Lmm]].
          apply Nin. apply (inv_liss _ _ I mm l0 Hmm Lmm).
        * unfold ready in R. rewrite !andb_true_iff in R. destruct R as [[[_ Rr] Rt] _]. cbn [release upd m_route m_target] in Rr, Rt.
          rewrite Rr, Rt, Ee. rewrite orb_true_r. simpl. rewrite N.eqb_refl, !Z.eqb_refl. simpl.
          subst a0 u0. simpl. rewrite !Z.eqb_refl. simpl.
          assert (Hl : (now <? now + eff_ttl ttl) = true) by (apply Z.ltb_lt; lia). rewrite Hl. simpl.
          apply negb_true_iff. apply memN_false. intros Hin. apply lease_ids_In in Hin. destruct Hin as [mm [Hmm Lmm]].
          apply Nin. apply (inv_liss _ _ I mm l0 Hmm Lmm).
  - assert (G : forallb (fun m' : msg => match m_lease m' with
                                          | None => true
                                          | Some l => match find_id (m_id m') (msgs s) with
                                                      | Some m => optN_eqb (m_lease m) (Some l)
                                                      | None => false
                                                      end
                                          end) (msgs s') = true).
    { apply forallb_forall. intros m' Hm'. destruct (m_lease m') as [l0|] eqn:L; [|reflexivity].
      destruct (non_dequeue_leases fl c s x o s' r m' l0 I H Dq Hm' L) as [m [F Lm]]. rewrite F, Lm. simpl. apply N.eqb_refl. }
    destruct x; simpl in Dq; try discriminate; exact G.
Qed.

Lemma run_c03 fl c xs : forall s iss ins,
  Inv s -> (forall l, In l iss -> In l (issued s)) ->
  Forall (fun e => ev_res e <> RBadOracle) (fst (run fl c s xs)) ->
  forallb (fun t : bool * bool * bool * bool * bool * bool => snd (fst (fst (fst (fst t))))) (mon_all fl c iss ins (fst (run fl c s xs))) = true.
Proof.
  induction xs as [|[x o] tl IH]; intros s iss ins I Hiss Hok; [reflexivity|].
  simpl in *. pose proof (step_inv fl c s x o I) as I1. pose proof (step_handed_out fl c s x o) as Hh.
  destruct (step fl c s x o) as [s' r] eqn:Es. simpl in I1, Hh.
  destruct (run fl c s' tl) as [evs sf] eqn:Er. simpl in *.
  inversion Hok as [|? ? Hr Hrest]; subst. simpl in Hr.
  apply andb_true_iff. split.
  - apply (c03_event_holds fl c s x o s' r iss I Hiss Es). intros; exact Hr.
  - specialize (IH s' (iss ++ item_leases r) (upd_ins ins (mkEvent x o r (msgs s) (msgs s'))) I1).
    rewrite Er in IH. simpl in IH. apply IH; [|exact Hrest].
    intros l Hl. rewrite Hh. apply in_app_or in Hl. apply in_or_app. destruct Hl as [Hl | Hl]; [left; apply Hiss; exact Hl | right; exact Hl].
Qed.

(** P_C03 holds on every model trace whose dequeue answers were accepted as valid choices *)
Theorem P_C03_holds_on_model fl c xs :
  Forall (fun e => ev_res e <> RBadOracle) (model_trace fl c xs) -> P_C03 fl c (model_trace fl c xs) = true.
Proof. intros H. unfold P_C03. apply (run_c03 fl c xs init [] []); [apply inv_init | intros l [] | exact H]. Qed.
