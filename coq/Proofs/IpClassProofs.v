(** Go's byte tests (Model/IpClass.v) against the RFC address ranges (Model/IpSpec.v). *)
From Coq Require Import NArith ZArith List Bool Lia ZifyBool ZifyN.
From HK Require Import Model.IpClass Model.IpSpec.
Import ListNotations.
Local Open Scope N_scope.

Ltac Zify.zify_post_hook ::= Z.div_mod_to_equations.

(** The written-out constants are the powers of two they stand for. *)
Lemma consts_ok :
  c8 = 2 ^ 8 /\ c16 = 2 ^ 16 /\ c24 = 2 ^ 24 /\ c32 = 2 ^ 32 /\
  c112 = 2 ^ 112 /\ c120 = 2 ^ 120 /\ c128 = 2 ^ 128.
Proof. vm_compute. repeat split. Qed.

Ltac eval_consts :=
  repeat match goal with
  | |- context [quad ?a ?b ?c ?d] =>
      let r := eval vm_compute in (quad a b c d) in change (quad a b c d) with r
  | |- context [hex8 ?a ?b ?c ?d ?e ?f ?g ?h] =>
      let r := eval vm_compute in (hex8 a b c d e f g h) in change (hex8 a b c d e f g h) with r
  | H : context [quad ?a ?b ?c ?d] |- _ =>
      let r := eval vm_compute in (quad a b c d) in change (quad a b c d) with r in H
  | H : context [hex8 ?a ?b ?c ?d ?e ?f ?g ?h] |- _ =>
      let r := eval vm_compute in (hex8 a b c d e f g h) in change (hex8 a b c d e f g h) with r in H
  end.

Ltac unf :=
  cbv [is_loopback is_private is_multicast is_ll_multicast is_ll_unicast is_unspecified is_global_unicast
       equal_v4const equal_v6const is16 fam_eqb to4 a0 a1 a2 s0 s1
       spec_loopback spec_private spec_link_local spec_multicast spec_unspecified spec_broadcast
       denotes between mapped_lo mapped_hi c8 c16 c24 c32 c112 c120 c128] in *;
  eval_consts.

Ltac split_fam i :=
  let f := fresh "f" in let v := fresh "v" in destruct i as [f v]; destruct f; cbn [ip_fam ip_val] in *.

(** [To4] picks out exactly the addresses that denote an IPv4 address, with that value. *)
Lemma to4_denotes i :
  match to4 i, denotes i with
  | Some v, A4 v' => v = v'
  | None, A6 w => ip_fam i = F6 /\ w = ip_val i
  | None, ANone => ip_fam i = FBad
  | _, _ => False
  end.
Proof.
  split_fam i; unf; cbn [ip_fam ip_val].
  - reflexivity.
  - destruct (v / 4294967296 =? 65535) eqn:E;
      destruct ((281470681743360 <=? v) && (v <=? 281474976710655)) eqn:E2; try lia.
    split; reflexivity.
  - reflexivity.
Qed.

Ltac cases_mapped v :=
  destruct (v / 4294967296 =? 65535) eqn:?E;
  destruct ((281470681743360 <=? v) && (v <=? 281474976710655)) eqn:?E; try lia.

Lemma is_loopback_spec i : is_loopback i = true <-> spec_loopback i.
Proof. split_fam i; unf; cbn [ip_fam ip_val]; try cases_mapped v; try lia; try (split; [discriminate|tauto]). Qed.

Lemma is_private_spec i : is_private i = true <-> spec_private i.
Proof. split_fam i; unf; cbn [ip_fam ip_val]; try cases_mapped v; try lia; try (split; [discriminate|tauto]). Qed.

Lemma is_ll_unicast_spec i : is_ll_unicast i = true <-> spec_link_local i.
Proof. split_fam i; unf; cbn [ip_fam ip_val]; try cases_mapped v; try lia; try (split; [discriminate|tauto]). Qed.

Lemma is_multicast_spec i : is_multicast i = true <-> spec_multicast i.
Proof. split_fam i; unf; cbn [ip_fam ip_val]; try cases_mapped v; try lia; try (split; [discriminate|tauto]). Qed.

Lemma is_unspecified_spec i : is_unspecified i = true <-> spec_unspecified i.
Proof. split_fam i; unf; cbn [ip_fam ip_val]; try cases_mapped v; try lia; try (split; [discriminate|tauto]). Qed.

Lemma is_ll_multicast_multicast i : is_ll_multicast i = true -> is_multicast i = true.
Proof. split_fam i; unf; cbn [ip_fam ip_val]; try cases_mapped v; try lia. Qed.

Lemma bcast_spec i : equal_v4const i 4294967295 = true <-> spec_broadcast i.
Proof. split_fam i; unf; cbn [ip_fam ip_val]; try cases_mapped v; try lia; try (split; [discriminate|tauto]). Qed.

(** isAllowedIP, exactly: a 4- or 16-byte address outside the five classes and not 255.255.255.255. *)
Lemma is_allowed_ip_spec i :
  is_allowed_ip i = true <->
  ip_fam i <> FBad /\ ~ spec_loopback i /\ ~ spec_private i /\ ~ spec_link_local i /\
  ~ spec_multicast i /\ ~ spec_unspecified i /\ ~ spec_broadcast i.
Proof.
  rewrite <- is_loopback_spec, <- is_private_spec, <- is_ll_unicast_spec, <- is_multicast_spec,
          <- is_unspecified_spec, <- bcast_spec.
  unfold is_allowed_ip, is_global_unicast.
  pose proof (is_ll_multicast_multicast i) as Hll.
  destruct (is_loopback i), (is_ll_unicast i), (is_ll_multicast i), (is_multicast i), (is_unspecified i),
           (is_private i), (equal_v4const i 4294967295); cbn;
    try (specialize (Hll eq_refl); discriminate);
    destruct (ip_fam i); cbn; intuition (try discriminate; try congruence).
Qed.

(** The safety half the property needs, for *every* address value (no well-formedness needed). *)
Lemma allowed_not_forbidden i : is_allowed_ip i = true -> ~ spec_forbidden i.
Proof.
  intros H. apply is_allowed_ip_spec in H. destruct H as (H0 & H1 & H2 & H3 & H4 & H5 & H6).
  intros [A|[A|[A|[A|A]]]]; [exact (H1 A) | exact (H2 A) | exact (H3 A) | exact (H4 A) | exact (H5 A)].
Qed.

Lemma forbidden_not_allowed i : spec_forbidden i -> is_allowed_ip i = false.
Proof.
  intros H. destruct (is_allowed_ip i) eqn:E; [|reflexivity].
  exfalso. exact (allowed_not_forbidden i E H).
Qed.

(** * netip.Prefix.Contains *)

Lemma shift_xor_zero x y n : (N.shiftr (N.lxor x y) n =? 0) = true <-> x / 2 ^ n = y / 2 ^ n.
Proof.
  rewrite N.eqb_eq, N.shiftr_lxor, N.lxor_eq_0_iff, !N.shiftr_div_pow2. reflexivity.
Qed.

Lemma prefix_contains_spec p a :
  prefix_contains p a = true <->
  px_fam p = ip_fam a /\ ip_fam a <> FBad /\
  spec_in_block (fam_bits (px_fam p)) (px_bits p) (px_addr p) (ip_val a).
Proof.
  unfold prefix_contains, spec_in_block, blk_size.
  destruct (px_fam p) eqn:Ep, (ip_fam a) eqn:Ea;
    try (split; [discriminate | intros [H _]; discriminate]);
    try (split; [discriminate | intros [_ [H _]]; congruence]).
  all: rewrite andb_true_iff, shift_xor_zero, N.leb_le; cbn [fam_bits];
    split; [intros [H1 H2]; repeat split; auto; discriminate | intros [_ [_ [H1 H2]]]; split; auto].
Qed.

(** A rule hits an address iff the *denoted* address lies in the rule's block of the same family. *)
Lemma cidr_contains_denoted p i :
  match netip_from_ip i with
  | Some a => prefix_contains p a = true
  | None => False
  end <->
  match px_fam p, denotes i with
  | F4, A4 v => spec_in_block 32 (px_bits p) (px_addr p) v
  | F6, A6 w => spec_in_block 128 (px_bits p) (px_addr p) w
  | _, _ => False
  end.
Proof.
  assert (HF4 : forall v, prefix_contains p {| ip_fam := F4; ip_val := v |} = true <->
                          match px_fam p with F4 => spec_in_block 32 (px_bits p) (px_addr p) v | _ => False end).
  { intros v. rewrite prefix_contains_spec. cbn [ip_fam ip_val].
    destruct (px_fam p); cbn [fam_bits]; split; try tauto; try (intros [? _]; discriminate).
    intros ?; split; [reflexivity | split; [discriminate | assumption]]. }
  assert (HF6 : forall v, prefix_contains p {| ip_fam := F6; ip_val := v |} = true <->
                          match px_fam p with F6 => spec_in_block 128 (px_bits p) (px_addr p) v | _ => False end).
  { intros v. rewrite prefix_contains_spec. cbn [ip_fam ip_val].
    destruct (px_fam p); cbn [fam_bits]; split; try tauto; try (intros [? _]; discriminate).
    intros ?; split; [reflexivity | split; [discriminate | assumption]]. }
  pose proof (to4_denotes i) as H. unfold netip_from_ip.
  destruct (ip_fam i) eqn:Ef.
  - destruct (to4 i) as [v|] eqn:Et, (denotes i) as [v'|w|] eqn:Ed; try contradiction; try discriminate H;
      try (destruct H; congruence).
    subst v'. rewrite HF4. destruct (px_fam p); tauto.
  - destruct (to4 i) as [v|] eqn:Et, (denotes i) as [v'|w|] eqn:Ed; try contradiction; try discriminate H;
      try (destruct H; congruence).
    + subst v'. rewrite HF4. destruct (px_fam p); tauto.
    + destruct H as [_ H]; subst w. destruct i as [f v]; cbn [ip_fam ip_val] in *; subst f.
      rewrite HF6. destruct (px_fam p); tauto.
  - assert (Ed : denotes i = ANone) by (unfold denotes; rewrite Ef; reflexivity).
    rewrite Ed. destruct (px_fam p); tauto.
Qed.

(** Why config.parseEgressRule has to unmap a rule written in IPv4-mapped notation
    ([compile_prefix], fix 4e2df4c): netip keeps ::ffff:a.b.c.d as a 128-bit address while egress.go
    unmaps every address it tests, so the prefix *as parsed* (prefix length >= 96) would hit no
    address at all - neither the IPv4 address it embeds nor its own mapped spelling. *)
Lemma mapped_notation_rule_is_dead p i :
  px_fam p = F6 -> 96 <= px_bits p -> mapped_lo <= px_addr p <= mapped_hi -> wf_ip i ->
  match netip_from_ip i with Some a => prefix_contains p a | None => false end = false.
Proof.
  intros Hf Hb Hm Hwf.
  destruct (match netip_from_ip i with Some a => prefix_contains p a | None => false end) eqn:E; [|reflexivity].
  exfalso.
  assert (HH : match netip_from_ip i with Some a => prefix_contains p a = true | None => False end).
  { destruct (netip_from_ip i); [exact E | discriminate]. }
  apply cidr_contains_denoted in HH. rewrite Hf in HH.
  destruct (denotes i) as [v|w|] eqn:Ed; try contradiction.
  destruct HH as [Hle Heq]. unfold blk_size in Heq.
  (* w is a 16-byte value outside the mapped block, but shares its first >= 96 bits with a mapped address *)
  assert (Hw : ip_fam i = F6 /\ w = ip_val i /\ ~ (mapped_lo <= w <= mapped_hi)).
  { revert Ed. unfold denotes. destruct (ip_fam i); try discriminate.
    destruct ((mapped_lo <=? ip_val i) && (ip_val i <=? mapped_hi)) eqn:E2; [discriminate|].
    intros H; inversion H; subst. repeat split; auto. lia. }
  destruct Hw as [Hfam [Hwv Hout]].
  (* both sides divided further down to the 96-bit boundary *)
  assert (H32 : px_addr p / 2 ^ 32 = w / 2 ^ 32).
  { assert (Hk : 128 - px_bits p <= 32) by lia.
    replace 32 with ((128 - px_bits p) + (32 - (128 - px_bits p))) by lia.
    rewrite N.pow_add_r, <- !N.div_div by (apply N.pow_nonzero; discriminate).
    rewrite Heq. reflexivity. }
  apply Hout. unfold mapped_lo, mapped_hi in *. eval_consts.
  change (2 ^ 32) with 4294967296 in H32. lia.
Qed.
