(** The C05 monitor (at-least-once redelivery) is sound for the model: at every dequeue of every
    model trace the number of returned messages lies between min(batch, #messages that must be offered)
    and min(batch, #messages that may be offered), and only due or expired messages are returned.
    For the SQLite flavour (throttled lease sweep) this needs the clock never to run backwards. *)
From Coq Require Import List ZArith NArith Bool Lia.
From HK Require Import Gen.Consts Model.Queue Model.QueueHash Model.QueueMon
  Proofs.QueueBase Proofs.QueueInv Proofs.QueueInvStep Proofs.QueueStep Proofs.QueueLease Proofs.QueueRedeliver
  Proofs.QueueMonSound Proofs.QueueMonC04.
Import ListNotations.
Open Scope Z_scope.

Lemma filter_len_le (f g : msg -> bool) l :
  (forall y, In y l -> f y = true -> g y = true) -> (length (filter f l) <= length (filter g l))%nat.
Proof.
  induction l as [|x tl IH]; intros H; [apply Nat.le_refl|]. cbn [filter].
  assert (Htl : (length (filter f tl) <= length (filter g tl))%nat) by (apply IH; intros y Hy; apply H; right; exact Hy).
  destruct (f x) eqn:Ef.
  - rewrite (H x (or_introl eq_refl) Ef). cbn [length]. lia.
  - destruct (g x); cbn [length]; lia.
Qed.

Definition dueb (now : Z) (m : msg) : bool := queuedb m && (m_next m <=? now).

(** what the state a dequeue selects from holds for a stored message *)
Definition offered (fl : flavour) (c : cfg) (now : Z) (route target : option N) (o : oracle) (s : state) (m : msg) : bool :=
  match deq_pre_pm fl c now o s m with Some m' => ready now route target m' | None => false end.

Lemma dequeue_survives fl c now o s picked ttl m :
  Inv s -> In m (msgs s) ->
  has_id (m_id m) (apply_pm (pm_lease now ttl picked) (msgs (deq_pre fl c now o s)))
  = match prune_pm c now (o_gone o) s m with Some _ => true | None => false end.
Proof.
  intros I Hm. pose proof (inv_nodup _ _ I) as ND.
  rewrite deq_pre_msgs, apply_pm_comp.
  assert (Hidp : id_pres (pm_comp (deq_pre_pm fl c now o s) (pm_lease now ttl picked))).
  { apply imm_pres_id_pres. apply pm_comp_imm; [|apply pm_lease_imm].
    unfold deq_pre_pm. apply pm_comp_imm; [apply prune_pm_imm|].
    destruct (match fl with Mem => true | Sql => _ end); auto with qimm. }
  pose proof (find_id_apply_pm _ (msgs s) (m_id m) Hidp ND) as F. rewrite (find_id_In_NoDup _ _ ND Hm) in F.
  set (comp := pm_comp (deq_pre_pm fl c now o s) (pm_lease now ttl picked)) in *.
  assert (Hv : match prune_pm c now (o_gone o) s m with Some _ => exists m', comp m = Some m' | None => comp m = None end).
  { unfold comp, pm_comp, deq_pre_pm, pm_comp. destruct (prune_pm c now (o_gone o) s m) as [m1|]; [|reflexivity].
    assert (Hl : forall y, exists y', pm_lease now ttl picked y = Some y').
    { intros y. unfold pm_lease. destruct (lease_of picked (m_id y)); eexists; reflexivity. }
    destruct (match fl with Mem => true | Sql => _ end).
    - unfold pm_sweep. destruct (expired now m1); apply Hl.
    - apply Hl. }
  destruct (prune_pm c now (o_gone o) s m) as [m1|].
  - destruct Hv as [m' Em']. rewrite Em' in F. apply find_id_Some in F. destruct F as [Hin Eid].
    apply has_id_In. rewrite <- Eid. unfold ids. apply in_map. exact Hin.
  - rewrite Hv in F. apply find_id_None in F.
    destruct (has_id (m_id m) (apply_pm comp (msgs s))) eqn:Eh; [|reflexivity]. apply has_id_In in Eh. contradiction.
Qed.

Lemma sweep_interval_nonneg : 0 <= sql_sweep_interval_ns.
Proof. unfold sql_sweep_interval_ns. lia. Qed.

Lemma expired_earlier now d m : 0 <= d -> expired (now - d) m = true -> expired now m = true.
Proof.
  unfold expired. rewrite !andb_true_iff. intros Hd [A B]. split; [exact A|]. apply Z.leb_le in B. apply Z.leb_le. lia.
Qed.

(** the sweep throttle: either the dequeue sweeps, or (clock never ran backwards) no lease has been
    expired for a whole sweep interval *)
Definition sweep_ok (fl : flavour) (now : Z) (s : state) : Prop :=
  match fl with
  | Mem => True
  | Sql => sql_sweep_due now (last_sweep s) = true
           \/ forall m, In m (msgs s) -> expired (now - sql_sweep_interval_ns) m = false
  end.

Lemma swept_sweep_ok s t now : swept s t -> t <= now -> sweep_ok Sql now s.
Proof.
  intros [S0 [S1 S2]] Ht. unfold sweep_ok.
  destruct (sql_sweep_due now (last_sweep s)) eqn:Ed; [left; reflexivity|]. right.
  intros m Hm. unfold expired. destruct (is_leased m) eqn:Il; [|reflexivity]. cbn [andb].
  apply Z.leb_gt. specialize (S2 m Hm Il). unfold sql_sweep_due in Ed. apply negb_false_iff in Ed. apply Z.ltb_lt in Ed. lia.
Qed.

Lemma offered_bounds fl c now route target o s s' m :
  Inv s -> sweep_ok fl now s -> In m (msgs s) ->
  (forall y, In y (msgs s) -> has_id (m_id y) s' = match prune_pm c now (o_gone o) s y with Some _ => true | None => false end) ->
  let matches := opt_match route (m_route m) && opt_match target (m_target m) && has_id (m_id m) s' in
  (matches && (dueb now m || expired (now - sql_sweep_interval_ns) m) = true -> offered fl c now route target o s m = true)
  /\ (offered fl c now route target o s m = true -> matches && (dueb now m || expired now m) = true).
Proof.
  intros I Hsw Hm Hsurv. cbv zeta. rewrite (Hsurv m Hm). unfold offered, deq_pre_pm, pm_comp.
  destruct (prune_pm c now (o_gone o) s m) as [m1|] eqn:Ep.
  2:{ rewrite !andb_false_r. split; intros H; discriminate. }
  apply prune_pm_same in Ep. subst m1. rewrite andb_true_r.
  assert (Hready : forall y, ready now route target y = opt_match route (m_route y) && opt_match target (m_target y) && dueb now y).
  { intros y. unfold ready, dueb. destruct (queuedb y), (opt_match route (m_route y)), (opt_match target (m_target y)); reflexivity. }
  destruct (match fl with Mem => true | Sql => sql_sweep_due now (last_sweep s) end) eqn:Esw.
  - unfold pm_sweep. destruct (expired now m) eqn:Ee.
    + rewrite Hready. cbn [release upd m_route m_target]. unfold dueb, queuedb. cbn [release upd m_st m_next st_eqb].
      rewrite Z.leb_refl. cbn [andb]. rewrite !orb_true_r, !andb_true_r.
      split; intros H; [|exact H]. apply andb_true_iff in H. apply H.
    + rewrite Hready, orb_false_r. split; [|intros H; exact H].
      intros H. apply andb_true_iff in H. destruct H as [Hmt Hd]. rewrite Hmt. cbn [andb].
      apply orb_true_iff in Hd. destruct Hd as [Hd | Hd]; [exact Hd|].
      apply (expired_earlier now _ m sweep_interval_nonneg) in Hd. congruence.
  - rewrite Hready. split.
    + intros H. apply andb_true_iff in H. destruct H as [Hmt Hd]. rewrite Hmt. cbn [andb].
      apply orb_true_iff in Hd. destruct Hd as [Hd | Hd]; [exact Hd|].
      destruct fl; [discriminate|]. destruct Hsw as [Hsw | Hsw]; [congruence|]. rewrite (Hsw m Hm) in Hd. discriminate.
    + intros H. apply andb_true_iff in H. destruct H as [Hmt Hd]. rewrite Hmt, Hd. reflexivity.
Qed.

Theorem c05_event_holds fl c s x o s' r :
  Inv s -> sweep_ok fl (op_now x) s -> step fl c s x o = (s', r) -> r <> RBadOracle ->
  c05_event (mkEvent x o r (msgs s) (msgs s')) = true.
Proof.
  intros I Hsw H Hr. pose proof (inv_nodup _ _ I) as ND.
  destruct x as [now e|now es|now route target batch ttl|now k l|now k ls|now k idl|now k f|now f ord|now route limit before|now idl|now|now];
    try reflexivity; cbn [step op_now] in *.
  unfold c05_event. cbn [ev_op ev_res ev_before ev_after].
  destruct r as [| | | | | | | |]; try reflexivity.
  all: try (exfalso; rewrite step_dequeue_eq in H; cbv zeta in H; destruct (valid_pick _ _ _ _ _ _ _); inversion H; fail).
  all: try contradiction.
  (* RItems *)
  match goal with H : step_dequeue _ _ _ _ _ _ _ _ _ = (_, RItems ?its) |- _ => rename its into items end.
  destruct (dequeue_sound fl c now route target batch ttl o s s' items I H) as [_ [_ [Len Hall]]]. cbv zeta in Len, Hall.
  assert (Hafter : msgs s' = apply_pm (pm_lease now (eff_ttl ttl) (o_picked o)) (msgs (deq_pre fl c now o s))).
  { rewrite step_dequeue_eq in H. cbv zeta in H. destruct (valid_pick _ _ _ _ _ _ _); inversion H; reflexivity. }
  assert (Hsurv : forall y, In y (msgs s) -> has_id (m_id y) (msgs s') = match prune_pm c now (o_gone o) s y with Some _ => true | None => false end).
  { intros y Hy. rewrite Hafter. apply dequeue_survives; assumption. }
  set (nready := Z.of_nat (length (filter (ready now route target) (msgs (deq_pre fl c now o s))))) in *.
  assert (Enr : nready = Z.of_nat (length (filter (offered fl c now route target o s) (msgs s)))).
  { unfold nready. rewrite deq_pre_msgs, filter_apply_pm_length. reflexivity. }
  apply andb_true_iff. split; [apply andb_true_iff; split|].
  - apply Z.leb_le. rewrite Len, Enr.
    apply Z.min_le_compat_l. apply Nat2Z.inj_le. apply filter_len_le. intros y Hy Hf.
    apply (proj1 (offered_bounds fl c now route target o s (msgs s') y I Hsw Hy Hsurv)). exact Hf.
  - apply Z.leb_le. rewrite Len, Enr.
    apply Z.min_le_compat_l. apply Nat2Z.inj_le. apply filter_len_le. intros y Hy Hf.
    apply (proj2 (offered_bounds fl c now route target o s (msgs s') y I Hsw Hy Hsurv)). exact Hf.
  - apply forallb_forall. intros i Hi. unfold item_ids in Hi. cbn [deq_items] in Hi. apply in_map_iff in Hi.
    destruct Hi as [[[[i0 lid] att] un] [Ei Hit]]. cbn [fst] in Ei. subst i0.
    destruct (Hall i lid att un Hit) as [m0 [F [Rd _]]].
    apply find_id_Some in F. destruct F as [Hin0 Eid0]. rewrite deq_pre_msgs in Hin0. apply apply_pm_In in Hin0.
    destruct Hin0 as [m [Hm Ep]].
    destruct (deq_pre_cases fl c now o s m ND Hm) as [[En _] | [Es | [Es He]]]; [congruence | |].
    + rewrite Es in Ep. inversion Ep; subst m0. rewrite <- Eid0, (find_id_In_NoDup _ _ ND Hm).
      unfold ready in Rd. rewrite !andb_true_iff in Rd. destruct Rd as [[[Q _] _] Nx]. unfold queuedb in Q. unfold queuedb. rewrite Q, Nx. reflexivity.
    + rewrite Es in Ep. inversion Ep; subst m0. cbn [release upd m_id] in Eid0. rewrite <- Eid0, (find_id_In_NoDup _ _ ND Hm).
      rewrite He. apply orb_true_r.
Qed.

(** ** every trace *)
Lemma run_c05 fl c xs : forall s t iss ins,
  Inv s -> (fl = Sql -> swept s t /\ monotone_from t xs) ->
  Forall (fun e => ev_res e <> RBadOracle) (fst (run fl c s xs)) ->
  forallb (fun t : bool * bool * bool * bool * bool * bool => snd (fst (fst t)))
          (mon_all fl c iss ins (fst (run fl c s xs))) = true.
Proof.
  induction xs as [|[x o] tl IH]; intros s t iss ins I Hsq Hok; [reflexivity|].
  simpl in *. pose proof (step_inv fl c s x o I) as I1.
  assert (Hsw : sweep_ok fl (op_now x) s).
  { destruct fl; [exact Logic.I|]. destruct (Hsq eq_refl) as [S [M _]]. apply (swept_sweep_ok s t); assumption. }
  assert (Hnext : fl = Sql -> swept (fst (step fl c s x o)) (op_now x) /\ monotone_from (op_now x) tl).
  { intros E. subst fl. destruct (Hsq eq_refl) as [S [M1 M2]]. split; [apply (step_swept c s x o t); assumption | exact M2]. }
  destruct (step fl c s x o) as [s' r] eqn:Es. simpl in I1, Hnext.
  destruct (run fl c s' tl) as [evs sf] eqn:Er. simpl in *.
  inversion Hok as [|? ? Hr Hrest]; subst. simpl in Hr.
  apply andb_true_iff. split.
  - apply (c05_event_holds fl c s x o s' r I Hsw Es Hr).
  - specialize (IH s' (op_now x) (iss ++ item_leases r) (upd_ins ins (mkEvent x o r (msgs s) (msgs s'))) I1 Hnext).
    rewrite Er in IH. simpl in IH. apply IH. exact Hrest.
Qed.

(** P_C05 holds on every model trace whose dequeue answers were accepted as valid choices; for the
    SQLite flavour the clock must not run backwards (the sweep throttle compares clock readings) *)
Theorem P_C05_holds_on_model fl c xs :
  (fl = Sql -> monotone_from 0 xs) ->
  Forall (fun e => ev_res e <> RBadOracle) (model_trace fl c xs) -> P_C05 fl c (model_trace fl c xs) = true.
Proof.
  intros Hm H. unfold P_C05. apply (run_c05 fl c xs init 0 [] []); [apply inv_init | | exact H].
  intros E. split; [apply swept_init | apply Hm; exact E].
Qed.
