(** C13 over whole histories: where the per-step agreement theorems of Proofs/QueueFlavour.v apply at every step,
    the two backend flavours produce the same results and the same observable state after every operation. *)
From Coq Require Import List ZArith NArith Bool Lia.
From HK Require Import Gen.Consts Model.Queue Model.QueueHash Model.QueueMon
  Proofs.QueueBase Proofs.QueueInv Proofs.QueueInvStep Proofs.QueueStep Proofs.QueueFlavour.
Import ListNotations.
Open Scope Z_scope.

(** the regimes in which the flavours are proved to agree step by step *)
Definition agree_step_ok (c : cfg) (x : op) (o : oracle) (ss : state) : Prop :=
  match x with
  | Dequeue now _ _ _ _ => sql_sweep_due now (last_sweep ss) = true
  | Enqueue now _ | EnqueueBatch now _ =>
      (c_drop_oldest c = false \/ c_max_depth c <= 0) /\ mem_rules_off c (msgs (prune c now (o_gone o) ss))
  | Reopen _ => False
  | _ => True
  end.

Fixpoint agree_hist (c : cfg) (ss : state) (xs : list (op * oracle)) : Prop :=
  match xs with
  | [] => True
  | (x, o) :: tl => agree_step_ok c x o ss /\ agree_hist c (fst (step Sql c ss x o)) tl
  end.

Lemma step_agree c x o sm ss :
  same_obs sm ss -> agree_step_ok c x o ss ->
  snd (step Mem c sm x o) = snd (step Sql c ss x o)
  /\ same_obs (fst (step Mem c sm x o)) (fst (step Sql c ss x o)).
Proof.
  intros S Hok.
  destruct x as [now e|now es|now route target batch ttl|now k l|now k ls|now k idl|now k f|now f ord|now route limit before|now idl|now|now];
    try (apply flavour_free_agree; [reflexivity | exact S]).
  - cbn [step]. destruct Hok as [Hpol Hoff].
    destruct (enqueue_agree_reject c now true [e] o sm ss (fun _ => eq_refl) S Hpol Hoff) as [A [B [Cc D]]].
    split; [exact A | repeat split; assumption].
  - cbn [step]. destruct Hok as [Hpol Hoff].
    destruct (enqueue_agree_reject c now false es o sm ss (fun H => ltac:(discriminate H)) S Hpol Hoff) as [A [B [Cc D]]].
    split; [exact A | repeat split; assumption].
  - cbn [step]. apply dequeue_agree; assumption.
  - destruct Hok.
Qed.

Theorem flavours_agree_along_history c xs : forall sm ss,
  same_obs sm ss -> agree_hist c ss xs ->
  map ev_res (fst (run Mem c sm xs)) = map ev_res (fst (run Sql c ss xs))
  /\ map ev_after (fst (run Mem c sm xs)) = map ev_after (fst (run Sql c ss xs))
  /\ same_obs (snd (run Mem c sm xs)) (snd (run Sql c ss xs)).
Proof.
  induction xs as [|[x o] tl IH]; intros sm ss S H; [split; [reflexivity | split; [reflexivity | exact S]]|].
  destruct H as [Hok Htl]. cbn [run].
  destruct (step_agree c x o sm ss S Hok) as [Er Es].
  destruct (step Mem c sm x o) as [sm' rm] eqn:Em. destruct (step Sql c ss x o) as [ss' rs] eqn:Eq.
  cbn [fst snd] in *. subst rs.
  destruct (IH sm' ss' Es Htl) as [A [B Cc]].
  destruct (run Mem c sm' tl) as [evm fm]. destruct (run Sql c ss' tl) as [evs fs]. cbn [fst snd map ev_res ev_after] in *.
  pose proof Es as [Em1 _]. rewrite A, B, Em1. split; [reflexivity | split; [reflexivity | exact Cc]].
Qed.

(** a configuration without depth limit and without an explicit memory-pressure limit never leaves the agreeing regime at an enqueue *)
Lemma no_limits_rules_off c l : c_max_depth c <= 0 -> c_press_items c <= 0 -> mem_rules_off c l.
Proof.
  intros Hd Hp. unfold mem_rules_off, pressure, press_item_limit. split; [|right; exact Hd].
  assert (E1 : (0 <? c_press_items c) = false) by (apply Z.ltb_ge; exact Hp). rewrite E1.
  assert (E2 : (c_max_depth c <=? 0) = true) by (apply Z.leb_le; exact Hd). rewrite E2. reflexivity.
Qed.
