(** The attempt records of a micro-batch (Model/PushLoop.v run_records) as entries of the store's attempt log (Model/Attempts.v):
    the dispatcher hands them to RecordAttempt with a blank id, so every one of them is appended, in order, and stays. *)
From Coq Require Import ZArith QArith List Bool NArith.
From HK Require Import Model.Queue Model.Retry Model.Dispatcher Model.PushLoop Model.Attempts Proofs.AttemptsProofs Proofs.PushRecordsProofs.
Import ListNotations.
Open Scope Z_scope.

Definition outcome_n (o : outcome) : N := match o with ORetry => 1 | OAcked => 2 | ODead => 3 end%N.

(** the DeliveryAttempt classifyDelivery fills for a record: event id of the leased message, route / target of the delivery, blank id *)
Definition att_of_record (event_of : N -> N) (route target : N) (created : Z) (x : N * attempt_rec) : att :=
  let '(l, r) := x in
  mkAtt 0 (event_of l) route target (ar_attempt r) (match ar_result r with RStatus c => c | RErr _ => 0 end)
        (outcome_n (ar_outcome r)) created.

Theorem micro_batch_attempts_reach_the_log : forall event_of route target created stop its log,
  fold_left rec1 (map (att_of_record event_of route target created) (run_records stop its)) log
  = log ++ map (att_of_record event_of route target created) (run_records stop its).
Proof.
  intros event_of route target created stop its log.
  rewrite fold_rec1_blank_ids.
  - f_equal. rewrite map_map. apply map_ext. intros [l r]. unfold att_of_record, norm. cbn.
    destruct (ar_outcome r); reflexivity.
  - apply Forall_forall. intros a Ha. apply in_map_iff in Ha as [[l r] [E _]]. subst a. reflexivity.
Qed.

Lemma nodup_map_inj (l : list item) : NoDup (map it_lease l) ->
  forall a b, In a l -> In b l -> it_lease a = it_lease b -> a = b.
Proof.
  induction l as [|x l IH]; intros ND a b Ha Hb E; [contradiction|].
  cbn [map] in ND. inversion ND as [|y ys Hn ND']; subst.
  destruct Ha as [Ha|Ha], Hb as [Hb|Hb].
  - congruence.
  - subst a. exfalso. apply Hn. rewrite E. apply in_map. exact Hb.
  - subst b. exfalso. apply Hn. rewrite <- E. apply in_map. exact Ha.
  - apply IH; assumption.
Qed.

(** hence: every message that was sent in the micro-batch has its attempt in the log afterwards, under its event id and attempt
    number, whatever is recorded later (the leases of one Dequeue are distinct) *)
Theorem sent_message_attempt_is_in_the_log : forall event_of route target created stop its log it later,
  NoDup (map it_lease its) ->
  In it (sent_items stop its) ->
  exists a, In a (log_after (fold_left rec1 (map (att_of_record event_of route target created) (run_records stop its)) log) later)
    /\ a_event a = event_of (it_lease it) /\ a_attempt a = it_attempt it.
Proof.
  intros event_of route target created stop its log it later ND Hin.
  assert (Hl : In (it_lease it) (map fst (run_records stop its))).
  { rewrite run_records_one_per_sent_item. apply in_map. exact Hin. }
  apply in_map_iff in Hl as [[l r] [El Hr]]. cbn [fst] in El. subst l.
  destruct (run_records_match_the_settlement its stop (it_lease it) r Hr) as [it' [rc [Hin' [Hl' [_ [Ha _]]]]]].
  assert (it' = it) by (apply (nodup_map_inj its ND); [exact Hin'|eapply sent_items_sub; exact Hin|exact Hl']). subst it'.
  exists (att_of_record event_of route target created (it_lease it, r)). split; [|split].
  - destruct (log_after_ext later (fold_left rec1 (map (att_of_record event_of route target created) (run_records stop its)) log)) as [ext E].
    rewrite E. apply in_or_app. left. rewrite micro_batch_attempts_reach_the_log. apply in_or_app. right.
    apply in_map. exact Hr.
  - reflexivity.
  - cbn. exact Ha.
Qed.
