(** Lemmas about the signing / rotation-window model (Model/Signing.v). *)
From Coq Require Import String Ascii List Bool ZArith Lia OrderedTypeEx.
From HK Require Import Model.StrUtil Model.Signing.
Import ListNotations.
Local Open Scope string_scope.
Local Open Scope Z_scope.

(** * byte-wise string order (Go's [<] on strings) *)

Lemma ltb_lt a b : String.ltb a b = true <-> String_as_OT.lt a b.
Proof.
  unfold String.ltb. rewrite <- String_as_OT.cmp_lt. unfold String_as_OT.cmp.
  destruct (String.compare a b); split; congruence.
Qed.

Lemma ltb_irrefl a : String.ltb a a = false.
Proof.
  destruct (String.ltb a a) eqn:E; [|reflexivity].
  apply ltb_lt in E. exfalso. exact (String_as_OT.lt_not_eq _ _ E eq_refl).
Qed.

Lemma ltb_trans a b c : String.ltb a b = true -> String.ltb b c = true -> String.ltb a c = true.
Proof. rewrite !ltb_lt. apply String_as_OT.lt_trans. Qed.

Lemma ltb_total a b : a <> b -> String.ltb a b = true \/ String.ltb b a = true.
Proof.
  intros Hne. unfold String.ltb. rewrite (String.compare_antisym b a).
  destruct (String.compare a b) eqn:E; cbn; auto.
  apply String.compare_eq_iff in E. contradiction.
Qed.

Lemma ltb_asym a b : String.ltb a b = true -> String.ltb b a = false.
Proof.
  intros H. destruct (String.ltb b a) eqn:E; [|reflexivity].
  pose proof (ltb_trans _ _ _ H E) as H2. rewrite ltb_irrefl in H2. discriminate.
Qed.

(** * validity window *)

Lemma valid_at_spec v t :
  valid_at v t = true <->
  v_from v <> go_zero /\ v_from v <= t /\ (v_has_until v = true -> t < v_until v).
Proof.
  unfold valid_at.
  destruct (Z.eqb_spec (v_from v) go_zero) as [E|E]; cbn [orb].
  - split; [discriminate | intros [H _]; contradiction].
  - destruct (Z.ltb_spec t (v_from v)) as [L|L].
    + split; [discriminate | intros (_ & H & _); lia].
    + destruct (v_has_until v); cbn [negb].
      * rewrite Z.ltb_lt. split; [intros H; repeat split; auto | intros (_ & _ & H); auto].
      * split; [intros _; repeat split; auto; discriminate | reflexivity].
Qed.

Lemma valid_at_false v t :
  valid_at v t = false <->
  v_from v = go_zero \/ t < v_from v \/ (v_has_until v = true /\ v_until v <= t).
Proof.
  destruct (valid_at v t) eqn:E.
  - apply valid_at_spec in E. destruct E as (H1 & H2 & H3). split; [discriminate|].
    intros [H|[H|[H4 H5]]]; try contradiction; try lia. specialize (H3 H4). lia.
  - split; [intros _ | reflexivity].
    destruct (Z.eq_dec (v_from v) go_zero); [left; assumption|].
    destruct (Z.lt_ge_cases t (v_from v)); [right; left; assumption|].
    right; right. destruct (v_has_until v) eqn:Eu.
    + split; [reflexivity|]. destruct (Z.lt_ge_cases t (v_until v)); [|assumption].
      exfalso. assert (valid_at v t = true) by (apply valid_at_spec; rewrite Eu; repeat split; auto). congruence.
    + exfalso. assert (valid_at v t = true) by (apply valid_at_spec; rewrite Eu; repeat split; auto; discriminate). congruence.
Qed.

(** valid_from inclusive, valid_until exclusive - at nanosecond resolution *)
Lemma window_edges v :
  v_from v <> go_zero -> (v_has_until v = true -> v_from v < v_until v) ->
  valid_at v (v_from v) = true /\ valid_at v (v_from v - 1) = false /\
  (v_has_until v = true -> valid_at v (v_until v - 1) = true /\ valid_at v (v_until v) = false) /\
  (v_has_until v = false -> forall t, v_from v <= t -> valid_at v t = true).
Proof.
  intros Hz Hu. repeat split.
  - apply valid_at_spec. repeat split; auto; lia.
  - apply valid_at_false. right; left. lia.
  - apply valid_at_spec. specialize (Hu H). repeat split; auto; lia.
  - apply valid_at_false. right; right. split; [assumption | lia].
  - intros Hn t Ht. apply valid_at_spec. repeat split; auto. rewrite Hn. discriminate.
Qed.

(** the window is an interval: valid at two instants, valid in between *)
Lemma window_convex v t1 t2 t :
  valid_at v t1 = true -> valid_at v t2 = true -> t1 <= t <= t2 -> valid_at v t = true.
Proof.
  rewrite !valid_at_spec. intros (A1 & A2 & A3) (B1 & B2 & B3) Ht. repeat split; auto; try lia.
  intros Hu. specialize (B3 Hu). lia.
Qed.

(** * selection order *)

(** [better m v w]: v strictly precedes w under the configured rule - newer (resp. older)
    valid_from first, ties by the smaller id. *)
Definition better (m : mode) (v w : version) : Prop :=
  match m with Newest => v_from w < v_from v | Oldest => v_from v < v_from w end
  \/ (v_from v = v_from w /\ String.ltb (v_id v) (v_id w) = true).

Definition same_key (v w : version) : Prop := v_from v = v_from w /\ v_id v = v_id w.
Definition ge (m : mode) (v w : version) : Prop := better m v w \/ same_key v w.

Lemma replaces_spec m v s : replaces m v s = true <-> better m v s.
Proof.
  unfold replaces, better. rewrite orb_true_iff, andb_true_iff, Z.eqb_eq.
  destruct m; rewrite Z.ltb_lt; tauto.
Qed.

Lemma better_irrefl m v : ~ better m v v.
Proof. unfold better. intros [H|[_ H]]; [destruct m; lia | rewrite ltb_irrefl in H; discriminate]. Qed.

Lemma better_trans m a b c : better m a b -> better m b c -> better m a c.
Proof.
  unfold better. intros [H1|[H1 H1']] [H2|[H2 H2']].
  - left. destruct m; lia.
  - left. destruct m; lia.
  - left. destruct m; lia.
  - right. split; [lia | eapply ltb_trans; eauto].
Qed.

Lemma better_total m a b : better m a b \/ same_key a b \/ better m b a.
Proof.
  unfold better, same_key.
  destruct (Z.lt_trichotomy (v_from a) (v_from b)) as [H|[H|H]].
  - destruct m; [right; right; left; lia | left; left; lia].
  - destruct (String.string_dec (v_id a) (v_id b)) as [E|E].
    + right; left; auto.
    + destruct (ltb_total _ _ E); [left; right; auto | right; right; right; auto].
  - destruct m; [left; left; lia | right; right; left; lia].
Qed.

Lemma ge_refl m v : ge m v v.
Proof. right. split; reflexivity. Qed.

Lemma better_same m a b c : better m a b -> same_key b c -> better m a c.
Proof. unfold better, same_key. intros [H|[H H']] [E1 E2]; [left; destruct m; lia | right; split; [lia | congruence]]. Qed.

Lemma same_better m a b c : same_key a b -> better m b c -> better m a c.
Proof. unfold better, same_key. intros [E1 E2] [H|[H H']]; [left; destruct m; lia | right; split; [lia | congruence]]. Qed.

Lemma ge_trans m a b c : ge m a b -> ge m b c -> ge m a c.
Proof.
  intros [H1|H1] [H2|H2].
  - left. eapply better_trans; eauto.
  - left. eapply better_same; eauto.
  - left. eapply same_better; eauto.
  - right. destruct H1, H2. split; congruence.
Qed.

Lemma better_ge_absurd m a b : better m a b -> ge m b a -> False.
Proof.
  intros H1 [H2|H2].
  - exact (better_irrefl m a (better_trans _ _ _ _ H1 H2)).
  - exact (better_irrefl m a (better_same _ _ _ _ H1 H2)).
Qed.

Lemma not_replaces_ge m v s : replaces m v s = false -> ge m s v.
Proof.
  intros H. destruct (better_total m s v) as [B|[B|B]].
  - left; assumption.
  - right; assumption.
  - apply replaces_spec in B. congruence.
Qed.

Lemma order_strict_total m :
  (forall v, ~ better m v v) /\
  (forall a b c, better m a b -> better m b c -> better m a c) /\
  (forall a b, better m a b \/ (v_from a = v_from b /\ v_id a = v_id b) \/ better m b a).
Proof. exact (conj (better_irrefl m) (conj (better_trans m) (better_total m))). Qed.

(** * the scan *)

Lemma scan_inv m t : forall vs sel,
  (forall s, sel = Some s -> valid_at s t = true) ->
  match scan m t vs sel with
  | None => sel = None /\ forall w, In w vs -> valid_at w t = false
  | Some r => valid_at r t = true /\ (sel = Some r \/ In r vs) /\
              (forall s, sel = Some s -> ge m r s) /\
              (forall w, In w vs -> valid_at w t = true -> ge m r w)
  end.
Proof.
  induction vs as [|v tl IH]; intros sel Hsel; cbn [scan].
  - destruct sel as [s|].
    + repeat split; auto.
      * intros s' H; inversion H; subst. apply ge_refl.
      * intros w [].
    + split; [reflexivity | intros w []].
  - destruct (valid_at v t) eqn:Ev; cbn [negb].
    + destruct sel as [s|].
      * set (s' := if replaces m v s then v else s).
        assert (Hs' : valid_at s' t = true) by (unfold s'; destruct (replaces m v s); auto).
        assert (Hge_s : ge m s' s).
        { unfold s'. destruct (replaces m v s) eqn:Er; [left; apply replaces_spec; auto | apply ge_refl]. }
        assert (Hge_v : ge m s' v).
        { unfold s'. destruct (replaces m v s) eqn:Er; [apply ge_refl | apply not_replaces_ge; auto]. }
        specialize (IH (Some s') ltac:(intros ? H; inversion H; subst; auto)).
        destruct (scan m t tl (Some s')) as [r|].
        -- destruct IH as (I1 & I2 & I3 & I4). repeat split; auto.
           ++ destruct I2 as [I2|I2].
              ** inversion I2; subst r. unfold s'. destruct (replaces m v s); [right; left; reflexivity | left; reflexivity].
              ** right; right; assumption.
           ++ intros s0 H; inversion H; subst s0. eapply ge_trans; [apply I3; reflexivity | exact Hge_s].
           ++ intros w [Hw|Hw] Hv; [subst w; eapply ge_trans; [apply I3; reflexivity | exact Hge_v] | apply I4; auto].
        -- destruct IH as [H _]. discriminate.
      * specialize (IH (Some v) ltac:(intros ? H; inversion H; subst; auto)).
        destruct (scan m t tl (Some v)) as [r|].
        -- destruct IH as (I1 & I2 & I3 & I4). repeat split; auto.
           ++ destruct I2 as [I2|I2]; [inversion I2; subst; right; left; reflexivity | right; right; assumption].
           ++ intros s H; discriminate.
           ++ intros w [Hw|Hw] Hv; [subst w; apply I3; reflexivity | apply I4; auto].
        -- destruct IH as [H _]. discriminate.
    + specialize (IH sel Hsel). destruct (scan m t tl sel) as [r|].
      * destruct IH as (I1 & I2 & I3 & I4). repeat split; auto.
        -- destruct I2; [left | right; right]; assumption.
        -- intros w [Hw|Hw] Hv; [subst w; congruence | apply I4; auto].
      * destruct IH as [I1 I2]. split; [assumption|]. intros w [Hw|Hw]; [subst; assumption | apply I2; assumption].
Qed.

Lemma select_sound m vs t v :
  select m vs t = Some v ->
  In v vs /\ valid_at v t = true /\ forall w, In w vs -> valid_at w t = true -> ge m v w.
Proof.
  unfold select. intros H. pose proof (scan_inv m t vs None ltac:(discriminate)) as I.
  rewrite H in I. destruct I as (I1 & I2 & _ & I4). repeat split; auto.
  destruct I2 as [I2|I2]; [discriminate | assumption].
Qed.

Lemma select_none m vs t :
  select m vs t = None <-> forall w, In w vs -> valid_at w t = false.
Proof.
  unfold select. pose proof (scan_inv m t vs None ltac:(discriminate)) as I.
  destruct (scan m t vs None) as [r|].
  - destruct I as (I1 & I2 & _). split; [discriminate|]. intros H.
    destruct I2 as [I2|I2]; [discriminate|]. specialize (H r I2). congruence.
  - destruct I as [_ I]. split; auto.
Qed.

Lemma same_key_unique vs v w :
  NoDup (map v_id vs) -> In v vs -> In w vs -> v_id v = v_id w -> v = w.
Proof.
  induction vs as [|a tl IH]; cbn; intros Hnd Hv Hw Hid; [contradiction|].
  inversion Hnd as [|? ? Hnotin Hnd']; subst.
  destruct Hv as [Hv|Hv], Hw as [Hw|Hw]; subst; auto.
  - exfalso. apply Hnotin. rewrite Hid. apply in_map. assumption.
  - exfalso. apply Hnotin. rewrite <- Hid. apply in_map. assumption.
Qed.

(** The selected version is the one valid version that precedes every other valid version
    under the strict total order (valid_from, then id). *)
Lemma select_spec m vs t v :
  NoDup (map v_id vs) ->
  (select m vs t = Some v <->
   In v vs /\ valid_at v t = true /\
   forall w, In w vs -> valid_at w t = true -> w = v \/ better m v w).
Proof.
  intros Hnd. split.
  - intros H. apply select_sound in H. destruct H as (H1 & H2 & H3). repeat split; auto.
    intros w Hw Hv. destruct (H3 w Hw Hv) as [B|[_ K]]; [right; assumption | left].
    symmetry. eapply same_key_unique; eauto.
  - intros (H1 & H2 & H3).
    destruct (select m vs t) as [r|] eqn:Es.
    + apply select_sound in Es. destruct Es as (R1 & R2 & R3).
      destruct (H3 r R1 R2) as [E|B]; [congruence|].
      exfalso. exact (better_ge_absurd m v r B (R3 v H1 H2)).
    + exfalso. rewrite select_none in Es. specialize (Es v H1). congruence.
Qed.

(** * selectSigningSecretRef *)

Lemma select_ref_versions c t r :
  c_versions c <> [] -> select_ref c t = Some r ->
  exists m v, c_mode c = Some m /\ select m (c_versions c) t = Some v /\ r = trim_space (v_ref v) /\ r <> "".
Proof.
  unfold select_ref. destruct (c_versions c) as [|v0 tl] eqn:Ev; [congruence|]. intros _.
  destruct (c_mode c) as [m|] eqn:Em; [|discriminate].
  destruct (select m (v0 :: tl) t) as [v|] eqn:Es; [|discriminate].
  destruct (String.eqb_spec (trim_space (v_ref v)) "") as [E|E]; [discriminate|].
  intros H; inversion H; subst r. exists m, v.
  split; [reflexivity | split; [exact Es | split; [reflexivity | exact E]]].
Qed.

Lemma no_valid_version_no_ref c t :
  c_versions c <> [] -> (forall w, In w (c_versions c) -> valid_at w t = false) -> select_ref c t = None.
Proof.
  intros Hne Hall. unfold select_ref. destruct (c_versions c) as [|v0 tl] eqn:Ev; [congruence|].
  destruct (c_mode c) as [m|]; [|reflexivity].
  assert (select m (v0 :: tl) t = None) as -> by (apply select_none; exact Hall). reflexivity.
Qed.

(** * signing *)

Section Crypto.
  Variable sha256 : string -> string.
  Variable hmac : string -> string -> string.
  Variable load : string -> option string.

  Lemma sign_exact c now meth path body ts sg :
    sign sha256 hmac load c now meth path body = Some (ts, sg) <->
    trim_space (c_sig_header c) <> "" /\ trim_space (c_ts_header c) <> "" /\
    exists ref secret,
      select_ref c now = Some ref /\ load ref = Some secret /\ secret <> "" /\
      ts = dec (now / 1000000000) /\
      sg = hex (hmac secret
                  (to_upper meth ++ nl ++ (if (path =? "")%string then "/" else path) ++ nl
                   ++ dec (now / 1000000000) ++ nl ++ hex (sha256 body))%string).
  Proof.
    unfold sign, canonical, unix_seconds, ns_per_s.
    destruct (String.eqb_spec (trim_space (c_sig_header c)) "") as [E1|E1]; cbn [orb].
    { split; [discriminate | intros [H _]; contradiction]. }
    destruct (String.eqb_spec (trim_space (c_ts_header c)) "") as [E2|E2].
    { split; [discriminate | intros (_ & H & _); contradiction]. }
    destruct (select_ref c now) as [ref|].
    2:{ split; [discriminate | intros (_ & _ & r & s & H & _); discriminate]. }
    destruct (load ref) as [secret|] eqn:El.
    2:{ split; [discriminate | intros (_ & _ & r & s & H1 & H2 & _); inversion H1; subst; congruence]. }
    destruct (String.eqb_spec secret "") as [E3|E3].
    { split; [discriminate | intros (_ & _ & r & s & H1 & H2 & H3 & _); inversion H1; subst; congruence]. }
    split.
    - intros H; inversion H; subst. repeat split; auto. exists ref, secret. repeat split; auto.
    - intros (_ & _ & r & s & H1 & H2 & H3 & H4 & H5). inversion H1; subst r.
      assert (s = secret) by congruence. subst. reflexivity.
  Qed.

  Lemma signature_is_hmac c now meth path body ts sg :
    sign sha256 hmac load c now meth path body = Some (ts, sg) ->
    exists ref secret,
      select_ref c now = Some ref /\ load ref = Some secret /\ secret <> "" /\
      ts = dec (now / 1000000000) /\
      sg = hex (hmac secret
                  (to_upper meth ++ nl ++ (if (path =? "")%string then "/" else path) ++ nl
                   ++ dec (now / 1000000000) ++ nl ++ hex (sha256 body))%string).
  Proof. intros H. apply sign_exact in H. tauto. Qed.

  (** Everything that goes out for a signing target carries the two headers with exactly those values. *)
  Lemma sent_is_signed c now meth path body q :
    deliver_signed sha256 hmac load (Some c) now meth path body = Some q ->
    q_method q = meth /\ q_path q = path /\ q_body q = body /\
    exists ts sg, sign sha256 hmac load c now meth path body = Some (ts, sg) /\
                  q_signed q = [(trim_space (c_ts_header c), ts); (trim_space (c_sig_header c), sg)].
  Proof.
    unfold deliver_signed. destruct (sign sha256 hmac load c now meth path body) as [[ts sg]|]; [|discriminate].
    intros H; inversion H; subst; cbn. repeat split; auto. exists ts, sg. split; reflexivity.
  Qed.

  (** No usable secret - no request. *)
  Lemma nothing_sent_without_secret c now meth path body :
    (select_ref c now = None \/
     exists ref, select_ref c now = Some ref /\ (load ref = None \/ load ref = Some "")) ->
    deliver_signed sha256 hmac load (Some c) now meth path body = None.
  Proof.
    intros H. unfold deliver_signed.
    destruct (sign sha256 hmac load c now meth path body) as [[ts sg]|] eqn:Es; [|reflexivity].
    exfalso. apply sign_exact in Es. destruct Es as (_ & _ & ref & secret & H1 & H2 & H3 & _).
    destruct H as [H|[r [Hr [H|H]]]]; congruence.
  Qed.

  Lemma nothing_sent_when_no_version_valid c now meth path body :
    c_versions c <> [] -> (forall w, In w (c_versions c) -> valid_at w now = false) ->
    deliver_signed sha256 hmac load (Some c) now meth path body = None.
  Proof.
    intros Hne Hall. apply nothing_sent_without_secret. left. apply no_valid_version_no_ref; assumption.
  Qed.

End Crypto.

(** * inbound *)

  Lemma iv_valid_at_spec v t :
    iv_valid_at v t = true <->
    iv_from v <> go_zero /\ iv_from v <= t /\ (iv_until v <> go_zero -> t < iv_until v).
  Proof.
    unfold iv_valid_at.
    destruct (Z.eqb_spec (iv_from v) go_zero) as [E|E].
    - split; [discriminate | intros [H _]; contradiction].
    - destruct (Z.ltb_spec t (iv_from v)) as [L|L].
      + split; [discriminate | intros (_ & H & _); lia].
      + destruct (Z.eqb_spec (iv_until v) go_zero) as [U|U].
        * split; [intros _; repeat split; auto; intros; contradiction | reflexivity].
        * rewrite Z.ltb_lt. split; [intros H; repeat split; auto | intros (_ & _ & H); auto].
  Qed.

  Lemma iv_window_edges v :
    iv_from v <> go_zero -> iv_until v <> go_zero -> iv_from v < iv_until v ->
    iv_valid_at v (iv_from v) = true /\ iv_valid_at v (iv_from v - 1) = false /\
    iv_valid_at v (iv_until v - 1) = true /\ iv_valid_at v (iv_until v) = false.
  Proof.
    intros Hz Hu Hlt. repeat split.
    - apply iv_valid_at_spec. repeat split; auto; lia.
    - destruct (iv_valid_at v (iv_from v - 1)) eqn:E; [|reflexivity]. apply iv_valid_at_spec in E. lia.
    - apply iv_valid_at_spec. repeat split; auto; lia.
    - destruct (iv_valid_at v (iv_until v)) eqn:E; [|reflexivity]. apply iv_valid_at_spec in E.
      destruct E as (_ & _ & E). specialize (E Hu). lia.
  Qed.

  Lemma insert_sorted_In x l y : In y (insert_sorted x l) <-> y = x \/ In y l.
  Proof.
    induction l as [|a t IH]; cbn.
    - split; [intros [H|[]]; left; congruence | intros [H|[]]; left; congruence].
    - destruct (iv_less a x); cbn.
      + rewrite IH. split; [intros [H|[H|H]]; auto | intros [H|[H|H]]; auto].
      + split; [intros [H|[H|H]]; auto | intros [H|[H|H]]; auto].
  Qed.

  Lemma sort_versions_In l y : In y (sort_versions l) <-> In y l.
  Proof.
    induction l as [|a t IH]; cbn; [tauto|].
    rewrite insert_sorted_In, IH. split; intros [H|H]; auto.
  Qed.

  Lemma set_valid_at_In vs t v : In v (set_valid_at vs t) <-> In v vs /\ iv_valid_at v t = true.
  Proof. unfold set_valid_at. rewrite sort_versions_In, filter_In. reflexivity. Qed.

  (** Set.ValidAt returns the versions newest-first (the order SigningAt relies on). *)
  Lemma insert_sorted_length x l : length (insert_sorted x l) = S (length l).
  Proof. induction l as [|a t IH]; cbn; [reflexivity|]. destruct (iv_less a x); cbn; auto. Qed.

  (** SelectSecrets hands Verify exactly: the inline secrets and the values of the versions valid at [t]. *)
  Lemma inbound_exact vs inline t k :
    In k (select_secrets vs inline t) <->
    In k inline \/ exists v, In v vs /\ iv_valid_at v t = true /\ iv_value v = k.
  Proof.
    unfold select_secrets. rewrite in_app_iff, in_map_iff. split.
    - intros [[v [Hv Hin]]|H]; [right | left; assumption].
      apply set_valid_at_In in Hin. exists v. tauto.
    - intros [H|[v (H1 & H2 & H3)]]; [right; assumption | left].
      exists v. split; [assumption | apply set_valid_at_In; tauto].
  Qed.

Section Inbound.
  Variable hmac : string -> string -> string.

  (** A signature is accepted iff it is the HMAC of the message under a non-empty secret that is
      inline or the value of a version valid at the signed timestamp. *)
  Lemma inbound_accept_exact vs inline ts msg sg :
    vs <> [] ->
    (accepts hmac (secrets_for vs inline ts) msg sg = true <->
     exists k, k <> "" /\ hmac k msg = sg /\
       (In k inline \/ exists v, In v vs /\ iv_valid_at v (ts * 1000000000) = true /\ iv_value v = k)).
  Proof.
    intros Hne. unfold accepts, secrets_for, ns_per_s. destruct vs as [|v0 tl]; [congruence|].
    rewrite existsb_exists. split.
    - intros [k [Hin Hk]]. apply andb_true_iff in Hk. destruct Hk as [Hk1 Hk2].
      apply negb_true_iff, String.eqb_neq in Hk1. apply String.eqb_eq in Hk2.
      exists k. repeat split; auto. apply inbound_exact. assumption.
    - intros [k (Hk1 & Hk2 & Hk3)]. exists k. split; [apply inbound_exact; assumption|].
      apply andb_true_iff. split; [apply negb_true_iff, String.eqb_neq; assumption | apply String.eqb_eq; assumption].
  Qed.

  Lemma inbound_inline_only inline ts msg sg :
    accepts hmac (secrets_for [] inline ts) msg sg = true <->
    exists k, k <> "" /\ hmac k msg = sg /\ In k inline.
  Proof.
    unfold accepts, secrets_for. rewrite existsb_exists. split.
    - intros [k [Hin Hk]]. apply andb_true_iff in Hk. destruct Hk as [Hk1 Hk2].
      apply negb_true_iff, String.eqb_neq in Hk1. apply String.eqb_eq in Hk2. exists k. auto.
    - intros [k (Hk1 & Hk2 & Hk3)]. exists k. split; [assumption|].
      apply andb_true_iff. split; [apply negb_true_iff, String.eqb_neq; assumption | apply String.eqb_eq; assumption].
  Qed.
End Inbound.

(** * Non-vacuity *)

Definition mkv (id : string) (from : Z) (until : option Z) : version :=
  {| v_id := id; v_ref := "raw:" ++ id; v_from := from;
     v_has_until := match until with Some _ => true | None => false end;
     v_until := match until with Some u => u | None => 0 end |}.

Definition ex_versions : list version :=
  [mkv "k2" 2000 (Some 5000); mkv "k1" 1000 (Some 3000); mkv "k3" 2000 None; mkv "k0" 1000 (Some 2000)].

Example ex_nodup : NoDup (map v_id ex_versions).
Proof. repeat constructor; cbn; intuition discriminate. Qed.

Example ex_select :
  map (fun t => option_map v_id (select Newest ex_versions t)) [999; 1000; 1999; 2000; 2999; 3000; 4999; 5000]
    = [None; Some "k0"; Some "k0"; Some "k2"; Some "k2"; Some "k2"; Some "k2"; Some "k3"] /\
  map (fun t => option_map v_id (select Oldest ex_versions t)) [999; 1000; 1999; 2000; 2999; 3000; 4999; 5000]
    = [None; Some "k0"; Some "k0"; Some "k1"; Some "k1"; Some "k2"; Some "k2"; Some "k3"].
Proof. vm_compute. split; reflexivity. Qed.

Example ex_sign :
  let c := {| c_secret_ref := ""; c_versions := ex_versions; c_mode := Some Newest;
              c_sig_header := "X-Hookaido-Signature"; c_ts_header := "X-Hookaido-Timestamp" |} in
  let load := fun r => Some ("S-" ++ r)%string in
  let sha := fun b => ("h(" ++ b ++ ")")%string in
  let mac := fun k m => (k ++ "|" ++ m)%string in
  sign sha mac load c 2500 "post" "" "{}" <> None /\
  sign sha mac load c 500 "post" "" "{}" = None.
Proof. vm_compute. split; [discriminate | reflexivity]. Qed.
