(** The ties of the Postgres store to the SQLite store on the generated skeletons (Gen/PgTie.v, regenerated
    from internal/queue/sqlite.go and postgres.go on every run), by evaluation.

    [tie name sq pg]: the normalised SQLite skeleton [sq] (helpers of [sqlite_inlined] read in place), after
    exactly the listed differences of Model/PgAllowedDiffs.v that name this tie (each of them must occur), is
    the normalised Postgres skeleton [pg], token for token.  For the functions with no listed difference the
    plain statement [norm_pg pg = norm_sqlite sq] is proved as well. *)
From Coq Require Import String Ascii List Bool.
From HK Require Import Gen.PgTie Model.SqlNorm Model.PgAllowedDiffs.
Import ListNotations.
Local Open Scope string_scope.

Definition tie (name : string) (sq pg : list string) : Prop :=
  sqlite_side sqlite_skeletons name sq = (pg_side pg, []).

Ltac tie_tac := vm_compute; reflexivity.

(** queue.Store *)
Lemma tie_Enqueue : tie "Enqueue" sqlite_Enqueue pg_Enqueue. Proof. tie_tac. Qed.
Lemma tie_Dequeue : tie "Dequeue" sqlite_Dequeue pg_Dequeue. Proof. tie_tac. Qed.
Lemma tie_Ack : tie "Ack" sqlite_Ack pg_Ack. Proof. tie_tac. Qed.
Lemma tie_Nack : tie "Nack" sqlite_Nack pg_Nack. Proof. tie_tac. Qed.
Lemma tie_Extend : tie "Extend" sqlite_Extend pg_Extend. Proof. tie_tac. Qed.
Lemma tie_MarkDead : tie "MarkDead" sqlite_MarkDead pg_MarkDead. Proof. tie_tac. Qed.
Lemma tie_ListDead : tie "ListDead" sqlite_ListDead pg_ListDead. Proof. tie_tac. Qed.
Lemma tie_RequeueDead : tie "RequeueDead" sqlite_RequeueDead pg_RequeueDead. Proof. tie_tac. Qed.
Lemma tie_DeleteDead : tie "DeleteDead" sqlite_DeleteDead pg_DeleteDead. Proof. tie_tac. Qed.
Lemma tie_ListMessages : tie "ListMessages" sqlite_ListMessages pg_ListMessages. Proof. tie_tac. Qed.
Lemma tie_LookupMessages : tie "LookupMessages" sqlite_LookupMessages pg_LookupMessages. Proof. tie_tac. Qed.
Lemma tie_CancelMessages : tie "CancelMessages" sqlite_CancelMessages pg_CancelMessages. Proof. tie_tac. Qed.
Lemma tie_RequeueMessages : tie "RequeueMessages" sqlite_RequeueMessages pg_RequeueMessages. Proof. tie_tac. Qed.
Lemma tie_ResumeMessages : tie "ResumeMessages" sqlite_ResumeMessages pg_ResumeMessages. Proof. tie_tac. Qed.
Lemma tie_CancelMessagesByFilter : tie "CancelMessagesByFilter" sqlite_CancelMessagesByFilter pg_CancelMessagesByFilter. Proof. tie_tac. Qed.
Lemma tie_RequeueMessagesByFilter : tie "RequeueMessagesByFilter" sqlite_RequeueMessagesByFilter pg_RequeueMessagesByFilter. Proof. tie_tac. Qed.
Lemma tie_ResumeMessagesByFilter : tie "ResumeMessagesByFilter" sqlite_ResumeMessagesByFilter pg_ResumeMessagesByFilter. Proof. tie_tac. Qed.
Lemma tie_Stats : tie "Stats" sqlite_Stats pg_Stats. Proof. tie_tac. Qed.
Lemma tie_RecordAttempt : tie "RecordAttempt" sqlite_RecordAttempt pg_RecordAttempt. Proof. tie_tac. Qed.
Lemma tie_ListAttempts : tie "ListAttempts" sqlite_ListAttempts pg_ListAttempts. Proof. tie_tac. Qed.
(** queue.LeaseBatchStore, queue.BacklogTrendStore *)
Lemma tie_AckBatch : tie "AckBatch" sqlite_AckBatch pg_AckBatch. Proof. tie_tac. Qed.
Lemma tie_NackBatch : tie "NackBatch" sqlite_NackBatch pg_NackBatch. Proof. tie_tac. Qed.
Lemma tie_MarkDeadBatch : tie "MarkDeadBatch" sqlite_MarkDeadBatch pg_MarkDeadBatch. Proof. tie_tac. Qed.
Lemma tie_CaptureBacklogTrendSample : tie "CaptureBacklogTrendSample" sqlite_CaptureBacklogTrendSample pg_CaptureBacklogTrendSample. Proof. tie_tac. Qed.
Lemma tie_ListBacklogTrend : tie "ListBacklogTrend" sqlite_ListBacklogTrend pg_ListBacklogTrend. Proof. tie_tac. Qed.
(** helpers *)
Lemma tie_dequeueOnce : tie "dequeueOnce" sqlite_dequeueOnce pg_dequeueOnce. Proof. tie_tac. Qed.
Lemma tie_withLease : tie "withLease" sqlite_withLeaseMutation pg_withLease. Proof. tie_tac. Qed.
Lemma tie_requeueExpiredLeases : tie "requeueExpiredLeases" sqlite_requeueExpiredLeases pg_requeueExpiredLeasesTx. Proof. tie_tac. Qed.
Lemma tie_requeueLease : tie "requeueLease" sqlite_requeueLease pg_requeueLeaseTx. Proof. tie_tac. Qed.
Lemma tie_maybePrune : tie "maybePrune" sqlite_maybePrune pg_maybePrune. Proof. tie_tac. Qed.
Lemma tie_selectMessageIDsByFilter : tie "selectMessageIDsByFilter" sqlite_selectMessageIDsByFilter pg_selectMessageIDsByFilter. Proof. tie_tac. Qed.
Lemma tie_dropOldestQueued : tie "dropOldestQueued" sqlite_dropOldestQueued pg_dropOldestQueued. Proof. tie_tac. Qed.
Lemma tie_activeCount : tie "activeCount" sqlite_activeDepthCountTx pg_activeCount. Proof. tie_tac. Qed.
Lemma tie_mapInsertError : tie "mapInsertError" sqlite_mapQueueInsertError pg_mapPostgresInsertError. Proof. tie_tac. Qed.
(** construction and options *)
Lemma tie_NewStore : tie "NewStore" sqlite_NewSQLiteStore pg_NewPostgresStore. Proof. tie_tac. Qed.
Lemma tie_WithNowFunc : tie "WithNowFunc" sqlite_WithSQLiteNowFunc pg_WithPostgresNowFunc. Proof. tie_tac. Qed.
Lemma tie_WithPollInterval : tie "WithPollInterval" sqlite_WithSQLitePollInterval pg_WithPostgresPollInterval. Proof. tie_tac. Qed.
Lemma tie_WithQueueLimits : tie "WithQueueLimits" sqlite_WithSQLiteQueueLimits pg_WithPostgresQueueLimits. Proof. tie_tac. Qed.
Lemma tie_WithRetention : tie "WithRetention" sqlite_WithSQLiteRetention pg_WithPostgresRetention. Proof. tie_tac. Qed.
Lemma tie_WithDeliveredRetention : tie "WithDeliveredRetention" sqlite_WithSQLiteDeliveredRetention pg_WithPostgresDeliveredRetention. Proof. tie_tac. Qed.
Lemma tie_WithDLQRetention : tie "WithDLQRetention" sqlite_WithSQLiteDLQRetention pg_WithPostgresDLQRetention. Proof. tie_tac. Qed.

(** the functions that need no listed difference and no inlining: plain equality of normal forms *)
Lemma exact_LookupMessages : norm_pg pg_LookupMessages = norm_sqlite sqlite_LookupMessages. Proof. tie_tac. Qed.
Lemma exact_CancelMessages : norm_pg pg_CancelMessages = norm_sqlite sqlite_CancelMessages. Proof. tie_tac. Qed.
Lemma exact_RequeueMessages : norm_pg pg_RequeueMessages = norm_sqlite sqlite_RequeueMessages. Proof. tie_tac. Qed.
Lemma exact_ResumeMessages : norm_pg pg_ResumeMessages = norm_sqlite sqlite_ResumeMessages. Proof. tie_tac. Qed.
Lemma exact_CancelMessagesByFilter : norm_pg pg_CancelMessagesByFilter = norm_sqlite sqlite_CancelMessagesByFilter. Proof. tie_tac. Qed.
Lemma exact_RequeueMessagesByFilter : norm_pg pg_RequeueMessagesByFilter = norm_sqlite sqlite_RequeueMessagesByFilter. Proof. tie_tac. Qed.
Lemma exact_ResumeMessagesByFilter : norm_pg pg_ResumeMessagesByFilter = norm_sqlite sqlite_ResumeMessagesByFilter. Proof. tie_tac. Qed.
Lemma exact_requeueExpiredLeases : norm_pg pg_requeueExpiredLeasesTx = norm_sqlite sqlite_requeueExpiredLeases. Proof. tie_tac. Qed.
Lemma exact_WithNowFunc : norm_pg pg_WithPostgresNowFunc = norm_sqlite sqlite_WithSQLiteNowFunc. Proof. tie_tac. Qed.
Lemma exact_WithPollInterval : norm_pg pg_WithPostgresPollInterval = norm_sqlite sqlite_WithSQLitePollInterval. Proof. tie_tac. Qed.
Lemma exact_WithQueueLimits : norm_pg pg_WithPostgresQueueLimits = norm_sqlite sqlite_WithSQLiteQueueLimits. Proof. tie_tac. Qed.
Lemma exact_WithRetention : norm_pg pg_WithPostgresRetention = norm_sqlite sqlite_WithSQLiteRetention. Proof. tie_tac. Qed.
Lemma exact_WithDeliveredRetention : norm_pg pg_WithPostgresDeliveredRetention = norm_sqlite sqlite_WithSQLiteDeliveredRetention. Proof. tie_tac. Qed.
Lemma exact_WithDLQRetention : norm_pg pg_WithPostgresDLQRetention = norm_sqlite sqlite_WithSQLiteDLQRetention. Proof. tie_tac. Qed.

(* ------------------------------------------------------------------------- *)
(** inventory: nothing with a database statement, a transaction or a sentinel error is outside the table *)

Definition covered (names only tiednames : list string) : bool :=
  forallb (fun f => mem f tiednames || mem f only) names.

Lemma sqlite_functions_covered :
  covered (map fst sqlite_skeletons) (map fst sqlite_only) (map (fun t => snd (fst t)) tied) = true.
Proof. tie_tac. Qed.

Lemma pg_functions_covered :
  covered (map fst pg_skeletons) (map fst pg_only) (map snd tied) = true.
Proof. tie_tac. Qed.

(** every function named in the table exists (a removed or renamed function is noticed) *)
Lemma tied_functions_exist :
  forallb (fun t => match t with (_, a, b) =>
     match assoc a sqlite_skeletons, assoc b pg_skeletons with Some _, Some _ => true | _, _ => false end end) tied = true.
Proof. tie_tac. Qed.

Lemma untied_functions_exist :
  forallb (fun p => match assoc (fst p) sqlite_skeletons with Some _ => true | None => false end) sqlite_only
  && forallb (fun p => match assoc (fst p) pg_skeletons with Some _ => true | None => false end) pg_only = true.
Proof. tie_tac. Qed.

(** the exported method sets: Postgres lacks exactly EnqueueBatch (queue.BatchEnqueuer) *)
Lemma methods_same : pg_methods = filter (fun m => negb (m =? "EnqueueBatch")) sqlite_methods.
Proof. tie_tac. Qed.

(** both files mention the same sentinel errors *)
Lemma errors_same : pg_errors_used = sqlite_errors_used.
Proof. tie_tac. Qed.

(** the same tables with the same columns; SQLite has the trigger-maintained queue_counters in addition *)
Lemma schema_columns_same :
  pg_columns = filter (fun c => negb (String.prefix "queue_counters." c)) sqlite_columns.
Proof. tie_tac. Qed.

(** every column name is a token the normaliser never changes *)
Fixpoint after_dot (s : string) : string :=
  match s with
  | EmptyString => EmptyString
  | String c t => if Ascii.eqb c "."%char then t else after_dot t
  end.

Lemma columns_are_kept :
  forallb (fun c => keep (after_dot c)) (sqlite_columns ++ pg_columns) = true.
Proof. tie_tac. Qed.

(** the limits that postgres.go names are the literals sqlite.go writes inline (the clamps themselves are
    compared inside the ties of Dequeue, ListDead, ListMessages, ListAttempts, ListBacklogTrend,
    selectMessageIDsByFilter, with the constants resolved) *)
Lemma pg_limits : pg_consts = ["postgresBacklogMaxLimit=20000"; "postgresMaxDequeueBatch=100"; "postgresMaxListLimit=1000"].
Proof. tie_tac. Qed.

(** the three SQLite transaction helpers that the normaliser reads as begin / commit / rollback execute
    exactly these statements *)
Lemma sqlite_tx_helpers_pinned :
  stmts_of sqlite_beginImmediateWithRetry = [["BEGIN"; "IMMEDIATE"; ";"]]
  /\ stmts_of sqlite_commitTx = [["COMMIT"; ";"]]
  /\ stmts_of sqlite_rollbackTx = [["ROLLBACK"; ";"]].
Proof. repeat split; tie_tac. Qed.

(** the two Postgres wrappers that are read through at their call sites do nothing but call their closure *)
Lemma pg_wrappers_pinned :
  pg_runStoreOperation = ["#callparam:fn"] /\ pg_runPostgresStoreOperationResult = ["#callparam:fn"].
Proof. split; tie_tac. Qed.

(** the table of listed differences is well formed: no empty SQLite fragment (a fragment is anchored), every
    entry names only ties of the table *)
Lemma diffs_well_formed :
  forallb (fun d => negb (Nat.eqb (length (d_sqlite d)) 0)
                    && forallb (fun n => mem n (map (fun t => fst (fst t)) tied)) (d_in d)
                    && negb (Nat.eqb (length (d_in d)) 0)) allowed_diffs = true.
Proof. tie_tac. Qed.

(** the entries that record an OBSERVABLE difference between the two stores (reported, not excused) *)
Lemma divergent_entries :
  map d_id (filter (fun d => match d_kind d with Divergent => true | Structural => false end) allowed_diffs) =
  ["enqueue-normalisation"; "enqueue-depth-limit"; "enqueue-insert-shape"; "mark-dead-reason-1"; "mark-dead-reason-2";
   "list-without-prune"; "list-include-2"; "stats-bucket-ages-1"; "stats-bucket-ages-2"; "dequeue-select-and-lease";
   "prune-queued-boundary"; "prune-delivered-column";
   "prune-dead-boundary"].
Proof. tie_tac. Qed.
