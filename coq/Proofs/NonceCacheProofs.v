From Coq Require Import ZArith List Bool NArith Lia.
From HK Require Import Model.NonceCache.
Import ListNotations.
Open Scope Z_scope.

Lemma beqb_refl a : beqb a a = true.
Proof. unfold beqb. destruct (bytes_eq_dec a a); congruence. Qed.

Lemma beqb_eq a b : beqb a b = true <-> a = b.
Proof. unfold beqb. destruct (bytes_eq_dec a b); split; congruence. Qed.

Lemma beqb_neq a b : beqb a b = false <-> a <> b.
Proof. unfold beqb. destruct (bytes_eq_dec a b); split; congruence. Qed.

Lemma lookup_filter_keep (p : bytes * Z -> bool) n c e :
  lookup n c = Some e -> p (n, e) = true ->
  (forall k v, beqb n k = true -> p (k, v) = p (n, v)) ->
  lookup n (filter p c) = Some e.
Proof.
  intros H Hp Hk. induction c as [|[k v] tl IH]; simpl in *; [discriminate|].
  destruct (beqb n k) eqn:E.
  - inversion H; subst. rewrite (Hk k e E), Hp. simpl. rewrite E. reflexivity.
  - destruct (p (k, v)); simpl; [rewrite E|]; apply IH; exact H.
Qed.

Lemma lookup_cleanup_keep now n c e :
  lookup n c = Some e -> now <= e -> lookup n (cleanup now c) = Some e.
Proof.
  intros H Hle. unfold cleanup. apply lookup_filter_keep; auto.
  simpl. destruct (now >? e) eqn:G; [apply Z.gtb_lt in G; lia | reflexivity].
Qed.

Lemma lookup_cleanup_some now n c e :
  lookup n (cleanup now c) = Some e -> now <= e.
Proof.
  induction c as [|[k v] tl IH]; simpl; [discriminate|].
  destruct (now >? v) eqn:G; simpl.
  - exact IH.
  - destruct (beqb n k).
    + intros H. inversion H; subst. destruct (Z.gtb_spec now e); [discriminate | lia].
    + exact IH.
Qed.

Lemma lookup_remove_other n k c : n <> k -> lookup n (remove_key k c) = lookup n c.
Proof.
  intros Hne. induction c as [|[k' v] tl IH]; simpl; [reflexivity|].
  destruct (beqb k k') eqn:E; simpl.
  - apply beqb_eq in E. subst k'. destruct (beqb n k) eqn:E2; [apply beqb_eq in E2; congruence | exact IH].
  - destruct (beqb n k'); [reflexivity | exact IH].
Qed.

Lemma lookup_remove_same k c : lookup k (remove_key k c) = None.
Proof.
  induction c as [|[k' v] tl IH]; simpl; [reflexivity|].
  destruct (beqb k k') eqn:E; simpl; [exact IH | rewrite E; exact IH].
Qed.

Lemma lookup_set_same k e c : lookup k (set_key k e c) = Some e.
Proof. unfold set_key. simpl. rewrite beqb_refl. reflexivity. Qed.

Lemma lookup_set_other n k e c : n <> k -> lookup n (set_key k e c) = lookup n c.
Proof.
  intros Hne. unfold set_key. simpl.
  destruct (beqb n k) eqn:E; [apply beqb_eq in E; congruence | apply lookup_remove_other; exact Hne].
Qed.

Lemma lookup_extend n by_ c : lookup n (extend by_ c) = option_map (fun e => e + by_) (lookup n c).
Proof.
  induction c as [|[k v] tl IH]; simpl; [reflexivity|].
  destruct (beqb n k); [reflexivity | exact IH].
Qed.

(** ** seenOnceLocked *)

(** A remembered nonce whose expiry has not passed stays remembered with the same expiry, and a
    request carrying it is refused. *)
Lemma seen_keeps n e n' x now c :
  lookup n c = Some e -> now <= e ->
  lookup n (snd (seen_once_locked n' x now c)) = Some e /\
  (n' = n -> fst (seen_once_locked n' x now c) = false).
Proof.
  intros H Hle. unfold seen_once_locked.
  destruct n' as [|b tl].
  - simpl. split; [exact H | reflexivity].
  - pose proof (lookup_cleanup_keep now n c e H Hle) as Hc.
    destruct (lookup (b :: tl) (cleanup now c)) as [e'|] eqn:L.
    + pose proof (lookup_cleanup_some _ _ _ _ L) as Hge.
      assert (G : (now >? e') = false) by (destruct (Z.gtb_spec now e'); [lia | reflexivity]).
      rewrite G. cbn [negb fst snd]. split; [exact Hc | reflexivity].
    + cbn [fst snd]. split.
      * destruct (bytes_eq_dec n (b :: tl)) as [->|Hne]; [congruence|].
        rewrite lookup_set_other by exact Hne. exact Hc.
      * intros Heq. subst n. congruence.
Qed.

(** When the nonce is admitted it is recorded with exactly the expiry passed in. *)
Lemma seen_records n x now c :
  fst (seen_once_locked n x now c) = true ->
  lookup n (snd (seen_once_locked n x now c)) = Some x.
Proof.
  unfold seen_once_locked. destruct n as [|b tl]; [simpl; discriminate|].
  destruct (lookup (b :: tl) (cleanup now c)) as [e'|] eqn:L.
  - destruct (negb (now >? e')); cbn [fst snd]; [discriminate|]. intros _. apply lookup_set_same.
  - cbn [fst snd]. intros _. apply lookup_set_same.
Qed.

(** An admitted nonce was not remembered with a live expiry. *)
Lemma seen_true_not_live n x now c e :
  fst (seen_once_locked n x now c) = true -> lookup n c = Some e -> e < now.
Proof.
  intros Ht Hl. destruct (Z.lt_ge_cases e now) as [|Hge]; [assumption|].
  destruct (seen_keeps n e n x now c Hl Hge) as [_ Hf]. rewrite Hf in Ht by reflexivity. discriminate.
Qed.

Lemma seen_empty_nonce x now c : seen_once_locked [] x now c = (false, c).
Proof. reflexivity. Qed.

(** ** cache_admit *)
Lemma admit_keeps n e n' t tol now c :
  lookup n c = Some e -> now <= e ->
  lookup n (snd (cache_admit n' t tol now c)) = Some e /\
  (n' = n -> fst (cache_admit n' t tol now c) = false).
Proof.
  intros H Hle. unfold cache_admit.
  destruct ((0 <? tol) && ((now - t <? - tol) || (tol <? now - t))).
  - simpl. split; [exact H | reflexivity].
  - apply seen_keeps; assumption.
Qed.

Lemma admit_true n t tol now c :
  fst (cache_admit n t tol now c) = true ->
  n <> [] /\ (0 < tol -> - tol <= now - t <= tol) /\
  lookup n (snd (cache_admit n t tol now c)) = Some (t + tol) /\
  (forall e, lookup n c = Some e -> e < now).
Proof.
  unfold cache_admit.
  destruct ((0 <? tol) && ((now - t <? - tol) || (tol <? now - t))) eqn:G; simpl; [discriminate|].
  intros Ht. repeat split.
  - intros ->. rewrite seen_empty_nonce in Ht. discriminate.
  - apply andb_false_iff in G. destruct G as [G|G]; [apply Z.ltb_ge in G; lia|].
    apply orb_false_iff in G. destruct G as [G1 G2]. apply Z.ltb_ge in G1. lia.
  - apply andb_false_iff in G. destruct G as [G|G]; [apply Z.ltb_ge in G; lia|].
    apply orb_false_iff in G. destruct G as [G1 G2]. apply Z.ltb_ge in G2. lia.
  - apply seen_records. exact Ht.
  - intros e He. eapply seen_true_not_live; eauto.
Qed.

(** the cache after a refused tolerance test is untouched *)
Lemma admit_out_of_window n t tol now c :
  0 < tol -> (now - t < - tol \/ tol < now - t) -> cache_admit n t tol now c = (false, c).
Proof.
  intros Hp Hw. unfold cache_admit.
  assert (G : (0 <? tol) && ((now - t <? - tol) || (tol <? now - t)) = true).
  { apply andb_true_iff. split; [apply Z.ltb_lt; lia|]. apply orb_true_iff.
    destruct Hw; [left | right]; apply Z.ltb_lt; lia. }
  rewrite G. reflexivity.
Qed.

(** ** InheritNonces *)
Lemma inherit_keeps n e ptol c new_tol t1 :
  lookup n c = Some e -> t1 + ptol <= e ->
  exists e', lookup n (inherit_nonces new_tol (Some (ptol, c))) = Some e' /\ t1 + new_tol <= e'.
Proof.
  intros H Hle. unfold inherit_nonces.
  destruct (new_tol - ptol >? 0) eqn:G.
  - apply Z.gtb_lt in G. exists (e + (new_tol - ptol)). rewrite lookup_extend, H. simpl. split; [reflexivity | lia].
  - exists e. split; [exact H|]. destruct (Z.gtb_spec (new_tol - ptol) 0); [discriminate | lia].
Qed.
