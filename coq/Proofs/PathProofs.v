(** Lemmas about Model/PathMatch.v (MatchPath) and Model/PathClean.v (path.Clean). *)
From Coq Require Import List NArith Bool Lia Arith.
From HK Require Import Model.RBytes Model.PathClean Model.PathMatch Proofs.RBytesProofs.
Import ListNotations.
Open Scope N_scope.

(** ---- MatchPath *)
Lemma match_path_spec : forall p r,
  match_path p r = true <->
  r <> [] /\ (r = [47] \/ p = r \/ exists t, p = r ++ 47 :: t).
Proof.
  intros p r. unfold match_path.
  destruct (is_empty r) eqn:Er.
  { apply is_empty_nil in Er. subst. split; [discriminate | intros [H _]; contradiction]. }
  apply is_empty_false in Er.
  destruct (beq r [47]) eqn:E1.
  { apply beq_eq in E1. split; [intros _; split; [exact Er | left; exact E1] | reflexivity]. }
  apply beq_neq in E1.
  destruct (beq p r) eqn:E2.
  { apply beq_eq in E2. split; [intros _; split; [exact Er | right; left; exact E2] | reflexivity]. }
  apply beq_neq in E2.
  split.
  - intro H. apply andb_true_iff in H. destruct H as [H H3]. apply andb_true_iff in H. destruct H as [H1 H2].
    apply prefixb_spec in H1. destruct H1 as [t Ht]. subst p.
    rewrite app_nth2 in H3 by lia. rewrite Nat.sub_diag in H3.
    destruct t as [|x t]; [simpl in H3; discriminate|].
    simpl in H3. apply N.eqb_eq in H3. subst x.
    split; [exact Er | right; right; exists t; reflexivity].
  - intros [_ [H | [H | [t H]]]]; [contradiction | contradiction |].
    subst p. rewrite prefixb_app. simpl.
    rewrite app_nth2 by lia. rewrite Nat.sub_diag. simpl.
    rewrite app_length. simpl.
    replace (Nat.ltb (List.length r) (List.length r + S (List.length t))) with true
      by (symmetry; apply Nat.ltb_lt; lia).
    reflexivity.
Qed.

(** the root route matches every path; no route matches through the empty route path *)
Lemma match_path_root : forall p, match_path p [47] = true.
Proof. intro p. apply match_path_spec. split; [discriminate | left; reflexivity]. Qed.

(** a plain string prefix that does not end at a segment boundary does not match *)
Lemma match_path_needs_boundary : forall r c t,
  r <> [47] -> c <> 47 -> match_path (r ++ c :: t) r = false.
Proof.
  intros r c t Hr Hc. destruct (match_path (r ++ c :: t) r) eqn:E; [|reflexivity].
  apply match_path_spec in E. destruct E as [Hne [H | [H | [t' H]]]].
  - contradiction.
  - exfalso. apply (f_equal (@List.length N)) in H. rewrite app_length in H. simpl in H. lia.
  - apply app_inv_head in H. inversion H. contradiction.
Qed.

(** ---- path.Clean *)
Lemma dot_no_slash : ~ In slash dot.
Proof. unfold slash, dot. intros [H|[]]. discriminate. Qed.
Lemma dotdot_no_slash : ~ In slash dotdot.
Proof. unfold slash, dotdot. intros [H|[H|[]]]; discriminate. Qed.

Lemma clean_step_real : forall rooted st seg,
  good_seg seg -> clean_step rooted st seg = seg :: st.
Proof.
  intros rooted st seg [H1 [H2 [H3 _]]]. unfold clean_step.
  apply is_empty_false in H1. apply beq_neq in H2. apply beq_neq in H3.
  rewrite H1, H2, H3. reflexivity.
Qed.

(** rooted: every element on the stack is good *)
Lemma clean_step_rooted_inv : forall st seg,
  Forall good_seg st -> ~ In slash seg -> Forall good_seg (clean_step true st seg).
Proof.
  intros st seg Hst Hs. unfold clean_step.
  destruct (is_empty seg) eqn:E1; [exact Hst|].
  destruct (beq seg dot) eqn:E2; [exact Hst|]. simpl.
  destruct (beq seg dotdot) eqn:E3.
  - destruct st as [|top rest]; [exact Hst|].
    destruct (negb (beq top dotdot)); [inversion Hst; assumption | exact Hst].
  - constructor; [|exact Hst].
    apply is_empty_false in E1. apply beq_neq in E2. apply beq_neq in E3.
    repeat split; assumption.
Qed.

Lemma fold_rooted_inv : forall segs st,
  Forall good_seg st -> (forall s, In s segs -> ~ In slash s) ->
  Forall good_seg (fold_left (clean_step true) segs st).
Proof.
  induction segs as [|s segs IH]; intros st Hst Hs; simpl; [exact Hst|].
  apply IH.
  - apply clean_step_rooted_inv; [exact Hst | apply Hs; left; reflexivity].
  - intros s' H'. apply Hs. right. exact H'.
Qed.

Lemma clean_stack_rooted_good : forall p, Forall good_seg (clean_stack true p).
Proof.
  intro p. unfold clean_stack. apply fold_rooted_inv; [constructor|].
  intros s H. eapply split_on_no_sep. exact H.
Qed.

Lemma Forall_rev' : forall (A : Type) (P : A -> Prop) l, Forall P l -> Forall P (rev l).
Proof.
  intros A P l H. apply Forall_forall. intros x Hx. apply in_rev in Hx.
  rewrite Forall_forall in H. apply H. exact Hx.
Qed.

(** the cleaned form of a rooted path: "/" followed by good elements joined by "/" *)
Lemma clean_rooted_shape : forall p, is_rooted p = true ->
  exists segs, clean p = slash :: join [slash] segs /\ Forall good_seg segs.
Proof.
  intros p H. destruct p as [|c p]; [discriminate|].
  exists (rev (clean_stack true (c :: p))). split.
  - unfold clean. rewrite H. reflexivity.
  - apply Forall_rev'. apply clean_stack_rooted_good.
Qed.

Lemma clean_rooted : forall p, is_rooted p = true -> is_rooted (clean p) = true.
Proof.
  intros p H. destruct (clean_rooted_shape p H) as [segs [E _]]. rewrite E. reflexivity.
Qed.

Lemma fold_push_good : forall rooted segs st,
  Forall good_seg segs -> fold_left (clean_step rooted) segs st = rev segs ++ st.
Proof.
  intros rooted. induction segs as [|s segs IH]; intros st H; simpl; [reflexivity|].
  inversion H; subst. rewrite clean_step_real by assumption. rewrite IH by assumption.
  rewrite <- app_assoc. reflexivity.
Qed.

Lemma fold_skip_empty : forall segs, Forall good_seg segs ->
  fold_left (clean_step true) ([] :: segs) [] = rev segs.
Proof.
  intros segs H.
  change (fold_left (clean_step true) ([] :: segs) []) with (fold_left (clean_step true) segs []).
  rewrite fold_push_good by assumption. apply app_nil_r.
Qed.

Lemma clean_of_shape : forall segs, Forall good_seg segs ->
  clean (slash :: join [slash] segs) = slash :: join [slash] segs.
Proof.
  intros segs H. unfold clean.
  change (is_rooted (slash :: join [slash] segs)) with (slash =? slash). rewrite N.eqb_refl.
  f_equal. f_equal. unfold clean_stack.
  change (split_on slash (slash :: join [slash] segs)) with
    (if slash =? slash then [] :: split_on slash (join [slash] segs)
     else match split_on slash (join [slash] segs) with h :: r => (slash :: h) :: r | [] => [[slash]] end).
  rewrite N.eqb_refl.
  destruct segs as [|a l].
  - reflexivity.
  - rewrite split_join.
    + rewrite fold_skip_empty by exact H. apply rev_involutive.
    + discriminate.
    + intros s Hs. rewrite Forall_forall in H. destruct (H s Hs) as [_ [_ [_ Hn]]]. exact Hn.
Qed.

(** not rooted: protected ".." elements at the bottom, good elements above *)
Inductive nr : list bytes -> Prop :=
| nr_dd : forall k, nr (repeat dotdot k)
| nr_push : forall s st, good_seg s -> nr st -> nr (s :: st).

Lemma clean_step_nr_inv : forall st seg, nr st -> ~ In slash seg -> nr (clean_step false st seg).
Proof.
  intros st seg Hst Hs. unfold clean_step.
  destruct (is_empty seg) eqn:E1; [exact Hst|].
  destruct (beq seg dot) eqn:E2; [exact Hst|]. simpl.
  destruct (beq seg dotdot) eqn:E3.
  - destruct st as [|top rest].
    + exact (nr_dd 1).
    + destruct (beq top dotdot) eqn:Et; simpl.
      * apply beq_eq in Et. subst top.
        inversion Hst as [k Hk | s st' Hg Hn]; subst.
        -- destruct k; [discriminate|]. simpl in Hk. inversion Hk; subst.
           exact (nr_dd (S (S k))).
        -- destruct Hg as [_ [_ [Hg _]]]. contradiction.
      * apply beq_neq in Et.
        inversion Hst as [k Hk | s st' Hg Hn]; subst.
        -- destruct k; [discriminate|]. simpl in Hk. inversion Hk; subst. contradiction.
        -- exact Hn.
  - apply nr_push; [|exact Hst].
    apply is_empty_false in E1. apply beq_neq in E2. apply beq_neq in E3.
    repeat split; assumption.
Qed.

Lemma fold_nr_inv : forall segs st, nr st -> (forall s, In s segs -> ~ In slash s) ->
  nr (fold_left (clean_step false) segs st).
Proof.
  induction segs as [|s segs IH]; intros st Hst Hs; simpl; [exact Hst|].
  apply IH.
  - apply clean_step_nr_inv; [exact Hst | apply Hs; left; reflexivity].
  - intros s' H'. apply Hs. right. exact H'.
Qed.

Lemma clean_stack_nr : forall p, nr (clean_stack false p).
Proof.
  intro p. unfold clean_stack. apply fold_nr_inv; [exact (nr_dd 0)|].
  intros s H. eapply split_on_no_sep. exact H.
Qed.

Lemma nr_no_slash : forall st, nr st -> forall s, In s st -> ~ In slash s.
Proof.
  intros st H. induction H as [k | s0 st Hg Hn IH]; intros s Hs.
  - apply repeat_spec in Hs. subst. exact dotdot_no_slash.
  - destruct Hs as [Hs|Hs]; [subst; destruct Hg as [_ [_ [_ Hg]]]; exact Hg | apply IH; exact Hs].
Qed.

Lemma nr_nonempty_elems : forall st, nr st -> forall s, In s st -> s <> [].
Proof.
  intros st H. induction H as [k | s0 st Hg Hn IH]; intros s Hs.
  - apply repeat_spec in Hs. subst. discriminate.
  - destruct Hs as [Hs|Hs]; [subst; destruct Hg as [Hg _]; exact Hg | apply IH; exact Hs].
Qed.

Lemma step_dd_on_dds : forall j, clean_step false (repeat dotdot j) dotdot = repeat dotdot (S j).
Proof. intro j. destruct j; reflexivity. Qed.

Lemma fold_dds : forall k j, fold_left (clean_step false) (repeat dotdot k) (repeat dotdot j) = repeat dotdot (k + j).
Proof.
  induction k as [|k IH]; intro j; simpl; [reflexivity|].
  rewrite step_dd_on_dds. rewrite IH. rewrite Nat.add_succ_r. reflexivity.
Qed.

Lemma rev_repeat' : forall (A : Type) (x : A) k, rev (repeat x k) = repeat x k.
Proof.
  intros A x k. induction k as [|k IH]; simpl; [reflexivity|].
  rewrite IH. clear IH. induction k as [|k IH]; simpl; [reflexivity|]. rewrite IH. reflexivity.
Qed.

(** re-running the element loop over the elements already on the stack rebuilds the stack *)
Lemma fold_rebuild : forall st, nr st -> fold_left (clean_step false) (rev st) [] = st.
Proof.
  intros st H. induction H as [k | s st Hg Hn IH].
  - rewrite rev_repeat'. change (@nil bytes) with (repeat dotdot 0). rewrite (fold_dds k 0). rewrite Nat.add_0_r. reflexivity.
  - simpl. rewrite fold_left_app. simpl. rewrite IH. apply clean_step_real. exact Hg.
Qed.

Lemma join_head : forall (sep a : bytes) (l : list bytes), a <> [] -> exists c t, join sep (a :: l) = c :: t /\ hd_error a = Some c.
Proof.
  intros sep a l Ha. destruct a as [|c a]; [contradiction|].
  destruct l; simpl; eauto.
Qed.

Lemma clean_idempotent : forall p, clean (clean p) = clean p.
Proof.
  intro p. destruct p as [|c p]; [reflexivity|].
  destruct (is_rooted (c :: p)) eqn:R.
  - destruct (clean_rooted_shape (c :: p) R) as [segs [E H]]. rewrite E. apply clean_of_shape. exact H.
  - assert (E : clean (c :: p) =
                 if is_empty (join [slash] (rev (clean_stack false (c :: p)))) then dot
                 else join [slash] (rev (clean_stack false (c :: p)))).
    { unfold clean. rewrite R. reflexivity. }
    rewrite E. clear E.
    pose proof (clean_stack_nr (c :: p)) as Hn.
    remember (clean_stack false (c :: p)) as st eqn:Est. clear Est.
    destruct (rev st) as [|a l] eqn:Erev.
    + reflexivity.
    + assert (Hin : forall s, In s (a :: l) -> In s st).
      { intros s Hs. apply in_rev. rewrite Erev. exact Hs. }
      assert (Ha : a <> []) by (apply (nr_nonempty_elems st Hn); apply Hin; left; reflexivity).
      destruct (join_head [slash] a l Ha) as [c0 [t0 [Ej Hh]]].
      rewrite Ej. simpl is_empty. cbv iota.
      assert (Hc0 : c0 <> slash).
      { intro Hc. subst c0. destruct a as [|x a]; [contradiction|]. simpl in Hh. inversion Hh; subst.
        apply (nr_no_slash st Hn (slash :: a)); [apply Hin; left; reflexivity | left; reflexivity]. }
      unfold clean. unfold is_rooted. apply N.eqb_neq in Hc0. rewrite Hc0.
      unfold clean_stack. rewrite <- Ej. rewrite split_join.
      * rewrite <- Erev. rewrite (fold_rebuild st Hn). rewrite Erev. rewrite Ej. reflexivity.
      * discriminate.
      * intros s Hs. apply (nr_no_slash st Hn). apply Hin. exact Hs.
Qed.

(** no cleaned rooted path has an empty, "." or ".." element, whatever was requested:
    [split_on] gives back exactly the good elements (or the single empty one for "/") *)
Lemma clean_rooted_segments : forall p, is_rooted p = true ->
  clean p = [slash] \/
  exists segs, segs <> [] /\ Forall good_seg segs /\ split_on slash (clean p) = [] :: segs.
Proof.
  intros p H. destruct (clean_rooted_shape p H) as [segs [E Hg]].
  destruct segs as [|a l]; [left; exact E|].
  right. exists (a :: l). split; [discriminate|]. split; [exact Hg|].
  rewrite E.
  change (split_on slash (slash :: join [slash] (a :: l))) with
    (if slash =? slash then [] :: split_on slash (join [slash] (a :: l))
     else match split_on slash (join [slash] (a :: l)) with h :: r => (slash :: h) :: r | [] => [[slash]] end).
  rewrite N.eqb_refl. f_equal. apply split_join; [discriminate|].
  intros s Hs. rewrite Forall_forall in Hg. destruct (Hg s Hs) as [_ [_ [_ Hn]]]. exact Hn.
Qed.
