From Coq Require Import ZArith QArith Qminmax Lqa Lia Bool List Sorted.
From HK Require Import Model.Retry Model.TokenBucket Proofs.RetryProofs.
Import ListNotations.
Open Scope Q_scope.

Definition valid (b : bucket) : Prop := 0 <= tb_rate b /\ 0 <= tb_burst b.
Definition inv (b : bucket) : Prop := 0 <= tb_tokens b /\ tb_tokens b <= tb_burst b.
Definition nondecreasing (ts : list Q) : Prop := StronglySorted Qle ts.

Definition bq (d : bool) : Q := if d then 1 else 0.

Lemma inj_if_le_bq (p d : bool) : (p = true -> d = true) -> inject_Z (if p then 1 else 0) <= bq d.
Proof.
  destruct p, d; intros H; try (compute; intros; discriminate).
  specialize (H eq_refl). discriminate.
Qed.

Lemma max_dur_pos : 0 < max_dur_s.
Proof. reflexivity. Qed.

(** time.Time.Sub saturates, but keeps the sign and never exceeds the true difference *)
Lemma sub_sat_pos t l : 0 < sub_sat t l <-> l < t.
Proof.
  unfold sub_sat. pose proof max_dur_pos as HM.
  destruct (Q.min_spec (t - l) max_dur_s) as [[H1 H2]|[H1 H2]];
  destruct (Q.max_spec (- max_dur_s) (Qmin (t - l) max_dur_s)) as [[H3 H4]|[H3 H4]];
  rewrite H4; rewrite ?H2 in *; split; intros; lra.
Qed.

Lemma sub_sat_le t l : l < t -> sub_sat t l <= t - l.
Proof.
  intros Hlt. unfold sub_sat. pose proof max_dur_pos as HM.
  destruct (Q.min_spec (t - l) max_dur_s) as [[H1 H2]|[H1 H2]];
  destruct (Q.max_spec (- max_dur_s) (Qmin (t - l) max_dur_s)) as [[H3 H4]|[H3 H4]];
  rewrite H4; rewrite ?H2 in *; lra.
Qed.

(** * one refill *)
Lemma refill_spec b t : valid b -> inv b ->
  let b1 := refill b t in
  tb_rate b1 = tb_rate b /\ tb_burst b1 = tb_burst b /\
  tb_last b1 == Qmax (tb_last b) t /\
  0 <= tb_tokens b1 /\ tb_tokens b1 <= tb_burst b /\
  tb_tokens b1 <= tb_tokens b + tb_rate b * (Qmax (tb_last b) t - tb_last b).
Proof.
  intros [Hr Hb] [Ht0 Ht1]. unfold refill. cbv zeta.
  destruct (Qltb 0 (sub_sat t (tb_last b))) eqn:E.
  - apply Qltb_true in E. pose proof E as Epos. apply (proj1 (sub_sat_pos _ _)) in E. pose proof (sub_sat_le _ _ E) as Hle.
    assert (Hm : Qmax (tb_last b) t == t) by (apply Q.max_r; lra).
    set (dt := sub_sat t (tb_last b)) in *.
    destruct (Qltb (tb_burst b) (tb_tokens b + dt * tb_rate b)) eqn:Ec; cbn [tb_rate tb_burst tb_tokens tb_last].
    + apply Qltb_true in Ec.
      repeat split; first [reflexivity | (symmetry; exact Hm) | lra | nra | (rewrite Hm; nra)].
    + apply Qltb_false in Ec.
      repeat split; first [reflexivity | (symmetry; exact Hm) | lra | nra | (rewrite Hm; nra)].
  - apply Qltb_false in E.
    assert (Hle : t <= tb_last b).
    { destruct (Qlt_le_dec (tb_last b) t) as [Hlt|Hge]; [|exact Hge]. apply (proj2 (sub_sat_pos _ _)) in Hlt. lra. }
    assert (Hm : Qmax (tb_last b) t == tb_last b) by (apply Q.max_l; exact Hle).
    repeat split; first [reflexivity | (symmetry; exact Hm) | lra | (rewrite Hm; lra)].
Qed.

(** the clock stands still or steps back: nothing is refilled, [last] does not move *)
Lemma refill_backwards b t : t <= tb_last b -> refill b t = b.
Proof.
  intros H. unfold refill. cbv zeta.
  destruct (Qltb 0 (sub_sat t (tb_last b))) eqn:E; [|reflexivity].
  apply Qltb_true in E. apply (proj1 (sub_sat_pos _ _)) in E. lra.
Qed.

(** * one call *)
Lemma allow_at_spec b t : valid b -> inv b ->
  let b' := fst (allow_at b t) in
  let d := snd (allow_at b t) in
  tb_rate b' = tb_rate b /\ tb_burst b' = tb_burst b /\
  tb_last b' == Qmax (tb_last b) t /\
  0 <= tb_tokens b' /\ tb_tokens b' + bq d <= tb_burst b /\
  tb_tokens b' + bq d <= tb_tokens b + tb_rate b * (Qmax (tb_last b) t - tb_last b) /\
  tb_tokens b' + bq d == tb_tokens (refill b t) /\
  (d = true <-> 1 <= tb_tokens (refill b t)).
Proof.
  intros Hv Hi. pose proof (refill_spec b t Hv Hi) as H. cbv zeta in H.
  destruct H as [H1 [H2 [H3 [H4 [H5 H6]]]]]. unfold allow_at. cbv zeta.
  destruct (Qltb (tb_tokens (refill b t)) 1) eqn:E; cbn [fst snd tb_rate tb_burst tb_tokens tb_last bq].
  - apply Qltb_true in E. repeat split; first [assumption | lra | discriminate | (intros; lra)].
  - apply Qltb_false in E. repeat split; first [assumption | lra | (intros; assumption)].
Qed.

Lemma allow_at_valid b t : valid b -> inv b -> valid (fst (allow_at b t)) /\ inv (fst (allow_at b t)).
Proof.
  intros Hv Hi. pose proof (allow_at_spec b t Hv Hi) as H. cbv zeta in H.
  destruct H as [H1 [H2 [H3 [H4 [H5 _]]]]]. destruct Hv as [Hr Hb]. unfold valid, inv.
  rewrite H1, H2. repeat split; try assumption.
  unfold bq in H5. destruct (snd (allow_at b t)); lra.
Qed.

(** a refused call leaves fewer than one token and takes none; an admitted call takes exactly one *)
Lemma refuse_iff b t : snd (allow_at b t) = false <-> tb_tokens (refill b t) < 1.
Proof.
  unfold allow_at. cbv zeta. destruct (Qltb (tb_tokens (refill b t)) 1) eqn:E; cbn [snd].
  - apply Qltb_true in E. tauto.
  - apply Qltb_false in E. split; [discriminate | intros; lra].
Qed.

(** * bucket_inv: 0 <= tokens <= burst after every call sequence *)
Lemma run_inv : forall ts b, valid b -> inv b -> valid (fst (run b ts)) /\ inv (fst (run b ts)).
Proof.
  induction ts as [|t rest IH]; intros b Hv Hi; [cbn; tauto|].
  cbn [run]. destruct (allow_at b t) as [b1 d] eqn:E.
  pose proof (allow_at_valid b t Hv Hi) as [Hv1 Hi1]. rewrite E in Hv1, Hi1. cbn [fst] in Hv1, Hi1.
  specialize (IH b1 Hv1 Hi1). destruct (run b1 rest) as [b2 ds]. exact IH.
Qed.

Lemma new_bucket_ok rps burst now :
  valid (new_bucket rps burst now) /\ inv (new_bucket rps burst now) /\
  1 <= tb_burst (new_bucket rps burst now) /\ 0 < tb_rate (new_bucket rps burst now).
Proof.
  unfold new_bucket, valid, inv. cbv zeta. cbn [tb_rate tb_burst tb_tokens tb_last].
  assert (Hb : 1 <= (if (burst <=? 0)%Z then 1 else inject_Z burst)).
  { destruct (Z.leb_spec burst 0); [lra|]. change 1 with (inject_Z 1). rewrite <- Zle_Qle. lia. }
  assert (Hr : 0 < (if Qle_bool rps 0 then 1 else rps)).
  { destruct (Qle_bool rps 0) eqn:E; [lra|]. apply Qnot_le_lt. intros H. apply Qle_bool_iff in H. congruence. }
  repeat split; lra.
Qed.

Lemma bucket_inv : forall rps burst now ts,
  let b := fst (run (new_bucket rps burst now) ts) in
  0 <= tb_tokens b /\ tb_tokens b <= tb_burst b /\ tb_burst b = tb_burst (new_bucket rps burst now).
Proof.
  intros rps burst now ts b. destruct (new_bucket_ok rps burst now) as [Hv [Hi _]].
  pose proof (run_inv ts _ Hv Hi) as [_ [H1 H2]]. fold b in H1, H2. repeat split; try assumption.
  subst b. clear. generalize (new_bucket rps burst now). induction ts as [|t rest IH]; intros b0; [reflexivity|].
  cbn [run]. destruct (allow_at b0 t) as [b1 d] eqn:E. specialize (IH b1).
  destruct (run b1 rest) as [b2 ds]. cbn [fst] in *. rewrite IH.
  unfold allow_at in E. cbv zeta in E.
  assert (Hb : tb_burst (refill b0 t) = tb_burst b0).
  { unfold refill. cbv zeta. destruct (Qltb 0 _); reflexivity. }
  destruct (Qltb (tb_tokens (refill b0 t)) 1); inversion E; subst; cbn [tb_burst]; exact Hb.
Qed.

(** * counting *)
Lemma admitted_in_run : forall ts a c b, admitted_in a c b ts = count_window a c ts (snd (run b ts)).
Proof.
  induction ts as [|t rest IH]; intros a c b; [reflexivity|].
  cbn [admitted_in run]. destruct (allow_at b t) as [b1 d]. rewrite IH.
  destruct (run b1 rest) as [b2 ds]. reflexivity.
Qed.

Lemma admitted_in_nonneg : forall ts a c b, (0 <= admitted_in a c b ts)%Z.
Proof.
  induction ts as [|t rest IH]; intros a c b; cbn [admitted_in]; [lia|].
  destruct (allow_at b t) as [b1 d]. specialize (IH a c b1). destruct (d && in_window a c t); lia.
Qed.

Lemma in_window_true a c t : in_window a c t = true <-> a <= t /\ t <= c.
Proof. unfold in_window. rewrite andb_true_iff, !Qle_bool_iff. tauto. Qed.

Lemma admitted_in_none : forall ts a c b, Forall (fun t => c < t) ts -> admitted_in a c b ts = 0%Z.
Proof.
  induction ts as [|t rest IH]; intros a c b HF; [reflexivity|].
  cbn [admitted_in]. destruct (allow_at b t) as [b1 d]. inversion HF as [|x l Hx Hl]. subst.
  rewrite (IH a c b1 Hl).
  replace (in_window a c t) with false; [rewrite andb_false_r; reflexivity|].
  symmetry. destruct (in_window a c t) eqn:E; [|reflexivity]. apply in_window_true in E. lra.
Qed.

Lemma sorted_tail_above t rest c : nondecreasing (t :: rest) -> c < t -> Forall (fun x => c < x) rest.
Proof.
  intros Hs Hc. apply StronglySorted_inv in Hs. destruct Hs as [_ HF].
  eapply Forall_impl; [|exact HF]. cbv beta. intros x Hx. lra.
Qed.

Lemma Qmax_ge_l x y : x <= Qmax x y.
Proof. apply Q.le_max_l. Qed.

(** * the key accounting lemma: from any state, the calls admitted inside [a,c] are paid for by
    the tokens in hand plus what can be refilled until c *)
Lemma window_accounting : forall ts a c b,
  valid b -> inv b -> nondecreasing ts -> a <= c ->
  inject_Z (admitted_in a c b ts) <= tb_tokens b + tb_rate b * (Qmax (tb_last b) c - tb_last b).
Proof.
  induction ts as [|t rest IH]; intros a c b Hv Hi Hs Hac.
  - cbn [admitted_in]. destruct Hv as [Hr _]. destruct Hi as [Ht0 _].
    pose proof (Qmax_ge_l (tb_last b) c). change (inject_Z 0) with 0. nra.
  - cbn [admitted_in]. pose proof (allow_at_spec b t Hv Hi) as Sp. cbv zeta in Sp.
    pose proof (allow_at_valid b t Hv Hi) as [Hv1 Hi1].
    destruct (allow_at b t) as [b1 d] eqn:E. cbn [fst snd] in *.
    destruct Sp as [S1 [S2 [S3 [S4 [S5 [S6 _]]]]]].
    destruct Hv as [Hr Hb]. destruct Hi as [Ht0 Ht1].
    destruct (Qlt_le_dec c t) as [Hct|Htc].
    + (* beyond the window: neither this call nor any later one counts *)
      rewrite (admitted_in_none rest a c b1 (sorted_tail_above _ _ _ Hs Hct)).
      replace (in_window a c t) with false.
      2:{ symmetry. destruct (in_window a c t) eqn:Ew; [|reflexivity]. apply in_window_true in Ew. lra. }
      rewrite andb_false_r. pose proof (Qmax_ge_l (tb_last b) c). change (inject_Z (0 + 0)) with 0. nra.
    + assert (Hs' : nondecreasing rest) by (apply StronglySorted_inv in Hs; tauto).
      specialize (IH a c b1 Hv1 Hi1 Hs' Hac). rewrite S1 in IH.
      assert (Hm : Qmax (tb_last b1) c == Qmax (tb_last b) c).
      { rewrite S3. rewrite <- Q.max_assoc. rewrite (Q.max_r t c Htc). reflexivity. }
      rewrite Hm, S3 in IH. rewrite inject_Z_plus.
      assert (Hd : inject_Z (if d && in_window a c t then 1 else 0) <= bq d).
      { apply inj_if_le_bq. intros H. apply andb_true_iff in H. tauto. }
      set (m1 := Qmax (tb_last b) t) in *. set (m2 := Qmax (tb_last b) c) in *.
      set (x := inject_Z (admitted_in a c b1 rest)) in *. nra.
Qed.

(** * window_bound *)
Lemma window_bound_from : forall ts a c b,
  valid b -> inv b -> nondecreasing ts -> a <= c ->
  inject_Z (admitted_in a c b ts) <= tb_burst b + tb_rate b * (c - a).
Proof.
  induction ts as [|t rest IH]; intros a c b Hv Hi Hs Hac.
  - cbn [admitted_in]. destruct Hv as [Hr Hb]. change (inject_Z 0) with 0. nra.
  - cbn [admitted_in]. pose proof (allow_at_spec b t Hv Hi) as Sp. cbv zeta in Sp.
    pose proof (allow_at_valid b t Hv Hi) as [Hv1 Hi1].
    destruct (allow_at b t) as [b1 d] eqn:E. cbn [fst snd] in *.
    destruct Sp as [S1 [S2 [S3 [S4 [S5 [S6 _]]]]]].
    assert (Hs' : nondecreasing rest) by (apply StronglySorted_inv in Hs; tauto).
    destruct (Qlt_le_dec c t) as [Hct|Htc].
    + rewrite (admitted_in_none rest a c b1 (sorted_tail_above _ _ _ Hs Hct)).
      replace (in_window a c t) with false.
      2:{ symmetry. destruct (in_window a c t) eqn:Ew; [|reflexivity]. apply in_window_true in Ew. lra. }
      rewrite andb_false_r. destruct Hv as [Hr Hb]. change (inject_Z (0 + 0)) with 0. nra.
    + destruct (Qlt_le_dec t a) as [Hta|Hat].
      * (* before the window: not counted, induction from the next state *)
        replace (in_window a c t) with false.
        2:{ symmetry. destruct (in_window a c t) eqn:Ew; [|reflexivity]. apply in_window_true in Ew. lra. }
        rewrite andb_false_r, Z.add_0_l. specialize (IH a c b1 Hv1 Hi1 Hs' Hac). rewrite S1, S2 in IH. exact IH.
      * (* the first call inside the window: after its refill at most [burst] tokens are in hand,
           and from then on only (c - a) seconds of refill can be used *)
        pose proof (window_accounting rest a c b1 Hv1 Hi1 Hs' Hac) as Hacc. rewrite S1 in Hacc.
        rewrite inject_Z_plus.
        assert (Hd : inject_Z (if d && in_window a c t then 1 else 0) <= bq d).
        { apply inj_if_le_bq. intros H. apply andb_true_iff in H. tauto. }
        assert (Hl : a <= tb_last b1) by (rewrite S3; pose proof (Q.le_max_r (tb_last b) t); lra).
        assert (Hgap : Qmax (tb_last b1) c - tb_last b1 <= c - a).
        { destruct (Q.max_spec (tb_last b1) c) as [[H1 H2]|[H1 H2]]; rewrite H2; lra. }
        assert (Hgap0 : 0 <= Qmax (tb_last b1) c - tb_last b1) by (pose proof (Qmax_ge_l (tb_last b1) c); lra).
        destruct Hv as [Hr Hb].
        set (g := Qmax (tb_last b1) c - tb_last b1) in *.
        set (x := inject_Z (admitted_in a c b1 rest)) in *. nra.
Qed.

(** the C12 rate clause for one limiter created by newTokenBucketLimiter: whatever the calls
    (times non-decreasing), the decisions recorded by [run] admit at most
    burst + rps * (c - a) calls inside any closed window [a, c]. *)
Lemma window_bound : forall rps burst now ts a c,
  nondecreasing ts -> a <= c ->
  let b0 := new_bucket rps burst now in
  inject_Z (count_window a c ts (snd (run b0 ts))) <= tb_burst b0 + tb_rate b0 * (c - a).
Proof.
  intros rps burst now ts a c Hs Hac b0. rewrite <- admitted_in_run.
  destruct (new_bucket_ok rps burst now) as [Hv [Hi _]]. apply window_bound_from; assumption.
Qed.

(** the window bound also holds from every later state of the same limiter (any prefix of calls
    already processed), which is how it applies to an arbitrary window of a long-running bucket *)
Lemma window_bound_after_prefix : forall rps burst now pre ts a c,
  nondecreasing ts -> a <= c ->
  let b0 := new_bucket rps burst now in
  let b := fst (run b0 pre) in
  inject_Z (admitted_in a c b ts) <= tb_burst b0 + tb_rate b0 * (c - a).
Proof.
  intros rps burst now pre ts a c Hs Hac b0 b.
  destruct (new_bucket_ok rps burst now) as [Hv [Hi _]].
  pose proof (run_inv pre b0 Hv Hi) as [Hv' Hi']. fold b in Hv', Hi'.
  pose proof (window_bound_from ts a c b Hv' Hi' Hs Hac) as H.
  assert (Hb : tb_burst b = tb_burst b0) by (apply (bucket_inv rps burst now pre)).
  assert (Hr : tb_rate b = tb_rate b0).
  { subst b. clear. generalize b0. induction pre as [|t rest IH]; intros b; [reflexivity|].
    cbn [run]. destruct (allow_at b t) as [b1 d] eqn:E. specialize (IH b1).
    destruct (run b1 rest) as [b2 ds]. cbn [fst] in *. rewrite IH.
    unfold allow_at in E. cbv zeta in E.
    assert (Hb : tb_rate (refill b t) = tb_rate b) by (unfold refill; cbv zeta; destruct (Qltb 0 _); reflexivity).
    destruct (Qltb (tb_tokens (refill b t)) 1); inversion E; subst; cbn [tb_rate]; exact Hb. }
  rewrite Hb, Hr in H. exact H.
Qed.

(** * any order of call times (the clock may stand still or step back) *)
Lemma max_time_compat : forall ts m m', m == m' -> max_time m ts == max_time m' ts.
Proof.
  induction ts as [|t rest IH]; intros m m' H; cbn [max_time]; [exact H|].
  apply IH. rewrite H. reflexivity.
Qed.

Lemma max_time_ge : forall ts m, m <= max_time m ts.
Proof.
  induction ts as [|t rest IH]; intros m; cbn [max_time]; [lra|].
  specialize (IH (Qmax m t)). pose proof (Qmax_ge_l m t). lra.
Qed.

(** total admitted <= tokens in hand + rate * (latest time seen - last): time that runs
    backwards earns nothing *)
Lemma total_bound_any_order : forall ts b, valid b -> inv b ->
  inject_Z (admitted b ts) <= tb_tokens b + tb_rate b * (max_time (tb_last b) ts - tb_last b).
Proof.
  induction ts as [|t rest IH]; intros b Hv Hi.
  - cbn [admitted max_time]. destruct Hi as [H0 _]. change (inject_Z 0) with 0. lra.
  - cbn [admitted max_time]. pose proof (allow_at_spec b t Hv Hi) as Sp. cbv zeta in Sp.
    pose proof (allow_at_valid b t Hv Hi) as [Hv1 Hi1].
    destruct (allow_at b t) as [b1 d] eqn:E. cbn [fst snd] in *.
    destruct Sp as [S1 [S2 [S3 [S4 [S5 [S6 _]]]]]].
    specialize (IH b1 Hv1 Hi1). rewrite S1 in IH.
    rewrite (max_time_compat rest _ _ S3) in IH. rewrite S3 in IH.
    rewrite inject_Z_plus. assert (Hd : inject_Z (if d then 1 else 0) == bq d) by (destruct d; reflexivity).
    rewrite Hd. pose proof (max_time_ge rest (Qmax (tb_last b) t)) as Hge.
    destruct Hv as [Hr Hb].
    set (m1 := Qmax (tb_last b) t) in *. set (mt := max_time m1 rest) in *.
    set (x := inject_Z (admitted b1 rest)) in *. nra.
Qed.

(** segment form: a call at [t] followed by any calls [rest], in any order, admits at most
    burst + rate * (latest time - max(last, t)) *)
Lemma segment_bound_any_order : forall b t rest, valid b -> inv b ->
  inject_Z (admitted b (t :: rest)) <=
  tb_burst b + tb_rate b * (max_time (Qmax (tb_last b) t) rest - Qmax (tb_last b) t).
Proof.
  intros b t rest Hv Hi. cbn [admitted].
  pose proof (allow_at_spec b t Hv Hi) as Sp. cbv zeta in Sp.
  pose proof (allow_at_valid b t Hv Hi) as [Hv1 Hi1].
  destruct (allow_at b t) as [b1 d] eqn:E. cbn [fst snd] in *.
  destruct Sp as [S1 [S2 [S3 [S4 [S5 [S6 _]]]]]].
  pose proof (total_bound_any_order rest b1 Hv1 Hi1) as H. rewrite S1 in H.
  rewrite (max_time_compat rest _ _ S3) in H. rewrite S3 in H.
  rewrite inject_Z_plus. assert (Hd : inject_Z (if d then 1 else 0) == bq d) by (destruct d; reflexivity).
  rewrite Hd. lra.
Qed.

Lemma max_time_below : forall ts m, Forall (fun t => t <= m) ts -> max_time m ts == m.
Proof.
  induction ts as [|t rest IH]; intros m HF; cbn [max_time]; [reflexivity|].
  inversion HF as [|x l Hx Hl]. subst.
  rewrite (max_time_compat rest (Qmax m t) m (Q.max_l _ _ Hx)). apply IH. exact Hl.
Qed.

(** while the clock does not pass [last], the bucket can only drain *)
Lemma no_advance_only_drains : forall ts b, valid b -> inv b ->
  Forall (fun t => t <= tb_last b) ts -> inject_Z (admitted b ts) <= tb_tokens b.
Proof.
  intros ts b Hv Hi HF. pose proof (total_bound_any_order ts b Hv Hi) as H.
  rewrite (max_time_below ts (tb_last b) HF) in H. destruct Hv. nra.
Qed.

(** * limiter choice *)
Lemma find_set_same : forall l r nb b, find_route r l = Some b -> find_route r (set_route r nb l) = Some nb.
Proof.
  induction l as [|[k b0] tl IH]; intros r nb b H; [discriminate|].
  cbn [find_route set_route] in *. destruct (k =? r)%Z eqn:E.
  - cbn [find_route]. rewrite E. reflexivity.
  - cbn [find_route]. rewrite E. eapply IH. exact H.
Qed.

Lemma find_set_other : forall l r r' nb, r' <> r -> find_route r' (set_route r nb l) = find_route r' l.
Proof.
  induction l as [|[k b0] tl IH]; intros r r' nb Hne; [reflexivity|].
  cbn [find_route set_route]. destruct (k =? r)%Z eqn:E.
  - cbn [find_route]. apply Z.eqb_eq in E. subst k.
    destruct (r =? r')%Z eqn:E2; [apply Z.eqb_eq in E2; congruence | reflexivity].
  - cbn [find_route]. destruct (k =? r')%Z; [reflexivity | apply IH; exact Hne].
Qed.

Lemma find_set_none : forall l r r' nb, find_route r' l = None -> find_route r' (set_route r nb l) = None.
Proof.
  intros l r r' nb H. destruct (Z.eq_dec r' r) as [->|Hne].
  - revert H. induction l as [|[k b0] tl IH]; [reflexivity|]. cbn [find_route set_route].
    destruct (k =? r)%Z eqn:E; [discriminate|]. cbn [find_route]. rewrite E. exact IH.
  - rewrite find_set_other by exact Hne. exact H.
Qed.

(** allowIngress consults the route's own limiter iff the route declares one, otherwise the
    global one iff it exists, otherwise admits; the limiters it did not consult are untouched. *)
Lemma limiter_choice : forall ls r t,
  (forall b, find_route r (l_routes ls) = Some b ->
      snd (allow_ingress ls r t) = snd (allow_at b t) /\
      find_route r (l_routes (fst (allow_ingress ls r t))) = Some (fst (allow_at b t)) /\
      l_global (fst (allow_ingress ls r t)) = l_global ls /\
      (forall r', r' <> r -> find_route r' (l_routes (fst (allow_ingress ls r t))) = find_route r' (l_routes ls))) /\
  (find_route r (l_routes ls) = None -> forall g, l_global ls = Some g ->
      snd (allow_ingress ls r t) = snd (allow_at g t) /\
      l_global (fst (allow_ingress ls r t)) = Some (fst (allow_at g t)) /\
      l_routes (fst (allow_ingress ls r t)) = l_routes ls) /\
  (find_route r (l_routes ls) = None -> l_global ls = None -> allow_ingress ls r t = (ls, true)).
Proof.
  intros ls r t. repeat split.
  - unfold allow_ingress. rewrite H. destruct (allow_at b t); reflexivity.
  - unfold allow_ingress. rewrite H. destruct (allow_at b t) as [b' d]. cbn [fst l_routes].
    eapply find_set_same. exact H.
  - unfold allow_ingress. rewrite H. destruct (allow_at b t); reflexivity.
  - intros r' Hne. unfold allow_ingress. rewrite H. destruct (allow_at b t) as [b' d]. cbn [fst l_routes].
    apply find_set_other. exact Hne.
  - unfold allow_ingress. rewrite H, H0. destruct (allow_at g t); reflexivity.
  - unfold allow_ingress. rewrite H, H0. destruct (allow_at g t); reflexivity.
  - unfold allow_ingress. rewrite H, H0. destruct (allow_at g t); reflexivity.
  - intros H1 H2. unfold allow_ingress. rewrite H1, H2. reflexivity.
Qed.

(** projection: through any request sequence, the decisions taken for the requests of a route
    that declares its own limiter are exactly [run] of that limiter on those requests' times,
    so [window_bound] applies to them; requests of other routes do not disturb it. *)
Fixpoint times_of (r : Z) (reqs : list (Z * Q)) : list Q :=
  match reqs with
  | [] => []
  | (k, t) :: rest => if (k =? r)%Z then t :: times_of r rest else times_of r rest
  end.

Fixpoint decisions_of (r : Z) (reqs : list (Z * Q)) (ds : list bool) : list bool :=
  match reqs, ds with
  | (k, _) :: rest, d :: ds' => if (k =? r)%Z then d :: decisions_of r rest ds' else decisions_of r rest ds'
  | _, _ => []
  end.

Lemma route_projection : forall reqs ls r b,
  find_route r (l_routes ls) = Some b ->
  decisions_of r reqs (snd (run_ingress ls reqs)) = snd (run b (times_of r reqs)).
Proof.
  induction reqs as [|[k t] rest IH]; intros ls r b Hf; [reflexivity|].
  cbn [run_ingress times_of]. destruct (allow_ingress ls k t) as [ls1 d] eqn:E.
  destruct (run_ingress ls1 rest) as [ls2 ds] eqn:E2. cbn [snd decisions_of].
  destruct (k =? r)%Z eqn:Ek.
  - apply Z.eqb_eq in Ek. subst k.
    destruct (limiter_choice ls r t) as [H1 _]. specialize (H1 b Hf). rewrite E in H1. cbn [fst snd] in H1.
    destruct H1 as [Hd [Hf1 _]]. cbn [run]. destruct (allow_at b t) as [b1 d1] eqn:Ea. cbn [fst snd] in *.
    specialize (IH ls1 r b1 Hf1). rewrite E2 in IH. cbn [snd] in IH.
    destruct (run b1 (times_of r rest)) as [b2 ds2]. cbn [snd] in *. rewrite IH, Hd. reflexivity.
  - assert (Hf1 : find_route r (l_routes ls1) = Some b).
    { apply Z.eqb_neq in Ek. unfold allow_ingress in E.
      destruct (find_route k (l_routes ls)) as [bk|] eqn:Fk.
      - destruct (allow_at bk t) as [b' d']. inversion E. subst. cbn [l_routes].
        rewrite find_set_other by congruence. exact Hf.
      - destruct (l_global ls) as [g|].
        + destruct (allow_at g t) as [g' d']. inversion E. subst. exact Hf.
        + inversion E. subst. exact Hf. }
    specialize (IH ls1 r b Hf1). rewrite E2 in IH. exact IH.
Qed.

(** the same for the global limiter: it sees exactly the requests of routes without a limiter of
    their own *)
Definition has_own (ls : limiters) (r : Z) : bool :=
  match find_route r (l_routes ls) with Some _ => true | None => false end.

Fixpoint times_global (ls : limiters) (reqs : list (Z * Q)) : list Q :=
  match reqs with
  | [] => []
  | (k, t) :: rest => if has_own ls k then times_global ls rest else t :: times_global ls rest
  end.

Fixpoint decisions_global (ls : limiters) (reqs : list (Z * Q)) (ds : list bool) : list bool :=
  match reqs, ds with
  | (k, _) :: rest, d :: ds' => if has_own ls k then decisions_global ls rest ds' else d :: decisions_global ls rest ds'
  | _, _ => []
  end.

Lemma has_own_step ls k t r : has_own (fst (allow_ingress ls k t)) r = has_own ls r.
Proof.
  unfold has_own, allow_ingress. destruct (find_route k (l_routes ls)) as [bk|] eqn:Fk.
  - destruct (allow_at bk t) as [b' d']. cbn [fst l_routes].
    destruct (Z.eq_dec r k) as [->|Hne].
    + rewrite (find_set_same _ _ _ _ Fk), Fk. reflexivity.
    + rewrite find_set_other by exact Hne. reflexivity.
  - destruct (l_global ls) as [g|]; [destruct (allow_at g t)|]; reflexivity.
Qed.

Lemma times_global_ext : forall reqs ls ls', (forall r, has_own ls r = has_own ls' r) ->
  times_global ls reqs = times_global ls' reqs.
Proof.
  induction reqs as [|[k t] rest IH]; intros ls ls' H; [reflexivity|]. cbn [times_global].
  rewrite (H k), (IH ls ls' H). reflexivity.
Qed.

Lemma decisions_global_ext : forall reqs ds ls ls', (forall r, has_own ls r = has_own ls' r) ->
  decisions_global ls reqs ds = decisions_global ls' reqs ds.
Proof.
  induction reqs as [|[k t] rest IH]; intros ds ls ls' H; [reflexivity|]. cbn [decisions_global].
  destruct ds as [|d ds']; [reflexivity|]. rewrite (H k), (IH ds' ls ls' H). reflexivity.
Qed.

Lemma global_projection : forall reqs ls g,
  l_global ls = Some g ->
  decisions_global ls reqs (snd (run_ingress ls reqs)) = snd (run g (times_global ls reqs)).
Proof.
  induction reqs as [|[k t] rest IH]; intros ls g Hg; [reflexivity|].
  cbn [run_ingress times_global]. pose proof (has_own_step ls k t) as Hown.
  destruct (allow_ingress ls k t) as [ls1 d] eqn:E. cbn [fst] in Hown.
  destruct (run_ingress ls1 rest) as [ls2 ds] eqn:E2. cbn [snd decisions_global].
  rewrite (times_global_ext rest ls ls1) by (intros; symmetry; apply Hown).
  rewrite (decisions_global_ext rest ds ls ls1) by (intros; symmetry; apply Hown).
  destruct (has_own ls k) eqn:Ho.
  - assert (Hg1 : l_global ls1 = Some g).
    { unfold has_own in Ho. unfold allow_ingress in E. destruct (find_route k (l_routes ls)) as [bk|]; [|discriminate].
      destruct (allow_at bk t). inversion E. subst. exact Hg. }
    specialize (IH ls1 g Hg1). rewrite E2 in IH. exact IH.
  - unfold has_own in Ho. destruct (find_route k (l_routes ls)) as [bk|] eqn:Fk; [discriminate|].
    destruct (limiter_choice ls k t) as [_ [H2 _]]. specialize (H2 Fk g Hg). rewrite E in H2. cbn [fst snd] in H2.
    destruct H2 as [Hd [Hg1 _]]. cbn [run]. destruct (allow_at g t) as [g1 d1]. cbn [fst snd] in *.
    specialize (IH ls1 g1 Hg1). rewrite E2 in IH. cbn [snd] in IH.
    destruct (run g1 (times_global ls1 rest)) as [g2 ds2]. cbn [snd] in *. rewrite IH, Hd. reflexivity.
Qed.

(** non-vacuity: rps 0.2, burst 3: three calls pass, the fourth is refused, one token is back
    after exactly 5 s and not a nanosecond earlier *)
Example bucket_example :
  snd (run (new_bucket (1 # 5) 3 0) [0; 0; 0; 0; 4999999999 # 1000000000; 5; 5; 100; 100])
  = [true; true; true; false; false; true; false; true; true].
Proof. vm_compute. reflexivity. Qed.

Example window_example :
  count_window 0 5 [0; 0; 0; 0; 5; 5] (snd (run (new_bucket (1 # 5) 3 0) [0; 0; 0; 0; 5; 5])) = 4%Z /\
  tb_burst (new_bucket (1 # 5) 3 0) + tb_rate (new_bucket (1 # 5) 3 0) * (5 - 0) == 4.
Proof. vm_compute. repeat split. Qed.
