(** Theorems about Model/ConfigMutation.v. *)
From Coq Require Import List Bool NArith.
From HK Require Import Model.ConfigMutation.
Import ListNotations.

Definition applied (r : mres) : bool := match r with MApplied => true | _ => false end.

(** For every flavour, every candidate, every oracle:
    - every content ever written is the validated candidate or the previous content;
    - the final content is the previous one or the validated candidate;
    - "applied" is reported only with the validated candidate installed and every check passed;
    - whenever the mutation is not applied and the roll-back write did not itself fail,
      the file is exactly what it was. *)
Lemma mutation_validated : forall valid fl file cand o,
  let '(file', res, writes) := mutate valid fl file cand o in
  (forall w, In w writes -> (w = Some cand /\ valid cand = true) \/ w = file)
  /\ (file' = file \/ (file' = Some cand /\ valid cand = true))
  /\ (res = MApplied -> file' = Some cand /\ valid cand = true /\ o_write o = true
                        /\ (fl = FApp -> o_post o = true /\ o_reload o = true)
                        /\ (fl = FMcpWriteAndReload -> o_reload o = true))
  /\ (res <> MApplied -> o_rollback o = true -> file' = file)
  /\ (valid cand = false -> file' = file /\ writes = [] /\ res = MInvalid).
Proof.
  intros valid fl file cand o. unfold mutate.
  destruct (valid cand) eqn:V; simpl.
  2:{ repeat split; auto; try discriminate; intros; try contradiction. }
  destruct fl; destruct o as [w p r rb]; simpl;
    destruct w, p, r, rb; simpl;
    repeat split; auto; try discriminate; try congruence;
    try (intros x Hx; simpl in Hx; intuition (subst; auto));
    try (intros; exfalso; auto; fail).
Qed.

(** Non-vacuity: each result is reachable. *)
Example mutation_results :
  let v := fun b : cbytes => match b with [] => false | _ => true end in
  let old := Some [1%N] in let cand := [2%N] in
  map (fun o => mutate v FApp old cand o)
      [mkOrc true true true true; mkOrc false true true true; mkOrc true false true true;
       mkOrc true true false true; mkOrc true true false false]
  = [ (Some [2%N], MApplied, [Some [2%N]]);
      (old, MWriteFailed, []);
      (old, MPostValidateFailed true, [Some [2%N]; old]);
      (old, MReloadFailed true, [Some [2%N]; old]);
      (Some [2%N], MReloadFailed false, [Some [2%N]]) ]
  /\ mutate v FApp old [] (mkOrc true true true true) = (old, MInvalid, [])
  /\ mutate v FMcpWriteAndReload None cand (mkOrc true true false true) = (None, MReloadFailed true, [Some cand; None]).
Proof. vm_compute. repeat split. Qed.
