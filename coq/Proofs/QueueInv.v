(** The invariant of every reachable queue state: each id is stored once, every message is in
    exactly one coherent state (leased iff it carries a lease), lease ids are never shared and
    were all issued by a dequeue. *)
From Coq Require Import List ZArith NArith Bool Lia.
From HK Require Import Gen.Consts Model.Queue Model.QueueHash Model.QueueMon Proofs.QueueBase.
Import ListNotations.
Open Scope Z_scope.

Definition lease_inj (l : list msg) : Prop :=
  forall m1 m2 x, In m1 l -> In m2 l -> m_lease m1 = Some x -> m_lease m2 = Some x -> m1 = m2.

Record InvL (l : list msg) (iss : list N) : Prop := mkInvL {
  inv_nodup : NoDup (ids l);
  inv_coh : forall m, In m l -> coherent m = true;
  inv_linj : lease_inj l;
  inv_liss : forall m x, In m l -> m_lease m = Some x -> In x iss }.

Definition Inv (s : state) : Prop := InvL (msgs s) (issued s).

Lemma inv_init : Inv init.
Proof.
  constructor; simpl; try (intros; contradiction).
  - constructor.
  - intros m1 m2 x H; contradiction.
Qed.

Lemma nodup_ids_inj l m1 m2 : NoDup (ids l) -> In m1 l -> In m2 l -> m_id m1 = m_id m2 -> m1 = m2.
Proof.
  intros ND H1 H2 E. pose proof (find_id_In_NoDup l m1 ND H1) as F1.
  pose proof (find_id_In_NoDup l m2 ND H2) as F2. rewrite E in F1. congruence.
Qed.

(** a per-message function that is harmless for the invariant, on a given list *)
Definition tame_on (l : list msg) (pm : msg -> option msg) : Prop :=
  forall x x', In x l -> pm x = Some x' ->
    m_id x' = m_id x /\ coherent x' = true /\ (m_lease x' = m_lease x \/ m_lease x' = None).

Lemma invl_apply_pm l iss iss' pm :
  InvL l iss -> tame_on l pm -> incl iss iss' -> InvL (apply_pm pm l) iss'.
Proof.
  intros [ND CO LI LS] T Hincl.
  assert (IP : forall x x', In x l -> pm x = Some x' -> m_id x' = m_id x) by (intros x x' A B; apply (T x x' A B)).
  constructor.
  - (* NoDup *)
    clear CO LI LS Hincl T. revert ND IP. induction l as [|a tl IH]; simpl; intros ND IP; [constructor|].
    inversion ND as [|? ? Ha Htl]; subst.
    assert (IPtl : forall x x', In x tl -> pm x = Some x' -> m_id x' = m_id x) by (intros; apply IP; [right|]; assumption).
    destruct (pm a) as [a'|] eqn:E; simpl; [|apply IH; assumption].
    constructor; [|apply IH; assumption].
    intros Hin. apply Ha. unfold ids in Hin. apply in_map_iff in Hin. destruct Hin as [y [Ey Hy]].
    apply apply_pm_In in Hy. destruct Hy as [y0 [Hy0 Ep]].
    rewrite (IP a a' (or_introl eq_refl) E) in Ey. rewrite <- Ey, (IPtl y0 y Hy0 Ep). apply in_map. exact Hy0.
  - intros m Hm. apply apply_pm_In in Hm. destruct Hm as [m0 [H0 Ep]]. apply (T m0 m H0 Ep).
  - intros m1 m2 x H1 H2 L1 L2.
    apply apply_pm_In in H1. destruct H1 as [a [Ha Ea]].
    apply apply_pm_In in H2. destruct H2 as [b [Hb Eb]].
    destruct (T a m1 Ha Ea) as [_ [_ [La | La]]]; [|congruence].
    destruct (T b m2 Hb Eb) as [_ [_ [Lb | Lb]]]; [|congruence].
    assert (a = b) by (apply (LI a b x); congruence). subst b. congruence.
  - intros m x Hm L. apply apply_pm_In in Hm. destruct Hm as [a [Ha Ea]].
    destruct (T a m Ha Ea) as [_ [_ [La | La]]]; [|congruence].
    apply Hincl. apply (LS a x Ha). congruence.
Qed.

Lemma tame_filter l pm : (forall m m', pm m = Some m' -> m' = m) -> (forall m, In m l -> coherent m = true) -> tame_on l pm.
Proof.
  intros F CO x x' Hx E. apply F in E. subst. split; [reflexivity|]. split; [apply CO; exact Hx | left; reflexivity].
Qed.

Lemma coherent_release now m : coherent (release now m) = true.
Proof. reflexivity. Qed.

Lemma tame_sweep l now : (forall m, In m l -> coherent m = true) -> tame_on l (pm_sweep now).
Proof.
  intros CO x x' Hx E. unfold pm_sweep in E. destruct (expired now x); inversion E; subst.
  - split; [reflexivity|]. split; [reflexivity | right; reflexivity].
  - split; [reflexivity|]. split; [apply CO; exact Hx | left; reflexivity].
Qed.

(** ** pruning, sweeping *)
Lemma inv_prune c now hint s : Inv s -> Inv (prune c now hint s).
Proof.
  intros I. unfold Inv. rewrite prune_msgs_eq, prune_issued.
  apply (invl_apply_pm _ (issued s)); [exact I | | apply incl_refl].
  apply tame_filter; [apply prune_pm_same | apply I].
Qed.

Lemma invl_sweep l iss now : InvL l iss -> InvL (sweep now l) iss.
Proof.
  intros I. unfold sweep. apply (invl_apply_pm _ iss); [exact I | apply tame_sweep; apply I | apply incl_refl].
Qed.

(** ** removal of ids *)
Lemma invl_remove l iss vs : InvL l iss -> InvL (apply_pm (pm_remove_ids vs) l) iss.
Proof.
  intros I. apply (invl_apply_pm _ iss); [exact I | | apply incl_refl].
  apply tame_filter; [|apply I]. intros m m' H. unfold pm_remove_ids in H. destruct (memN _ _); inversion H; reflexivity.
Qed.

Lemma sql_make_room_inv c fuel need hint l l2 iss :
  sql_make_room c fuel need hint l = Some l2 -> InvL l iss -> InvL l2 iss.
Proof.
  revert need l. induction fuel as [|f IH]; simpl; intros need l H I.
  - destruct (need <=? c_max_depth c); inversion H; subst; exact I.
  - destruct (need <=? c_max_depth c); [inversion H; subst; exact I|].
    destruct (sql_victim hint l) as [v|]; [|discriminate].
    apply (IH _ _ H). apply invl_remove. exact I.
Qed.

(** ** appending new messages *)
Lemma coherent_mk_msg now i e : coherent (mk_msg now i e) = true.
Proof. reflexivity. Qed.

Lemma invl_app_news l iss now (ies : list (N * enq)) :
  InvL l iss -> NoDup (map fst ies) -> (forall i, In i (map fst ies) -> ~ In i (ids l)) ->
  InvL (l ++ map (fun p => mk_msg now (fst p) (snd p)) ies) iss.
Proof.
  intros [ND CO LI LS] NDn Fresh.
  set (news := map (fun p => mk_msg now (fst p) (snd p)) ies).
  assert (Eids : ids news = map fst ies).
  { unfold news, ids. rewrite map_map. apply map_ext. intros p. reflexivity. }
  assert (NL : forall m, In m news -> m_lease m = None).
  { intros m Hm. unfold news in Hm. apply in_map_iff in Hm. destruct Hm as [p [E _]]. subst. reflexivity. }
  constructor.
  - unfold ids. rewrite map_app. fold (ids l). fold (ids news). rewrite Eids.
    apply NoDup_app_intro; [exact ND | exact NDn |]. intros i Hi Hn. apply (Fresh i Hn Hi).
  - intros m Hm. apply in_app_or in Hm. destruct Hm as [Hm | Hm]; [apply CO; exact Hm|].
    unfold news in Hm. apply in_map_iff in Hm. destruct Hm as [p [E _]]. subst. reflexivity.
  - intros m1 m2 x H1 H2 L1 L2.
    apply in_app_or in H1. apply in_app_or in H2.
    destruct H1 as [H1 | H1]; [|rewrite (NL m1 H1) in L1; discriminate].
    destruct H2 as [H2 | H2]; [|rewrite (NL m2 H2) in L2; discriminate].
    apply (LI m1 m2 x); assumption.
  - intros m x Hm L. apply in_app_or in Hm. destruct Hm as [Hm | Hm]; [apply (LS m x Hm L)|].
    rewrite (NL m Hm) in L. discriminate.
Qed.
