(** The waiting dequeue (Model/LongPoll.v): it answers with the first non-empty attempt, it gives
    the empty answer only when every attempt up to the deadline found nothing, and an attempt that
    finds a ready message ends the wait - no message that is ready at one of the attempts stays
    hidden behind a sleeping consumer. *)
From Coq Require Import List ZArith NArith Bool Lia.
From HK Require Import Gen.Consts Model.Queue Model.QueueHash Model.QueueMon Model.LongPoll
  Proofs.QueueBase Proofs.QueueInv Proofs.QueueInvStep Proofs.QueueStep Proofs.QueueLease.
Import ListNotations.
Open Scope Z_scope.

Section Poll.
Variables (fl : flavour) (c : cfg) (route target : option N) (batch ttl : Z).

Notation LP := (long_poll fl c route target batch ttl).
Notation AM := (attempts_made fl c route target batch ttl).
Notation SB := (state_before fl c route target batch ttl).

Lemma run_env_inv s xs : Inv s -> Inv (run_env fl c s xs).
Proof. intros I. unfold run_env. apply run_inv. exact I. Qed.

Lemma long_poll_inv ats : forall s, Inv s -> Inv (fst (LP s ats)).
Proof.
  induction ats as [|a tl IH]; intros s I; [exact I|].
  cbn [long_poll]. pose proof (run_env_inv s (at_env a) I) as I0.
  pose proof (step_inv fl c (run_env fl c s (at_env a)) (Dequeue (at_now a) route target batch ttl) (at_orc a) I0) as I1.
  destruct (step fl c (run_env fl c s (at_env a)) (Dequeue (at_now a) route target batch ttl) (at_orc a)) as [s1 r].
  cbn [fst] in I1. destruct (empty_items r); [|exact I1].
  destruct tl as [|b tl']; [exact I1|]. apply IH. exact I1.
Qed.

(** an answer is given as soon as there is at least one attempt *)
Lemma long_poll_answers a tl s : exists r, snd (LP s (a :: tl)) = Some r.
Proof.
  revert a s. induction tl as [|b tl IH]; intros a s; cbn [long_poll].
  - destruct (step fl c _ _ _) as [s1 r]. destruct (empty_items r); eexists; reflexivity.
  - destruct (step fl c (run_env fl c s (at_env a)) _ _) as [s1 r]. destruct (empty_items r); [apply IH | eexists; reflexivity].
Qed.

(** the empty answer is given only by the deadline attempt: every attempt was made and found nothing *)
Theorem long_poll_empty_only_at_deadline ats : forall s r,
  snd (LP s ats) = Some r -> empty_items r = true -> AM s ats = length ats.
Proof.
  induction ats as [|a tl IH]; intros s r H E; [discriminate|].
  cbn [long_poll attempts_made] in *.
  destruct (step fl c (run_env fl c s (at_env a)) (Dequeue (at_now a) route target batch ttl) (at_orc a)) as [s1 r1].
  destruct (empty_items r1) eqn:E1.
  - destruct tl as [|b tl']; [reflexivity|]. cbn [length]. f_equal. apply (IH s1 r H E).
  - cbn [snd] in H. inversion H; subst r1. rewrite E in E1. discriminate.
Qed.

(** the k-th attempt (0-based) is made exactly when the k attempts before it found nothing *)
Lemma state_before_made ats : forall s k sk, SB s ats k = Some sk -> (k < AM s ats)%nat.
Proof.
  induction ats as [|a tl IH]; intros s k sk H; [destruct k; discriminate|].
  destruct k as [|k']; cbn [state_before attempts_made] in *.
  - destruct (step fl c _ _ _) as [s1 r]. destruct (empty_items r); lia.
  - destruct (step fl c (run_env fl c s (at_env a)) _ _) as [s1 r]. destruct (empty_items r); [|discriminate].
    specialize (IH s1 k' sk H). lia.
Qed.

Lemma state_before_inv ats : forall s k sk, Inv s -> SB s ats k = Some sk -> Inv sk.
Proof.
  induction ats as [|a tl IH]; intros s k sk I H; [destruct k; discriminate|].
  pose proof (run_env_inv s (at_env a) I) as I0.
  destruct k as [|k']; cbn [state_before] in H.
  - inversion H; subst. exact I0.
  - pose proof (step_inv fl c (run_env fl c s (at_env a)) (Dequeue (at_now a) route target batch ttl) (at_orc a) I0) as I1.
    destruct (step fl c (run_env fl c s (at_env a)) _ _) as [s1 r]. destruct (empty_items r); [|discriminate].
    apply (IH s1 k' sk I1 H).
Qed.

(** an attempt that selects from a state holding a ready message of the route/target returns at least one message
    (the oracle being one the model allows): the wait ends there *)
Lemma attempt_finds_ready sk now o m :
  Inv sk -> In m (msgs (deq_pre fl c now o sk)) -> ready now route target m = true ->
  forall s1 r, step fl c sk (Dequeue now route target batch ttl) o = (s1, r) -> r <> RBadOracle ->
  empty_items r = false.
Proof.
  intros I Hm Hr s1 r Hs Hb. cbn [step] in Hs.
  destruct r; try reflexivity; try (exfalso; apply Hb; reflexivity).
  - destruct l as [|x xs]; [|reflexivity]. exfalso.
    destruct (dequeue_sound fl c now route target batch ttl o sk s1 [] I Hs) as [_ [_ [Hc _]]]. cbn [length] in Hc.
    pose proof (clamp_batch_range batch) as Hb1.
    assert (Hpos : (0 < length (filter (ready now route target) (msgs (deq_pre fl c now o sk))))%nat).
    { assert (Hin : In m (filter (ready now route target) (msgs (deq_pre fl c now o sk)))) by (apply filter_In; split; assumption).
      destruct (filter (ready now route target) (msgs (deq_pre fl c now o sk))); [destruct Hin | simpl; lia]. }
    lia.
Qed.

(** no ready message stays hidden behind a waiting consumer *)
Theorem long_poll_returns_what_became_ready ats : forall s k sk a m,
  Inv s -> SB s ats k = Some sk -> nth_error ats k = Some a ->
  In m (msgs (deq_pre fl c (at_now a) (at_orc a) sk)) -> ready (at_now a) route target m = true ->
  snd (step fl c sk (Dequeue (at_now a) route target batch ttl) (at_orc a)) <> RBadOracle ->
  AM s ats = S k /\ exists r, snd (LP s ats) = Some r /\ empty_items r = false.
Proof.
  induction ats as [|a0 tl IH]; intros s k sk a m I H Hn Hm Hr Hb; [destruct k; discriminate|].
  destruct k as [|k']; cbn [state_before nth_error long_poll attempts_made] in *.
  - inversion H; subst sk. inversion Hn; subst a0.
    pose proof (run_env_inv s (at_env a) I) as I0.
    destruct (step fl c (run_env fl c s (at_env a)) (Dequeue (at_now a) route target batch ttl) (at_orc a)) as [s1 r] eqn:Es.
    assert (E : empty_items r = false).
    { apply (attempt_finds_ready (run_env fl c s (at_env a)) (at_now a) (at_orc a) m I0 Hm Hr s1 r Es). exact Hb. }
    rewrite E. split; [reflexivity|]. exists r. split; [reflexivity | exact E].
  - pose proof (run_env_inv s (at_env a0) I) as I0.
    pose proof (step_inv fl c (run_env fl c s (at_env a0)) (Dequeue (at_now a0) route target batch ttl) (at_orc a0) I0) as I1.
    destruct (step fl c (run_env fl c s (at_env a0)) (Dequeue (at_now a0) route target batch ttl) (at_orc a0)) as [s1 r].
    destruct (empty_items r); [|discriminate]. cbn [fst] in I1.
    destruct (IH s1 k' sk a m I1 H Hn Hm Hr Hb) as [Ea [r2 [Er E2]]].
    split; [rewrite Ea; reflexivity|]. exists r2. split; [|exact E2].
    destruct tl as [|b tl']; [destruct k'; discriminate|]. exact Er.
Qed.

End Poll.
