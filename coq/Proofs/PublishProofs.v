(** Lemmas about Model/Publish.v composed with Model/Queue.v (C15). *)
From Coq Require Import List ZArith NArith Bool Lia.
From HK Require Import Model.Queue Model.Headers Model.Base64 Model.HeaderValidate Model.Publish.
From HK Require Import Proofs.HeadersProofs.
Import ListNotations.
Open Scope Z_scope.

Lemma Forall2_imp : forall {A B} (P Q : A -> B -> Prop) l1 l2,
  (forall a b, P a b -> Q a b) -> Forall2 P l1 l2 -> Forall2 Q l1 l2.
Proof. intros A B P Q l1 l2 H F. induction F; constructor; auto. Qed.

(** ** the scans *)

(** ids seen by parsePublishItems... before it looks at item [k] *)
Definition seen_after (items : list item) (seen : list N) : list N :=
  fold_left (fun s it => match trimmed_id (i_id it) with Some id => id :: s | None => s end) items seen.

Lemma parse_not_bad_id : forall req seen it,
  parse_item_bad req seen it = false -> exists id, trimmed_id (i_id it) = Some id.
Proof.
  intros req seen it H. unfold parse_item_bad in H. destruct (trimmed_id (i_id it)); eauto. discriminate.
Qed.

Lemma parse_scan_some : forall req items seen i j,
  parse_scan req seen items i = Some j ->
  exists k it, j = (i + k)%nat /\ nth_error items k = Some it /\
    parse_item_bad req (seen_after (firstn k items) seen) it = true /\
    forall k' it', (k' < k)%nat -> nth_error items k' = Some it' ->
      parse_item_bad req (seen_after (firstn k' items) seen) it' = false.
Proof.
  induction items as [|it tl IH]; intros seen i j H; simpl in H; try discriminate.
  destruct (parse_item_bad req seen it) eqn:Eb.
  - inversion H; subst. exists 0%nat, it. repeat split; auto; try (intros; lia).
  - destruct (parse_not_bad_id _ _ _ Eb) as [id Eid]. rewrite Eid in H.
    apply IH in H. destruct H as [k [it0 [Hj [Hn [Hbad Hpre]]]]].
    exists (S k), it0. repeat split; auto; try lia.
    + simpl. unfold seen_after in *. simpl. rewrite Eid. auto.
    + intros k' it' Hlt Hn'. destruct k' as [|k'].
      * simpl in Hn'. inversion Hn'; subst. simpl. auto.
      * simpl in Hn'. simpl. unfold seen_after in *. simpl. rewrite Eid. apply Hpre; auto. lia.
Qed.

Lemma parse_scan_none : forall req items seen i,
  parse_scan req seen items i = None ->
  forall k it, nth_error items k = Some it ->
    parse_item_bad req (seen_after (firstn k items) seen) it = false.
Proof.
  induction items as [|it tl IH]; intros seen i H k it0 Hn.
  - destruct k; discriminate.
  - simpl in H. destruct (parse_item_bad req seen it) eqn:Eb; try discriminate.
    destruct (parse_not_bad_id _ _ _ Eb) as [id Eid]. rewrite Eid in H.
    destruct k as [|k].
    + simpl in Hn. inversion Hn; subst. simpl. auto.
    + simpl in Hn. simpl. unfold seen_after in *. simpl. rewrite Eid. eapply IH; eauto.
Qed.

Lemma find_index_some : forall {A} (p : A -> bool) l i j,
  find_index p l i = Some j ->
  exists k a, j = (i + k)%nat /\ nth_error l k = Some a /\ p a = true /\
    forall k' a', (k' < k)%nat -> nth_error l k' = Some a' -> p a' = false.
Proof.
  induction l as [|a tl IH]; intros i j H; simpl in H; try discriminate.
  destruct (p a) eqn:Ep.
  - inversion H; subst. exists 0%nat, a. repeat split; auto; try (intros; lia).
  - apply IH in H. destruct H as [k [a0 [Hj [Hn [Hp Hpre]]]]].
    exists (S k), a0. repeat split; auto; try lia.
    intros k' a' Hlt Hn'. destruct k' as [|k'].
    + simpl in Hn'. inversion Hn'; subst. auto.
    + simpl in Hn'. eapply Hpre; eauto. lia.
Qed.

Lemma find_index_none : forall {A} (p : A -> bool) l i,
  find_index p l i = None -> forall a, In a l -> p a = false.
Proof.
  induction l as [|a tl IH]; intros i H b Hin; simpl in *; try contradiction.
  destruct (p a) eqn:Ep; try discriminate.
  destruct Hin as [Hin | Hin]; subst; eauto.
Qed.

Lemma sem_scan_bad : forall f items i j st c,
  sem_scan f items i = inr (j, st, c) ->
  exists k it, j = (i + k)%nat /\ nth_error items k = Some it /\ f it = inr (st, c) /\
    forall k' it', (k' < k)%nat -> nth_error items k' = Some it' -> exists e, f it' = inl e.
Proof.
  induction items as [|it tl IH]; intros i j st c H; simpl in H; try discriminate.
  destruct (f it) as [e | [st0 c0]] eqn:Ef.
  - destruct (sem_scan f tl (S i)) as [es | bad] eqn:Es; try discriminate.
    inversion H; subst. apply IH in Es. destruct Es as [k [it0 [Hj [Hn [Hf Hpre]]]]].
    exists (S k), it0. repeat split; auto; try lia.
    intros k' it' Hlt Hn'. destruct k' as [|k'].
    + simpl in Hn'. inversion Hn'; subst. eauto.
    + simpl in Hn'. eapply Hpre; eauto. lia.
  - inversion H; subst. exists 0%nat, it. repeat split; auto; try (intros; lia).
Qed.

Lemma sem_scan_ok : forall f items i es,
  sem_scan f items i = inl es -> Forall2 (fun it e => f it = inl e) items es.
Proof.
  induction items as [|it tl IH]; intros i es H; simpl in H.
  - inversion H. constructor.
  - destruct (f it) as [e | [st0 c0]] eqn:Ef; try discriminate.
    destruct (sem_scan f tl (S i)) as [es' | bad] eqn:Es; try discriminate.
    inversion H; subst. constructor; eauto.
Qed.

(** ** what an accepted item looks like *)
Lemma resolve_target_in : forall t allowed v, resolve_target t allowed = Some v -> In v allowed.
Proof.
  intros t allowed v H. unfold resolve_target in H.
  destruct allowed as [|a tl]; try discriminate.
  destruct t as [w|].
  - destruct (memN w (a :: tl)) eqn:E; try discriminate. inversion H; subst.
    unfold memN in E. apply existsb_exists in E. destruct E as [y [Hy Hb]]. apply N.eqb_eq in Hb. subst. auto.
  - destruct tl; try discriminate. inversion H; subst. left. reflexivity.
Qed.

Record envelope_facts (it : item) (id r t : N) (maxb maxh : Z) (e : penv) : Prop := {
  ef_id : pe_id e = id;
  ef_route : pe_route e = r;
  ef_target : pe_target e = t;
  ef_payload : payload_of (i_payload it) = Some (pe_payload e);
  ef_body_fits : blen (pe_payload e) <= maxb;
  ef_headers : pe_headers e = i_headers it;
  ef_headers_valid : validate_map (pe_headers e) = true;
  ef_headers_fit : kv_size (pe_headers e) <= maxh;
  ef_recv : time_of (i_recv it) = Some (pe_recv e);
  ef_next : time_of (i_next it) = Some (pe_next e);
  ef_trace : pe_trace e = i_trace it }.

Lemma envelope_inl : forall it id r t maxb maxh e,
  envelope it id r t maxb maxh = inl e -> envelope_facts it id r t maxb maxh e.
Proof.
  intros it id r t maxb maxh e H. unfold envelope in H.
  destruct (time_of (i_recv it)) as [recv|] eqn:Er; try discriminate.
  destruct (time_of (i_next it)) as [next|] eqn:En; try discriminate.
  destruct (payload_of (i_payload it)) as [p|] eqn:Ep; try discriminate.
  destruct (Z.ltb_spec maxb (blen p)); try discriminate.
  destruct (validate_map (i_headers it)) eqn:Ev; simpl in H; try discriminate.
  destruct (Z.ltb_spec maxh (kv_size (i_headers it))); try discriminate.
  inversion H; subst. constructor; simpl; auto.
Qed.

Lemma targets_for_route : forall x r t, In t (targets_for x r) ->
  exists rt, find_route x r = Some rt /\ In t (norm_targets (r_targets rt)).
Proof.
  intros x r t H. unfold targets_for in H. destruct (find_route x r) as [rt|]; [eauto | contradiction].
Qed.

Record accepted_global (x : ctx) (it : item) (e : penv) : Prop := {
  ag_route : i_route it = RSPath (pe_route e);
  ag_no_selector : blank_l (i_app it) = true /\ blank_l (i_ep it) = true;
  ag_unmanaged : route_is_managed x (pe_route e) = false;
  ag_policy : route_policy_error x (pe_route e) (targets_for x (pe_route e)) false = None;
  ag_target : In (pe_target e) (targets_for x (pe_route e));
  ag_id : trimmed_id (i_id it) = Some (pe_id e);
  ag_env : envelope_facts it (pe_id e) (pe_route e) (pe_target e)
                          (eff_max_body x (pe_route e)) (eff_max_headers x (pe_route e)) e }.

Lemma sem_global_inl : forall x it e, sem_global x it = inl e -> accepted_global x it e.
Proof.
  intros x it e H. unfold sem_global in H.
  destruct (trimmed_id (i_id it)) as [id|] eqn:Eid; try discriminate.
  destruct (Bool.eqb (blank_l (i_app it)) (blank_l (i_ep it))) eqn:Eab; simpl in H; try discriminate.
  destruct (blank_l (i_app it)) eqn:Ea; simpl in H; try discriminate.
  destruct (i_route it) as [| |r] eqn:Er; try discriminate.
  destruct (route_is_managed x r) eqn:Em; try discriminate.
  destruct (targets_for x r) as [|t0 ts] eqn:Et; try discriminate.
  destruct (route_policy_error x r (t0 :: ts) false) eqn:Ep; try discriminate.
  destruct (resolve_target (i_target it) (t0 :: ts)) as [t|] eqn:Ert; try discriminate.
  apply envelope_inl in H. pose proof H as H'. destruct H' as [Hid Hr Ht _ _ _ _ _ _ _ _].
  subst id r t. apply resolve_target_in in Ert.
  constructor; auto.
  - split; auto. apply Bool.eqb_prop in Eab. congruence.
  - rewrite Et. auto.
  - rewrite Et. auto.
Qed.

Record accepted_scoped (x : ctx) (r : N) (targets : list N) (it : item) (e : penv) : Prop := {
  as_no_hints : has_hints it = false;
  as_route : pe_route e = r;
  as_target : In (pe_target e) targets;
  as_id : trimmed_id (i_id it) = Some (pe_id e);
  as_env : envelope_facts it (pe_id e) r (pe_target e) (eff_max_body x r) (eff_max_headers x r) e }.

Lemma sem_scoped_inl : forall x r targets it e, sem_scoped x r targets it = inl e -> accepted_scoped x r targets it e.
Proof.
  intros x r targets it e H. unfold sem_scoped in H.
  destruct (trimmed_id (i_id it)) as [id|] eqn:Eid; try discriminate.
  destruct (has_hints it) eqn:Eh; try discriminate.
  destruct (resolve_target (i_target it) targets) as [t|] eqn:Ert; try discriminate.
  apply envelope_inl in H. pose proof H as H'. destruct H' as [Hid Hr Ht _ _ _ _ _ _ _ _].
  subst id t. apply resolve_target_in in Ert.
  constructor; auto; try (rewrite Hr; auto).
Qed.

(** ** passes 1-3: accept / first offender *)
Definition parse_ok_all (req : bool) (items : list item) : Prop :=
  forall k it, nth_error items k = Some it ->
    parse_item_bad req (seen_after (firstn k items) []) it = false.

Definition count_ok (items : list item) : Prop :=
  (1 <= Z.of_nat (length items) <= max_items).

Lemma count_ok_dec : forall items,
  ((Z.of_nat (length items) =? 0) || (max_items <? Z.of_nat (length items))) = false <-> count_ok items.
Proof.
  intros. unfold count_ok. rewrite orb_false_iff. rewrite Z.eqb_neq, Z.ltb_ge. lia.
Qed.

Theorem items_global_accept : forall x ok items es,
  items_global x ok items = Accept es ->
  ok = true /\ count_ok items /\ parse_ok_all true items /\
  (forall it, In it items -> has_managed_selector it = false) /\
  Forall2 (accepted_global x) items es.
Proof.
  intros x ok items es H. unfold items_global in H.
  destruct ok; simpl in H; try discriminate.
  destruct ((Z.of_nat (length items) =? 0) || (max_items <? Z.of_nat (length items))) eqn:Ec; try discriminate.
  destruct (parse_scan true [] items 0) eqn:Ep; try discriminate.
  destruct (find_index has_managed_selector items 0) eqn:Em; try discriminate.
  destruct (sem_scan (sem_global x) items 0) as [es' | [[i st] c]] eqn:Es; try discriminate.
  inversion H; subst. repeat split.
  - apply count_ok_dec in Ec. apply Ec.
  - apply count_ok_dec in Ec. apply Ec.
  - intros k it Hn. eapply parse_scan_none; eauto.
  - intros it Hin. eapply find_index_none; eauto.
  - apply sem_scan_ok in Es. eapply Forall2_imp; [|exact Es]. intros. apply sem_global_inl. auto.
Qed.

(** Reject with an item index: which pass found it, that the named item is the offender at
    that pass, and that no earlier item offends at that pass (earlier passes found nothing). *)
Inductive offender_global (x : ctx) (items : list item) (st : Z) (c : code) (k : nat) (it : item) : Prop :=
| OgParse :
    st = 400 -> c = CInvalidBody ->
    parse_item_bad true (seen_after (firstn k items) []) it = true ->
    (forall k' it', (k' < k)%nat -> nth_error items k' = Some it' ->
                    parse_item_bad true (seen_after (firstn k' items) []) it' = false) ->
    offender_global x items st c k it
| OgManagedSelector :
    parse_ok_all true items ->
    st = 400 -> c = CScopedRequired -> has_managed_selector it = true ->
    (forall k' it', (k' < k)%nat -> nth_error items k' = Some it' -> has_managed_selector it' = false) ->
    offender_global x items st c k it
| OgSemantic :
    parse_ok_all true items ->
    (forall it', In it' items -> has_managed_selector it' = false) ->
    sem_global x it = inr (st, c) ->
    (forall k' it', (k' < k)%nat -> nth_error items k' = Some it' -> item_ok_global x it' = true) ->
    offender_global x items st c k it.

Theorem items_global_reject : forall x ok items st c idx,
  items_global x ok items = Reject st c idx ->
  (idx = -1 /\ st = 400 /\ c = CInvalidBody /\ (ok = false \/ ~ count_ok items)) \/
  (exists k it, idx = Z.of_nat k /\ nth_error items k = Some it /\ offender_global x items st c k it).
Proof.
  intros x ok items st c idx H. unfold items_global in H.
  destruct ok; simpl in H.
  2:{ inversion H; subst. left. auto. }
  destruct ((Z.of_nat (length items) =? 0) || (max_items <? Z.of_nat (length items))) eqn:Ec.
  { inversion H; subst. left. repeat split; auto. right. intros Hc. apply count_ok_dec in Hc. congruence. }
  destruct (parse_scan true [] items 0) as [i|] eqn:Ep.
  { inversion H; subst. right. apply parse_scan_some in Ep.
    destruct Ep as [k [it [Hj [Hn [Hb Hpre]]]]]. simpl in Hj. subst i.
    exists k, it. repeat split; auto. apply OgParse; auto. }
  destruct (find_index has_managed_selector items 0) as [i|] eqn:Em.
  { inversion H; subst. right. apply find_index_some in Em.
    destruct Em as [k [it [Hj [Hn [Hp Hpre]]]]]. simpl in Hj. subst i.
    exists k, it. repeat split; auto. apply OgManagedSelector; auto.
    intros k0 it0 Hn0. eapply parse_scan_none; eauto. }
  destruct (sem_scan (sem_global x) items 0) as [es' | [[i st0] c0]] eqn:Es; try discriminate.
  inversion H; subst. right. apply sem_scan_bad in Es.
  destruct Es as [k [it [Hj [Hn [Hf Hpre]]]]]. simpl in Hj. subst i.
  exists k, it. repeat split; auto. apply OgSemantic; auto.
  - intros k0 it0 Hn0. eapply parse_scan_none; eauto.
  - intros it0 Hin. eapply find_index_none; eauto.
  - intros k' it' Hlt Hn'. destruct (Hpre k' it' Hlt Hn') as [e He]. unfold item_ok_global. rewrite He. reflexivity.
Qed.

Theorem items_scoped_accept : forall x r targets ok items es,
  items_scoped x r targets ok items = Accept es ->
  ok = true /\ count_ok items /\ parse_ok_all false items /\
  Forall2 (accepted_scoped x r targets) items es.
Proof.
  intros x r targets ok items es H. unfold items_scoped in H.
  destruct ok; simpl in H; try discriminate.
  destruct ((Z.of_nat (length items) =? 0) || (max_items <? Z.of_nat (length items))) eqn:Ec; try discriminate.
  destruct (parse_scan false [] items 0) eqn:Ep; try discriminate.
  destruct (sem_scan (sem_scoped x r targets) items 0) as [es' | [[i st] c]] eqn:Es; try discriminate.
  inversion H; subst. repeat split.
  - apply count_ok_dec in Ec. apply Ec.
  - apply count_ok_dec in Ec. apply Ec.
  - intros k it Hn. eapply parse_scan_none; eauto.
  - apply sem_scan_ok in Es. eapply Forall2_imp; [|exact Es]. intros. apply sem_scoped_inl. auto.
Qed.

Inductive offender_scoped (x : ctx) (r : N) (targets : list N) (items : list item) (st : Z) (c : code) (k : nat) (it : item) : Prop :=
| OsParse :
    st = 400 -> c = CInvalidBody ->
    parse_item_bad false (seen_after (firstn k items) []) it = true ->
    (forall k' it', (k' < k)%nat -> nth_error items k' = Some it' ->
                    parse_item_bad false (seen_after (firstn k' items) []) it' = false) ->
    offender_scoped x r targets items st c k it
| OsSemantic :
    parse_ok_all false items ->
    sem_scoped x r targets it = inr (st, c) ->
    (forall k' it', (k' < k)%nat -> nth_error items k' = Some it' -> item_ok_scoped x r targets it' = true) ->
    offender_scoped x r targets items st c k it.

Theorem items_scoped_reject : forall x r targets ok items st c idx,
  items_scoped x r targets ok items = Reject st c idx ->
  (idx = -1 /\ st = 400 /\ c = CInvalidBody /\ (ok = false \/ ~ count_ok items)) \/
  (exists k it, idx = Z.of_nat k /\ nth_error items k = Some it /\ offender_scoped x r targets items st c k it).
Proof.
  intros x r targets ok items st c idx H. unfold items_scoped in H.
  destruct ok; simpl in H.
  2:{ inversion H; subst. left. auto. }
  destruct ((Z.of_nat (length items) =? 0) || (max_items <? Z.of_nat (length items))) eqn:Ec.
  { inversion H; subst. left. repeat split; auto. right. intros Hc. apply count_ok_dec in Hc. congruence. }
  destruct (parse_scan false [] items 0) as [i|] eqn:Ep.
  { inversion H; subst. right. apply parse_scan_some in Ep.
    destruct Ep as [k [it [Hj [Hn [Hb Hpre]]]]]. simpl in Hj. subst i.
    exists k, it. repeat split; auto. apply OsParse; auto. }
  destruct (sem_scan (sem_scoped x r targets) items 0) as [es' | [[i st0] c0]] eqn:Es; try discriminate.
  inversion H; subst. right. apply sem_scan_bad in Es.
  destruct Es as [k [it [Hj [Hn [Hf Hpre]]]]]. simpl in Hj. subst i.
  exists k, it. repeat split; auto. apply OsSemantic; auto.
  - intros k0 it0 Hn0. eapply parse_scan_none; eauto.
  - intros k' it' Hlt Hn'. destruct (Hpre k' it' Hlt Hn') as [e He]. unfold item_ok_scoped. rewrite He. reflexivity.
Qed.

(** request level of the two handlers *)
Lemma preflight_global_items : forall x a ok items,
  (exists st c, preflight_global x a ok items = Reject st c (-1) /\
                c <> CInvalidBody) \/
  preflight_global x a ok items = items_global x ok items.
Proof.
  intros. unfold preflight_global.
  destruct (x_direct x); simpl.
  2:{ left. exists 403, CGlobalDisabled. split; auto. discriminate. }
  destruct (parse_audit x a) as [[[reason actor] reqid]|].
  2:{ left. exists 400, CAuditReason. split; auto. discriminate. }
  destruct (audit_policy_error x actor reqid false) as [c|] eqn:E.
  - left. exists 400, c. split; auto.
    unfold audit_policy_error in E.
    repeat match type of E with
           | (if ?b then _ else _) = _ => destruct b
           end; inversion E; discriminate.
  - right. reflexivity.
Qed.

Definition scope_of (x : ctx) (app ep : lsel) : option (N * list N) :=
  match app, ep with
  | LValid ap, LValid en =>
      match find_endpoint x ap en with
      | Some rt => Some (r_path rt, targets_for x (r_path rt))
      | None => None
      end
  | _, _ => None
  end.

Lemma preflight_scoped_items : forall x app ep a ok items,
  (exists st c, preflight_scoped x app ep a ok items = Reject st c (-1)) \/
  (exists r targets, scope_of x app ep = Some (r, targets) /\ targets <> [] /\
                     route_policy_error x r targets true = None /\
                     preflight_scoped x app ep a ok items = items_scoped x r targets ok items).
Proof.
  intros. unfold preflight_scoped, scope_of.
  destruct app as [| |ap]; try (left; eauto; fail).
  destruct ep as [| |en]; try (left; eauto; fail).
  destruct (x_managed x); simpl; [|left; eauto].
  destruct (find_endpoint x ap en) as [rt|]; [|left; eauto].
  destruct (targets_for x (r_path rt)) as [|t0 ts] eqn:Et; [left; eauto|].
  destruct (parse_audit x a) as [[[reason actor] reqid]|]; [|left; eauto].
  destruct (audit_policy_error x actor reqid true); [left; eauto|].
  destruct (route_policy_error x (r_path rt) (t0 :: ts) true) eqn:Ep; [left; eauto|].
  right. exists (r_path rt), (t0 :: ts). repeat split; auto. discriminate.
Qed.

(** ** a refusal never carries status 200 *)
Ltac break_match H :=
  repeat match type of H with
         | context [match ?x with _ => _ end] => destruct x eqn:?; try discriminate
         | context [if ?b then _ else _] => destruct b eqn:?; try discriminate
         end.

Definition refusal_status (st : Z) : Prop := st = 400 \/ st = 403 \/ st = 404 \/ st = 413.

Lemma refusal_not_200 : forall st, refusal_status st -> st <> 200.
Proof. unfold refusal_status. intros. lia. Qed.

Lemma sem_global_status : forall x it st c, sem_global x it = inr (st, c) -> refusal_status st.
Proof.
  intros x it st c H. unfold sem_global, envelope in H. unfold refusal_status.
  break_match H; inversion H; auto.
Qed.

Lemma sem_scoped_status : forall x r ts it st c, sem_scoped x r ts it = inr (st, c) -> refusal_status st.
Proof.
  intros x r ts it st c H. unfold sem_scoped, envelope in H. unfold refusal_status.
  break_match H; inversion H; auto.
Qed.

Lemma items_global_status : forall x ok items st c i,
  items_global x ok items = Reject st c i -> refusal_status st.
Proof.
  intros x ok items st c i H. apply items_global_reject in H.
  destruct H as [[_ [Hs _]] | [k [it [_ [_ Ho]]]]].
  - subst. left. reflexivity.
  - destruct Ho; subst; try (left; reflexivity). eapply sem_global_status; eauto.
Qed.

Lemma items_scoped_status : forall x r ts ok items st c i,
  items_scoped x r ts ok items = Reject st c i -> refusal_status st.
Proof.
  intros x r ts ok items st c i H. apply items_scoped_reject in H.
  destruct H as [[_ [Hs _]] | [k [it [_ [_ Ho]]]]].
  - subst. left. reflexivity.
  - destruct Ho; subst; try (left; reflexivity). eapply sem_scoped_status; eauto.
Qed.

Lemma preflight_global_status : forall x a ok items st c i,
  preflight_global x a ok items = Reject st c i -> refusal_status st.
Proof.
  intros x a ok items st c i H. unfold preflight_global in H.
  destruct (x_direct x); simpl in H; [|inversion H; subst; right; left; reflexivity].
  destruct (parse_audit x a) as [[[reason actor] reqid]|]; [|inversion H; subst; left; reflexivity].
  destruct (audit_policy_error x actor reqid false); [inversion H; subst; left; reflexivity|].
  eapply items_global_status; eauto.
Qed.

Lemma preflight_scoped_status : forall x app ep a ok items st c i,
  preflight_scoped x app ep a ok items = Reject st c i -> refusal_status st.
Proof.
  intros x app ep a ok items st c i H. unfold preflight_scoped in H. unfold refusal_status.
  destruct app as [| |ap]; try (inversion H; subst; auto; fail).
  destruct ep as [| |en]; try (inversion H; subst; auto; fail).
  destruct (x_managed x); simpl in H; [|inversion H; subst; auto].
  destruct (find_endpoint x ap en) as [rt|]; [|inversion H; subst; auto].
  destruct (targets_for x (r_path rt)) as [|t0 ts]; [inversion H; subst; auto|].
  destruct (parse_audit x a) as [[[reason actor] reqid]|]; [|inversion H; subst; auto].
  destruct (audit_policy_error x actor reqid true); [inversion H; subst; auto|].
  destruct (route_policy_error x (r_path rt) (t0 :: ts) true); [inversion H; subst; auto|].
  eapply items_scoped_status; eauto.
Qed.

Lemma preflight_global_accept : forall x a ok items es,
  preflight_global x a ok items = Accept es -> items_global x ok items = Accept es.
Proof.
  intros x a ok items es H. destruct (preflight_global_items x a ok items) as [[st [c [Hr _]]] | He]; congruence.
Qed.

Lemma preflight_scoped_accept : forall x app ep a ok items es,
  preflight_scoped x app ep a ok items = Accept es ->
  exists r targets, scope_of x app ep = Some (r, targets) /\ targets <> [] /\
                    route_policy_error x r targets true = None /\
                    items_scoped x r targets ok items = Accept es.
Proof.
  intros x app ep a ok items es H.
  destruct (preflight_scoped_items x app ep a ok items) as [[st [c Hr]] | [r [ts [Hs [Hn [Hp He]]]]]]; try congruence.
  exists r, ts. repeat split; auto. congruence.
Qed.

Lemma Forall2_in_l : forall {A B} (R : A -> B -> Prop) l1 l2 a,
  Forall2 R l1 l2 -> In a l1 -> exists b, In b l2 /\ R a b.
Proof.
  intros A B R l1 l2 a F. induction F; intros Hin; simpl in *; try contradiction.
  destruct Hin as [Hin | Hin].
  - subst. eauto.
  - destruct (IHF Hin) as [b [Hb Hr]]. eauto.
Qed.

Lemma Forall2_in_r : forall {A B} (R : A -> B -> Prop) l1 l2 b,
  Forall2 R l1 l2 -> In b l2 -> exists a, In a l1 /\ R a b.
Proof.
  intros A B R l1 l2 b F. induction F; intros Hin; simpl in *; try contradiction.
  destruct Hin as [Hin | Hin].
  - subst. eauto.
  - destruct (IHF Hin) as [a [Ha Hr]]. eauto.
Qed.

Lemma Forall2_len : forall {A B} (R : A -> B -> Prop) l1 l2, Forall2 R l1 l2 -> length l1 = length l2.
Proof. intros A B R l1 l2 F. induction F; simpl; auto. Qed.

(** ** the queue step *)
Lemma apply_pm_in : forall pm l m',
  (forall m x, pm m = Some x -> x = m) -> In m' (apply_pm pm l) -> In m' l.
Proof.
  induction l as [|m tl IH]; intros m' Hpm H; simpl in *; auto.
  destruct (pm m) as [x|] eqn:E.
  - apply Hpm in E. subst. destruct H; auto.
  - auto.
Qed.

Lemma pm_remove_ids_id : forall ids m x, pm_remove_ids ids m = Some x -> x = m.
Proof. intros ids m x H. unfold pm_remove_ids in H. destruct (memN (m_id m) ids); congruence. Qed.

Lemma pm_prune_age_id : forall c now m x, pm_prune_age c now m = Some x -> x = m.
Proof. intros c now m x H. unfold pm_prune_age in H. destruct (prune_age_eligible c now m); congruence. Qed.

Lemma remove_id_in : forall v l m, In m (remove_id v l) -> In m l.
Proof. intros. unfold remove_id in H. eapply apply_pm_in; eauto. apply pm_remove_ids_id. Qed.

Lemma prune_in : forall c now hint s m, In m (msgs (prune c now hint s)) -> In m (msgs s).
Proof.
  intros c now hint s m H. unfold prune in H.
  destruct (prune_due c now (last_prune s)); auto. simpl in H. unfold prune_msgs in H.
  eapply apply_pm_in in H; [|apply pm_remove_ids_id].
  eapply apply_pm_in in H; [|apply pm_prune_age_id]. auto.
Qed.

Lemma sql_make_room_in : forall c fuel need hint l l' m,
  sql_make_room c fuel need hint l = Some l' -> In m l' -> In m l.
Proof.
  induction fuel as [|f IH]; intros need hint l l' m H Hin; simpl in H.
  - destruct (need <=? c_max_depth c); inversion H; subst; auto.
  - destruct (need <=? c_max_depth c); [inversion H; subst; auto|].
    destruct (sql_victim hint l) as [v|]; try discriminate.
    eapply IH in H; eauto. eapply remove_id_in; eauto.
Qed.

Section Store.
Variable hb : bytes -> N.
Variable hh : smap -> N.

(** the message the store creates for an accepted item *)
Definition stored (now : Z) (e : penv) : msg := mk_msg now (pe_id e) (to_enq hb hh e).

Lemma assign_ids_to_enq : forall es gen,
  assign_ids (map (to_enq hb hh) es) gen = Some (map (fun e => (pe_id e, to_enq hb hh e)) es).
Proof.
  induction es as [|e tl IH]; intros gen; simpl; auto. rewrite IH. reflexivity.
Qed.

Lemma stored_shape : forall now e,
  let m := stored now e in
  m_id m = pe_id e /\ m_route m = pe_route e /\ m_target m = pe_target e /\ m_st m = Queued /\
  m_attempt m = 0 /\ m_lease m = None /\ m_body m = hb (pe_payload e) /\ m_hdr m = hh (pe_headers e) /\
  m_recv m = match pe_recv e with Some t => t | None => now end.
Proof. intros. unfold m, stored, mk_msg, to_enq. simpl. repeat split; auto. Qed.

(** EnqueueBatch: all or nothing *)
Lemma step_enqueue_batch : forall fl c now es o s s' r,
  step_enqueue fl c now false (map (to_enq hb hh) es) o s = (s', r) ->
  (exists kept, r = RCount (Z.of_nat (length es)) 0 false /\
                msgs s' = kept ++ map (stored now) es /\ (forall m, In m kept -> In m (msgs s)))
  \/ ((exists e, r = RErr e) /\ s' = prune c now (o_gone o) s).
Proof.
  intros fl c now es o s s' r H. unfold step_enqueue in H.
  destruct es as [|e0 es0].
  { simpl in H. inversion H; subst. left. exists (msgs s'). simpl. rewrite app_nil_r. auto. }
  remember (e0 :: es0) as es eqn:Ees.
  assert (Hne : map (to_enq hb hh) es = to_enq hb hh e0 :: map (to_enq hb hh) es0) by (subst; reflexivity).
  rewrite Hne in H. rewrite <- Hne in H. rewrite assign_ids_to_enq in H.
  rewrite !map_map in H. simpl in H. rewrite map_length in H.
  set (s1 := prune c now (o_gone o) s) in *.
  assert (Hs1 : forall m, In m (msgs s1) -> In m (msgs s)) by (intros; eapply prune_in; eauto).
  assert (Hnews : map (fun x : penv => mk_msg now (pe_id x) (to_enq hb hh x)) es = map (stored now) es) by reflexivity.
  rewrite Hnews in H.
  destruct fl.
  - (* Mem *)
    destruct (mem_plan c (Z.of_nat (length es)) s1 (msgs s1)) as [victims|].
    2:{ inversion H; subst. right. split; eauto. }
    match type of H with
    | (if ?b then _ else _) = _ => destruct b
    end.
    { inversion H; subst. right. split; eauto. }
    destruct (pressure c (msgs s1)).
    { inversion H; subst. right. split; eauto. }
    inversion H; subst. left. eexists. split; [reflexivity|]. simpl. split; [reflexivity|].
    intros m Hm. apply Hs1. eapply apply_pm_in; eauto. apply pm_remove_ids_id.
  - (* Sql *)
    match type of H with
    | match ?room with _ => _ end = _ => destruct room as [l2|] eqn:Eroom
    end.
    2:{ inversion H; subst. right. split; eauto. }
    match type of H with
    | (if ?b then _ else _) = _ => destruct b
    end.
    2:{ inversion H; subst. right. split; eauto. }
    inversion H; subst. left. eexists. split; [reflexivity|]. simpl. split; [reflexivity|].
    intros m Hm. apply Hs1.
    destruct (0 <? c_max_depth c); [|inversion Eroom; subst; auto].
    destruct (c_drop_oldest c).
    + eapply (sql_make_room_in c (S (length (msgs s1)))); [exact Eroom | exact Hm].
    + destruct (c_max_depth c <? active (msgs s1) + Z.of_nat (length (e0 :: es0))); inversion Eroom; subst; auto.
Qed.

Definition unchanged (c : cfg) (now : Z) (o : oracle) (s s' : state) : Prop :=
  s' = s \/ s' = prune c now (o_gone o) s.

Lemma unchanged_no_prune : forall c now o s s',
  prune_due c now (last_prune s) = false -> unchanged c now o s s' -> s' = s.
Proof.
  intros c now o s s' Hp [H | H]; auto. subst. unfold prune. rewrite Hp. reflexivity.
Qed.

Lemma unchanged_msgs : forall c now o s s' m, unchanged c now o s s' -> In m (msgs s') -> In m (msgs s).
Proof. intros c now o s s' m [H | H] Hin; subst; auto. eapply prune_in; eauto. Qed.

Theorem commit_batch_atomic : forall fl c now o es s s' r,
  commit_batch hb hh fl c now o es s = (s', r) ->
  match r with
  | ROk n => n = Z.of_nat (length es) /\
             exists kept, msgs s' = kept ++ map (stored now) es /\ (forall m, In m kept -> In m (msgs s))
  | RFail st _ _ => st <> 200 /\ unchanged c now o s s'
  end.
Proof.
  intros fl c now o es s s' r H. unfold commit_batch in H.
  destruct (first_existing (map pe_id es) s).
  { inversion H; subst. split; [lia | left; reflexivity]. }
  destruct (step_enqueue fl c now false (map (to_enq hb hh) es) o s) as [s2 r2] eqn:E.
  apply step_enqueue_batch in E. destruct E as [[kept [Hr [Hm Hk]]] | [[e Hr] Hs]]; subst r2.
  - inversion H; subst. split; auto. exists kept. auto.
  - inversion H; subst. destruct e; simpl; split; try lia; right; reflexivity.
Qed.

Definition all_stored (ids : list N) (l : list msg) : Prop :=
  forall i, In i ids -> exists m, In m l /\ m_id m = i /\ m_st m = Queued.

Definition item_ids (items : list item) : list N :=
  flat_map (fun it => match trimmed_id (i_id it) with Some id => [id] | None => [] end) items.

Lemma stored_all : forall now es kept, all_stored (map pe_id es) (kept ++ map (stored now) es).
Proof.
  intros now es kept i Hin. apply in_map_iff in Hin. destruct Hin as [e [He Hin]].
  exists (stored now e). split; [apply in_or_app; right; apply in_map; auto|].
  destruct (stored_shape now e) as [H1 [_ [_ [H4 _]]]]. split; congruence.
Qed.

Theorem finish_atomic : forall fl c now o p s s' r,
  (forall st cd i, p = Reject st cd i -> st <> 200) ->
  finish hb hh true fl c now o p s = (s', r) ->
  match r with
  | ROk n => exists es kept, p = Accept es /\ n = Z.of_nat (length es) /\
             msgs s' = kept ++ map (stored now) es /\ (forall m, In m kept -> In m (msgs s))
  | RFail st _ _ => st <> 200 /\ unchanged c now o s s'
  end.
Proof.
  intros fl c now o p s s' r Hst H. unfold finish in H. destruct p as [es | st cd i].
  - apply commit_batch_atomic in H. destruct r; auto.
    destruct H as [Hn [kept [Hm Hk]]]. exists es, kept. auto.
  - inversion H; subst. split; [eapply Hst; eauto | left; reflexivity].
Qed.

Lemma accepted_global_ids : forall x items es,
  Forall2 (accepted_global x) items es -> item_ids items = map pe_id es.
Proof.
  intros x items es F. induction F; simpl; auto.
  destruct H. rewrite ag_id0. simpl. f_equal. auto.
Qed.

Lemma accepted_scoped_ids : forall x r ts items es,
  Forall2 (accepted_scoped x r ts) items es -> item_ids items = map pe_id es.
Proof.
  intros x r ts items es F. induction F; simpl; auto.
  destruct H. rewrite as_id0. simpl. f_equal. auto.
Qed.

(** POST /messages/publish against a store with EnqueueBatch: status 200 means every item of
    the request is now stored (queued) and [published] = number of items; any other status
    means the queue is as it was (up to the retention prune every store operation performs). *)
Theorem publish_atomic_global : forall fl c now o x a ok items s s' r,
  publish_global hb hh true fl c now o x a ok items s = (s', r) ->
  match r with
  | ROk n => n = Z.of_nat (length items) /\ all_stored (item_ids items) (msgs s') /\
             exists es kept, preflight_global x a ok items = Accept es /\
                             Forall2 (accepted_global x) items es /\
                             msgs s' = kept ++ map (stored now) es /\
                             (forall m, In m kept -> In m (msgs s))
  | RFail st _ _ => st <> 200 /\ unchanged c now o s s'
  end.
Proof.
  intros fl c now o x a ok items s s' r H. unfold publish_global in H.
  apply finish_atomic in H.
  2:{ intros st cd i Hp. apply refusal_not_200. eapply preflight_global_status; eauto. }
  destruct r; auto.
  destruct H as [es [kept [Hp [Hn [Hm Hk]]]]].
  pose proof (preflight_global_accept _ _ _ _ _ Hp) as Hi.
  apply items_global_accept in Hi. destruct Hi as [_ [_ [_ [_ F]]]].
  split; [|split].
  - rewrite (Forall2_len _ _ _ F). auto.
  - rewrite (accepted_global_ids _ _ _ F). rewrite Hm. apply stored_all.
  - exists es, kept. auto.
Qed.

Theorem publish_atomic_scoped : forall fl c now o x app ep a ok items s s' r,
  publish_scoped hb hh true fl c now o x app ep a ok items s = (s', r) ->
  match r with
  | ROk n => n = Z.of_nat (length items) /\ all_stored (item_ids items) (msgs s') /\
             exists es kept rt ts, preflight_scoped x app ep a ok items = Accept es /\
                             scope_of x app ep = Some (rt, ts) /\
                             Forall2 (accepted_scoped x rt ts) items es /\
                             msgs s' = kept ++ map (stored now) es /\
                             (forall m, In m kept -> In m (msgs s))
  | RFail st _ _ => st <> 200 /\ unchanged c now o s s'
  end.
Proof.
  intros fl c now o x app ep a ok items s s' r H. unfold publish_scoped in H.
  apply finish_atomic in H.
  2:{ intros st cd i Hp. apply refusal_not_200. eapply preflight_scoped_status; eauto. }
  destruct r; auto.
  destruct H as [es [kept [Hp [Hn [Hm Hk]]]]].
  destruct (preflight_scoped_accept _ _ _ _ _ _ _ Hp) as [rt [ts [Hs [_ [_ Hi]]]]].
  apply items_scoped_accept in Hi. destruct Hi as [_ [_ [_ F]]].
  split; [|split].
  - rewrite (Forall2_len _ _ _ F). auto.
  - rewrite (accepted_scoped_ids _ _ _ _ _ F). rewrite Hm. apply stored_all.
  - exists es, kept, rt, ts. auto.
Qed.

(** ** shape of what publish stores *)
Record shape_ok (x : ctx) (now : Z) (e : penv) (m : msg) : Prop := {
  sh_state : m_st m = Queued;
  sh_fresh : m_attempt m = 0 /\ m_lease m = None;
  sh_route_target : exists rt, find_route x (m_route m) = Some rt /\
                               In (m_target m) (norm_targets (r_targets rt));
  sh_payload : m_body m = hb (pe_payload e) /\ blen (pe_payload e) <= eff_max_body x (m_route m);
  sh_headers : m_hdr m = hh (pe_headers e) /\ validate_map (pe_headers e) = true /\
               kv_size (pe_headers e) <= eff_max_headers x (m_route m) }.

Lemma shape_of_env : forall x now it e r t,
  envelope_facts it (pe_id e) r t (eff_max_body x r) (eff_max_headers x r) e ->
  In t (targets_for x r) -> shape_ok x now e (stored now e).
Proof.
  intros x now it e r t [Hid Hr Ht Hp Hb Hh Hv Hf _ _ _] Hin.
  destruct (stored_shape now e) as [S1 [S2 [S3 [S4 [S5 [S6 [S7 [S8 _]]]]]]]].
  constructor; auto.
  - rewrite S2, S3, Hr, Ht. apply targets_for_route. auto.
  - rewrite S2, Hr. auto.
  - rewrite S2, Hr. auto.
Qed.

Theorem published_shape_global : forall x items es now e,
  Forall2 (accepted_global x) items es -> In e es ->
  shape_ok x now e (stored now e) /\
  exists it, In it items /\ payload_of (i_payload it) = Some (pe_payload e) /\ pe_headers e = i_headers it.
Proof.
  intros x items es now e F Hin. destruct (Forall2_in_r _ _ _ _ F Hin) as [it [Hit Ha]].
  destruct Ha. split.
  - eapply shape_of_env; eauto.
  - exists it. destruct ag_env0. auto.
Qed.

Theorem published_shape_scoped : forall x r ts items es now e,
  Forall2 (accepted_scoped x r ts) items es -> ts = targets_for x r -> In e es ->
  shape_ok x now e (stored now e) /\
  exists it, In it items /\ payload_of (i_payload it) = Some (pe_payload e) /\ pe_headers e = i_headers it.
Proof.
  intros x r ts items es now e F Hts Hin. destruct (Forall2_in_r _ _ _ _ F Hin) as [it [Hit Ha]].
  destruct Ha. subst ts. split.
  - eapply shape_of_env; eauto.
  - exists it. destruct as_env0. auto.
Qed.

End Store.

(** ** pass 4: the duplicate lookup names the first item whose id is already stored *)
Lemma find_id_id : forall l i m, find_id i l = Some m -> m_id m = i /\ In m l.
Proof.
  induction l as [|a tl IH]; intros i m H; simpl in H; try discriminate.
  destruct (N.eqb_spec (m_id a) i).
  - inversion H; subst. split; [reflexivity | left; reflexivity].
  - apply IH in H. destruct H. split; [auto | right; auto].
Qed.

Lemma memN_in : forall x l, memN x l = true <-> In x l.
Proof.
  intros. unfold memN. rewrite existsb_exists. split.
  - intros [y [Hy Hb]]. apply N.eqb_eq in Hb. subst. auto.
  - intros H. exists x. split; auto. apply N.eqb_refl.
Qed.

Lemma norm_ids_plain_in : forall ids seen i,
  In i (norm_ids (map RPlain ids) seen) <-> In i ids /\ ~ In i seen.
Proof.
  induction ids as [|a tl IH]; intros seen i; simpl.
  - tauto.
  - destruct (memN a seen) eqn:E.
    + rewrite IH. apply memN_in in E. split.
      * intros [H1 H2]. auto.
      * intros [[H1 | H1] H2]; [subst; contradiction | auto].
    + assert (~ In a seen) by (intros Hc; apply memN_in in Hc; congruence).
      simpl. rewrite IH. simpl. split.
      * intros [H1 | [H1 H2]]; [subst; auto | split; auto].
      * intros [[H1 | H1] H2]; [auto|].
        destruct (N.eq_dec a i); [auto|]. right. split; auto. intros [Hc | Hc]; auto.
Qed.

Lemma lookup_ids_in : forall ids s i,
  In i (lookup_ids ids s) <-> In i ids /\ has_id i (msgs s) = true.
Proof.
  intros ids s i. unfold lookup_ids, step_lookup. cbn [snd].
  rewrite in_map_iff. split.
  - intros [t [Ht Hin]]. apply in_flat_map in Hin. destruct Hin as [j [Hj Hin]].
    apply norm_ids_plain_in in Hj. destruct Hj as [Hj _].
    destruct (find_id j (msgs s)) as [m|] eqn:E; [|contradiction].
    destruct Hin as [Hin | []]. subst t. simpl in Ht.
    pose proof (find_id_id _ _ _ E) as [E1 _].
    assert (Hij : j = i) by congruence. rewrite Hij in *. split; auto. unfold has_id. rewrite E. reflexivity.
  - intros [Hin Hh]. unfold has_id in Hh. destruct (find_id i (msgs s)) as [m|] eqn:E; try discriminate.
    exists (m_id m, m_route m, m_st m). split.
    + simpl. apply find_id_id in E. tauto.
    + apply in_flat_map. exists i. split.
      * apply norm_ids_plain_in. split; auto.
      * rewrite E. left. reflexivity.
Qed.

Lemma last_index_of_notin : forall ids i k best, ~ In i ids -> last_index_of i ids k best = best.
Proof.
  induction ids as [|a tl IH]; intros i k best H; simpl; auto.
  destruct (N.eqb_spec i a).
  - subst. exfalso. apply H. left. reflexivity.
  - apply IH. intros Hc. apply H. right. auto.
Qed.

Lemma last_index_of_nodup : forall ids i k j, NoDup ids -> nth_error ids j = Some i ->
  last_index_of i ids k None = Some (k + j)%nat.
Proof.
  induction ids as [|a tl IH]; intros i k j Hnd Hn.
  - destruct j; discriminate.
  - inversion Hnd as [|? ? Hnot Hnd']; subst. destruct j as [|j]; simpl in *.
    + inversion Hn; subst. rewrite N.eqb_refl. rewrite last_index_of_notin by auto. f_equal. lia.
    + destruct (N.eqb_spec i a).
      * subst. exfalso. apply Hnot. eapply nth_error_In; eauto.
      * rewrite (IH i (S k) j); auto. f_equal. lia.
Qed.

Definition min_step (ids : list N) (best : option nat) (i : N) : option nat :=
  match last_index_of i ids 0 None with
  | Some k => match best with
              | Some b => if Nat.ltb k b then Some k else best
              | None => Some k
              end
  | None => best
  end.

Lemma fold_min_spec : forall ids, NoDup ids -> forall L best,
  (forall i, In i L -> In i ids) ->
  (match best with Some b => exists i, nth_error ids b = Some i | None => True end) ->
  match fold_left (min_step ids) L best with
  | Some r => (best = Some r \/ exists i, In i L /\ nth_error ids r = Some i) /\
              (forall b, best = Some b -> (r <= b)%nat) /\
              (forall i j, In i L -> nth_error ids j = Some i -> (r <= j)%nat)
  | None => best = None /\ L = []
  end.
Proof.
  intros ids Hnd. induction L as [|a tl IH]; intros best Hsub Hb; simpl.
  - destruct best; repeat split; auto; intros; try contradiction. inversion H; lia.
  - assert (Ha : In a ids) by (apply Hsub; left; reflexivity).
    apply In_nth_error in Ha. destruct Ha as [ja Hja].
    assert (Hstep : min_step ids best a =
                    Some (match best with Some b => if Nat.ltb ja b then ja else b | None => ja end)).
    { unfold min_step. rewrite (last_index_of_nodup ids a 0 ja Hnd Hja). simpl.
      destruct best; auto. destruct (Nat.ltb ja n); auto. }
    rewrite Hstep.
    set (b1 := match best with Some b => if Nat.ltb ja b then ja else b | None => ja end) in *.
    assert (Hb1 : exists i, nth_error ids b1 = Some i).
    { subst b1. destruct best as [b|]; eauto. destruct (Nat.ltb ja b); eauto. }
    specialize (IH (Some b1) (fun i H => Hsub i (or_intror H)) Hb1).
    destruct (fold_left (min_step ids) tl (Some b1)) as [r|].
    + destruct IH as [Hwho [Hle Hmin]]. specialize (Hle b1 eq_refl).
      assert (Hb1a : (b1 <= ja)%nat).
      { subst b1. destruct best as [b|]; auto. destruct (Nat.ltb_spec ja b); lia. }
      split; [|split].
      * destruct Hwho as [Hw | [i [Hi Hn]]].
        -- inversion Hw; subst r. subst b1. destruct best as [b|].
           ++ destruct (Nat.ltb ja b); [right; exists a; split; [left; reflexivity | auto] | left; reflexivity].
           ++ right. exists a. split; [left; reflexivity | auto].
        -- right. exists i. split; [right; auto | auto].
      * intros b Hbb. subst best. subst b1. destruct (Nat.ltb_spec ja b); lia.
      * intros i j [Hi | Hi] Hn.
        -- subst i.
           assert (j = ja).
           { eapply NoDup_nth_error; eauto. apply nth_error_Some. congruence. congruence. }
           subst. lia.
        -- eapply Hmin; eauto.
    + destruct IH as [Hc _]. discriminate.
Qed.

Theorem first_existing_spec : forall ids s, NoDup ids ->
  match first_existing ids s with
  | Some k => exists i, nth_error ids k = Some i /\ has_id i (msgs s) = true /\
              forall k' i', (k' < k)%nat -> nth_error ids k' = Some i' -> has_id i' (msgs s) = false
  | None => forall i, In i ids -> has_id i (msgs s) = false
  end.
Proof.
  intros ids s Hnd. unfold first_existing.
  change (fun best i => match last_index_of i ids 0 None with
                        | Some k => match best with
                                    | Some b => if Nat.ltb k b then Some k else best
                                    | None => Some k
                                    end
                        | None => best
                        end) with (min_step ids).
  pose proof (fold_min_spec ids Hnd (lookup_ids ids s) None
                (fun i H => proj1 (proj1 (lookup_ids_in ids s i) H)) I) as H.
  destruct (fold_left (min_step ids) (lookup_ids ids s) None) as [r|].
  - destruct H as [[Hw | [i [Hi Hn]]] [_ Hmin]]; try discriminate.
    exists i. apply lookup_ids_in in Hi. destruct Hi as [Hi Hh]. repeat split; auto.
    intros k' i' Hlt Hn'. destruct (has_id i' (msgs s)) eqn:E; auto.
    assert (In i' (lookup_ids ids s)).
    { apply lookup_ids_in. split; auto. eapply nth_error_In; eauto. }
    specialize (Hmin i' k' H Hn'). lia.
  - destruct H as [_ Hl]. intros i Hin. destruct (has_id i (msgs s)) eqn:E; auto.
    assert (In i (lookup_ids ids s)) by (apply lookup_ids_in; auto).
    rewrite Hl in H. contradiction.
Qed.

Lemma NoDup_snocN : forall (l : list N) k, NoDup l -> ~ In k l -> NoDup (l ++ [k]).
Proof.
  induction l as [|a l IH]; intros k Hnd Hn; simpl.
  - constructor; auto; constructor.
  - inversion Hnd; subst. constructor.
    + intros Hin. apply in_app_or in Hin. destruct Hin as [Hin | [Hin | []]]; auto.
      subst. apply Hn. left. reflexivity.
    + apply IH; auto. intros Hin. apply Hn. right. auto.
Qed.

(** ids of a batch that passed pass 1 are pairwise distinct *)
Lemma seen_after_in : forall items seen i,
  In i (seen_after items seen) <-> In i (item_ids items) \/ In i seen.
Proof.
  induction items as [|it tl IH]; intros seen i; simpl.
  - unfold seen_after. simpl. tauto.
  - unfold seen_after in *. simpl. destruct (trimmed_id (i_id it)) as [id|]; simpl.
    + rewrite IH. simpl. tauto.
    + apply IH.
Qed.

Lemma parse_ok_nodup : forall req items, parse_ok_all req items -> NoDup (item_ids items).
Proof.
  intros req items. induction items as [|it tl IH] using rev_ind; intros H.
  - constructor.
  - assert (Htl : parse_ok_all req tl).
    { intros k x Hn. assert (k < length tl)%nat by (apply nth_error_Some; congruence).
      specialize (H k x). rewrite nth_error_app1 in H by auto.
      rewrite firstn_app in H. replace (k - length tl)%nat with 0%nat in H by lia.
      simpl in H. rewrite app_nil_r in H. auto. }
    specialize (IH Htl).
    specialize (H (length tl) it).
    rewrite nth_error_app2 in H by lia. rewrite Nat.sub_diag in H. specialize (H eq_refl).
    rewrite firstn_app in H. rewrite Nat.sub_diag in H. rewrite firstn_all in H. simpl in H. rewrite app_nil_r in H.
    unfold item_ids. rewrite flat_map_app. simpl.
    unfold parse_item_bad in H. destruct (trimmed_id (i_id it)) as [id|]; try discriminate.
    rewrite app_nil_r.
    assert (Hm : memN id (seen_after tl []) = false).
    { destruct (memN id (seen_after tl [])); auto. rewrite !orb_true_r in H. discriminate. }
    apply NoDup_snocN; auto.
    intros Hc. assert (Hin : In id (seen_after tl [])) by (apply seen_after_in; auto).
    apply memN_in in Hin. congruence.
Qed.

Section Dup.
Variable hb : bytes -> N.
Variable hh : smap -> N.

(** 409 duplicate_id with an item index (from the handler's own lookup): the named item's id
    is stored already and no earlier item's id is. *)
Theorem duplicate_first_offender : forall batching fl c now o es s s' k,
  NoDup (map pe_id es) ->
  finish hb hh batching fl c now o (Accept es) s = (s', RFail 409 CDuplicateId (Z.of_nat k)) ->
  first_existing (map pe_id es) s = Some k \/
  (batching = false /\ first_existing (map pe_id es) s = None).
Proof.
  intros batching fl c now o es s s' k Hnd H. unfold finish in H.
  destruct batching.
  - unfold commit_batch in H. destruct (first_existing (map pe_id es) s) as [k0|].
    + inversion H. left. f_equal. unfold zidx in *. lia.
    + exfalso. destruct (step_enqueue fl c now false (map (to_enq hb hh) es) o s) as [s2 r2].
      destruct r2; try (inversion H; fail).
      destruct e; simpl in H; inversion H; lia.
  - unfold commit_each in H. destruct (first_existing (map pe_id es) s) as [k0|].
    + inversion H. left. f_equal. unfold zidx in *. lia.
    + right. auto.
Qed.

End Dup.

(** ** the handler's fallback for a store without BatchEnqueuer is not all-or-nothing *)
Definition w_route : route := mkRoute 1%N [9%N] true true true true 0 0 None.
Definition w_ctx : ctx := mkCtx true true true true true false false [] [] 0 0 [w_route].
Definition w_cfg : cfg := mkCfg 1 false 0 0 0 0 0 0.
Definition w_audit : audit := mkAudit [114%N] [] [].
Definition w_item (i : N) : item := mkItem (RPlain i) (RSPath 1%N) None LBlank LBlank TAbsent TAbsent [] [] 0%N.
Definition w_orc : oracle := mkOracle [] [] [] [].

Theorem fallback_not_atomic_refuted :
  exists fl c now o x a items s',
    publish_global hash_bytes hash_smap false fl c now o x a true items init = (s', RFail 503 CQueueFull 1)
    /\ msgs s' <> msgs init
    /\ prune_due c now (last_prune init) = false
    /\ publish_global hash_bytes hash_smap true fl c now o x a true items init = (init, RFail 503 CQueueFull (-1)).
Proof.
  exists Sql, w_cfg, 5, w_orc, w_ctx, w_audit, [w_item 1%N; w_item 2%N].
  eexists. split; [vm_compute; reflexivity|]. split; [discriminate|]. split; vm_compute; reflexivity.
Qed.

(** ** non-vacuity: an accepted batch, a batch refused at each pass *)
Example ex_accept :
  exists s', publish_global hash_bytes hash_smap true Mem (mkCfg 10 false 0 0 0 0 0 0) 5 w_orc w_ctx w_audit true
                            [w_item 1%N; w_item 2%N; w_item 3%N] init = (s', ROk 3) /\ length (msgs s') = 3%nat.
Proof. eexists. split; vm_compute; reflexivity. Qed.

Example ex_reject_parse :
  preflight_global w_ctx w_audit true [w_item 1%N; w_item 2%N; w_item 1%N] = Reject 400 CInvalidBody 2.
Proof. vm_compute. reflexivity. Qed.

Example ex_reject_selector :
  preflight_global w_ctx w_audit true
    [w_item 1%N; mkItem (RPlain 2%N) (RSPath 1%N) None (LValid 1%N) (LValid 1%N) TAbsent TAbsent [] [] 0%N]
  = Reject 400 CScopedRequired 1.
Proof. vm_compute. reflexivity. Qed.

Example ex_reject_semantic :
  preflight_global w_ctx w_audit true
    [w_item 1%N; mkItem (RPlain 2%N) (RSPath 1%N) None LBlank LBlank TAbsent TAbsent [65%N; 65%N; 65%N] [] 0%N]
  = Reject 400 CInvalidPayload 1.
Proof. vm_compute. reflexivity. Qed.

Example ex_reject_existing :
  exists s1, publish_global hash_bytes hash_smap true Sql (mkCfg 10 false 0 0 0 0 0 0) 5 w_orc w_ctx w_audit true [w_item 2%N] init = (s1, ROk 1)
  /\ publish_global hash_bytes hash_smap true Sql (mkCfg 10 false 0 0 0 0 0 0) 6 w_orc w_ctx w_audit true
                    [w_item 1%N; w_item 2%N; w_item 3%N] s1 = (s1, RFail 409 CDuplicateId 1).
Proof. eexists. split; vm_compute; reflexivity. Qed.
