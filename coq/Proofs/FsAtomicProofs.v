(** Soundness of the atomic-replace checker of Model/FsAtomic.v: a trace accepted by
    [replace_ok] leaves, at EVERY crash point and for EVERY persistence choice of the adversary,
    the complete old or the complete new content under P. *)
From Coq Require Import List Bool Arith NArith Lia.
From HK Require Import Model.FsAtomic.
Import ListNotations.

(** * Equality tests *)
Lemma path_eqb_eq a b : path_eqb a b = true <-> a = b.
Proof.
  destruct a as [d1 n1], b as [d2 n2]. unfold path_eqb; simpl.
  rewrite andb_true_iff, !N.eqb_eq. split; [intros [H1 H2]; subst; reflexivity|].
  intros H; inversion H; auto.
Qed.

Lemma path_eqb_refl a : path_eqb a a = true.
Proof. apply path_eqb_eq. reflexivity. Qed.

Lemma path_eqb_neq a b : path_eqb a b = false <-> a <> b.
Proof.
  split.
  - intros H E. apply path_eqb_eq in E. congruence.
  - intros H. destruct (path_eqb a b) eqn:E; [|reflexivity]. apply path_eqb_eq in E. contradiction.
Qed.

Lemma path_eqb_sym a b : path_eqb a b = path_eqb b a.
Proof.
  destruct (path_eqb a b) eqn:E; symmetry.
  - apply path_eqb_eq in E. subst. apply path_eqb_refl.
  - apply path_eqb_neq. apply path_eqb_neq in E. auto.
Qed.

Lemma bytes_eqb_eq a : forall b, bytes_eqb a b = true <-> a = b.
Proof.
  induction a as [|x a IH]; destruct b as [|y b]; simpl; split; intros H; try reflexivity; try discriminate.
  - apply andb_true_iff in H. destruct H as [H1 H2]. apply N.eqb_eq in H1. apply IH in H2. subst. reflexivity.
  - inversion H; subst. rewrite N.eqb_refl. simpl. apply IH. reflexivity.
Qed.

(** * Name space *)
Lemma lookup_remove p q ns :
  lookup p (remove q ns) = if path_eqb p q then None else lookup p ns.
Proof.
  induction ns as [|[r i] tl IH]; simpl.
  - destruct (path_eqb p q); reflexivity.
  - destruct (path_eqb q r) eqn:Eqr.
    + apply path_eqb_eq in Eqr. subst r. rewrite IH. destruct (path_eqb p q); reflexivity.
    + simpl. rewrite IH. destruct (path_eqb p r) eqn:Epr; [|reflexivity].
      apply path_eqb_eq in Epr. subst r.
      rewrite path_eqb_sym in Eqr. rewrite Eqr. reflexivity.
Qed.

Lemma lookup_link p q i ns :
  lookup p (apply_ns ns (NLink q i)) = if path_eqb p q then Some i else lookup p ns.
Proof. simpl. destruct (path_eqb p q) eqn:E; [reflexivity|]. rewrite lookup_remove, E. reflexivity. Qed.

Lemma lookup_unlink p q ns :
  lookup p (apply_ns ns (NUnlink q)) = if path_eqb p q then None else lookup p ns.
Proof. simpl. apply lookup_remove. Qed.

Lemma lookup_rename p a b ns :
  lookup p (apply_ns ns (NRename a b)) =
  match lookup a ns with
  | Some i => if path_eqb p b then Some i else if path_eqb p a then None else lookup p ns
  | None => lookup p ns
  end.
Proof.
  simpl. destruct (lookup a ns) as [i|]; [|reflexivity]. simpl.
  destruct (path_eqb p b) eqn:E; [reflexivity|]. rewrite !lookup_remove, E. reflexivity.
Qed.

(** * Data *)
Lemma crash_data_clean b n m : crash_data (mkIst b []) n m = b.
Proof. unfold crash_data; simpl. destruct n; reflexivity. Qed.

Lemma vol_data_app st ops : fold_left apply_dop (i_pend st ++ ops) (i_dur st) = fold_left apply_dop ops (vol_data st).
Proof. unfold vol_data. apply fold_left_app. Qed.

Lemma upd_inode_same m i v : upd_inode m i v i = v.
Proof. unfold upd_inode. rewrite Nat.eqb_refl. reflexivity. Qed.

Lemma upd_inode_other m i v j : j <> i -> upd_inode m i v j = m j.
Proof. unfold upd_inode. intros H. apply Nat.eqb_neq in H. rewrite H. reflexivity. Qed.

Lemma upd_fd_same m f v : upd_fd m f v f = v.
Proof. unfold upd_fd. rewrite N.eqb_refl. reflexivity. Qed.

(** * The invariant tying the checker's state to the file-system state *)
Definition old_ok (s : fs) (P : path) (old : option bytes) : Prop :=
  match old with
  | Some b => exists i, lookup P (ns_dur s) = Some i /\ inodes s i = mkIst b []
  | None => lookup P (ns_dur s) = None
  end.

Definition bound (s : fs) (n : nat) : Prop := forall p i, lookup p (ns_dur s) = Some i -> i < n.

Inductive Inv (P : path) (NEW : bytes) (old : option bytes) : ck -> fs -> Prop :=
| IStart s : init_ok s P old -> Inv P NEW old KStart s
| ITmp s f t acc synced closed it :
    ns_pend s = [NLink t it] -> path_eqb t P = false -> bound s it -> it < fresh s ->
    old_ok s P old ->
    (closed = false -> fdt s f = Some (TFile it)) ->
    vol_data (inodes s it) = acc ->
    (synced = true -> i_pend (inodes s it) = []) ->
    Inv P NEW old (KTmp f t acc synced closed) s
| IRenamed s f closed t it :
    ns_pend s = [NLink t it; NRename t P] -> path_eqb t P = false -> bound s it -> it < fresh s ->
    old_ok s P old -> inodes s it = mkIst NEW [] ->
    Inv P NEW old (KRenamed f closed) s
| IDirOpen s g t it d :
    ns_pend s = [NLink t it; NRename t P] -> path_eqb t P = false -> bound s it -> it < fresh s ->
    old_ok s P old -> inodes s it = mkIst NEW [] -> fdt s g = Some (TDir d) ->
    Inv P NEW old (KDirOpen g) s
| ISynced s g it :
    ns_pend s = [] -> lookup P (ns_dur s) = Some it -> inodes s it = mkIst NEW [] -> bound s (fresh s) ->
    Inv P NEW old (KDirSynced g) s
| IDone s it :
    ns_pend s = [] -> lookup P (ns_dur s) = Some it -> inodes s it = mkIst NEW [] -> bound s (fresh s) ->
    Inv P NEW old KDone s.

Lemma old_ok_frame s s' P old n :
  ns_dur s' = ns_dur s -> bound s n -> (forall i, i < n -> inodes s' i = inodes s i) ->
  old_ok s P old -> old_ok s' P old.
Proof.
  intros Hns Hb Hi Ho. unfold old_ok in *. rewrite Hns. destruct old as [b|]; [|exact Ho].
  destruct Ho as [i [Hl Hin]]. exists i. split; [exact Hl|]. rewrite Hi; [exact Hin|]. apply (Hb P). exact Hl.
Qed.

Lemma init_old_ok s P old : init_ok s P old -> old_ok s P old.
Proof. intros [_ [_ H]]. exact H. Qed.

Ltac frame_tac :=
  match goal with
  | |- old_ok _ _ _ =>
      eapply old_ok_frame; [ | eassumption | | eassumption ]; simpl; auto;
      intros; apply upd_inode_other; lia
  end.

Lemma step_inv P NEW old c s op c' :
  Inv P NEW old c s -> check_step P NEW c op = Some c' -> Inv P NEW old c' (step s op).
Proof.
  intros HI Hc.
  destruct HI as [s Hinit
                 | s f t acc synced closed it Hp Ht Hb Hf Ho Hfd Hv Hs
                 | s f closed t it Hp Ht Hb Hf Ho Hi
                 | s g t it d Hp Ht Hb Hf Ho Hi Hfd
                 | s g it Hp Hl Hi Hb
                 | s it Hp Hl Hi Hb].
  - (* KStart *)
    destruct op; simpl in Hc; try discriminate.
    destruct (N.eqb (p_dir p) (p_dir P) && negb (path_eqb p P)) eqn:G; [|discriminate].
    inversion Hc; subst; clear Hc. apply andb_true_iff in G. destruct G as [_ G].
    apply negb_true_iff in G.
    destruct Hinit as [Hp [Hb Ho]].
    apply (ITmp P NEW old _ f p [] false false (fresh s)); simpl.
    + rewrite Hp. reflexivity.
    + exact G.
    + exact Hb.
    + lia.
    + fold (bound s (fresh s)) in Hb. frame_tac.
    + intros _. apply upd_fd_same.
    + rewrite upd_inode_same. reflexivity.
    + discriminate.
  - (* KTmp *)
    destruct op; simpl in Hc; try (destruct closed; discriminate).
    + (* Write *)
      destruct closed; [discriminate|]. destruct (N.eqb f0 f) eqn:E; [|discriminate].
      apply N.eqb_eq in E. subst f0. inversion Hc; subst; clear Hc.
      simpl. rewrite (Hfd eq_refl).
      apply (ITmp P NEW old _ f t _ false false it); simpl; auto;
        try frame_tac; try (intros; discriminate).
      rewrite upd_inode_same. unfold vol_data at 1. simpl. rewrite vol_data_app. reflexivity.
    + (* Fsync *)
      destruct closed; [discriminate|]. destruct (N.eqb f0 f) eqn:E; [|discriminate].
      apply N.eqb_eq in E. subst f0. inversion Hc; subst; clear Hc.
      simpl. rewrite (Hfd eq_refl).
      apply (ITmp P NEW old _ f t _ true false it); simpl; auto;
        try frame_tac; try (intros; rewrite upd_inode_same; reflexivity).
    + (* Close *)
      destruct closed; [discriminate|]. destruct (N.eqb f0 f) eqn:E; [|discriminate].
      inversion Hc; subst; clear Hc.
      apply (ITmp P NEW old _ f t _ synced true it); simpl; auto;
        try frame_tac; try (intros; discriminate).
    + (* Chmod *)
      destruct closed; [discriminate|]. destruct (N.eqb f0 f) eqn:E; [|discriminate].
      inversion Hc; subst; clear Hc. simpl.
      apply (ITmp P NEW old _ f t _ synced false it); auto.
    + (* Rename *)
      destruct (path_eqb p t && path_eqb q P && synced && bytes_eqb acc NEW) eqn:G;
        [|destruct closed; discriminate].
      assert (Hc' : c' = KRenamed f closed) by (destruct closed; inversion Hc; reflexivity).
      subst c'. clear Hc.
      apply andb_true_iff in G. destruct G as [G G4].
      apply andb_true_iff in G. destruct G as [G G3].
      apply andb_true_iff in G. destruct G as [G1 G2].
      apply path_eqb_eq in G1. apply path_eqb_eq in G2. apply bytes_eqb_eq in G4. subst p q synced.
      apply (IRenamed P NEW old _ f closed t it); simpl; auto;
        try frame_tac; try (rewrite Hp; reflexivity).
      specialize (Hs eq_refl). destruct (inodes s it) as [d pe] eqn:Ei. simpl in Hs. subst pe.
        unfold vol_data in Hv. simpl in Hv. subst d. rewrite G4. reflexivity.
  - (* KRenamed *)
    destruct op; simpl in Hc; try (destruct closed; discriminate).
    + (* OpenDir *)
      destruct closed; [|discriminate]. destruct (N.eqb d (p_dir P)); [|discriminate].
      inversion Hc; subst; clear Hc.
      apply (IDirOpen P NEW old _ f0 t it d); simpl; auto;
        try frame_tac; try apply upd_fd_same.
    + (* Close *)
      destruct closed; [discriminate|]. destruct (N.eqb f0 f); [|discriminate].
      inversion Hc; subst; clear Hc.
      apply (IRenamed P NEW old _ f true t it); simpl; auto; try frame_tac.
  - (* KDirOpen *)
    destruct op; simpl in Hc; try discriminate.
    destruct (N.eqb f g) eqn:E; [|discriminate]. apply N.eqb_eq in E. subst f.
    inversion Hc; subst; clear Hc. simpl. rewrite Hfd.
    assert (Hlk : forall p, lookup p (ns_vol s) =
                           if path_eqb p P then Some it else if path_eqb p t then None else
                           lookup p (ns_dur s)).
    { intros p. unfold ns_vol. rewrite Hp. cbn [fold_left].
      rewrite lookup_rename. rewrite lookup_link, path_eqb_refl.
      destruct (path_eqb p P); [reflexivity|]. destruct (path_eqb p t) eqn:E2; [reflexivity|].
      rewrite lookup_link, E2. reflexivity. }
    apply (ISynced P NEW old _ g it); simpl; auto.
    + rewrite Hlk, path_eqb_refl. reflexivity.
    + intros p i. simpl. rewrite Hlk. destruct (path_eqb p P); [intros Hx; inversion Hx; subst; exact Hf|].
      destruct (path_eqb p t); [discriminate|]. intros Hx. apply Hb in Hx. lia.
  - (* KDirSynced *)
    destruct op; simpl in Hc; try discriminate.
    destruct (N.eqb f g); [|discriminate]. inversion Hc; subst; clear Hc.
    apply (IDone P NEW old _ it); simpl; auto.
  - (* KDone *)
    destruct op; simpl in Hc; discriminate.
Qed.

Lemma run_inv P NEW old : forall tr c s c',
  Inv P NEW old c s -> check_run P NEW c tr = Some c' -> Inv P NEW old c' (run s tr).
Proof.
  induction tr as [|op tl IH]; intros c s c' HI Hc; simpl in *.
  - inversion Hc; subst. exact HI.
  - destruct (check_step P NEW c op) as [c1|] eqn:E; [|discriminate].
    apply (IH c1 (step s op) c'); [|exact Hc]. apply (step_inv P NEW old c s op c1); assumption.
Qed.

Lemma check_run_prefix P NEW : forall tr c c' n,
  check_run P NEW c tr = Some c' -> exists c'', check_run P NEW c (firstn n tr) = Some c''.
Proof.
  induction tr as [|op tl IH]; intros c c' n H.
  - rewrite firstn_nil. exists c. reflexivity.
  - destruct n as [|n]; [exists c; reflexivity|]. simpl in *.
    destruct (check_step P NEW c op) as [c1|]; [|discriminate]. apply (IH c1 c' n H).
Qed.

(** * What a crash can leave, in every state the invariant describes *)
Definition read_at (s : fs) (ns : list (path * inode)) (ch : inode -> nat * nat) (p : path) : option bytes :=
  match lookup p ns with
  | None => None
  | Some i => Some (crash_data (inodes s i) (fst (ch i)) (snd (ch i)))
  end.

Lemma read_at_old s ns ch P old :
  old_ok s P old -> lookup P ns = lookup P (ns_dur s) -> read_at s ns ch P = old.
Proof.
  unfold old_ok, read_at. intros Ho Hl. rewrite Hl. destruct old as [b|].
  - destruct Ho as [i [Hi Hin]]. rewrite Hi, Hin, crash_data_clean. reflexivity.
  - rewrite Ho. reflexivity.
Qed.

Lemma read_at_new s ns ch P NEW it :
  lookup P ns = Some it -> inodes s it = mkIst NEW [] -> read_at s ns ch P = Some NEW.
Proof. unfold read_at. intros Hl Hi. rewrite Hl, Hi, crash_data_clean. reflexivity. Qed.

Lemma inv_crash P NEW old c s :
  Inv P NEW old c s -> forall k ch, crash_read s k ch P = old \/ crash_read s k ch P = Some NEW.
Proof.
  intros HI k ch. change (crash_read s k ch P) with (read_at s (crash_ns s k) ch P).
  assert (PP : path_eqb P P = true) by apply path_eqb_refl.
  destruct HI.
  - left. destruct H as [Hp [_ Ho]]. apply read_at_old; [exact Ho|].
    unfold crash_ns. rewrite Hp, firstn_nil. reflexivity.
  - left. apply read_at_old; [assumption|]. unfold crash_ns. rewrite H.
    rewrite path_eqb_sym in H0.
    destruct k as [|k]; [reflexivity|]. cbn [firstn fold_left]. rewrite firstn_nil. cbn [fold_left].
    rewrite lookup_link, H0. reflexivity.
  - unfold crash_ns. rewrite H. pose proof H0 as H0'. rewrite path_eqb_sym in H0'.
    destruct k as [|[|k]].
    + left. apply read_at_old; [assumption|reflexivity].
    + left. apply read_at_old; [assumption|]. cbn [firstn fold_left]. rewrite lookup_link, H0'. reflexivity.
    + right. apply (read_at_new _ _ _ _ _ it); [|assumption].
      cbn [firstn fold_left]. rewrite firstn_nil. cbn [fold_left].
      rewrite lookup_rename, lookup_link, path_eqb_refl, PP. reflexivity.
  - unfold crash_ns. rewrite H. pose proof H0 as H0'. rewrite path_eqb_sym in H0'.
    destruct k as [|[|k]].
    + left. apply read_at_old; [assumption|reflexivity].
    + left. apply read_at_old; [assumption|]. cbn [firstn fold_left]. rewrite lookup_link, H0'. reflexivity.
    + right. apply (read_at_new _ _ _ _ _ it); [|assumption].
      cbn [firstn fold_left]. rewrite firstn_nil. cbn [fold_left].
      rewrite lookup_rename, lookup_link, path_eqb_refl, PP. reflexivity.
  - right. apply (read_at_new _ _ _ _ _ it); [|assumption].
    unfold crash_ns. rewrite H, firstn_nil. exact H0.
  - right. apply (read_at_new _ _ _ _ _ it); [|assumption].
    unfold crash_ns. rewrite H, firstn_nil. exact H0.
Qed.

(** * Main theorems *)
Lemma replace_ok_check P NEW tr : replace_ok P NEW tr = true -> check_run P NEW KStart tr = Some KDone.
Proof.
  unfold replace_ok. destruct (check_run P NEW KStart tr) as [c|]; [|discriminate].
  destruct c; try discriminate. reflexivity.
Qed.

Theorem replace_ok_sound : forall P NEW old tr s0,
  init_ok s0 P old -> replace_ok P NEW tr = true ->
  forall n k ch,
    crash_read (run s0 (firstn n tr)) k ch P = old \/
    crash_read (run s0 (firstn n tr)) k ch P = Some NEW.
Proof.
  intros P NEW old tr s0 Hi Hok n k ch. apply replace_ok_check in Hok.
  destruct (check_run_prefix P NEW tr KStart KDone n Hok) as [c Hc].
  apply (inv_crash P NEW old c). apply (run_inv P NEW old (firstn n tr) KStart s0 c); [|exact Hc].
  constructor. exact Hi.
Qed.

Lemma inv_done P NEW old s : Inv P NEW old KDone s -> init_ok s P (Some NEW).
Proof.
  intros H. inversion H; subst. unfold init_ok. repeat split; auto. exists it. auto.
Qed.

(** After the call has returned the new content is durable, and the state is again a legal start
    state (so replacements compose: apply, then roll back, then apply again ...). *)
Theorem replace_ok_durable : forall P NEW old tr s0,
  init_ok s0 P old -> replace_ok P NEW tr = true ->
  init_ok (run s0 tr) P (Some NEW) /\
  forall k ch, crash_read (run s0 tr) k ch P = Some NEW.
Proof.
  intros P NEW old tr s0 Hi Hok. apply replace_ok_check in Hok.
  assert (HI : Inv P NEW old KDone (run s0 tr)).
  { apply (run_inv P NEW old tr KStart s0 KDone); [constructor; exact Hi|exact Hok]. }
  split; [apply (inv_done P NEW old); exact HI|].
  intros k ch. inversion HI; subst.
  change (read_at (run s0 tr) (crash_ns (run s0 tr) k) ch P = Some NEW).
  apply (read_at_new _ _ _ _ _ it); [|assumption]. unfold crash_ns. rewrite H, firstn_nil. assumption.
Qed.

(** A concurrent reader (the --watch reload, another mutation) is a special adversary: it sees
    everything that is pending.  So it, too, reads the complete old or the complete new content. *)
Lemma read_vol_is_crash s p :
  read_vol s p = crash_read s (length (ns_pend s)) (fun i => (length (i_pend (inodes s i)), 0)) p.
Proof.
  unfold read_vol, crash_read, ns_vol, crash_ns. rewrite firstn_all.
  destruct (lookup p (fold_left apply_ns (ns_pend s) (ns_dur s))) as [i|]; [|reflexivity].
  simpl. unfold crash_data, vol_data. rewrite firstn_all.
  assert (Hn : nth_error (i_pend (inodes s i)) (length (i_pend (inodes s i))) = None)
    by (apply nth_error_None; lia).
  rewrite Hn. reflexivity.
Qed.

Theorem replace_ok_reader_atomic : forall P NEW old tr s0,
  init_ok s0 P old -> replace_ok P NEW tr = true ->
  forall n, read_vol (run s0 (firstn n tr)) P = old \/ read_vol (run s0 (firstn n tr)) P = Some NEW.
Proof.
  intros. rewrite read_vol_is_crash. apply (replace_ok_sound P NEW old tr s0); assumption.
Qed.

(** Apply followed by roll-back (mutateManagedEndpointConfig / rollbackConfigFile with existed = true):
    at every crash point of the two replacements the file holds OLD or NEW, and OLD at the end. *)
Theorem apply_then_rollback_sound : forall P OLD NEW tr1 tr2 s0,
  init_ok s0 P (Some OLD) -> replace_ok P NEW tr1 = true -> replace_ok P OLD tr2 = true ->
  (forall n k ch, crash_read (run s0 (firstn n (tr1 ++ tr2))) k ch P = Some OLD \/
                  crash_read (run s0 (firstn n (tr1 ++ tr2))) k ch P = Some NEW)
  /\ forall k ch, crash_read (run s0 (tr1 ++ tr2)) k ch P = Some OLD.
Proof.
  intros P OLD NEW tr1 tr2 s0 Hi H1 H2.
  destruct (replace_ok_durable P NEW (Some OLD) tr1 s0 Hi H1) as [Hi1 _].
  split.
  - intros n k ch. rewrite firstn_app. unfold run. rewrite fold_left_app. fold (run s0 (firstn n tr1)).
    destruct (Nat.le_gt_cases n (length tr1)) as [Hle|Hgt].
    + replace (n - length tr1) with 0 by lia. simpl.
      apply (replace_ok_sound P NEW (Some OLD) tr1 s0 Hi H1).
    + rewrite (firstn_all2 tr1) by lia.
      fold (run (run s0 tr1) (firstn (n - length tr1) tr2)).
      destruct (replace_ok_sound P OLD (Some NEW) tr2 (run s0 tr1) Hi1 H2 (n - length tr1) k ch) as [H|H];
        rewrite H; auto.
  - intros k ch. unfold run. rewrite fold_left_app. fold (run s0 tr1). fold (run (run s0 tr1) tr2).
    apply (replace_ok_durable P OLD (Some NEW) tr2 (run s0 tr1) Hi1 H2).
Qed.

(** * Non-vacuity: concrete traces *)
Definition exP : path := mkPath 1 10.          (* dir 1, name "Hookaidofile" *)
Definition exT : path := mkPath 1 11.          (* dir 1, name ".Hookaidofile.tmp-123" *)
Definition exTother : path := mkPath 2 11.     (* same name in another directory (os.TempDir) *)
Definition exOLD : bytes := [111; 108; 100]%N.
Definition exNEW : bytes := [110; 101; 119; 33]%N.
Definition exS0 : fs := mkFs [(exP, 0)] [] (fun _ => mkIst exOLD []) (fun _ => None) 1.

Lemma exS0_init : init_ok exS0 exP (Some exOLD).
Proof.
  unfold init_ok, exS0; simpl. repeat split.
  - intros p i. destruct (path_eqb p exP); [|discriminate]. intros H; inversion H; lia.
  - exists 0. split; reflexivity.
Qed.

(** the shape strace shows for writeFileAtomic *)
Definition good_trace : list fsop :=
  [Create 3 exT; Chmod 3; Write 3 exNEW; Fsync 3; Close 3; Rename exT exP; OpenDir 3 1; Fsync 3; Close 3].

Example good_trace_accepted : replace_ok exP exNEW good_trace = true.
Proof. vm_compute. reflexivity. Qed.

(** two short writes instead of one; close after the rename: still a correct replace *)
Example good_trace_variant_accepted :
  replace_ok exP exNEW [Create 5 exT; Write 5 [110; 101]%N; Write 5 [119; 33]%N; Fsync 5; Rename exT exP;
                        Close 5; OpenDir 5 1; Fsync 5; Close 5] = true.
Proof. vm_compute. reflexivity. Qed.

Definition no_fsync_trace : list fsop :=
  [Create 3 exT; Chmod 3; Write 3 exNEW; Close 3; Rename exT exP; OpenDir 3 1; Fsync 3; Close 3].
Definition other_dir_trace : list fsop :=
  [Create 3 exTother; Chmod 3; Write 3 exNEW; Fsync 3; Close 3; Rename exTother exP; OpenDir 3 1; Fsync 3; Close 3].
Definition partial_write_trace : list fsop :=
  [Create 3 exT; Write 3 [110; 101]%N; Fsync 3; Close 3; Rename exT exP; OpenDir 3 1; Fsync 3; Close 3].
Definition write_after_fsync_trace : list fsop :=
  [Create 3 exT; Write 3 [110; 101]%N; Fsync 3; Write 3 [119; 33]%N; Close 3; Rename exT exP; OpenDir 3 1; Fsync 3; Close 3].
Definition no_dir_fsync_trace : list fsop :=
  [Create 3 exT; Chmod 3; Write 3 exNEW; Fsync 3; Close 3; Rename exT exP].
Definition in_place_trace : list fsop :=
  [OpenTrunc 3 exP; Write 3 exNEW; Fsync 3; Close 3].
Definition stray_op_trace : list fsop :=
  [Create 3 exT; Write 3 exNEW; Fsync 3; Close 3; Other; Rename exT exP; OpenDir 3 1; Fsync 3; Close 3].
Definition wrong_target_trace : list fsop :=
  [Create 3 exT; Write 3 exNEW; Fsync 3; Close 3; Rename exT (mkPath 1 12); OpenDir 3 1; Fsync 3; Close 3].

Example bad_traces_rejected :
  map (replace_ok exP exNEW)
      [no_fsync_trace; other_dir_trace; partial_write_trace; write_after_fsync_trace;
       no_dir_fsync_trace; in_place_trace; stray_op_trace; wrong_target_trace; []]
  = [false; false; false; false; false; false; false; false; false].
Proof. vm_compute. reflexivity. Qed.

(** The threat is real in this semantics: the rejected traces do have bad crash states. *)
Example no_fsync_loses_data :
  crash_read (run exS0 no_fsync_trace) 2 (fun _ => (0, 0)) exP = Some []            (* empty file under P *)
  /\ crash_read (run exS0 (firstn 5 no_fsync_trace)) 2 (fun _ => (0, 2)) exP = Some [110; 101]%N.  (* torn *)
Proof. split; vm_compute; reflexivity. Qed.

Example write_after_fsync_loses_tail :
  crash_read (run exS0 write_after_fsync_trace) 2 (fun _ => (0, 0)) exP = Some [110; 101]%N.
Proof. vm_compute. reflexivity. Qed.

Example in_place_is_not_atomic :
  crash_read (run exS0 (firstn 2 in_place_trace)) 0 (fun _ => (1, 0)) exP = Some []
  /\ crash_read (run exS0 (firstn 2 in_place_trace)) 0 (fun _ => (1, 3)) exP = Some [110; 101; 119]%N.
Proof. split; vm_compute; reflexivity. Qed.

Example no_dir_fsync_not_durable :
  crash_read (run exS0 no_dir_fsync_trace) 0 (fun _ => (0, 0)) exP = Some exOLD.   (* returned, yet OLD after reboot *)
Proof. vm_compute. reflexivity. Qed.

(** and the accepted trace, at each of its 10 crash points, with a few adversaries *)
Example good_trace_all_points :
  forallb (fun n => forallb (fun k => forallb (fun m =>
     match crash_read (run exS0 (firstn n good_trace)) k (fun _ => (m, 1)) exP with
     | Some b => bytes_eqb b exOLD || bytes_eqb b exNEW
     | None => false
     end) [0; 1; 2]) [0; 1; 2; 3]) (seq 0 10) = true.
Proof. vm_compute. reflexivity. Qed.
